(* C06, ACL text front end, part 4: ANY two texts one after the other.  The items of the tree built
   from the paths of a ++ "\n" ++ b are the grouping (Model/Acl.v parse_items) of the items of a's tree
   followed by the items of b's tree: lines with the same text under the same parent are one node, the
   children are filed under it in order, rows the item reader skips (bare "!" rows, %context rows) are
   skipped with everything below them on both sides. *)
From Coq Require Import List String Ascii Bool Arith Lia.
From Annet Require Import Base.Str Base.Tree Model.Offside Spec.P_C05 Proofs.OffsideProofs.
From Annet Require Import Model.GenProg Proofs.GenProgProofs.
From Annet Require Import Model.Pattern Model.PatternT Model.Acl Model.AclText Spec.P_C06_text.
From Annet Require Import Proofs.AclMono Proofs.AclTextParse Proofs.AclTextGroup Proofs.AclTextProofs.
Import ListNotations.
Open Scope string_scope.
Open Scope list_scope.
Arguments Nat.ltb : simpl never.
Arguments Nat.leb : simpl never.

(* ---------- first_keys: algebra ---------- *)

Lemma fk_ext l : forall s1 s2,
  (forall z, existsb (String.eqb z) s1 = existsb (String.eqb z) s2) -> first_keys s1 l = first_keys s2 l.
Proof.
  induction l as [|k t IH]; intros s1 s2 H; [reflexivity|].
  cbn [first_keys]. rewrite (H k). destruct (existsb (String.eqb k) s2); [apply IH; exact H|].
  f_equal. apply IH. intros z. cbn [existsb]. rewrite (H z). reflexivity.
Qed.

Lemma existsb_app_str z (a b : list string) :
  existsb (String.eqb z) (a ++ b) = existsb (String.eqb z) a || existsb (String.eqb z) b.
Proof. apply existsb_app. Qed.

Lemma fk_app l1 : forall s l2,
  first_keys s (l1 ++ l2) = first_keys s l1 ++ first_keys (l1 ++ s) l2.
Proof.
  induction l1 as [|k t IH]; intros s l2; [reflexivity|].
  cbn [app first_keys]. destruct (existsb (String.eqb k) s) eqn:E.
  - rewrite IH. f_equal. apply fk_ext. intros z. cbn [existsb]. rewrite !existsb_app_str.
    destruct (String.eqb_spec z k) as [->|]; [rewrite E, orb_true_r; reflexivity|reflexivity].
  - cbn [app]. f_equal. rewrite IH. f_equal. apply fk_ext. intros z. cbn [existsb].
    rewrite !existsb_app_str. cbn [existsb].
    destruct (String.eqb z k), (existsb (String.eqb z) t), (existsb (String.eqb z) s); reflexivity.
Qed.

Definition notinb (s : list string) (k : string) : bool := negb (existsb (String.eqb k) s).

Lemma fk_seen l : forall s s', first_keys (s ++ s') l = filter (notinb s) (first_keys s' l).
Proof.
  induction l as [|k t IH]; intros s s'; [reflexivity|].
  cbn [first_keys]. rewrite existsb_app_str. destruct (existsb (String.eqb k) s') eqn:E'.
  - rewrite orb_true_r. apply IH.
  - rewrite orb_false_r. cbn [filter]. unfold notinb at 1. destruct (existsb (String.eqb k) s) eqn:E; cbn [negb].
    + rewrite <- IH. apply fk_ext. intros z. rewrite !existsb_app_str. cbn [existsb].
      destruct (String.eqb_spec z k) as [->|]; [rewrite E; reflexivity|reflexivity].
    + f_equal. rewrite <- IH. apply fk_ext. intros z. cbn [existsb]. rewrite !existsb_app_str. cbn [existsb].
      destruct (String.eqb z k), (existsb (String.eqb z) s), (existsb (String.eqb z) s'); reflexivity.
Qed.

Lemma fk_seen0 l s : first_keys s l = filter (notinb s) (first_keys [] l).
Proof. rewrite <- (app_nil_r s) at 1. apply fk_seen. Qed.

Lemma fk_fixed K : NoDup K -> forall s, (forall k, In k K -> ~ In k s) -> first_keys s K = K.
Proof.
  induction 1 as [|k K Hn ND IH]; intros s D; [reflexivity|].
  cbn [first_keys]. destruct (existsb (String.eqb k) s) eqn:E.
  - apply existsb_eqb_In in E. exfalso. apply (D k); [now left|exact E].
  - f_equal. apply IH. intros z Hz [<-|Hs]; [contradiction|]. apply (D z); [now right|exact Hs].
Qed.

Lemma fk_filter (P : string -> bool) l : forall s,
  first_keys s (filter P l) = filter P (first_keys s l).
Proof.
  induction l as [|k t IH]; intros s; [reflexivity|].
  cbn [filter first_keys]. destruct (P k) eqn:Pk.
  - cbn [first_keys]. destruct (existsb (String.eqb k) s); [apply IH|]. cbn [filter]. rewrite Pk. f_equal. apply IH.
  - destruct (existsb (String.eqb k) s); [apply IH|]. cbn [filter]. rewrite Pk. rewrite <- IH.
    rewrite (fk_seen0 _ (k :: s)), (fk_seen0 _ s). apply filter_ext_in. intros z Hz.
    apply first_keys_in in Hz as [Hz _]. apply filter_In in Hz as [_ Pz].
    unfold notinb. cbn [existsb]. destruct (String.eqb_spec z k) as [->|]; [congruence|reflexivity].
Qed.

Lemma filter_notinb_ext (s1 s2 l : list string) :
  (forall z, existsb (String.eqb z) s1 = existsb (String.eqb z) s2) -> filter (notinb s1) l = filter (notinb s2) l.
Proof. intros H. apply filter_ext. intros z. unfold notinb. rewrite H. reflexivity. Qed.

(* the keys of two runs of lines, one after the other *)
Lemma fk_concat l1 l2 :
  first_keys [] (first_keys [] l1 ++ first_keys [] l2) = first_keys [] (l1 ++ l2).
Proof.
  rewrite !fk_app, !app_nil_r.
  rewrite (fk_fixed (first_keys [] l1)) by (try apply first_keys_nodup; intros k _ []).
  f_equal. rewrite (fk_seen0 (first_keys [] l2) (first_keys [] l1)), (fk_seen0 l2 l1).
  rewrite (fk_fixed (first_keys [] l2)) by (try apply first_keys_nodup; intros k _ []).
  apply filter_notinb_ext. intros z. apply existsb_eqb_first_keys.
Qed.

(* ---------- one level of the item reader, abstract in what is read below a row ---------- *)

Section Level.
  Variable X : string -> terr + list aitem.

  Fixpoint goF (ks : list string) : terr + list aitem :=
    match ks with
    | [] => inr []
    | k :: ks' =>
      match parse_line k with
      | LErr e => inl e
      | LSkip => goF ks'
      | LItem row ign glob cd prio gens =>
        match X k with
        | inl e => inl e
        | inr kids =>
          match goF ks' with
          | inl e => inl e
          | inr r => inr (AItem k row ign glob cd prio gens kids :: r)
          end
        end
      end
    end.

  Definition okkb (k : string) : bool :=
    match parse_line k with
    | LErr _ => false
    | LSkip => true
    | LItem _ _ _ _ _ _ => match X k with inr _ => true | inl _ => false end
    end.

  Definition sel (k : string) : list aitem :=
    match parse_line k with
    | LItem row ign glob cd prio gens =>
      match X k with inr kids => [AItem k row ign glob cd prio gens kids] | inl _ => [] end
    | _ => []
    end.

  Lemma goF_spec ks : forall r, goF ks = inr r <-> forallb okkb ks = true /\ r = flat_map sel ks.
  Proof.
    induction ks as [|k ks IH]; intros r.
    - cbn. split; [intros H; injection H as <-; auto | intros [_ ->]; reflexivity].
    - cbn [goF forallb flat_map]. unfold okkb at 1, sel at 1.
      destruct (parse_line k) as [e| |row ign glob cd prio gens].
      + cbn. split; [discriminate | intros [H _]; discriminate].
      + cbn [andb app]. apply IH.
      + destruct (X k) as [e|kids].
        * cbn. split; [discriminate | intros [H _]; discriminate].
        * cbn [andb app]. destruct (goF ks) as [e|r'] eqn:G.
          -- split; [discriminate|]. intros [H _]. pose proof (proj2 (IH (flat_map sel ks)) (conj H eq_refl)) as C. discriminate C.
          -- destruct (proj1 (IH r') eq_refl) as [H1 H2]. split.
             ++ intros H. injection H as <-. split; [exact H1|]. rewrite H2. reflexivity.
             ++ intros [_ ->]. rewrite H2. reflexivity.
  Qed.
End Level.

Lemma goF_ext X Y ks : (forall k, In k ks -> X k = Y k) -> goF X ks = goF Y ks.
Proof.
  induction ks as [|k ks IH]; intros H; [reflexivity|].
  cbn [goF]. rewrite (H k (or_introl eq_refl)), IH by (intros z Hz; apply H; now right). reflexivity.
Qed.

Lemma items_of_forest_map (F : string -> forest) ks :
  items_of_forest (map (fun k => (k, T (F k))) ks) = goF (fun k => items_of_forest (F k)) ks.
Proof.
  induction ks as [|k ks IH]; [reflexivity|].
  cbn [map]. rewrite items_of_forest_cons. cbn [kids goF]. rewrite IH. reflexivity.
Qed.

(* ---------- the items of the tree of a list of paths ---------- *)

Fixpoint pitems (n : nat) (ps : list (list string)) : terr + list aitem :=
  match n with
  | O => inr []
  | S n' => goF (fun k => pitems n' (tails k ps)) (first_keys [] (heads ps))
  end.

Lemma pitems_nil n : pitems n [] = inr [].
Proof. destruct n; reflexivity. Qed.

Lemma tails_in k q ps : In q (tails k ps) -> In (k :: q) ps.
Proof.
  unfold tails. rewrite in_flat_map. intros (p & Hp & Hq). destruct p as [|k' t]; [destruct Hq|].
  destruct (String.eqb_spec k' k) as [->|]; [|destruct Hq]. destruct Hq as [<-|[]]. exact Hp.
Qed.

Lemma heads_short ps : (forall p, In p ps -> List.length p <= 0) -> heads ps = [].
Proof.
  induction ps as [|p ps IH]; intros H; [reflexivity|].
  unfold heads. cbn [flat_map]. fold (heads ps). rewrite IH by (intros q Hq; apply H; now right).
  specialize (H p (or_introl eq_refl)). destruct p; [reflexivity|cbn in H; lia].
Qed.

Theorem items_of_insall : forall n ps,
  (forall p, In p ps -> List.length p <= n) -> items_of_forest (insall ps []) = pitems n ps.
Proof.
  induction n as [|n IH]; intros ps H.
  - rewrite insall_by_keys, (heads_short ps H). reflexivity.
  - rewrite insall_by_keys, items_of_forest_map. cbn [pitems]. apply goF_ext. intros k _.
    apply IH. intros q Hq. apply tails_in in Hq. apply H in Hq. cbn in Hq. lia.
Qed.

Lemma tails_nohead k ps : ~ In k (heads ps) -> tails k ps = [].
Proof.
  induction ps as [|p ps IH]; intros H; [reflexivity|].
  unfold tails. cbn [flat_map]. fold (tails k ps). unfold heads in H. cbn [flat_map] in H. fold (heads ps) in H.
  rewrite IH by (intros Hk; apply H; apply in_or_app; now right).
  destruct p as [|k' t]; [reflexivity|]. destruct (String.eqb_spec k' k) as [->|]; [|reflexivity].
  exfalso. apply H. now left.
Qed.

(* ---------- grouping of the items of one level ---------- *)

Definition is_itemb (k : string) : bool := match parse_line k with LItem _ _ _ _ _ _ => true | _ => false end.

Lemma sel_raws X ks : forallb (okkb X) ks = true -> map ai_raw (flat_map (sel X) ks) = filter is_itemb ks.
Proof.
  induction ks as [|k ks IH]; intros H; [reflexivity|].
  cbn [forallb] in H. apply andb_true_iff in H as [Hk H]. cbn [flat_map filter]. rewrite map_app, (IH H).
  unfold okkb in Hk. unfold sel, is_itemb. destruct (parse_line k) as [e| |row ign glob cd prio gens]; try reflexivity.
  destruct (X k); [discriminate|reflexivity].
Qed.

Lemma rgrp_app Z1 Z2 k : rgrp (Z1 ++ Z2) k = rgrp Z1 k ++ rgrp Z2 k.
Proof. apply filter_app. Qed.

Lemma rgrp_sel_other X k0 k : k0 <> k -> rgrp (sel X k0) k = [].
Proof.
  intros Hne. unfold sel. destruct (parse_line k0) as [e| |row ign glob cd prio gens]; try reflexivity.
  destruct (X k0); [reflexivity|]. unfold rgrp. cbn [filter ai_raw].
  destruct (String.eqb_spec k0 k); [contradiction|reflexivity].
Qed.

Lemma rgrp_sel_same X k : rgrp (sel X k) k = sel X k.
Proof.
  unfold sel. destruct (parse_line k) as [e| |row ign glob cd prio gens]; try reflexivity.
  destruct (X k); [reflexivity|]. unfold rgrp. cbn [filter ai_raw]. rewrite String.eqb_refl. reflexivity.
Qed.

Lemma rgrp_sel X ks k : NoDup ks ->
  rgrp (flat_map (sel X) ks) k = if existsb (String.eqb k) ks then sel X k else [].
Proof.
  induction 1 as [|k0 ks Hn ND IH]; [reflexivity|].
  cbn [flat_map existsb]. rewrite rgrp_app, IH. destruct (String.eqb_spec k k0) as [->|Hne].
  - rewrite rgrp_sel_same. cbn [orb].
    destruct (existsb (String.eqb k0) ks) eqn:E; [apply existsb_eqb_In in E; contradiction|apply app_nil_r].
  - rewrite rgrp_sel_other by congruence. reflexivity.
Qed.

Lemma flat_map_filter_sel {A B} (P : A -> bool) (f g : A -> list B) l :
  (forall k, In k l -> (P k = true -> f k = g k) /\ (P k = false -> g k = [])) ->
  flat_map f (filter P l) = flat_map g l.
Proof.
  induction l as [|k l IH]; intros H; [reflexivity|].
  cbn [filter flat_map]. destruct (H k (or_introl eq_refl)) as [H1 H2].
  rewrite <- IH by (intros z Hz; apply H; now right).
  destruct (P k); [cbn [flat_map]; rewrite H1 by reflexivity; reflexivity | rewrite H2 by reflexivity; reflexivity].
Qed.

(* ---------- the theorem on paths ---------- *)

Theorem pitems_app : forall n pa pb x y,
  pitems n pa = inr x -> pitems n pb = inr y ->
  pitems n (pa ++ pb) = inr (parse_items n (x ++ y)).
Proof.
  induction n as [|n IH]; intros pa pb x y Ha Hb.
  - cbn in *. injection Ha as <-. injection Hb as <-. reflexivity.
  - cbn [pitems] in *.
    set (Xa := fun k => pitems n (tails k pa)) in *.
    set (Xb := fun k => pitems n (tails k pb)) in *.
    set (Ka := first_keys [] (heads pa)) in *.
    set (Kb := first_keys [] (heads pb)) in *.
    apply goF_spec in Ha as [Oa ->]. apply goF_spec in Hb as [Ob ->].
    assert (NDa : NoDup Ka) by apply first_keys_nodup.
    assert (NDb : NoDup Kb) by apply first_keys_nodup.
    (* what is read below a row, on each side *)
    assert (Fa : forall k, is_itemb k = true -> exists l, Xa k = inr l /\ (~ In k Ka -> l = [])).
    { intros k Ik. destruct (in_dec string_dec k Ka) as [Hin|Hn].
      - rewrite forallb_forall in Oa. specialize (Oa k Hin). unfold okkb in Oa. unfold is_itemb in Ik.
        destruct (parse_line k); try discriminate. destruct (Xa k) as [e|l]; [discriminate|].
        exists l. split; [reflexivity|]. intros C. contradiction.
      - exists []. split; [|reflexivity]. unfold Xa. rewrite tails_nohead; [apply pitems_nil|].
        intros C. apply Hn. unfold Ka. apply first_keys_in. split; [exact C|intros []]. }
    assert (Fb : forall k, is_itemb k = true -> exists l, Xb k = inr l /\ (~ In k Kb -> l = [])).
    { intros k Ik. destruct (in_dec string_dec k Kb) as [Hin|Hn].
      - rewrite forallb_forall in Ob. specialize (Ob k Hin). unfold okkb in Ob. unfold is_itemb in Ik.
        destruct (parse_line k); try discriminate. destruct (Xb k) as [e|l]; [discriminate|].
        exists l. split; [reflexivity|]. intros C. contradiction.
      - exists []. split; [|reflexivity]. unfold Xb. rewrite tails_nohead; [apply pitems_nil|].
        intros C. apply Hn. unfold Kb. apply first_keys_in. split; [exact C|intros []]. }
    set (Xab := fun k => pitems n (tails k (pa ++ pb))).
    assert (Fab : forall k la lb, Xa k = inr la -> Xb k = inr lb -> Xab k = inr (parse_items n (la ++ lb))).
    { intros k la lb E1 E2. unfold Xab. rewrite tails_app. apply IH; assumption. }
    assert (Kab : first_keys [] (heads (pa ++ pb)) = first_keys [] (Ka ++ Kb)).
    { rewrite heads_app. unfold Ka, Kb. symmetry. apply fk_concat. }
    assert (Kin : forall k, In k (first_keys [] (Ka ++ Kb)) -> In k Ka \/ In k Kb).
    { intros k Hk. apply first_keys_in in Hk as [Hk _]. apply in_app_or in Hk. exact Hk. }
    rewrite Kab. apply goF_spec. split.
    + apply forallb_forall. intros k Hk. unfold okkb.
      assert (Hok : okkb Xa k = true \/ okkb Xb k = true).
      { rewrite forallb_forall in Oa, Ob. destruct (Kin k Hk) as [H|H]; [left; apply Oa | right; apply Ob]; exact H. }
      destruct (parse_line k) as [e| |row ign glob cd prio gens] eqn:Pk.
      * unfold okkb in Hok. rewrite Pk in Hok. destruct Hok; discriminate.
      * reflexivity.
      * assert (Ik : is_itemb k = true) by (unfold is_itemb; rewrite Pk; reflexivity).
        destruct (Fa k Ik) as (la & Ea & _). destruct (Fb k Ik) as (lb & Eb & _).
        fold (Xab k). rewrite (Fab k la lb Ea Eb). reflexivity.
    + rewrite parse_items_S, map_app, !sel_raws by assumption.
      rewrite <- filter_app, fk_filter.
      apply flat_map_filter_sel. intros k Hk. split.
      * intros Ik. unfold pitem. rewrite rgrp_app, !rgrp_sel by assumption.
        destruct (Fa k Ik) as (la & Ea & Na). destruct (Fb k Ik) as (lb & Eb & Nb).
        unfold sel. fold (Xab k). rewrite (Fab k la lb Ea Eb), Ea, Eb.
        unfold is_itemb in Ik. destruct (parse_line k) as [e| |row ign glob cd prio gens]; try discriminate.
        destruct (existsb (String.eqb k) Ka) eqn:E1, (existsb (String.eqb k) Kb) eqn:E2; cbn [app flat_map ai_kids ai_row ai_ign ai_glob ai_cdo ai_prio ai_gens].
        -- rewrite app_nil_r. reflexivity.
        -- rewrite Nb, !app_nil_r; [reflexivity|]. intros C. apply existsb_eqb_In in C. congruence.
        -- rewrite Na; [rewrite app_nil_r; reflexivity|]. intros C. apply existsb_eqb_In in C. congruence.
        -- exfalso. destruct (Kin k Hk) as [C|C]; apply existsb_eqb_In in C; congruence.
      * intros Ik. unfold sel, is_itemb in *. destruct (parse_line k); try reflexivity. discriminate.
Qed.

(* ---------- fuel of parse_items ---------- *)

Lemma parse_items_fuel : forall f f' Z,
  acl_depth Z <= f -> acl_depth Z <= f' -> parse_items f Z = parse_items f' Z.
Proof.
  induction f as [|f IH]; intros f' Z H1 H2.
  - apply acl_depth_0 in H1. subst Z. rewrite !parse_items_nil. reflexivity.
  - destruct f' as [|f'].
    + apply acl_depth_0 in H2. subst Z. rewrite !parse_items_nil. reflexivity.
    + rewrite !parse_items_S. apply flat_map_ext. intros k. unfold pitem.
      destruct (rgrp Z k) as [|i0 g] eqn:Eg; [reflexivity|]. rewrite <- Eg.
      rewrite (IH f' (flat_map ai_kids (rgrp Z k))); [reflexivity| |]; apply acl_depth_kids_group; assumption.
Qed.

(* ---------- any two texts one after the other ---------- *)

Definition max_len (ps : list (list string)) : nat := fold_right (fun p n => Nat.max (List.length p) n) 0 ps.

Lemma max_len_in ps p : In p ps -> List.length p <= max_len ps.
Proof.
  induction ps as [|q ps IH]; [intros []|]. cbn [max_len fold_right]. fold (max_len ps).
  intros [<-|H]; [lia|]. specialize (IH H). lia.
Qed.

Lemma text_acl_paths a x : text_acl a = inr x ->
  exists pa, text_paths a = Some pa /\ items_of_forest (insall pa []) = inr x.
Proof.
  unfold text_acl, text_paths. rewrite rb_parse_paths. intros H.
  destruct (ref_paths (text_items a) 1 []) as [[m r]|ps]; cbn [result_of_paths] in H; [discriminate|].
  exists ps. split; [reflexivity|exact H].
Qed.

Theorem text_concat_general (a b : string) (x y : acl) (v : avendor) :
  cont_line b = false -> text_sect0 a = true -> text_sect0 b = true ->
  text_acl a = inr x -> text_acl b = inr y ->
  text_acl (a ++ nl_s ++ b) = inr (parse_items (S (acl_depth (acl_concat x y))) (acl_concat x y)) /\
  compile_acl_text (a ++ nl_s ++ b) v = structured_outcome (acl_concat x y).
Proof.
  intros Hc Sa Sb Ha Hb.
  destruct (text_acl_paths a x Ha) as (pa & Pa & Ia). destruct (text_acl_paths b y Hb) as (pb & Pb & Ib).
  pose proof (text_paths_concat a b pa pb Hc Sa Sb Pa Pb) as Pab.
  set (Z := acl_concat x y) in *.
  set (N := Nat.max (max_len (pa ++ pb)) (S (acl_depth Z))).
  assert (La : forall p, In p pa -> List.length p <= N).
  { intros p Hp. pose proof (max_len_in (pa ++ pb) p (in_or_app _ _ _ (or_introl Hp))). lia. }
  assert (Lb : forall p, In p pb -> List.length p <= N).
  { intros p Hp. pose proof (max_len_in (pa ++ pb) p (in_or_app _ _ _ (or_intror Hp))). lia. }
  assert (Lab : forall p, In p (pa ++ pb) -> List.length p <= N).
  { intros p Hp. apply in_app_or in Hp as [Hp|Hp]; auto. }
  rewrite (items_of_insall N pa La) in Ia. rewrite (items_of_insall N pb Lb) in Ib.
  pose proof (pitems_app N pa pb x y Ia Ib) as Iab. rewrite <- (items_of_insall N _ Lab) in Iab.
  change (x ++ y) with Z in Iab. rewrite (parse_items_fuel N (S (acl_depth Z)) Z) in Iab by lia.
  assert (T : text_acl (a ++ nl_s ++ b) = inr (parse_items (S (acl_depth Z)) Z)).
  { unfold text_acl. rewrite (rb_parse_text_paths _ _ Pab). exact Iab. }
  split; [exact T|]. unfold compile_acl_text. rewrite T. apply compile_parsed_items.
Qed.
