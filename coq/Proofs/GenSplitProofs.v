(* C10: the vendor's own split in the parse step.  A program none of whose emitted lines is touched by
   the split (no interior run of blanks to collapse, no policy-end marker, no address-family / exit row for
   Cisco) gives the same outcome as with CommonFormatter.split - hence the tree theorems carry over. *)
From Coq Require Import List String Ascii Bool Arith ZArith Lia.
From Annet Require Import Base.Str Base.Tree Model.Offside Spec.P_C05 Proofs.OffsideProofs.
From Annet Require Import Model.GenProg Gen.Src_vendors Model.Join Model.GenProgV.
From Annet Require Import Spec.P_C10 Proofs.GenProgProofs Spec.P_C10b Spec.P_C10v Proofs.GenItemsProofs Proofs.GenCursorProofs.
Import ListNotations.
Open Scope string_scope.
Open Scope list_scope.

Lemma map_id_on {A} (f : A -> A) l : Forall (fun x => f x = x) l -> map f l = l.
Proof. induction 1 as [|x l Hx _ IH]; [reflexivity|]. cbn. rewrite Hx, IH. reflexivity. Qed.

Lemma filter_all {A} (f : A -> bool) l : Forall (fun x => f x = true) l -> filter f l = l.
Proof. induction 1 as [|x l Hx _ IH]; [reflexivity|]. cbn. rewrite Hx, IH. reflexivity. Qed.

Lemma cisco_lines_neutral bexit tbl l :
  Forall (fun x => line_neutral (SkCisco bexit tbl) x = true) l ->
  cisco_lines bexit tbl (0%Z, [bexit]) l = l.
Proof.
  induction 1 as [|x l Hx _ IH]; [reflexivity|].
  cbn [cisco_lines fst]. change (Z.to_nat 0) with 0. cbn [repeat_str String.append]. f_equal.
  assert (St : cisco_step bexit tbl (0%Z, [bexit]) x = (0%Z, [bexit])).
  { cbn [line_neutral] in Hx. rewrite !andb_true_iff, !negb_true_iff in Hx. destruct Hx as [[_ Hb] Ht].
    unfold cisco_step, str_in. cbn [existsb]. rewrite Hb. cbn [orb].
    destruct (find _ tbl) as [[ps w]|] eqn:Ef; [|reflexivity].
    destruct (String.eqb w bexit) eqn:Ew; [reflexivity|exfalso].
    apply find_some in Ef as [Hin Hm]. cbn [fst] in Hm.
    assert (X : existsb (fun e : list string * string =>
                existsb (fun p => startswith p (strip x)) (fst e) && negb (String.eqb (snd e) bexit)) tbl = true).
    { apply existsb_exists. exists (ps, w). split; [exact Hin|]. cbn [fst snd]. rewrite Hm, Ew. reflexivity. }
    congruence. }
  rewrite St. exact IH.
Qed.

Lemma split_plain_neutral sk text :
  forallb (line_neutral sk) (split_lines text) = true -> split_plain sk text = split_lines text.
Proof.
  intros H. rewrite forallb_forall in H. apply Forall_forall in H.
  assert (Hc : sk <> SkCommon -> split_spaces text = split_lines text).
  { intros Hne. unfold split_spaces. apply map_id_on. eapply Forall_impl; [|exact H].
    intros l Hl. destruct sk as [| |ws|ws|bexit tbl]; cbn [line_neutral] in Hl.
    - congruence.
    - apply String.eqb_eq. exact Hl.
    - apply andb_true_iff in Hl as [Hl _]. apply String.eqb_eq. exact Hl.
    - apply andb_true_iff in Hl as [Hl _]. apply String.eqb_eq. exact Hl.
    - rewrite !andb_true_iff in Hl. destruct Hl as [[Hl _] _]. apply String.eqb_eq. exact Hl. }
  destruct sk as [| |ws|ws|bexit tbl]; cbn [split_plain].
  - reflexivity.
  - apply Hc. discriminate.
  - unfold split_startswith. rewrite Hc by discriminate. apply filter_all.
    eapply Forall_impl; [|exact H]. intros l Hl. cbn [line_neutral] in Hl.
    apply andb_true_iff in Hl as [_ Hl]. exact Hl.
  - unfold split_endswith. rewrite Hc by discriminate. apply filter_all.
    eapply Forall_impl; [|exact H]. intros l Hl. cbn [line_neutral] in Hl.
    apply andb_true_iff in Hl as [_ Hl]. exact Hl.
  - unfold split_cisco. rewrite Hc by discriminate. apply cisco_lines_neutral. exact H.
Qed.

Theorem run_noacl_sk_neutral sk p : split_neutral sk p = true -> run_noacl_sk sk p = run_noacl p.
Proof.
  intros N. unfold run_noacl_sk, run_noacl, gen_rows.
  destruct (emit_body_rows p) as [E F]. rewrite E.
  destruct (existsb invalid p); [reflexivity|].
  destruct (existsb has_none_word (map render (prog_rows p))); [reflexivity|].
  unfold parse_text. rewrite split_plain_neutral; [reflexivity|].
  rewrite split_lines_text_gen.
  - apply forallb_forall. intros l Hl. apply filter_In in Hl as [Hl He].
    apply in_map_iff in Hl as (cr & <- & Hcr).
    unfold split_neutral in N. rewrite forallb_forall in N. specialize (N cr Hcr).
    rewrite is_empty_render in He. destruct (line_empty cr); [discriminate|exact N].
  - apply Forall_forall. intros l Hl. apply in_map_iff in Hl as (cr & <- & Hcr).
    unfold render. rewrite has_nl_spaces. rewrite Forall_forall in F. apply F. exact Hcr.
Qed.

Theorem run_noacl_sk_common p : run_noacl_sk SkCommon p = run_noacl p.
Proof. reflexivity. Qed.

(* the general tree theorem for every plain-family vendor *)
Theorem emit_parse_gen_sk sk p :
  wfx_prog p = true -> split_neutral sk p = true -> run_noacl_sk sk p = GOk (tree_of' p).
Proof. intros W N. rewrite (run_noacl_sk_neutral sk p N). apply emit_parse_gen. exact W. Qed.

Theorem run_items_sk sk p : split_neutral sk p = true -> run_noacl_sk sk p = spec_noacl p.
Proof. intros N. rewrite (run_noacl_sk_neutral sk p N). apply run_items. Qed.

Theorem vendor_holds name sk p : vendor_splitk name = Some sk -> P_C10_vendor name p (run_noacl_sk sk p) = true.
Proof.
  intros E. unfold P_C10_vendor. rewrite E. destruct (split_neutral sk p) eqn:N; [|reflexivity].
  rewrite (run_noacl_sk_neutral sk p N). rewrite items_holds, tree'_holds. reflexivity.
Qed.
