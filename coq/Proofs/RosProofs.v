(* RouterOS round trip, part 2: from RosFormatter.join (section path taken from context.row) through
   RosFormatter.split and the offside parser to the insertion sequence of Proofs/RosPaths.v. *)
From Coq Require Import List String Ascii Bool Arith Lia.
From Annet Require Import Base.Str Base.Tree Model.Offside Spec.P_C05 Proofs.OffsideProofs
                          Gen.Src_vendors Model.Join Spec.P_C04 Proofs.JoinProofs Proofs.RosPaths Proofs.CiscoProofs.
Import ListNotations.
Open Scope string_scope.
Open Scope list_scope.
Arguments Nat.ltb : simpl never.
Arguments Nat.leb : simpl never.
Local Infix "+++" := String.append (right associativity, at level 60).

(* ====================================================================================== *)
(* events: what a printed line is *)

Inductive ev := Hdr (Q : list string) | Leaf (r : string).

Definition pstr (Q : list string) : string := join_with " " Q.

Fixpoint evs_t (P : list string) (t : tree) {struct t} : bool -> list ev :=
  match t with
  | T k => (fix go (l : forest) (after : bool) {struct l} : list ev :=
              match l with
              | [] => []
              | (r, c) :: l' =>
                if is_leaf c then (if after then [Hdr P] else []) ++ Leaf r :: go l' false
                else Hdr (P ++ [r]) :: evs_t (P ++ [r]) c false ++ go l' true
              end) k
  end.
Definition evs_body (P : list string) (k : forest) (after : bool) : list ev := evs_t P (T k) after.

Lemma evs_body_cons P r c l after :
  evs_body P ((r, c) :: l) after =
  if is_leaf c then (if after then [Hdr P] else []) ++ Leaf r :: evs_body P l false
  else Hdr (P ++ [r]) :: evs_body (P ++ [r]) (kids c) false ++ evs_body P l true.
Proof. unfold evs_body. destruct c. reflexivity. Qed.

Fixpoint evs_top (f : forest) : list ev :=
  match f with
  | [] => []
  | (r, c) :: l => Hdr [r] :: evs_body [r] (kids c) false ++ evs_top l
  end.

(* the paths the events insert: Q = the section of the last header *)
Fixpoint pe (es : list ev) (Q : list string) : list (list string) :=
  match es with
  | [] => []
  | Hdr Q' :: e => hdr Q' ++ pe e Q'
  | Leaf r :: e => (Q ++ [r]) :: pe e Q
  end.

Lemma pe_app a b Q : pe (a ++ b) Q = pe a Q ++ pe b (fold_left (fun q e => match e with Hdr q' => q' | Leaf _ => q end) a Q).
Proof.
  revert Q. induction a as [|[Q'|r] a IH]; intros Q; cbn [app pe fold_left]; [reflexivity| |].
  - rewrite IH, <- app_assoc. reflexivity.
  - rewrite IH. reflexivity.
Qed.

(* the section in force after the events of a body is the section of the body, unless nothing was printed after a
   sub-section: then it is whatever that sub-section left, and the next thing printed is a header *)
Lemma pe_body : forall k P after Q, (after = false -> Q = P) ->
  forall rest, (forall Q', pe rest Q' = pe rest P) ->
  pe (evs_body P k after ++ rest) Q = ros_seq P k after ++ pe rest P.
Proof.
  apply (forest_ind2
    (fun t => forall P after Q, (after = false -> Q = P) ->
       forall rest, (forall Q', pe rest Q' = pe rest P) ->
       pe (evs_body P (kids t) after ++ rest) Q = ros_seq P (kids t) after ++ pe rest P)
    (fun k => forall P after Q, (after = false -> Q = P) ->
       forall rest, (forall Q', pe rest Q' = pe rest P) ->
       pe (evs_body P k after ++ rest) Q = ros_seq P k after ++ pe rest P)).
  - intros k IH. exact IH.
  - intros P after Q HQ rest Hr. cbn. apply Hr.
  - intros r t k IHt IHk P after Q HQ rest Hr. rewrite evs_body_cons, ros_seq_cons. destruct (is_leaf t) eqn:L.
    + destruct after.
      * cbn [app pe]. rewrite (IHk P false P (fun _ => eq_refl) rest Hr). rewrite <- app_assoc. reflexivity.
      * rewrite (HQ eq_refl). cbn [app pe]. rewrite (IHk P false P (fun _ => eq_refl) rest Hr). reflexivity.
    + cbn [app pe]. rewrite <- app_assoc.
      rewrite (IHt (P ++ [r]) false (P ++ [r]) (fun _ => eq_refl) (evs_body P k true ++ rest)).
      * rewrite (IHk P true (P ++ [r]) (fun H => match Bool.diff_true_false H with end) rest Hr).
        rewrite <- !app_assoc. reflexivity.
      * intros Q'. rewrite (IHk P true Q' (fun H => match Bool.diff_true_false H with end) rest Hr).
        rewrite (IHk P true (P ++ [r]) (fun H => match Bool.diff_true_false H with end) rest Hr). reflexivity.
Qed.

Lemma pe_top : forall f Q, pe (evs_top f) Q = ros_seq_top f.
Proof.
  induction f as [|[r c] l IH]; intros Q; [reflexivity|]. cbn [evs_top ros_seq_top pe].
  rewrite (pe_body (kids c) [r] false [r] (fun _ => eq_refl) (evs_top l)).
  - rewrite IH. reflexivity.
  - intros Q'. rewrite !IH. reflexivity.
Qed.

(* ====================================================================================== *)
(* tokens: which rows are printed as headers, which as rows *)

Inductive rev := RH (s : string) | RL (s : string).

Definition raw (e : ev) : rev := match e with Hdr Q => RH (pstr Q) | Leaf r => RL r end.

(* a row followed by BlockBegin is printed as a section header, any other row as it is; a row at the very end is
   printed only if _formatted_blocks flushes - it never is for the streams below *)
Fixpoint revs (l : list tok) : list rev :=
  match l with
  | [] => []
  | Row s :: r => (match r with BB :: _ => [RH s] | [] => [] | _ => [RL s] end) ++ revs r
  | _ :: r => revs r
  end.

Definition head_ok (l : list tok) : Prop := match l with [] => False | BB :: _ => False | _ => True end.

Fixpoint out_ros (bb : string) (flush : bool) (l : list tok) : list string :=
  match l with
  | [] => []
  | Row s :: r => (match r with BB :: _ => [bb +++ strip s] | [] => if flush then [s] else [] | _ => [s] end)
                  ++ out_ros bb flush r
  | _ :: r => out_ros bb flush r
  end.

Lemma fmt_ros_out bb flush : forall l line,
  fmt_ros bb flush line l =
  match line with
  | Some (Row s) => match l with BB :: _ => [bb +++ strip s] | [] => if flush then [s] else [] | _ => [s] end
  | _ => []
  end ++ out_ros bb flush l.
Proof.
  induction l as [|x l IH]; intros line.
  - cbn. destruct flush; destruct line as [[s| |]|]; reflexivity.
  - destruct x as [n| |]; cbn [fmt_ros out_ros]; rewrite IH; destruct line as [[s| |]|]; reflexivity.
Qed.

(* a line realises an event up to the indentation _indent_blocks put in front of the row *)
Definition real (bb : string) (line : string) (e : rev) : Prop :=
  match e with
  | RH s => exists I, str_forallb is_blank I = true /\ line = bb +++ strip (I +++ s)
  | RL s => exists I, str_forallb is_blank I = true /\ line = I +++ s
  end.

(* no row at the very end *)
Fixpoint lnr (l : list tok) : bool :=
  match l with
  | [] => true
  | [Row _] => false
  | _ :: r => lnr r
  end.

Lemma out_indent_real bb flush ind (Hi : str_forallb is_blank ind = true) : forall l lvl, lnr l = true ->
  Forall2 (real bb) (out_ros bb flush (indent_blocks ind lvl l)) (revs l).
Proof.
  induction l as [|x l IH]; intros lvl H; [constructor|].
  destruct x as [s| |]; cbn [indent_blocks out_ros revs].
  - destruct l as [|[s'| |] l'].
    + discriminate.
    + cbn [indent_blocks app]. constructor.
      * exists (repeat_str ind lvl). split; [apply repeat_str_blank; exact Hi|reflexivity].
      * apply (IH lvl). exact H.
    + cbn [indent_blocks app]. constructor.
      * exists (repeat_str ind lvl). split; [apply repeat_str_blank; exact Hi|reflexivity].
      * apply (IH lvl). exact H.
    + cbn [indent_blocks app]. constructor.
      * exists (repeat_str ind lvl). split; [apply repeat_str_blank; exact Hi|reflexivity].
      * apply (IH lvl). exact H.
  - apply IH. destruct l; [reflexivity|exact H].
  - apply IH. destruct l; [reflexivity|exact H].
Qed.

(* ---------- the token stream of blocks_and_context with the section path from context.row ---------- *)

Notation go_self := (ros_go (blocks_ros RosCtxSelf) RosCtxSelf).

Lemma blocks_ros_unfold ctx k : blocks_ros RosCtxSelf ctx (T k) = go_self ctx k None false.
Proof. reflexivity. Qed.

Lemma go_nil ctx prev inrun : go_self ctx [] prev inrun = if inrun then ros_close prev else [].
Proof. reflexivity. Qed.

Lemma go_cons ctx r c l prev inrun :
  go_self ctx ((r, c) :: l) prev inrun =
  if is_leaf c then (if inrun then [] else ros_open prev) ++ Row r :: go_self ctx l prev true
  else (if inrun then ros_close prev else []) ++
       let prow := match ros_sel RosCtxSelf ctx with Some p => p +++ " " +++ r | None => r end in
       let prev' := match ros_sel RosCtxSelf ctx with Some p => Some p | None => prev end in
       Row prow :: BB :: blocks_ros RosCtxSelf (prow :: ctx) c ++ BE :: go_self ctx l prev' false.
Proof. reflexivity. Qed.

Lemma head_ok_go ctx k prev rest : head_ok rest -> head_ok (go_self ctx k prev true ++ rest).
Proof.
  intros H. destruct k as [|[r c] l].
  - rewrite go_nil. destruct prev; cbn; [exact I|exact H].
  - rewrite go_cons. destruct (is_leaf c); cbn; [exact I|]. destruct prev; cbn; exact I.
Qed.

Lemma revs_row_leaf s l : head_ok l -> revs (Row s :: l) = RL s :: revs l.
Proof. destruct l as [|[s'| |] l']; cbn; intros H; try contradiction; reflexivity. Qed.

Lemma revs_row_hdr s l : revs (Row s :: BB :: l) = RH s :: revs l.
Proof. reflexivity. Qed.

Lemma pstr_snoc Q r : Q <> [] -> pstr (Q ++ [r]) = pstr Q +++ " " +++ r.
Proof.
  unfold pstr. induction Q as [|w Q IH]; [congruence|]. intros _. destruct Q as [|w' Q].
  - reflexivity.
  - change (join_with " " ((w :: w' :: Q) ++ [r])) with (w +++ " " +++ join_with " " ((w' :: Q) ++ [r])).
    rewrite IH by discriminate. change (join_with " " (w :: w' :: Q)) with (w +++ " " +++ join_with " " (w' :: Q)).
    rewrite !sapp_assoc. reflexivity.
Qed.

(* the state of the loop over a section's items *)
Inductive gstate (P : string) : option string -> bool -> bool -> Prop :=
| gs_start : gstate P None false false
| gs_run prev : prev = None \/ prev = Some P -> gstate P prev true false
| gs_after : gstate P (Some P) false true.

Lemma revs_body : forall k Q ctx0 prev inrun after rest,
  Q <> [] -> is_empty (pstr Q) = false -> (forall r, is_empty (pstr (Q ++ [r])) = false) ->
  gstate (pstr Q) prev inrun after -> head_ok rest ->
  revs (go_self (pstr Q :: ctx0) k prev inrun ++ rest) = map raw (evs_body Q k after) ++ revs rest.
Proof.
  apply (forest_ind2
    (fun t => forall Q ctx0 prev inrun after rest,
       Q <> [] -> is_empty (pstr Q) = false -> (forall r, is_empty (pstr (Q ++ [r])) = false) ->
       gstate (pstr Q) prev inrun after -> head_ok rest ->
       revs (go_self (pstr Q :: ctx0) (kids t) prev inrun ++ rest) = map raw (evs_body Q (kids t) after) ++ revs rest)
    (fun k => forall Q ctx0 prev inrun after rest,
       Q <> [] -> is_empty (pstr Q) = false -> (forall r, is_empty (pstr (Q ++ [r])) = false) ->
       gstate (pstr Q) prev inrun after -> head_ok rest ->
       revs (go_self (pstr Q :: ctx0) k prev inrun ++ rest) = map raw (evs_body Q k after) ++ revs rest)).
  - intros k IH. exact IH.
  - intros Q ctx0 prev inrun after rest HQ HP HP' G Hr. rewrite go_nil.
    destruct G as [|prev Hp|]; cbn; try reflexivity. destruct Hp as [->| ->]; reflexivity.
  - intros r t k IHt IHk Q ctx0 prev inrun after rest HQ HP HP' G Hr.
    rewrite go_cons, evs_body_cons. destruct (is_leaf t) eqn:L.
    + (* a leaf row *)
      assert (Hk : head_ok (go_self (pstr Q :: ctx0) k prev true ++ rest)) by (apply head_ok_go; exact Hr).
      destruct G as [|prev Hp|].
      * cbn [app ros_open]. rewrite revs_row_leaf by exact Hk. cbn [map raw app]. f_equal.
        apply IHk; try assumption. constructor. left. reflexivity.
      * cbn [app]. rewrite revs_row_leaf by exact Hk. cbn [map raw app]. f_equal.
        apply IHk; try assumption. constructor. exact Hp.
      * cbn [app ros_open]. rewrite revs_row_hdr, revs_row_leaf by exact Hk. cbn [map raw app]. f_equal. f_equal.
        apply IHk; try assumption. constructor. right. reflexivity.
    + (* a sub-section *)
      cbn [ros_sel]. rewrite HP. cbv zeta. rewrite <- (pstr_snoc Q r HQ).
      assert (B : revs ((Row (pstr (Q ++ [r])) :: BB :: blocks_ros RosCtxSelf (pstr (Q ++ [r]) :: pstr Q :: ctx0) t
                          ++ BE :: go_self (pstr Q :: ctx0) k (Some (pstr Q)) false) ++ rest) =
                  RH (pstr (Q ++ [r])) :: map raw (evs_body (Q ++ [r]) (kids t) false) ++
                  map raw (evs_body Q k true) ++ revs rest).
      { cbn [app]. rewrite revs_row_hdr. f_equal. destruct t as [kt]. rewrite blocks_ros_unfold. cbn [kids] in *.
        rewrite <- app_assoc.
        rewrite (IHt (Q ++ [r]) (pstr Q :: ctx0) None false false
                   ((BE :: go_self (pstr Q :: ctx0) k (Some (pstr Q)) false) ++ rest)).
        - f_equal. cbn [app revs]. apply IHk; try assumption. constructor.
        - destruct Q; discriminate.
        - apply HP'.
        - intros r'. rewrite pstr_snoc by (destruct Q; discriminate).
          destruct (pstr (Q ++ [r])) eqn:Ep; [|reflexivity]. specialize (HP' r). rewrite Ep in HP'. discriminate.
        - constructor.
        - exact I. }
      cbn [map raw]. rewrite map_app. cbn [app].
      rewrite <- (app_assoc (map raw (evs_body (Q ++ [r]) (kids t) false)) (map raw (evs_body Q k true)) (revs rest)).
      destruct G as [|prev Hp|]; cbn [app ros_close]; try exact B.
      destruct Hp as [->| ->]; cbn [app ros_close revs]; exact B.
Qed.

Lemma is_empty_app_sp a b : is_empty (a +++ " " +++ b) = false.
Proof. destruct a; reflexivity. Qed.

Lemma pstr_snoc_nonempty Q r : Q <> [] -> is_empty (pstr (Q ++ [r])) = false.
Proof. intros H. rewrite pstr_snoc by exact H. apply is_empty_app_sp. Qed.

(* top level: every entry is a section *)
Definition top_ok (f : forest) : Prop := Forall (fun e : string * tree => is_leaf (snd e) = false /\ is_empty (fst e) = false) f.

Lemma revs_top : forall f rest, top_ok f ->
  revs (go_self [] f None false ++ rest) = map raw (evs_top f) ++ revs rest.
Proof.
  induction f as [|[r c] l IH]; intros rest H; [reflexivity|].
  inversion H as [|? ? [Hc Hr] Hl]; subst. cbn [fst snd] in *.
  rewrite go_cons, Hc. cbn [ros_sel app]. cbv zeta. cbn [app]. rewrite revs_row_hdr. cbn [evs_top map raw app].
  change (pstr [r]) with r. f_equal. destruct c as [kc]. rewrite blocks_ros_unfold. cbn [kids].
  rewrite <- app_assoc, map_app, <- app_assoc.
  assert (E : revs (go_self (pstr [r] :: []) kc None false ++ (BE :: go_self [] l None false) ++ rest) =
              map raw (evs_body [r] kc false) ++ revs ((BE :: go_self [] l None false) ++ rest)).
  { apply revs_body.
    - discriminate.
    - exact Hr.
    - intros r'. apply pstr_snoc_nonempty. discriminate.
    - constructor.
    - exact I. }
  change (pstr [r]) with r in E. rewrite E. f_equal. cbn [app revs]. apply IH. exact Hl.
Qed.

Lemma lnr_app x b : b <> [] -> lnr (x ++ b) = lnr b.
Proof.
  intros Hb. induction x as [|t x IH]; [reflexivity|]. cbn [app].
  destruct t as [s| |]; cbn [lnr]; try exact IH.
  destruct (x ++ b) eqn:E; [|exact IH]. destruct x; [cbn in E; congruence|discriminate].
Qed.

Lemma lnr_top : forall f, top_ok f -> lnr (go_self [] f None false) = true.
Proof.
  induction f as [|[r c] l IH]; intros H; [reflexivity|].
  inversion H as [|? ? [Hc Hr] Hl]; subst. cbn [fst snd] in *.
  rewrite go_cons, Hc. cbn [ros_sel app]. cbv zeta.
  change (lnr (BB :: blocks_ros RosCtxSelf [r] c ++ BE :: go_self [] l None false) = true).
  change (lnr (blocks_ros RosCtxSelf [r] c ++ BE :: go_self [] l None false) = true).
  rewrite lnr_app by discriminate. exact (IH Hl).
Qed.

(* ====================================================================================== *)
(* RosFormatter.split on the printed lines *)

Fixpoint hl (ind : string) (lvl : nat) (Q : list string) : list string :=
  match Q with [] => [] | w :: q => (repeat_str ind lvl +++ w) :: hl ind (S lvl) q end.

Fixpoint render (ind : string) (es : list ev) (lvl : nat) : list string :=
  match es with
  | [] => []
  | Hdr Q :: e => hl ind 0 Q ++ render ind e (List.length Q)
  | Leaf r :: e => (repeat_str ind lvl +++ r) :: render ind e lvl
  end.

Definition nows (w : string) : bool := str_forallb (fun c => negb (is_ws c)) w.
Definition noslash (w : string) : bool := str_forallb (fun c => negb (Ascii.eqb c "/"%char)) w.

Lemma ros_word_inv w : ros_word w = true ->
  is_empty w = false /\ nows w = true /\ noslash w = true /\ not_comment default_comments w.
Proof.
  unfold ros_word. intros H. apply andb_true_iff in H as [H H3]. apply andb_true_iff in H as [H1 H2].
  apply negb_true_iff in H1, H3. repeat split; try assumption.
  - eapply str_forallb_impl; [|exact H2]. intros c Hc. apply andb_true_iff in Hc as [Hc _]. exact Hc.
  - eapply str_forallb_impl; [|exact H2]. intros c Hc. apply andb_true_iff in Hc as [_ Hc]. exact Hc.
Qed.

Lemma words_aux_word : forall w s cur, nows w = true -> words_aux (w +++ s) cur = words_aux s (cur +++ w).
Proof.
  induction w as [|c w IH]; intros s cur H.
  - cbn. rewrite sapp_nil_r. reflexivity.
  - cbn [nows str_forallb] in H. apply andb_true_iff in H as [Hc H]. apply negb_true_iff in Hc.
    cbn [String.append words_aux]. rewrite Hc. rewrite (IH s _ H). rewrite sapp_assoc. reflexivity.
Qed.

Lemma words_aux_sp s cur : is_empty cur = false -> words_aux (String " " s) cur = cur :: words_aux s "".
Proof. intros H. cbn [words_aux]. change (is_ws " ") with true. cbn iota. rewrite H. reflexivity. Qed.

Lemma words_aux_end cur : is_empty cur = false -> words_aux "" cur = [cur].
Proof. intros H. cbn. rewrite H. reflexivity. Qed.

Definition word_ok (w : string) : Prop := is_empty w = false /\ nows w = true.

Lemma words_pstr : forall Q, Forall word_ok Q -> words_aux (pstr Q) "" = Q.
Proof.
  induction Q as [|w Q IH]; intros F; [reflexivity|]. inversion F as [|? ? [Hw Hn] Hq]; subst.
  destruct Q as [|w' Q].
  - change (pstr [w]) with w. rewrite <- (sapp_nil_r w) at 1. rewrite words_aux_word by exact Hn.
    cbn [String.append]. apply words_aux_end. exact Hw.
  - change (pstr (w :: w' :: Q)) with (w +++ String " " (pstr (w' :: Q))).
    rewrite words_aux_word by exact Hn. cbn [String.append]. rewrite words_aux_sp by exact Hw.
    rewrite (IH Hq). reflexivity.
Qed.

Lemma pstr_slash w Q : "/" +++ pstr (w :: Q) = pstr (("/" +++ w) :: Q).
Proof. destruct Q; reflexivity. Qed.

Lemma replace_none x by_ s : str_forallb (fun c => negb (Ascii.eqb c x)) s = true -> replace_char x by_ s = s.
Proof.
  induction s as [|c s IH]; [reflexivity|]. cbn [str_forallb replace_char]. intros H.
  apply andb_true_iff in H as [Hc H]. apply negb_true_iff in Hc. rewrite Hc, (IH H). reflexivity.
Qed.

Lemma ros_words_plain ind : forall q lvl, Forall (fun w => noslash w = true) q ->
  ros_words ind q lvl = (hl ind lvl q, lvl + List.length q).
Proof.
  induction q as [|w q IH]; intros lvl F.
  - cbn. rewrite Nat.add_0_r. reflexivity.
  - inversion F as [|? ? Hw Hq]; subst. cbn [ros_words hl]. rewrite (IH (S lvl) Hq).
    rewrite (replace_none "/"%char "" w Hw). cbn [List.length]. f_equal. lia.
Qed.

(* a header line: "/" and the section words; a row line: blanks and a leaf row *)
Definition real2 (line : string) (e : ev) : Prop :=
  match e with
  | Hdr Q => line = "/" +++ pstr Q
  | Leaf r => exists I, str_forallb is_blank I = true /\ line = I +++ r
  end.

Definition ev_ok (special : list string) (e : ev) : Prop :=
  match e with
  | Hdr Q => Q <> [] /\ Forall (fun w => ros_word w = true) Q /\ str_in (ros_gpath ("/" +++ pstr Q)) special = false
  | Leaf r => ros_leaf r = true
  end.

Definition ok_start (lvl : nat) (es : list ev) : Prop :=
  match es with Leaf _ :: _ => 0 < lvl | _ => True end.

Lemma ros_leaf_inv r : ros_leaf r = true -> good_row r /\ no_nl r = true /\ not_comment default_comments r /\ startswith "/" r = false.
Proof.
  unfold ros_leaf. intros H. apply andb_true_iff in H as [H1 H2]. apply negb_true_iff in H2.
  destruct (wf_row_generic_inv r H1) as (A & B & C). auto.
Qed.

Lemma startswith_slash X : startswith "/" ("/" +++ X) = true.
Proof. unfold startswith. cbn. destruct X; reflexivity. Qed.

Lemma ros_lines_real ind special : forall lines es lvl,
  Forall2 real2 lines es -> Forall (ev_ok special) es -> ok_start lvl es ->
  ros_lines ind special lines lvl = Some (render ind es lvl).
Proof.
  induction lines as [|x lines IH]; intros es lvl F O S; inversion F as [|? e ? es' Hx Hl]; subst; [reflexivity|].
  inversion O as [|? ? He Ho]; subst. destruct e as [Q|r]; cbn [real2] in Hx.
  - (* header *)
    subst x. destruct He as (Hne & Hw & Hs). destruct Q as [|w Q]; [congruence|].
    cbn [ros_lines]. rewrite startswith_slash, Hs.
    inversion Hw as [|? ? Hw1 Hwq]; subst. destruct (ros_word_inv w Hw1) as (E1 & N1 & S1 & _).
    assert (WQ : Forall word_ok Q /\ Forall (fun w => noslash w = true) Q).
    { clear -Hwq. induction Hwq as [|w' Q' H _ IH]; [split; constructor|].
      destruct (ros_word_inv w' H) as (A & B & C & _). destruct IH. split; constructor; try assumption. split; assumption. }
    destruct WQ as [WQ1 WQ2].
    unfold words. rewrite pstr_slash. rewrite words_pstr.
    + cbn [ros_words]. rewrite (ros_words_plain ind Q 1 WQ2).
      change (replace_char "/" "" ("/" +++ w)) with ("" +++ replace_char "/" "" w).
      rewrite (replace_none "/"%char "" w S1). cbn [String.append].
      rewrite (IH es' (1 + List.length Q)); [reflexivity|exact Hl|exact Ho|].
      destruct es' as [|[?|?] ?]; cbn; try exact I. lia.
    + constructor; [|exact WQ1]. split; [reflexivity|]. cbn. exact N1.
  - (* row *)
    destruct Hx as (Ib & HI & ->). cbn [ok_start] in S. destruct (ros_leaf_inv r He) as (G & _ & _ & Hsl).
    cbn [ros_lines].
    assert (E : startswith "/" (Ib +++ r) = false).
    { destruct Ib as [|a I']; [exact Hsl|]. unfold startswith. apply prefix_blank_line; [reflexivity|discriminate|exact HI]. }
    rewrite E. destruct (Nat.ltb_spec 0 lvl) as [_|Hc]; [|lia]. rewrite strip_line by assumption.
    rewrite (IH es' lvl); [reflexivity|exact Hl|exact Ho|]. destruct es' as [|[?|?] ?]; cbn [ok_start]; [exact I|exact I|exact S].
Qed.

(* ====================================================================================== *)
(* the split lines are the printed lines of a forest of header chains *)

Fixpoint chain (Q : list string) (lf : forest) : forest :=
  match Q with [] => lf | w :: q => [(w, T (chain q lf))] end.

Definition estep (e : ev) (acc : forest * forest) : forest * forest :=
  match e with
  | Leaf r => ((r, T []) :: fst acc, snd acc)
  | Hdr Q => ([], chain Q (fst acc) ++ snd acc)
  end.
Definition efold (es : list ev) : forest * forest := fold_right estep ([], []) es.

Lemma lines_app ind : forall a lvl b, lines ind lvl (a ++ b) = lines ind lvl a ++ lines ind lvl b.
Proof.
  induction a as [|[r c] a IH]; intros lvl b; [reflexivity|]. cbn [app]. rewrite !lines_cons, IH.
  cbn [app]. rewrite <- app_assoc. reflexivity.
Qed.

Lemma lines_chain ind : forall Q lvl lf, lines ind lvl (chain Q lf) = hl ind lvl Q ++ lines ind (lvl + List.length Q) lf.
Proof.
  induction Q as [|w Q IH]; intros lvl lf.
  - cbn. rewrite Nat.add_0_r. reflexivity.
  - cbn [chain hl List.length]. rewrite lines_cons. cbn [kids]. rewrite IH. cbn [app].
    change (lines ind lvl []) with (@nil string). rewrite app_nil_r.
    replace (S lvl + List.length Q) with (lvl + S (List.length Q)) by lia. reflexivity.
Qed.

Lemma render_efold ind : forall es lvl,
  render ind es lvl = lines ind lvl (fst (efold es)) ++ lines ind 0 (snd (efold es)).
Proof.
  induction es as [|[Q|r] es IH]; intros lvl; [reflexivity| |].
  - cbn [render efold fold_right estep fst snd]. fold (efold es). rewrite (IH (List.length Q)).
    rewrite lines_app, lines_chain. cbn [Nat.add]. change (lines ind lvl []) with (@nil string).
    cbn [app]. rewrite <- app_assoc. reflexivity.
  - cbn [render efold fold_right estep fst snd]. fold (efold es). rewrite (IH lvl), lines_cons. cbn [kids].
    change (lines ind (S lvl) []) with (@nil string). reflexivity.
Qed.

Lemma paths_app : forall a pre b, paths pre (a ++ b) = paths pre a ++ paths pre b.
Proof.
  induction a as [|[r c] a IH]; intros pre b; [reflexivity|]. cbn [app]. rewrite !paths_cons, IH.
  cbn [app]. rewrite <- app_assoc. reflexivity.
Qed.

Lemma paths_chain : forall Q pre lf, paths pre (chain Q lf) = hdr_from pre Q ++ paths (pre ++ Q) lf.
Proof.
  induction Q as [|w Q IH]; intros pre lf.
  - cbn. rewrite app_nil_r. reflexivity.
  - cbn [chain hdr_from]. rewrite paths_cons. cbn [kids]. rewrite IH, paths_nil, app_nil_r.
    rewrite <- app_assoc. reflexivity.
Qed.

Lemma pe_efold : forall es Q, paths Q (fst (efold es)) ++ paths [] (snd (efold es)) = pe es Q.
Proof.
  induction es as [|[Q'|r] es IH]; intros Q; [reflexivity| |].
  - cbn [pe efold fold_right estep fst snd]. fold (efold es). rewrite paths_nil. cbn [app].
    rewrite paths_app, paths_chain. cbn [app]. unfold hdr. rewrite <- app_assoc, IH. reflexivity.
  - cbn [pe efold fold_right estep fst snd]. fold (efold es). rewrite paths_cons. cbn [kids].
    rewrite paths_nil. cbn [app]. rewrite IH. reflexivity.
Qed.

Lemma all_rows_app p : forall a b, all_rows p (a ++ b) = all_rows p a && all_rows p b.
Proof.
  induction a as [|[r c] a IH]; intros b; [reflexivity|]. cbn [app]. rewrite !all_rows_cons, IH.
  rewrite !andb_assoc. reflexivity.
Qed.

Lemma all_rows_chain p : forall Q lf, forallb p Q = true -> all_rows p lf = true -> all_rows p (chain Q lf) = true.
Proof.
  induction Q as [|w Q IH]; intros lf HQ Hl; [exact Hl|]. cbn [forallb] in HQ. apply andb_true_iff in HQ as [Hw HQ].
  cbn [chain]. rewrite all_rows_cons. cbn [kids]. rewrite Hw, (IH lf HQ Hl). reflexivity.
Qed.

Definition ev_rows (p : string -> bool) (e : ev) : Prop :=
  match e with Hdr Q => forallb p Q = true | Leaf r => p r = true end.

Lemma all_rows_efold p : forall es, Forall (ev_rows p) es ->
  all_rows p (fst (efold es)) = true /\ all_rows p (snd (efold es)) = true.
Proof.
  induction 1 as [|[Q|r] es He _ [IH1 IH2]]; [split; reflexivity| |]; cbn [efold fold_right estep fst snd]; fold (efold es).
  - split; [reflexivity|]. rewrite all_rows_app, IH2, (all_rows_chain p Q _ He IH1). reflexivity.
  - split; [|exact IH2]. rewrite all_rows_cons. cbn [kids]. cbn in He. rewrite He, IH1. reflexivity.
Qed.

(* the parser on the printed lines of any forest with good rows (sibling rows need not be distinct) *)
Lemma parse_lines_forest cm ind p g :
  wf_indent ind = true -> (forall r, p r = true -> good_row r /\ not_comment cm r) -> all_rows p g = true ->
  parse_lines cm (lines ind 0 g) = Ok (insall (paths [] g) []).
Proof.
  intros Hi Hp H. unfold parse_lines. rewrite (classify_lines cm ind p Hi Hp g 0 H).
  assert (D : forall r : string, 0 < (fun _ : string => String.length ind) r) by (intros _; apply (wf_indent_inv ind Hi)).
  rewrite (parse_items_ref _ 1 ps_init [] [] Inv_init).
  assert (G : Good [] (0 * String.length ind) []) by (split; reflexivity).
  destruct (ref_items_forest _ D g (0 * String.length ind) [] [] [] [] 1 G) as (news & _ & E).
  rewrite app_nil_r in E. rewrite E. reflexivity.
Qed.

(* ====================================================================================== *)
(* the RouterOS domain gives good events *)

Lemma nows_first_ok w : is_empty w = false -> nows w = true -> first_ok w = true.
Proof. destruct w as [|c w]; [discriminate|]. cbn. intros _ H. apply andb_true_iff in H as [H _]. exact H. Qed.

Lemma nows_last_ok : forall w, is_empty w = false -> nows w = true -> last_ok w = true.
Proof.
  induction w as [|c w IH]; [discriminate|]. intros _ H. cbn [nows str_forallb] in H. apply andb_true_iff in H as [Hc H].
  destruct w as [|d w']; [exact Hc|]. apply IH; [reflexivity|exact H].
Qed.

Lemma nows_no_nl w : nows w = true -> no_nl w = true.
Proof.
  apply str_forallb_impl. intros c Hc. apply negb_true_iff in Hc. apply negb_true_iff.
  destruct (Ascii.eqb c nl) eqn:E; [|reflexivity]. apply Ascii.eqb_eq in E. subst. discriminate.
Qed.

Lemma ros_word_generic w : ros_word w = true -> wf_row_generic w = true.
Proof.
  intros H. destruct (ros_word_inv w H) as (E & N & _ & C). unfold wf_row_generic.
  rewrite (nows_first_ok w E N), (nows_last_ok w E N). fold (no_nl w). rewrite (nows_no_nl w N).
  unfold not_comment in C. rewrite C. reflexivity.
Qed.

Lemma last_ok_app : forall a b, is_empty b = false -> last_ok (a +++ b) = last_ok b.
Proof.
  induction a as [|c a IH]; intros b Hb; [reflexivity|]. cbn [String.append].
  destruct (a +++ b) eqn:E.
  - destruct a; cbn in E; [subst; discriminate|discriminate].
  - rewrite <- E. change (last_ok (String c (a +++ b))) with (match a +++ b with EmptyString => negb (is_ws c) | _ => last_ok (a +++ b) end).
    rewrite E. rewrite <- E. apply IH. exact Hb.
Qed.

Lemma pstr_cons2 w w' Q : pstr (w :: w' :: Q) = w +++ " " +++ pstr (w' :: Q).
Proof. reflexivity. Qed.

Lemma pstr_nonempty w Q : is_empty w = false -> is_empty (pstr (w :: Q)) = false.
Proof. intros H. destruct Q; [exact H|]. rewrite pstr_cons2. destruct w; [discriminate|reflexivity]. Qed.

Lemma good_row_pstr : forall Q, Q <> [] -> Forall (fun w => ros_word w = true) Q ->
  good_row (pstr Q) /\ no_nl (pstr Q) = true.
Proof.
  induction Q as [|w Q IH]; [congruence|]. intros _ F. inversion F as [|? ? Hw Hq]; subst.
  destruct (ros_word_inv w Hw) as (E & N & _ & _). destruct Q as [|w' Q].
  - change (pstr [w]) with w. repeat split; [apply nows_first_ok|apply nows_last_ok|apply nows_no_nl]; assumption.
  - destruct (IH ltac:(discriminate) Hq) as [[_ Hl] Hn]. rewrite pstr_cons2. repeat split.
    + destruct w as [|c w0]; [discriminate|]. cbn. cbn in N. apply andb_true_iff in N as [N _]. exact N.
    + rewrite last_ok_app by reflexivity. change (" " +++ pstr (w' :: Q)) with (String " " (pstr (w' :: Q))).
      inversion Hq as [|? ? Hw' _]; subst. destruct (ros_word_inv w' Hw') as (E' & _).
      pose proof (pstr_nonempty w' Q E') as Hne. destruct (pstr (w' :: Q)) eqn:Ep; [discriminate|]. exact Hl.
    + unfold no_nl in *. rewrite !str_forallb_app. fold (no_nl w). rewrite (nows_no_nl w N), Hn. reflexivity.
Qed.

Lemma ros_body_cons line r c l :
  ros_body line (T ((r, c) :: l)) =
  (if is_leaf c then ros_leaf r
   else ros_word r && negb (str_in (ros_gpath (line +++ " " +++ r)) ros_splitters) && ros_body (line +++ " " +++ r) c)
  && ros_body line (T l).
Proof. reflexivity. Qed.

Lemma slash_pstr_snoc Q r : Q <> [] -> ("/" +++ pstr Q) +++ " " +++ r = "/" +++ pstr (Q ++ [r]).
Proof. intros H. rewrite pstr_snoc by exact H. reflexivity. Qed.

Lemma ev_ok_body : forall k Q after,
  Q <> [] -> Forall (fun w => ros_word w = true) Q -> str_in (ros_gpath ("/" +++ pstr Q)) ros_splitters = false ->
  ros_body ("/" +++ pstr Q) (T k) = true -> Forall (ev_ok ros_splitters) (evs_body Q k after).
Proof.
  apply (forest_ind2
    (fun t => forall Q after,
       Q <> [] -> Forall (fun w => ros_word w = true) Q -> str_in (ros_gpath ("/" +++ pstr Q)) ros_splitters = false ->
       ros_body ("/" +++ pstr Q) t = true -> Forall (ev_ok ros_splitters) (evs_body Q (kids t) after))
    (fun k => forall Q after,
       Q <> [] -> Forall (fun w => ros_word w = true) Q -> str_in (ros_gpath ("/" +++ pstr Q)) ros_splitters = false ->
       ros_body ("/" +++ pstr Q) (T k) = true -> Forall (ev_ok ros_splitters) (evs_body Q k after))).
  - intros k IH. exact IH.
  - constructor.
  - intros r t k IHt IHk Q after HQ HW HS HB. rewrite ros_body_cons in HB. apply andb_true_iff in HB as [H1 H2].
    rewrite evs_body_cons. destruct (is_leaf t) eqn:L.
    + assert (R : Forall (ev_ok ros_splitters) (Leaf r :: evs_body Q k false)).
      { constructor; [exact H1|]. apply IHk; assumption. }
      destruct after; [|exact R]. constructor; [|exact R]. cbn. auto.
    + apply andb_true_iff in H1 as [H1 Hb]. apply andb_true_iff in H1 as [Hw Hs]. apply negb_true_iff in Hs.
      rewrite slash_pstr_snoc in Hs, Hb by exact HQ.
      assert (HW' : Forall (fun w => ros_word w = true) (Q ++ [r])).
      { apply Forall_app. split; [exact HW|constructor; [exact Hw|constructor]]. }
      assert (HQ' : Q ++ [r] <> []) by (destruct Q; discriminate).
      constructor; [cbn; auto|]. apply Forall_app. split.
      * apply IHt; assumption.
      * apply IHk; assumption.
Qed.

Lemma ros_wf_inv : forall f, ros_wf f = true -> top_ok f /\ Forall (ev_ok ros_splitters) (evs_top f).
Proof.
  induction f as [|[r c] l IH]; intros H; [split; constructor|]. cbn [ros_wf] in H.
  apply andb_true_iff in H as [H Hl]. apply andb_true_iff in H as [H Hb]. apply andb_true_iff in H as [H Hs].
  apply andb_true_iff in H as [Hc Hw]. apply negb_true_iff in Hc, Hs. destruct (IH Hl) as [T1 E1].
  destruct (ros_word_inv r Hw) as (En & _). split.
  - constructor; [split; assumption|exact T1].
  - cbn [evs_top]. assert (HW : Forall (fun w => ros_word w = true) [r]) by (constructor; [exact Hw|constructor]).
    constructor; [cbn; split; [discriminate|split; [exact HW|exact Hs]]|]. apply Forall_app. split; [|exact E1].
    destruct c as [kc]. cbn [kids]. apply ev_ok_body; try assumption. discriminate.
Qed.

Lemma ev_ok_rows e : ev_ok ros_splitters e -> ev_rows wf_row_generic e.
Proof.
  destruct e as [Q|r]; cbn.
  - intros (_ & HW & _). apply forallb_forall. intros w Hin. rewrite Forall_forall in HW. apply ros_word_generic. auto.
  - intros H. unfold ros_leaf in H. apply andb_true_iff in H as [H _]. exact H.
Qed.

Lemma real_real2 lines es :
  Forall2 (real "/") lines (map raw es) -> Forall (ev_ok ros_splitters) es -> Forall2 real2 lines es.
Proof.
  revert lines. induction es as [|e es IH]; intros lines F O; inversion F; subst; [constructor|].
  inversion O as [|? ? He Ho]; subst. constructor; [|apply IH; assumption].
  destruct e as [Q|r]; cbn [raw real real2] in *.
  - match goal with H : exists I, _ |- _ => destruct H as (I0 & HI & ->) end.
    destruct He as (HQ & HW & _). destruct (good_row_pstr Q HQ HW) as [G _]. rewrite strip_line by assumption. reflexivity.
  - assumption.
Qed.

Lemma real2_facts lines es : Forall2 real2 lines es -> Forall (ev_ok ros_splitters) es ->
  Forall (fun l => no_nl l = true) lines.
Proof.
  induction 1 as [|line e lines es Hr _ IH]; intros O; [constructor|]. inversion O as [|? ? He Ho]; subst.
  constructor; [|apply IH; exact Ho]. destruct e as [Q|r]; cbn [real2] in Hr.
  - subst line. destruct He as (HQ & HW & _). destruct (good_row_pstr Q HQ HW) as [_ Hn].
    unfold no_nl in *. rewrite str_forallb_app, Hn. reflexivity.
  - destruct Hr as (I0 & HI & ->). destruct (ros_leaf_inv r He) as (_ & Hn & _).
    unfold no_nl in *. rewrite str_forallb_app, Hn, andb_true_r.
    eapply str_forallb_impl; [|exact HI]. intros c Hc. unfold is_blank in Hc.
    apply orb_true_iff in Hc as [Hc|Hc]; apply Ascii.eqb_eq in Hc; subst; reflexivity.
Qed.

Lemma hl_nonempty ind : forall Q lvl, Forall (fun w => is_empty w = false) Q ->
  Forall (fun l => is_empty l = false) (hl ind lvl Q).
Proof.
  induction Q as [|w Q IH]; intros lvl F; [constructor|]. inversion F as [|? ? Hw Hq]; subst. cbn [hl].
  constructor; [|apply IH; exact Hq]. destruct w; [discriminate|]. destruct (repeat_str ind lvl); reflexivity.
Qed.

Lemma render_nonempty ind : forall es lvl, Forall (ev_ok ros_splitters) es ->
  filter (fun x => negb (is_empty x)) (render ind es lvl) = render ind es lvl.
Proof.
  intros es lvl O. eapply Forall_filter_id with (P := fun l => is_empty l = false).
  - intros x Hx. rewrite Hx. reflexivity.
  - revert lvl. induction O as [|e es He _ IH]; intros lvl; [constructor|]. destruct e as [Q|r]; cbn [render].
    + apply Forall_app. split; [|apply IH]. apply hl_nonempty. destruct He as (_ & HW & _).
      eapply Forall_impl; [|exact HW]. intros w Hw. apply (ros_word_inv w Hw).
    + constructor; [|apply IH]. destruct (ros_leaf_inv r He) as ((Hf & _) & _).
      destruct (first_ok_inv r Hf) as (c & r' & -> & _). destruct (repeat_str ind lvl); reflexivity.
Qed.

(* ====================================================================================== *)
(* the round trip *)

Theorem ros_roundtrip ind flush f :
  wf_indent ind = true -> wf f -> ros_wf f = true ->
  exists L, split_ros ind ros_splitters (join_ros RosCtxSelf flush "/" ind f) = Some L /\
            parse_lines default_comments L = Ok f.
Proof.
  intros Hi W R. destruct (wf_indent_inv ind Hi) as [Hb _]. destruct (ros_wf_inv f R) as [Ht Ho].
  remember (evs_top f) as es eqn:Ees. unfold join_ros. rewrite blocks_ros_unfold.
  set (toks := go_self [] f None false). rewrite fmt_ros_out. cbn [app].
  set (outl := out_ros "/" flush (indent_blocks ind 0 toks)).
  assert (Rv : revs toks = map raw es).
  { pose proof (revs_top f [] Ht) as E. rewrite !app_nil_r in E. rewrite Ees. exact E. }
  assert (F : Forall2 real2 outl es).
  { apply real_real2; [|exact Ho]. rewrite <- Rv. apply out_indent_real; [exact Hb|apply lnr_top; exact Ht]. }
  assert (P : parse_lines default_comments (render ind es 0) = Ok f).
  { rewrite render_efold.
    assert (F0 : fst (efold es) = []).
    { rewrite Ees. destruct f as [|[r c] l]; reflexivity. }
    rewrite F0. change (lines ind 0 []) with (@nil string). cbn [app].
    destruct (all_rows_efold wf_row_generic es) as [_ A].
    { eapply Forall_impl; [|exact Ho]. apply ev_ok_rows. }
    rewrite (parse_lines_forest default_comments ind wf_row_generic _ Hi) by
      (try exact A; intros r Hr; destruct (wf_row_generic_inv r Hr) as (G & _ & C); auto).
    pose proof (pe_efold es []) as E. rewrite F0, paths_nil in E. cbn [app] in E. rewrite E.
    rewrite Ees, pe_top. rewrite ros_seq_rebuild by exact W. reflexivity. }
  exists (render ind es 0). split; [|exact P].
  unfold split_ros. destruct outl as [|o os] eqn:Eo.
  - (* nothing printed: no events *)
    assert (E0 : es = []) by (inversion F; reflexivity). rewrite E0. reflexivity.
  - rewrite split_join; [|discriminate|apply (real2_facts _ es F Ho)].
    rewrite (ros_lines_real ind ros_splitters (o :: os) es 0 F Ho).
    + rewrite render_nonempty by exact Ho. reflexivity.
    + destruct es as [|[?|?] ?] eqn:Ee; cbn; try exact I. exfalso.
      destruct f as [|[r0 c0] l0]; discriminate.
Qed.

(* ====================================================================================== *)
(* sections that contain only rows: the context level the section path is taken from does not matter *)

Lemma go_cons_v v ctx r c l prev inrun :
  ros_go (blocks_ros v) v ctx ((r, c) :: l) prev inrun =
  if is_leaf c then (if inrun then [] else ros_open prev) ++ Row r :: ros_go (blocks_ros v) v ctx l prev true
  else (if inrun then ros_close prev else []) ++
       let prow := match ros_sel v ctx with Some p => p +++ " " +++ r | None => r end in
       let prev' := match ros_sel v ctx with Some p => Some p | None => prev end in
       Row prow :: BB :: blocks_ros v (prow :: ctx) c ++ BE :: ros_go (blocks_ros v) v ctx l prev' false.
Proof. reflexivity. Qed.

Lemma go_leaves v v' ctx : forall k prev inrun, forallb (fun e : string * tree => is_leaf (snd e)) k = true ->
  ros_go (blocks_ros v) v ctx k prev inrun = ros_go (blocks_ros v') v' ctx k prev inrun.
Proof.
  induction k as [|[r c] l IH]; intros prev inrun H; [reflexivity|]. cbn [forallb snd] in H.
  apply andb_true_iff in H as [Hc Hl]. rewrite !go_cons_v, Hc. rewrite (IH prev true Hl). reflexivity.
Qed.

Lemma top_flat v : forall f, ros_flat f = true -> top_ok f ->
  ros_go (blocks_ros v) v [] f None false = go_self [] f None false.
Proof.
  induction f as [|[r c] l IH]; intros H T0; [reflexivity|]. cbn [ros_flat] in H. apply andb_true_iff in H as [Hc Hl].
  inversion T0 as [|? ? [Lc _] Tl]; subst. cbn [snd] in Lc. rewrite !go_cons_v, Lc.
  assert (S : ros_sel v [] = None) by (destruct v; reflexivity). rewrite S. cbn [ros_sel]. cbv zeta.
  destruct c as [kc]. cbn [kids] in Hc.
  change (blocks_ros v [r] (T kc)) with (ros_go (blocks_ros v) v [r] kc None false).
  change (blocks_ros RosCtxSelf [r] (T kc)) with (go_self [r] kc None false).
  rewrite (go_leaves v RosCtxSelf [r] kc None false Hc), (IH Hl Tl). reflexivity.
Qed.

Lemma join_ros_flat v flush bb ind f : ros_flat f = true -> ros_wf f = true ->
  join_ros v flush bb ind f = join_ros RosCtxSelf flush bb ind f.
Proof.
  intros H R. unfold join_ros. destruct (ros_wf_inv f R) as [Ht _].
  change (blocks_ros v [] (T f)) with (ros_go (blocks_ros v) v [] f None false).
  rewrite (top_flat v f H Ht). reflexivity.
Qed.

(* ====================================================================================== *)
(* all three families *)

Theorem family_roundtrip_all fm ind f :
  wf_C04_family fm ind f = true -> guard_C04_family fm f = true ->
  exists text, run_family fm ind f = ORound text (Ok f) (Some text).
Proof.
  intros W G. destruct fm as [sk|b p w|bb].
  - (* plain: the Cisco guard is a disjunction *)
    assert (Simple : all_rows (plain_guard_row sk) f = true -> exists text, run_family (FPlain sk) ind f = ORound text (Ok f) (Some text)).
    { intros S. apply family_roundtrip; [exact I|exact W|exact S]. }
    destruct sk as [| |ws|ws|bexit tbl]; try (apply Simple; unfold wf_C04_family in W; apply andb_true_iff in W as [_ W];
      apply andb_true_iff in W as [W _]; eapply all_rows_impl; [|exact W]; reflexivity).
    cbn [guard_C04_family] in G. apply orb_true_iff in G as [G|G]; [apply Simple; exact G|].
    unfold wf_C04_family in W. apply andb_true_iff in W as [W Wf]. apply andb_true_iff in W as [Wi Wt].
    apply wfb_wf in Wt. apply andb_true_iff in Wf as [Wr _].
    exists (join_plain ind f). apply roundtrip_intro; [reflexivity|]. apply parse_cisco_closed; assumption.
  - apply family_roundtrip; [exact I|exact W|reflexivity].
  - 
  unfold wf_C04_family in W. apply andb_true_iff in W as [W Wf]. apply andb_true_iff in W as [Wi Wt].
  apply wfb_wf in Wt. apply andb_true_iff in Wf as [Wb Wr]. apply String.eqb_eq in Wb. subst bb.
  assert (J : join_ros ros_section_ctx ros_final_flush "/" ind f = join_ros RosCtxSelf ros_final_flush "/" ind f).
  { cbn [guard_C04_family] in G. destruct ros_section_ctx; [apply join_ros_flat; assumption|reflexivity]. }
  destruct (ros_roundtrip ind ros_final_flush f Wi Wt Wr) as (L & S & P).
  exists (join_ros ros_section_ctx ros_final_flush "/" ind f). apply roundtrip_intro; [reflexivity|].
  unfold parse_f, split_f. rewrite J, S, P. reflexivity.
Qed.

Theorem vendor_roundtrip_all name ind f v fm :
  find_vendor name = Some v -> family v = Some fm -> spec_family name = Some fm ->
  wf_C04 (name, ind, f) = true -> guard_C04 (name, ind, f) = true ->
  P_C04 (name, ind, f) (run_vendor name ind f) = true /\
  exists text, run_vendor name ind f = ORound text (Ok f) (Some text).
Proof.
  intros Fv Ff Fs W G. unfold wf_C04, guard_C04, P_C04, with_family, run_vendor in *. rewrite Fv, ?Ff, Fs in *.
  destruct (family_roundtrip_all fm (eff_indent v ind) f W G) as (text & E). rewrite E, W. split.
  - apply roundtrip_of_outcome.
  - eauto.
Qed.
