(* Proofs about Model/PatternT.v: the rule-text parser keeps the words of a rule line and
   nothing else of its spacing; the text-level property P_C07T holds of the model. *)
From Coq Require Import List String Ascii Bool Arith Lia.
From Annet Require Import Base.Str Model.Pattern Model.PatternX Model.PatternT.
From Annet Require Import Spec.P_C07 Spec.P_C07X Spec.P_C07T.
From Annet Require Import Proofs.PatternProofs Proofs.PatternXProofs.
Import ListNotations.
Open Scope string_scope.
Open Scope list_scope.

(* ------------------------------------------------------------------------------ *)
(* strip + collapse = the words joined by single blanks                            *)

Lemma words_aux_nonempty s : forall cur, is_empty cur = false -> words_aux s cur <> [].
Proof.
  induction s as [|c r IH]; intros cur H; cbn.
  - rewrite H. discriminate.
  - destruct (is_ws c).
    + rewrite H. discriminate.
    + apply IH. destruct cur; reflexivity.
Qed.

Lemma words_nil_rstrip s : words_aux s "" = [] -> rstrip s = "".
Proof.
  induction s as [|c r IH]; intro H; [reflexivity|]. cbn in *.
  destruct (is_ws c) eqn:W.
  - cbn in H. rewrite IH by exact H. reflexivity.
  - exfalso. revert H. apply words_aux_nonempty. reflexivity.
Qed.

Lemma rstrip_nil_words s : rstrip s = "" -> words_aux s "" = [].
Proof.
  induction s as [|c r IH]; intro H; [reflexivity|]. cbn in *.
  destruct (rstrip r) eqn:R.
  - destruct (is_ws c); [cbn; apply IH; reflexivity | discriminate].
  - discriminate.
Qed.

Lemma rstrip_cons_nows c r : is_ws c = false -> rstrip (String c r) = String c (rstrip r).
Proof. intro W. cbn. rewrite W. destruct (rstrip r); reflexivity. Qed.

Lemma rstrip_cons_ws c r : is_ws c = true ->
  rstrip (String c r) = match rstrip r with "" => "" | x => String c x end.
Proof. intro W. cbn. rewrite W. destruct (rstrip r); reflexivity. Qed.

Lemma join_cons_sp (cur : string) l :
  join_with " " (cur :: l) = match l with [] => cur | _ => (cur ++ " " ++ join_with " " l)%string end.
Proof. destruct l; reflexivity. Qed.

Lemma sappend_cons (a : string) c (b : string) : (a ++ String c b = (a ++ String c "") ++ b)%string.
Proof. rewrite sappend_assoc. reflexivity. Qed.

Lemma collapse_words_both s :
  (forall cur, is_empty cur = false ->
     join_with " " (words_aux s cur) = (cur ++ collapse_ws false (rstrip s))%string)
  /\ join_with " " (words_aux s "") = collapse_ws true (rstrip s).
Proof.
  induction s as [|c r [IHa IHb]].
  - split; [|reflexivity]. intros cur H. cbn. rewrite H. cbn. rewrite sappend_nil_r. reflexivity.
  - split.
    + intros cur H. cbn [words_aux]. destruct (is_ws c) eqn:W.
      * rewrite H. rewrite join_cons_sp. rewrite rstrip_cons_ws by exact W.
        destruct (words_aux r "") as [|w l] eqn:E.
        -- rewrite (words_nil_rstrip r E). cbn. rewrite sappend_nil_r. reflexivity.
        -- rewrite IHb.
           destruct (rstrip r) as [|d x] eqn:R.
           ++ apply rstrip_nil_words in R. congruence.
           ++ cbn [collapse_ws]. rewrite W. reflexivity.
      * rewrite IHa by (destruct cur; reflexivity).
        rewrite rstrip_cons_nows by exact W. cbn [collapse_ws]. rewrite W.
        rewrite <- sappend_cons. reflexivity.
    + cbn [words_aux]. destruct (is_ws c) eqn:W.
      * cbn [is_empty]. rewrite IHb. rewrite rstrip_cons_ws by exact W.
        destruct (rstrip r) as [|d x]; [reflexivity|]. cbn [collapse_ws]. rewrite W. reflexivity.
      * rewrite IHa by reflexivity. rewrite rstrip_cons_nows by exact W.
        cbn [collapse_ws]. rewrite W. reflexivity.
Qed.

Lemma words_lstrip s : words (lstrip s) = words s.
Proof.
  unfold words. induction s as [|c r IH]; [reflexivity|]. cbn.
  destruct (is_ws c) eqn:W; [exact IH|]. cbn. rewrite W. reflexivity.
Qed.

Lemma lstrip_head s : match lstrip s with "" => True | String c _ => is_ws c = false end.
Proof.
  induction s as [|c r IH]; [exact I|]. cbn. destruct (is_ws c) eqn:W; [exact IH|]. cbn. exact W.
Qed.

(* re.sub(\s+, " ", s.strip()) = " ".join(s.split()) *)
Theorem collapse_strip_words s : collapse_ws false (strip s) = join_with " " (words s).
Proof.
  unfold strip. rewrite <- words_lstrip. pose proof (lstrip_head s) as H.
  destruct (lstrip s) as [|c r]; [reflexivity|].
  unfold words. cbn [words_aux]. rewrite H.
  destruct (collapse_words_both r) as [Ha _]. rewrite Ha by reflexivity.
  rewrite rstrip_cons_nows by exact H. cbn [collapse_ws]. rewrite H. reflexivity.
Qed.

(* the row the text parser hands on = the words of the line joined by single blanks *)
Theorem raw_row_words raw : raw_row raw = line_text raw.
Proof. apply collapse_strip_words. Qed.

(* so the spacing of the line is irrelevant *)
Theorem raw_row_spacing a b : line_words a = line_words b -> raw_row a = raw_row b.
Proof. intro H. rewrite !raw_row_words. unfold line_text. rewrite H. reflexivity. Qed.

(* the row is in the single-blank normal form of Pattern.wf_row and has the same words *)
Theorem raw_row_wf raw :
  line_words raw <> [] -> forallb word_ok (line_words raw) = true ->
  wf_row (raw_row raw) = true /\ words (raw_row raw) = line_words raw.
Proof.
  intros Hne Hok. rewrite raw_row_words. unfold line_text.
  assert (W : words (join_with " " (line_words raw)) = line_words raw).
  { apply words_join. intros w Hin. eapply forallb_forall in Hok; [|exact Hin].
    unfold word_ok in Hok. apply andb_true_iff in Hok as [H1 H2]. split.
    - apply graph_no_ws. exact H2.
    - apply negb_true_iff. exact H1. }
  split; [|exact W]. unfold wf_row. rewrite W.
  destruct (line_words raw) as [|x l] eqn:E; [congruence|].
  rewrite Hok, String.eqb_refl. reflexivity.
Qed.

(* a line already in normal form, without %params, is left as it is *)
Theorem raw_row_fixed r : wf_row r = true -> has_param r = false -> raw_row r = r.
Proof.
  intros H P. rewrite raw_row_words. unfold line_text, line_words, cut_params. rewrite P.
  apply wf_row_words in H as (_ & _ & H). symmetry. exact H.
Qed.

(* applying the parser twice changes nothing *)
Theorem raw_row_idem raw :
  line_words raw <> [] -> forallb word_ok (line_words raw) = true ->
  has_param (raw_row raw) = false -> raw_row (raw_row raw) = raw_row raw.
Proof. intros H1 H2 P. apply raw_row_fixed; [apply raw_row_wf; assumption | exact P]. Qed.

(* ------------------------------------------------------------------------------ *)
(* the model satisfies the text-level predicate                                    *)

Lemma xtok_eqb_eq a b : xtok_eqb a b = true -> a = b.
Proof.
  destruct a, b; cbn; intro H; try discriminate; try reflexivity;
    try (apply String.eqb_eq in H; congruence); apply sre_eqb_eq in H; congruence.
Qed.

Lemma xpat_eqb_eq a b : xpat_eqb a b = true -> a = b.
Proof. apply list_eqb_eq. exact xtok_eqb_eq. Qed.

Lemma mrows_eqb_refl a : mrows_eqb a a = true.
Proof.
  apply list_eqb_refl. intros [k|]; [|reflexivity]. cbn. apply list_str_eqb_refl.
Qed.

Lemma xmatch_qf p ic row : quirk_free p = true -> xpmatch p ic row = xref_match p ic row.
Proof.
  intro Q. destruct p; [reflexivity|]. unfold xpmatch, xref_match. apply xmatch_quirk_free. exact Q.
Qed.

Lemma rule_ic_plain rule : rule_has_ic rule = false -> rule_ic rule false = false.
Proof. intro H. unfold rule_ic. rewrite H. reflexivity. Qed.

Theorem P_C07T_model x : wf_C07T x = true -> P_C07T x (model_C07T x) = true.
Proof.
  unfold wf_C07T, P_C07T. intro H.
  destruct (xrule_pat (line_text (ct_raw_p x))) as [p|] eqn:E; [|discriminate].
  apply andb_true_iff in H as [H Hpre]. apply andb_true_iff in H as [H Hrows].
  apply andb_true_iff in H as [H Ho]. apply andb_true_iff in H as [H Ha].
  apply andb_true_iff in H as [H Hrev]. apply andb_true_iff in H as [H Hicr].
  apply andb_true_iff in H as [H Hic]. apply andb_true_iff in H as [H Hqq].
  apply andb_true_iff in H as [Hlead Hqp].
  apply negb_true_iff in Hic, Hicr.
  apply list_str_eqb_eq in Ha, Ho.
  destruct (xrule_pat (reverse_row (line_text (ct_raw_p x)) (ct_prefix x))) as [q'|] eqn:Er; [|discriminate].
  apply xpat_eqb_eq in Hrev. subst q'.
  assert (Rp : raw_row (ct_raw_p x) = line_text (ct_raw_p x)) by apply raw_row_words.
  assert (Ra : raw_row (ct_raw_a x) = line_text (ct_raw_p x)).
  { rewrite raw_row_words. unfold line_text. rewrite Ha. reflexivity. }
  assert (Ro : raw_row (ct_raw_o x) = line_text (ct_raw_p x)).
  { rewrite raw_row_words. unfold line_text. rewrite Ho. reflexivity. }
  assert (La : line_text (ct_raw_a x) = line_text (ct_raw_p x)) by (unfold line_text; rewrite Ha; reflexivity).
  unfold model_C07T, t_inner. cbn [cto_patch cto_acl_id cto_acl_d cto_acl_r cto_ord_d cto_ord_r].
  rewrite Rp, Ra, La, String.eqb_refl.
  assert (D : forall raw, raw_row raw = line_text (ct_raw_p x) ->
            map (text_direct raw false) (ct_rows x) = map (xref_match p false) (ct_rows x)).
  { intros raw R. apply map_ext. intro row. unfold text_direct, xrule_match. rewrite R, E.
    rewrite rule_ic_plain by exact Hic. apply xmatch_qf. exact Hqp. }
  assert (V : forall raw, raw_row raw = line_text (ct_raw_p x) ->
            map (text_reverse raw (ct_prefix x)) (ct_rows x)
            = map (xref_match (reverse_xpat p (ct_prefix x)) false) (ct_rows x)).
  { intros raw R. apply map_ext. intro row. unfold text_reverse, xrule_match. rewrite R, Er.
    rewrite rule_ic_plain by exact Hicr. apply xmatch_qf. exact Hqq. }
  rewrite (D _ Ra), (D _ Ro), (V _ Ra), (V _ Ro), !mrows_eqb_refl, !andb_true_r.
  apply P_C07X_model.
  - unfold wf_C07X. cbn [ci_rule ci_prefix ci_rows]. rewrite E, Hlead, Hrows, Hpre. reflexivity.
  - exact Hic.
  - unfold qf_C07X. cbn [ci_rule]. rewrite E. exact Hqp.
Qed.
