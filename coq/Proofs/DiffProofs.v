(* C03: make_diff is a faithful, lossless description of old versus new — the lemmas
   cited by Properties/C03.v.  The work is in DiffProofsLib / Annot / Self / Lossless /
   Order / Moved; this file states the results for every rule matcher. *)
From Coq Require Import List String Bool Arith.
From Annet Require Import Base.Str Base.Tree Model.Rulebook Model.Diff Spec.P_C03 Proofs.DiffBasics
  Proofs.DiffProofsLib Proofs.DiffProofsAnnot Proofs.DiffProofsSelf Proofs.DiffProofsLossless
  Proofs.DiffProofsOrder Proofs.DiffProofsMoved Proofs.DiffProofsWhole Proofs.DiffProofsProj.
Import ListNotations.

Section C03.
  Variable rmatch : string -> string -> option (list string).

  (* comparing a configuration with itself reports no change at any depth *)
  Theorem diff_self_empty : forall rs x, wf x -> strip_unchanged (make_diff rmatch rs x x) = [].
  Proof. exact (diff_self_empty_lib rmatch). Qed.

  (* ops exact at every depth, every known row accounted for, entries carry rule and key *)
  Theorem diff_lossless : forall rs old new, wf old -> wf new ->
    lossless (annot_f rmatch rs old) (annot_f rmatch rs new) (make_diff rmatch rs old new) = true.
  Proof. exact (diff_lossless_lib rmatch). Qed.

  (* rows of %ordered rules appear in new's order, at every depth *)
  Theorem diff_order_ok : forall rs old new, wf old -> wf new ->
    order_ok (annot_f rmatch rs new) (make_diff rmatch rs old new) = true.
  Proof. exact (diff_order_ok_lib rmatch). Qed.

  (* top-level MOVED characterisation for %ordered rules *)
  Theorem diff_moved_ok : forall rs old new, wf old -> wf new ->
    moved_ok_top (annot_f rmatch rs old) (annot_f rmatch rs new) (make_diff rmatch rs old new) = true.
  Proof. exact (diff_moved_ok_lib rmatch). Qed.

  (* the same at every depth *)
  Theorem diff_moved_all : forall rs old new, wf old -> wf new ->
    moved_ok (annot_f rmatch rs old) (annot_f rmatch rs new) (make_diff rmatch rs old new) = true.
  Proof. exact (diff_moved_all_lib rmatch). Qed.

  (* a %rewrite block that is shown is shown as re-entered as a whole *)
  Theorem diff_rewrite_whole : forall rs old new, wf old -> wf new ->
    rewrite_whole (annot_f rmatch rs old) (annot_f rmatch rs new) (make_diff rmatch rs old new) = true.
  Proof. exact (diff_rewrite_whole_lib rmatch). Qed.

  (* dropping the ADDED entries gives old|R, dropping the REMOVED ones gives new|R *)
  Theorem diff_projections : forall rs old new, wf old -> wf new ->
    (norw (annot_f rmatch rs old) = true ->
     fperm (proj_old (make_diff rmatch rs old new)) (erase_f (annot_f rmatch rs old))) /\
    (norw (annot_f rmatch rs new) = true ->
     fperm (proj_new (make_diff rmatch rs old new)) (erase_f (annot_f rmatch rs new))).
  Proof.
    intros rs old new Ho Hn. split; intros Hr.
    - apply (diff_proj_old rmatch); assumption.
    - apply (diff_proj_new rmatch); assumption.
  Qed.

  Theorem diff_P_C03 : forall rs old new, wf old -> wf new ->
    P_C03 rmatch (rs, old, new) (make_diff rmatch rs old new) = true.
  Proof.
    intros rs old new Ho Hn. unfold P_C03.
    rewrite diff_lossless, diff_order_ok, diff_moved_all, diff_rewrite_whole by assumption. cbn [andb].
    destruct (forest_eqb old new) eqn:E; [|reflexivity].
    apply forest_eqb_eq in E. subst new. rewrite diff_self_empty by assumption. reflexivity.
  Qed.
End C03.

Print Assumptions diff_self_empty.
Print Assumptions diff_lossless.
Print Assumptions diff_order_ok.
Print Assumptions diff_moved_ok.
Print Assumptions diff_moved_all.
Print Assumptions diff_rewrite_whole.
Print Assumptions diff_projections.
Print Assumptions diff_P_C03.
