(* C03: make_diff is a faithful, lossless description of old versus new — the lemmas
   cited by Properties/C03.v.  The work is in DiffProofsLib / Annot / Self / Lossless /
   Order; this file states the results for every rule matcher. *)
From Coq Require Import List String Bool Arith.
From Annet Require Import Base.Str Base.Tree Model.Rulebook Model.Diff Spec.P_C03 Proofs.DiffBasics
  Proofs.DiffProofsLib Proofs.DiffProofsAnnot Proofs.DiffProofsSelf.
Import ListNotations.

Section C03.
  Variable rmatch : string -> string -> option (list string).

  Theorem diff_self_empty : forall rs x, wf x -> strip_unchanged (make_diff rmatch rs x x) = [].
  Proof. exact (diff_self_empty_lib rmatch). Qed.
End C03.

Print Assumptions diff_self_empty.
