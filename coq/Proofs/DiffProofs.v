(* C03: make_diff is a faithful, lossless description of old versus new — the lemmas
   cited by Properties/C03.v.  The work is in DiffProofsLib / Annot / Self / Lossless /
   Order; this file states the results for every rule matcher. *)
From Coq Require Import List String Bool Arith.
From Annet Require Import Base.Str Base.Tree Model.Rulebook Model.Diff Spec.P_C03 Proofs.DiffBasics
  Proofs.DiffProofsLib Proofs.DiffProofsAnnot Proofs.DiffProofsSelf Proofs.DiffProofsLossless
  Proofs.DiffProofsOrder.
Import ListNotations.

Section C03.
  Variable rmatch : string -> string -> option (list string).

  Theorem diff_self_empty : forall rs x, wf x -> strip_unchanged (make_diff rmatch rs x x) = [].
  Proof. exact (diff_self_empty_lib rmatch). Qed.

  Theorem diff_lossless : forall rs old new, wf old -> wf new ->
    lossless (annot_f rmatch rs old) (annot_f rmatch rs new) (make_diff rmatch rs old new) = true.
  Proof. exact (diff_lossless_lib rmatch). Qed.

  Theorem diff_order_ok : forall rs old new, wf old -> wf new ->
    order_ok (annot_f rmatch rs new) (make_diff rmatch rs old new) = true.
  Proof. exact (diff_order_ok_lib rmatch). Qed.
End C03.

Print Assumptions diff_self_empty.
Print Assumptions diff_lossless.
Print Assumptions diff_order_ok.
