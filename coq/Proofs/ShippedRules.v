(* C01 / C08 for the SHIPPED rulebooks (coq/Gen/Src_rules.v).

   Part 1 (any rule matcher).  A structural, computable condition [shipped_cond] on a pair
   (ordering rulebook O, patching rule set R) under which, for ALL configurations old / new of the
   Tier-A domain, the patch the model computes - with O, %order_reverse rules included - converges:
       every %order_reverse rule of O, at any depth, has its pattern listed in OR   (o_okb)
       every rule of R, at any depth, whose logic is undo_redo has a pattern whose removal commands
       no pattern of OR matches directly                                             (pr_okb / quiet_b)
   (only an undo_redo slot ever emits its removal together with its re-creation; a removal no
   %order_reverse rule matches keeps the key (-o, rule, false) <= (o', rule, true)).
   The proof instantiates the invariant Q of Proofs/ConvergeMainQ.v.
   Part 2: the conservative overlap test of sibling ordering rules (C08's quantifier).
   The instantiation with the tables of Gen/Src_rules.v is Spec/P_Shipped.v + Properties. *)
From Coq Require Import List String Bool Arith ZArith Lia Permutation.
From Annet Require Import Base.Str Base.Tree Model.Rulebook Model.Diff Model.Order Model.Patch Model.Blocks
     Model.Device Spec.P_C03 Spec.P_C01
     Proofs.OrderProofs Proofs.ConvergeOrder Proofs.ConvergeDevice Proofs.ConvergeRun Proofs.ConvergeBlocks
     Proofs.ConvergePre Proofs.ConvergeSlot Proofs.ConvergeSim Proofs.ConvergeMain Proofs.ConvergeMainQ
     Proofs.ConvergeTop Proofs.ConvergeNoErr.
Import ListNotations.
Open Scope string_scope.
Open Scope list_scope.

(* ------------------------------------------------------------------ the structural condition *)

Definition is_undo_redo (a : attrs) : bool := logic_eqb (a_logic a) LUndoRedo.

(* every %order_reverse rule, at any depth, has its pattern in OR *)
Fixpoint o_okb (OR : list string) (r : orule) : bool :=
  match r with
  | ORule _ pat orev _ _ kids => (negb orev || existsb (String.eqb pat) OR) && forallb (o_okb OR) kids
  end.

(* every undo_redo rule, at any depth, has a pattern accepted by qb *)
Fixpoint pr_okb (qb : string -> bool) (r : prule) : bool :=
  match r with
  | PRule _ _ a kl kg => (negb (is_undo_redo a) || qb (a_pat a)) && forallb (pr_okb qb) kl && forallb (pr_okb qb) kg
  end.

(* the patterns of the %order_reverse rules of an ordering rulebook, all depths *)
Fixpoint orev_pats_r (r : orule) : list string :=
  match r with
  | ORule _ pat orev _ _ kids => (if orev then [pat] else []) ++ flat_map orev_pats_r kids
  end.
Definition orev_pats (O : list orule) : list string := flat_map orev_pats_r O.

Section Cond.
  (* mkqb OR pp: no removal command of the patching pattern pp is matched by an ordering pattern of OR
     (a function of OR first, so that what depends on OR only is computed once) *)
  Variable mkqb : list string -> string -> bool.
  Definition shipped_cond (O : list orule) (R : rset) : bool :=
    let OR := orev_pats O in
    let qb := mkqb OR in
    forallb (o_okb OR) O && forallb (pr_okb qb) (fst R) && forallb (pr_okb qb) (snd R).
End Cond.

Lemma o_okb_inv OR r : o_okb OR r = true ->
  (o_rev r = true -> In (o_pat r) OR) /\ forallb (o_okb OR) (o_kids r) = true.
Proof.
  destruct r as [raw pat orev glob scope kids]. cbn [o_okb o_rev o_pat o_kids]. intro H.
  apply andb_true_iff in H as [H1 H2]. split; [|exact H2]. intro E. subst orev. cbn in H1.
  apply existsb_exists in H1 as (x & Hx & Ex). apply String.eqb_eq in Ex. subst x. exact Hx.
Qed.

Lemma pr_okb_inv qb r : pr_okb qb r = true ->
  (a_logic (r_attrs r) = LUndoRedo -> qb (r_pat r) = true) /\
  forallb (pr_okb qb) (r_kl r) = true /\ forallb (pr_okb qb) (r_kg r) = true.
Proof.
  destruct r as [raw ign a kl kg]. cbn [pr_okb r_attrs r_pat r_kl r_kg]. intro H.
  apply andb_true_iff in H as [H H3]. apply andb_true_iff in H as [H1 H2]. split; [|split; assumption].
  intro E. unfold is_undo_redo in H1. rewrite E in H1. cbn in H1. exact H1.
Qed.

(* ------------------------------------------------------------------ merge_dicts keeps it *)

Lemma pr_okb_merge qb : forall fuel a b,
  forallb (pr_okb qb) a = true -> forallb (pr_okb qb) b = true -> forallb (pr_okb qb) (merge_rules fuel a b) = true.
Proof.
  induction fuel as [|f IH]; intros a b Ha Hb; [exact Ha|]. cbn [merge_rules].
  revert a Ha. induction b as [|r b IHb]; intros a Ha; [exact Ha|]. cbn [fold_left].
  cbn [forallb] in Hb. apply andb_true_iff in Hb as [Hr Hb]. apply IHb; [exact Hb|].
  clear IHb Hb. induction a as [|x a IHa]; cbn.
  - rewrite Hr. reflexivity.
  - cbn [forallb] in Ha. apply andb_true_iff in Ha as [Hx Ha].
    destruct (String.eqb (r_raw x) (r_raw r)).
    + cbn [forallb]. rewrite Ha, andb_true_r. cbn [pr_okb].
      destruct (pr_okb_inv qb r Hr) as (_ & Hkl & Hkg). destruct (pr_okb_inv qb x Hx) as (_ & Hxl & Hxg).
      rewrite (IH _ _ Hxl Hkl), (IH _ _ Hxg Hkg), !andb_true_r.
      destruct r as [raw ign att kl kg]. cbn [r_attrs]. cbn [pr_okb] in Hr.
      apply andb_true_iff in Hr as [Hr _]. apply andb_true_iff in Hr as [Hr _]. exact Hr.
    + cbn [forallb]. rewrite Hx. cbn [andb]. apply IHa. exact Ha.
Qed.

Lemma pr_okb_merge_rs qb a b :
  forallb (pr_okb qb) a = true -> forallb (pr_okb qb) b = true -> forallb (pr_okb qb) (merge_rs a b) = true.
Proof. apply pr_okb_merge. Qed.

Section Generic.
  Variable rmatch : string -> string -> option (list string).
  Variable rsrc : string -> string.
  Variable rrev : string -> string.
  Variable block_exit : string.
  Variable rreverse : string -> list string -> string.
  Variable is_exit : string -> bool.
  Hypothesis Hbx : is_empty block_exit = true \/ is_exit block_exit = true.

  Notation gstep := (get_order_step rmatch rsrc rrev block_exit).
  Notation rev_of := (reverse_of rreverse).

  (* ---------- get_order when no %order_reverse rule fires ---------- *)
  Definition quiet_rule (row : string) (cd : bool) (r : orule) : Prop :=
    o_rev r = true -> cd = true \/ matches rmatch (o_pat r) row = false.

  Definition qstate (cd : bool) (st : gstate) : Prop := g_direct st = cd /\ g_order st <> FInf.

  Lemma gstep_quiet row scope cd st ir : quiet_rule row cd (snd ir) ->
    (is_empty block_exit = true \/ row <> block_exit) -> qstate cd st -> qstate cd (gstep row scope st ir).
  Proof.
    destruct ir as [order r]. cbn [snd]. intros Hq Hx (Hd & Ho).
    unfold get_order_step. destruct (negb (in_scope r scope)); [split; assumption|].
    destruct (negb (o_rev r) && (matches rmatch (o_pat r) row || matches rmatch (rrev (o_pat r)) row)) eqn:E1.
    - split; cbn [g_direct g_order]; [exact Hd|].
      destruct (match g_order st with FNone => true | _ => Nat.ltb (g_weight st) _ end); [discriminate | exact Ho].
    - destruct (o_rev r && negb (g_direct st) && matches rmatch (o_pat r) row) eqn:E2.
      + exfalso. apply andb_true_iff in E2 as [E2 Em]. apply andb_true_iff in E2 as [Er Ed].
        destruct (Hq Er) as [Hc|Hm]; [|congruence]. rewrite Hd, Hc in Ed. discriminate.
      + destruct (negb (is_empty block_exit) && String.eqb block_exit row) eqn:Eb.
        * exfalso. apply andb_true_iff in Eb as [Ea Ebq]. apply negb_true_iff in Ea. apply String.eqb_eq in Ebq.
          destruct Hx as [Hx|Hx]; [congruence | apply Hx; auto].
        * split; cbn [g_direct g_order]; assumption.
  Qed.

  Lemma odict_of_in : forall l acc x, In x (odict_of l acc) -> In x l \/ In x acc.
  Proof.
    induction l as [|r l IH]; intros acc x H; [now right|]. cbn [odict_of] in H. apply IH in H as [H|H]; [left; now right|].
    destruct (existsb (fun y => String.eqb (o_raw y) (o_raw r)) acc).
    - apply in_map_iff in H as (y & E & Hy). destruct (String.eqb (o_raw y) (o_raw r)); subst; [left; now left | now right].
    - apply in_app_or in H as [H|[H|[]]]; [now right | subst; left; now left].
  Qed.

  (* where the rules handed down by get_order come from *)
  Definition from_ord (ord : list orule) (x : orule) : Prop := In x ord \/ exists r, In r ord /\ In x (o_kids r).

  Lemma gstep_children row scope st ir ord : In (snd ir) ord ->
    (forall x, In x (g_children st) -> from_ord ord x) -> forall x, In x (g_children (gstep row scope st ir)) -> from_ord ord x.
  Proof.
    destruct ir as [order r]. cbn [snd]. intros Hr Hc x. unfold get_order_step.
    assert (Hch : forall y, In y (if o_glob r then g_children st ++ [r] else g_children st) -> from_ord ord y).
    { intros y Hy. destruct (o_glob r); [|auto]. apply in_app_or in Hy as [Hy|[<-|[]]]; [auto | now left]. }
    destruct (negb (in_scope r scope)); [apply Hc|].
    destruct (negb (o_rev r) && _).
    - cbn [g_children]. intro H. apply in_app_or in H as [H|H]; [auto|]. right. exists r. auto.
    - destruct (o_rev r && negb (g_direct st) && _).
      + destruct (match g_order st with FNone => true | _ => _ end); cbn [g_children]; intros [].
      + destruct (negb (is_empty block_exit) && String.eqb block_exit row); cbn [g_children]; [intros [] | apply Hch].
  Qed.

  Theorem get_order_quiet ord row cd scope :
    (forall r, In r ord -> quiet_rule row cd r) ->
    (is_empty block_exit = true \/ row <> block_exit) ->
    exists z ord', (0 <= z)%Z /\ get_order rmatch rsrc rrev block_exit ord row cd scope = (ZFin z, cd, ord') /\
                   forall x, In x ord' -> from_ord ord x.
  Proof.
    intros Hq Hx. unfold get_order.
    set (st0 := GS FNone 0 cd []).
    assert (G : forall l st, (forall x, In x l -> In (snd x) ord) -> qstate cd st ->
                             (forall x, In x (g_children st) -> from_ord ord x) ->
                             let st' := fold_left (gstep row scope) l st in
                             qstate cd st' /\ forall x, In x (g_children st') -> from_ord ord x).
    { induction l as [|x l IH]; intros st Hl Hs Hc; [split; assumption|]. cbn [fold_left]. apply IH.
      - intros y Hy. apply Hl. now right.
      - apply gstep_quiet; auto. apply Hq. apply Hl. now left.
      - apply gstep_children; auto. apply Hl. now left. }
    destruct (G (enumerate ord 0) st0) as ((Hd & Ho) & Hc).
    - intros x Hx'. apply (enumerate_snd ord 0 x Hx').
    - split; [reflexivity | discriminate].
    - intros x [].
    - set (st := fold_left _ _ _) in *.
      assert (Hin : forall x, In x (odict_of (g_children st) []) -> from_ord ord x).
      { intros x H. apply odict_of_in in H as [H|[]]. auto. }
      destruct (g_order st) as [|k|] eqn:Eo; [| |congruence].
      + exists 0%Z, (odict_of (g_children st) []). rewrite Hd. split; [lia|]. split; [reflexivity | exact Hin].
      + exists (Z.of_nat k), (odict_of (g_children st) []). rewrite Hd. split; [lia|]. split; [reflexivity | exact Hin].
  Qed.

  (* ---------- match_row hands the condition down ---------- *)
  Variable qb : string -> bool.

  Definition rs_okb (rs : rset) : bool := forallb (pr_okb qb) (fst rs) && forallb (pr_okb qb) (snd rs).

  Lemma find_matches_in row : forall l ms, find_matches rmatch row l = Some ms ->
    forall m, In m ms -> In (fst (fst m)) (map fst l).
  Proof.
    induction l as [|[r g] l IH]; intros ms H m Hm.
    - cbn in H. injection H as <-. destruct Hm.
    - cbn [find_matches] in H. destruct (rmatch (r_pat r) row) as [key|].
      + destruct (r_ign r); [discriminate|]. destruct (find_matches rmatch row l) as [ms'|] eqn:E; [|discriminate].
        cbn in H. injection H as <-. destruct Hm as [<-|Hm]; [now left|]. right. apply (IH ms' eq_refl m Hm).
      + right. apply (IH ms H m Hm).
  Qed.

  Lemma match_row_ok row rs s crs : rs_okb rs = true -> match_row rmatch row rs = Some (s, crs) ->
    rs_okb crs = true /\ (a_logic (mi_attrs s) = LUndoRedo -> qb (a_pat (mi_attrs s)) = true).
  Proof.
    intros Hrs H. unfold rs_okb in Hrs. apply andb_true_iff in Hrs as [Hl Hg].
    unfold match_row in H. destruct (find_matches rmatch row (local_global rs)) as [ms|] eqn:E; [|discriminate].
    assert (Hall : forall m, In m ms -> pr_okb qb (fst (fst m)) = true).
    { intros m Hm. pose proof (find_matches_in row _ _ E m Hm) as Hi. unfold local_global in Hi.
      rewrite map_app, !map_map in Hi. cbn [fst] in Hi. rewrite !map_id in Hi.
      rewrite forallb_forall in Hl, Hg. apply in_app_or in Hi as [Hi|Hi]; auto. }
    destruct ms as [|[[f fcr] key] ms']; [discriminate|].
    assert (Hfold : forall (l : list (prule * bool * list string)) (acc : list prule * list prule),
               (forall m, In m l -> pr_okb qb (fst (fst m)) = true) ->
               forallb (pr_okb qb) (fst acc) = true -> forallb (pr_okb qb) (snd acc) = true ->
               let r := fold_left (fun (acc : list prule * list prule) (m : prule * bool * list string) =>
                                     let '(r, cr, _) := m in
                                     if cr then (merge_rs (fst acc) (r_kl r), merge_rs (snd acc) (r_kg r)) else acc) l acc in
               forallb (pr_okb qb) (fst r) = true /\ forallb (pr_okb qb) (snd r) = true).
    { induction l as [|[[r cr] k] l IHl]; intros acc Hm Ha Hb; [split; assumption|]. cbn [fold_left].
      apply IHl; [intros m Hm'; apply Hm; now right | |].
      - destruct cr; [|exact Ha]. cbn [fst]. apply pr_okb_merge_rs; [exact Ha|].
        apply (pr_okb_inv qb r (Hm (r, true, k) (or_introl eq_refl))).
      - destruct cr; [|exact Hb]. cbn [snd]. apply pr_okb_merge_rs; [exact Hb|].
        apply (pr_okb_inv qb r (Hm (r, true, k) (or_introl eq_refl))). }
    destruct fcr.
    - destruct (fold_left _ ((f, true, key) :: ms') ([], [])) as [lc gc] eqn:Ef.
      injection H as <- <-. cbn [mi_attrs].
      destruct (Hfold ((f, true, key) :: ms') ([], []) Hall eq_refl eq_refl) as [H1 H2]. rewrite Ef in H1, H2. cbn [fst snd] in H1, H2.
      split.
      + unfold rs_okb. cbn [fst snd]. rewrite H1. cbn [andb]. apply pr_okb_merge_rs; assumption.
      + apply (pr_okb_inv qb f (Hall (f, true, key) (or_introl eq_refl))).
    - injection H as <- <-. cbn [mi_attrs]. split.
      + unfold rs_okb. cbn [fst snd forallb andb]. apply pr_okb_merge_rs; [reflexivity | exact Hg].
      + apply (pr_okb_inv qb f (Hall (f, false, key) (or_introl eq_refl))).
  Qed.

  (* ---------- the invariant ---------- *)
  Variable OR : list string.
  (* soundness of the pattern test behind qb: an accepted pattern has no removal command that a pattern of OR matches *)
  Hypothesis qb_sound : forall pp, qb pp = true -> forall po key, In po OR -> rmatch po (rreverse pp key) = None.

  Definition Qs (rs : rset) (ord : list orule) : Prop := rs_okb rs = true /\ forallb (o_okb OR) ord = true.

  Lemma from_ord_ok ord x : forallb (o_okb OR) ord = true -> from_ord ord x -> o_okb OR x = true.
  Proof.
    intros H [Hx|(r & Hr & Hx)]; rewrite forallb_forall in H; [auto|].
    destruct (o_okb_inv OR r (H r Hr)) as (_ & Hk). rewrite forallb_forall in Hk. auto.
  Qed.

  Lemma Qs_child rs ord row s crs : Qs rs ord -> match_row rmatch row rs = Some (s, crs) ->
    (is_empty block_exit = true \/ row <> block_exit) ->
    Qs crs (snd (get_order rmatch rsrc rrev block_exit ord row true (Some "patch"))).
  Proof.
    intros (Hrs & Ho) Hm Hx. split; [apply (match_row_ok row rs s crs Hrs Hm)|].
    destruct (get_order_quiet ord row true (Some "patch")) as (z & ord' & _ & -> & Hin); [|exact Hx|].
    - intros r _ _. now left.
    - cbn [snd]. apply forallb_forall. intros x Hx'. apply (from_ord_ok ord x Ho (Hin x Hx')).
  Qed.

  Lemma Qs_keys rs ord r s row : Qs rs ord -> slot_of rmatch rs r = Some s ->
    a_logic (mi_attrs s) = LUndoRedo ->
    (is_empty block_exit = true \/ rev_of s <> block_exit) -> (is_empty block_exit = true \/ row <> block_exit) ->
    skey_leb (key_of_cmd rmatch rsrc rrev block_exit ord (mi_raw s) (rev_of s) false)
             (key_of_cmd rmatch rsrc rrev block_exit ord (mi_raw s) row true) = true.
  Proof.
    intros (Hrs & Ho) Hs HL Hx1 Hx2. unfold slot_of in Hs.
    destruct (match_row rmatch r rs) as [[s0 crs]|] eqn:Em; [|discriminate]. cbn in Hs. injection Hs as ->.
    destruct (match_row_ok r rs s crs Hrs Em) as (_ & Hq). specialize (Hq HL).
    unfold key_of_cmd.
    destruct (get_order_quiet ord (rev_of s) false (Some "patch")) as (z1 & o1 & Hz1 & -> & _); [|exact Hx1|].
    { intros x Hx Hrev. right. rewrite forallb_forall in Ho.
      destruct (o_okb_inv OR x (Ho x Hx)) as (Hin & _). unfold matches, reverse_of.
      rewrite (qb_sound _ Hq (o_pat x) (mi_key s) (Hin Hrev)). reflexivity. }
    destruct (get_order_quiet ord row true (Some "patch")) as (z2 & o2 & Hz2 & -> & _); [|exact Hx2|].
    { intros x _ _. now left. }
    apply skey_undo_redo; assumption.
  Qed.

  (* ---------- convergence for all configurations of the Tier-A domain ---------- *)
  Theorem shipped_converge_exec fam rs U fo fn ord :
    block_family fam = true -> (forall ex, In ex (family_exits fam) -> is_exit ex = true) ->
    uok rmatch rreverse is_exit rs U -> good rmatch rs U fo -> good rmatch rs U fn ->
    Qs rs ord ->
    exists pt, make_patch rmatch rsrc rrev block_exit rreverse (make_pre (make_diff rmatch rs fo fn)) ord = POk pt /\
      let dev := exec rmatch rreverse is_exit rs (cmd_paths fam pt) fo in
      sim dev (expected rmatch rs fo fn) /\ good rmatch rs U dev.
  Proof.
    intros Hf Hex HU Hgo Hgn HQ. rewrite (make_diff_ldiff rmatch).
    destruct (no_error rmatch rsrc rrev block_exit rreverse is_exit (S (fsize fo + fsize fn)) rs U fo fn Affected ord)
      as (pt & Hp); auto. { left. reflexivity. }
    exists pt. split; [exact Hp|]. cbv zeta.
    destruct (ConvergeMainQ.converge_run rmatch rsrc rrev block_exit rreverse is_exit Hbx Qs Qs_child Qs_keys
                rs U fo fn ord pt HU Hgo Hgn Hp (or_intror HQ)) as (Hsim & Hgood & Hrows).
    rewrite (exec_cmd_paths rmatch rreverse is_exit fam rs pt fo Hf Hex Hrows).
    split; [exact Hsim | exact Hgood].
  Qed.
End Generic.

(* ------------------------------------------------------------------ instantiated: the matcher of the
   shipped rule language (Model/PatternY.v), a vendor's negation word and exit word *)
From Annet Require Import Model.Pattern Model.PatternY Model.Pipeline Spec.P_Shipped Proofs.ConvergeWf.

Section ShippedY.
  (* mkqb prefix OR pp: the pattern-level test; its soundness for the pattern model is a hypothesis *)
  Variable mkqb : string -> list string -> string -> bool.
  Hypothesis quiet_sound : forall prefix OR pp, mkqb prefix OR pp = true ->
    forall po key, In po OR -> ym po (format_template (make_reverse pp prefix) key) = None.

  Definition shipped_cond_y (v : vendor) (ord : list orule) (R : rset) : bool :=
    shipped_cond (mkqb (v_reverse v)) ord R.

  Theorem shipped_converges v R ord :
    block_family (v_family v) = true -> shipped_cond_y v ord R = true ->
    forall old new, wf_A_y v R old new = true ->
    exists pt, y_patch v R ord old new = POk pt /\
      let dev := y_exec v R (cmd_paths (v_family v) pt) old in
      sim dev (y_expected R old new) /\ good ym R (merge old new) dev.
  Proof.
    intros Hf Hc old new Hw. unfold wf_A_y in Hw. repeat (apply andb_true_iff in Hw as [Hw ?]).
    destruct (wf_step_props ym (y_rreverse v) (v_is_exit v) R old new) as (HU & Hgo & Hgn); try assumption.
    unfold shipped_cond_y, shipped_cond in Hc. cbv zeta in Hc.
    apply andb_true_iff in Hc as [Hc Hg]. apply andb_true_iff in Hc as [Ho Hl].
    set (OR := orev_pats ord) in *. set (qb := mkqb (v_reverse v) OR) in *.
    assert (Hqs : forall pp, qb pp = true -> forall po key, In po OR -> ym po (y_rreverse v pp key) = None).
    { intros pp Hq po key Hin. unfold y_rreverse, prreverse. apply (quiet_sound (v_reverse v) OR pp Hq po key Hin). }
    apply (shipped_converge_exec ym ysrc (prev v) (v_exit v) (y_rreverse v) (v_is_exit v) (v_exit_is_exit v)
             qb OR Hqs (v_family v) R (merge old new) old new ord Hf (v_exits_family v) HU Hgo Hgn).
    split; [unfold rs_okb; rewrite Hl, Hg; reflexivity | exact Ho].
  Qed.
End ShippedY.

(* without any pattern-level test: every %order_reverse rule is assumed to match every removal command, so the
   condition asks that the rule set has no undo_redo rule at all, or the ordering rulebook no %order_reverse rule *)
Definition no_test (_ : string) (OR : list string) (_ : string) : bool := match OR with [] => true | _ => false end.
Theorem shipped_converges_notest v R ord :
  block_family (v_family v) = true -> shipped_cond_y no_test v ord R = true ->
  forall old new, wf_A_y v R old new = true ->
  exists pt, y_patch v R ord old new = POk pt /\
    let dev := y_exec v R (cmd_paths (v_family v) pt) old in
    sim dev (y_expected R old new) /\ good ym R (merge old new) dev.
Proof. apply shipped_converges. intros prefix OR pp H po key Hin. destruct OR; [destruct Hin | discriminate]. Qed.

(* ------------------------------------------------------------------ the tables of Gen/Src_rules.v *)
From Annet Require Import Model.ShippedText Gen.Src_rules.

(* one shipped hardware entry passes: both texts compile, the negation word of the rule file's vendor is
   the vendor's own, and the structural condition holds with the given pattern test *)
Definition shipped_entry_ok (qt : string -> list string -> string -> bool) (h : shw) : bool :=
  String.eqb (sh_reverse h) (sh_rul_reverse h) &&
  match shipped_rset h, shipped_ordering h with
  | Some R, Some ord => shipped_cond (qt (sh_reverse h)) ord R
  | _, _ => false
  end.

(* the pairs (undo_redo patching pattern, %order_reverse pattern) the pattern test has to separate *)
Fixpoint undo_redo_pats (r : prule) : list string :=
  match r with
  | PRule _ _ a kl kg => (if is_undo_redo a then [a_pat a] else []) ++ flat_map undo_redo_pats kl ++ flat_map undo_redo_pats kg
  end.
Definition shipped_undo_redo (h : shw) : list string :=
  match shipped_rset h with Some R => flat_map undo_redo_pats (fst R) ++ flat_map undo_redo_pats (snd R) | None => [] end.
Definition shipped_orev (h : shw) : list string :=
  match shipped_ordering h with Some ord => orev_pats ord | None => [] end.
(* the pairs a test does not separate: witnesses of a failing condition *)
Definition shipped_unquiet (qt : string -> list string -> string -> bool) (h : shw) : list (string * string) :=
  flat_map (fun pp => flat_map (fun po => if qt (sh_reverse h) [po] pp then [] else [(po, pp)]) (shipped_orev h))
           (shipped_undo_redo h).

Theorem shipped_entry_converges qt :
  (forall prefix OR pp, qt prefix OR pp = true ->
     forall po key, In po OR -> ym po (format_template (make_reverse pp prefix) key) = None) ->
  forall h R ord fam, shipped_entry_ok qt h = true -> shipped_rset h = Some R -> shipped_ordering h = Some ord ->
  block_family fam = true ->
  let v := Vendor (sh_reverse h) (sh_exit h) fam in
  forall old new, wf_A_y v R old new = true ->
  exists pt, y_patch v R ord old new = POk pt /\
    let dev := y_exec v R (cmd_paths fam pt) old in
    sim dev (y_expected R old new) /\ good ym R (merge old new) dev.
Proof.
  intros Hs h R ord fam Hok HR HO Hf v old new Hw.
  unfold shipped_entry_ok in Hok. rewrite HR, HO in Hok. apply andb_true_iff in Hok as [_ Hc].
  apply (shipped_converges qt Hs v R ord Hf Hc old new Hw).
Qed.
