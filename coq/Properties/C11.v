(* C11 — property theorems only.  Proofs live in Proofs/VlanProofs.v. *)
From Coq Require Import List String Bool Arith NArith Permutation.
From Annet Require Import Base.Str Model.Vlan Model.VlanDb Model.VlanCisco Spec.P_C11
     Proofs.VlanProofs Proofs.VlanDbProofs Proofs.VlanCiscoProofs.
Import ListNotations.
Open Scope string_scope.

(* expand(collapse(S)) == S: for every finite set, both settings of tiny_ranges, and every
   chunk length >= 1, the ranges written by collapse_vlandb (cut into chunks) denote S. *)
Theorem C11_expand_collapse :
  forall (tiny : bool) (chunk_len : nat) (s : NS.t),
    NS.Equal (set_of_ranges (List.concat (chunked (S chunk_len) (collapse tiny s)))) s.
Proof. exact expand_collapse_chunked. Qed.
Print Assumptions C11_expand_collapse.

Theorem C11_expand_collapse_unchunked :
  forall (tiny : bool) (s : NS.t), NS.Equal (set_of_ranges (collapse tiny s)) s.
Proof. exact expand_collapse. Qed.
Print Assumptions C11_expand_collapse_unchunked.

(* Inside the domain the (repaired) rule logic always answers (no assertion fires). *)
Theorem C11_total :
  forall k old new, wf_C11 (k, old, new) = true -> exists cs, model_struct k old new = Some cs.
Proof. exact total_struct. Qed.
Print Assumptions C11_total.

(* Executing the emitted commands — in the emitted order or in any other order the
   ordering stage may give them — on S_old yields exactly S_new.  All five rule kinds, all
   sets, all splittings of both range lists over any number of lines. *)
Theorem C11_final :
  forall k old new, wf_C11 (k, old, new) = true ->
  forall cs, model_struct k old new = Some cs ->
  forall cs', Permutation cs' cs ->
    NS.Equal (simulate cs' (S_old (k, old, new))) (S_new (k, old, new)).
Proof. intros k old new WF cs E cs' P. exact (final_struct k old new WF cs cs' E P). Qed.
Print Assumptions C11_final.

(* After every prefix of the commands (again in any order) every VLAN of S_old ∩ S_new is
   still there. *)
Theorem C11_no_transient_loss :
  forall k old new, wf_C11 (k, old, new) = true ->
  forall cs, model_struct k old new = Some cs ->
  forall cs' l1 l2, Permutation cs' cs -> cs' = (l1 ++ l2)%list ->
    NS.Subset (NS.inter (S_old (k, old, new)) (S_new (k, old, new))) (simulate l1 (S_old (k, old, new))).
Proof. intros k old new WF cs E cs' l1 l2. exact (prefix_struct k old new WF cs cs' l1 l2 E). Qed.
Print Assumptions C11_no_transient_loss.

(* the boolean predicate used on real outputs holds of the model's own commands *)
Theorem C11_holds :
  forall k old new cs, wf_C11 (k, old, new) = true -> model_struct k old new = Some cs ->
    cmds_ok (k, old, new) cs = true.
Proof. exact holds_struct. Qed.
Print Assumptions C11_holds.

(* The code as shipped (whole-list shortcut taken although other lines of the list stay)
   violates the property: witness = DESIGN §7 F3, replayed on the real code by the check. *)
Definition k_trunk := RK HwMultiAll "port trunk allow-pass vlan" "undo port trunk allow-pass vlan" false.
Definition f3_old : list line := [(false, [(10, 20); (30, 30)]); (false, [(40, 40); (50, 50)])]%N.
Definition f3_new : list line := [(false, [(10, 20); (30, 30)])]%N.

Theorem C11_undo_all_refuted :
  exists x cs, wf_C11 x = true /\
    model_struct_shipped (in_rule x) (in_old x) (in_new x) = Some cs /\ cmds_ok x cs = false.
Proof. exists (k_trunk, f3_old, f3_new), [RemoveAll]. vm_compute. repeat split. Qed.
Print Assumptions C11_undo_all_refuted.

Theorem C11_undo_all_refuted_text :
  exists x, wf_C11 x = true /\
    model_rows_shipped (in_rule x) (map (print_line (in_rule x)) (in_old x)) (map (print_line (in_rule x)) (in_new x))
      = Some ["undo port trunk allow-pass vlan all"] /\
    P_C11 x (Some ["undo port trunk allow-pass vlan all"]) = false.
Proof. exists (k_trunk, f3_old, f3_new). vm_compute. repeat split. Qed.
Print Assumptions C11_undo_all_refuted_text.

(* non-vacuity: the guard admits multi-line lists with unchanged, removed and edited lines,
   and the repaired model emits the expected rows *)
Example C11_example_wf : wf_C11 (k_trunk, f3_old, f3_new) = true.
Proof. vm_compute. reflexivity. Qed.

Example C11_example_repaired :
  model_rows k_trunk (map (print_line k_trunk) f3_old) (map (print_line k_trunk) f3_new)
  = Some ["undo port trunk allow-pass vlan 40 50"].
Proof. vm_compute. reflexivity. Qed.

Definition k_sw := RK CiscoSwtrunk "switchport trunk allowed vlan" "no switchport trunk allowed vlan" false.
Example C11_example_cisco :
  let old := [(false, [(1, 10); (20, 20)]); (true, [(30, 30); (40, 41)])]%N in
  let new := [(false, [(1, 5); (20, 21)]); (true, [(30, 30); (40, 41)])]%N in
  wf_C11 (k_sw, old, new) = true /\
  model_struct k_sw old new = Some [Remove [(6, 10)]; Add [(21, 21)]]%N /\
  model_rows k_sw (map (print_line k_sw) old) (map (print_line k_sw) new)
  = Some ["no switchport trunk allowed vlan remove 6-10"; "switchport trunk allowed vlan add 21"].
Proof. vm_compute. repeat split. Qed.

Example C11_example_chunks :
  map (@List.length range) (chunked 10 (collapse true (set_of_ranges (map (fun i => (N.of_nat (2 * i), N.of_nat (2 * i))) (seq 1 25)))))
  = [10; 10; 5]%nat.
Proof. vm_compute. reflexivity. Qed.

(* ====================================================================================== *)
(* The Huawei global VLAN database: the VLANs of the device are the union of the `vlan batch`
   lines (any number of lines, any splitting) and of the `vlan N` blocks (with or without
   option rows).  Model: vlan_diff over default_diff, mark_unchanged, `multi` on the batch slot,
   common.default on the `vlan N` slots and on their option rows (Model/VlanDb.v).
   Guard blocks_follow_batch: a VLAN that has a block in the new configuration and was in the
   old batch is in the new batch too (always true of what a device prints; outside it the
   shipped code is refuted below). *)

(* inside the domain no assertion fires *)
Theorem C11_db_total :
  forall old new, wf_db (old, new) = true -> exists gs, db_struct old new = Some gs.
Proof. exact db_total. Qed.
Print Assumptions C11_db_total.

(* executing `vlan batch ...`, `undo vlan batch ...`, `vlan N` (block enter), `undo vlan N` in
   the emitted or in any other order on S_old = batch(old) + blocks(old) yields exactly
   S_new = batch(new) + blocks(new) *)
Theorem C11_db_final :
  forall old new, wf_db (old, new) = true -> blocks_follow_batch (old, new) = true ->
  forall gs, db_struct old new = Some gs ->
  forall gs', Permutation gs' gs ->
    NS.Equal (gsimulate gs' (Sdb_old (old, new))) (Sdb_new (old, new)).
Proof. intros old new WF G gs E gs' P. exact (db_final old new WF G gs gs' E P). Qed.
Print Assumptions C11_db_final.

(* and no VLAN of S_old & S_new is missing after any prefix of the commands, in any order *)
Theorem C11_db_no_transient_loss :
  forall old new, wf_db (old, new) = true -> blocks_follow_batch (old, new) = true ->
  forall gs, db_struct old new = Some gs ->
  forall gs' l1 l2, Permutation gs' gs -> gs' = (l1 ++ l2)%list ->
    NS.Subset (NS.inter (Sdb_old (old, new)) (Sdb_new (old, new))) (gsimulate l1 (Sdb_old (old, new))).
Proof. intros old new WF G gs E gs' l1 l2. exact (db_prefix old new WF G gs gs' l1 l2 E). Qed.
Print Assumptions C11_db_no_transient_loss.

(* the boolean predicate used on real outputs holds of the model's own commands *)
Theorem C11_db_holds :
  forall old new gs, wf_db (old, new) = true -> blocks_follow_batch (old, new) = true ->
    db_struct old new = Some gs -> gcmds_ok (old, new) gs = true.
Proof. exact holds_db_struct. Qed.
Print Assumptions C11_db_holds.

(* Without the guard the statement is false of the shipped code: VLAN 20 leaves `vlan batch`
   but the new configuration keeps it as a named block; the patch is `vlan 20 / name foo` and
   `undo vlan batch 20`, which wipes VLAN 20 (in S_old and in S_new).  Replayed on the real code
   by the check (corpus case, known finding). *)
Definition f4_old : dbcfg := ([(false, [(10, 10); (20, 20)])], [])%N.
Definition f4_new : dbcfg := ([(false, [(10, 10)])], [(20, ["name foo"])])%N.

Theorem C11_db_block_leaves_batch_refuted :
  exists x gs, wf_db x = true /\ db_struct (fst x) (snd x) = Some gs /\ gcmds_ok x gs = false /\
               db_rows (print_db (fst x)) (print_db (snd x))
               = Some [("undo vlan batch 20", []); ("vlan 20", ["name foo"])].
Proof.
  exists (f4_old, f4_new), [GBatch (Remove [(20, 20)]); GEnter 20 ["name foo"]]%N.
  vm_compute. repeat split.
Qed.
Print Assumptions C11_db_block_leaves_batch_refuted.

(* non-vacuity: 25 isolated VLANs wrapped over three `vlan batch` lines, VLAN 230 (second line)
   has a named block that disappears while 230 stays in the batch, VLAN 100 leaves, 4000 joins:
   inside the domain and the guard; the block is entered to undo the name, never removed *)
Definition iso25 : list range := map (fun i => (N.of_nat (100 + 10 * i), N.of_nat (100 + 10 * i))) (seq 0 25).
Definition nv_old : dbcfg :=
  (map (pair false) (chunked 10 iso25), [(230%N, ["name users"])]).
Definition nv_new : dbcfg :=
  (map (pair false) (chunked 10 (List.tl iso25 ++ [(4000, 4000)%N])), []).

Example C11_db_example :
  wf_db (nv_old, nv_new) = true /\ blocks_follow_batch (nv_old, nv_new) = true /\
  List.length (fst nv_new) = 3%nat /\
  db_rows (print_db nv_old) (print_db nv_new)
  = Some [("undo vlan batch 100", []); ("vlan batch 4000", []); ("vlan 230", ["undo name"])].
Proof. vm_compute. repeat split. Qed.

Example C11_db_example_guard_nonvacuous :
  let old : dbcfg := ([(false, [(10, 10); (20, 20)])], [(20, ["name a"])])%N in
  let new : dbcfg := ([(false, [(10, 10)]); (false, [(20, 20); (30, 30)])], [(20, ["name b"]); (40, [])])%N in
  wf_db (old, new) = true /\ blocks_follow_batch (old, new) = true /\
  db_struct old new = Some [GBatch (Add [(30, 30)]); GEnter 20 ["name b"]; GEnter 40 []]%N.
Proof. vm_compute. repeat split. Qed.

(* ====================================================================================== *)
(* The Cisco / Nexus global `vlan` rule with blocks: list rows (`vlan 1-10,20`) and blocks
   (`vlan 5` + option rows) live in one rule slot (cisco.vlandb.simple); the VLANs of the device
   are the union of all rows.  Model: Model/VlanCisco.v (AFFECTED blocks, old_blocks/new_blocks,
   the "block content removed but the VLAN stays" branch, hw.Catalyst, chunks of 15).
   Guard rows_disjoint: in the old configuration a VLAN is written on one row (Catalyst shape). *)

Theorem C11_cisco_blocks_final :
  forall catalyst old new, rows_disjoint (catalyst, old, new) = true ->
  forall gs, cisco_struct catalyst old new = Some gs ->
  forall gs', Permutation gs' gs ->
    NS.Equal (gsimulate gs' (Scdb_old (catalyst, old, new))) (Scdb_new (catalyst, old, new)).
Proof. intros c old new G gs E gs' P. exact (cisco_final c old new G gs gs' E P). Qed.
Print Assumptions C11_cisco_blocks_final.

Theorem C11_cisco_blocks_no_transient_loss :
  forall catalyst old new, rows_disjoint (catalyst, old, new) = true ->
  forall gs, cisco_struct catalyst old new = Some gs ->
  forall gs' l1 l2, Permutation gs' gs -> gs' = (l1 ++ l2)%list ->
    NS.Subset (NS.inter (Scdb_old (catalyst, old, new)) (Scdb_new (catalyst, old, new)))
              (gsimulate l1 (Scdb_old (catalyst, old, new))).
Proof. intros c old new G gs E gs' l1 l2. exact (cisco_prefix c old new G gs gs' l1 l2 E). Qed.
Print Assumptions C11_cisco_blocks_no_transient_loss.

Theorem C11_cisco_blocks_holds :
  forall catalyst old new gs, rows_disjoint (catalyst, old, new) = true ->
    cisco_struct catalyst old new = Some gs -> cgcmds_ok (catalyst, old, new) gs = true.
Proof. exact holds_cisco_struct. Qed.
Print Assumptions C11_cisco_blocks_holds.

(* Without the guard (what a Nexus prints: the VLAN of a block is also in the list row) the
   statement is false of the shipped code: the block `vlan 5 / name x` disappears, the list row
   `vlan 1-10` stays, the patch is `no vlan 5`: VLAN 5 (in S_old and in S_new) is removed.
   Replayed on the real code by the check (corpus case, known finding). *)
Definition f5_old : ccfg := [([(1, 10)], []); ([(5, 5)], ["name x"])]%N.
Definition f5_new : ccfg := [([(1, 10)], [])]%N.

Theorem C11_cisco_block_removed_refuted :
  exists x gs, wf_cdb x = true /\ cisco_struct (cdb_cat x) (cdb_old x) (cdb_new x) = Some gs /\
               cgcmds_ok x gs = false /\
               cisco_rows (cdb_cat x) (print_ccfg (cdb_old x)) (print_ccfg (cdb_new x)) = Some [("no vlan 5", [])].
Proof. exists (false, f5_old, f5_new), [GBatch (Remove [(5, 5)])]%N. vm_compute. repeat split. Qed.
Print Assumptions C11_cisco_block_removed_refuted.

(* non-vacuity of the guard: Catalyst shape, the block of VLAN 5 loses its name and VLAN 5 moves
   into the list row, VLAN 20 gets a block *)
Example C11_cisco_blocks_example :
  let old : ccfg := [([(1, 4); (6, 10)], []); ([(5, 5)], ["name x"])]%N in
  let new : ccfg := [([(1, 10)], []); ([(20, 20)], ["name y"])]%N in
  wf_cdb (true, old, new) = true /\ rows_disjoint (true, old, new) = true /\
  cisco_rows true (print_ccfg old) (print_ccfg new)
  = Some [("vlan 5", ["no name"]); ("vlan 20", ["name y"])].
Proof. vm_compute. repeat split. Qed.
