(* C11 — property theorems only.  Proofs live in Proofs/VlanProofs.v. *)
From Coq Require Import List String Bool Arith NArith Permutation.
From Annet Require Import Base.Str Model.Vlan Spec.P_C11 Proofs.VlanProofs.
Import ListNotations.
Open Scope string_scope.

(* expand(collapse(S)) == S: for every finite set, both settings of tiny_ranges, and every
   chunk length >= 1, the ranges written by collapse_vlandb (cut into chunks) denote S. *)
Theorem C11_expand_collapse :
  forall (tiny : bool) (chunk_len : nat) (s : NS.t),
    NS.Equal (set_of_ranges (List.concat (chunked (S chunk_len) (collapse tiny s)))) s.
Proof. exact expand_collapse_chunked. Qed.
Print Assumptions C11_expand_collapse.

Theorem C11_expand_collapse_unchunked :
  forall (tiny : bool) (s : NS.t), NS.Equal (set_of_ranges (collapse tiny s)) s.
Proof. exact expand_collapse. Qed.
Print Assumptions C11_expand_collapse_unchunked.

(* Inside the domain the (repaired) rule logic always answers (no assertion fires). *)
Theorem C11_total :
  forall k old new, wf_C11 (k, old, new) = true -> exists cs, model_struct k old new = Some cs.
Proof. exact total_struct. Qed.
Print Assumptions C11_total.

(* Executing the emitted commands — in the emitted order or in any other order the
   ordering stage may give them — on S_old yields exactly S_new.  All five rule kinds, all
   sets, all splittings of both range lists over any number of lines. *)
Theorem C11_final :
  forall k old new, wf_C11 (k, old, new) = true ->
  forall cs, model_struct k old new = Some cs ->
  forall cs', Permutation cs' cs ->
    NS.Equal (simulate cs' (S_old (k, old, new))) (S_new (k, old, new)).
Proof. intros k old new WF cs E cs' P. exact (final_struct k old new WF cs cs' E P). Qed.
Print Assumptions C11_final.

(* After every prefix of the commands (again in any order) every VLAN of S_old ∩ S_new is
   still there. *)
Theorem C11_no_transient_loss :
  forall k old new, wf_C11 (k, old, new) = true ->
  forall cs, model_struct k old new = Some cs ->
  forall cs' l1 l2, Permutation cs' cs -> cs' = (l1 ++ l2)%list ->
    NS.Subset (NS.inter (S_old (k, old, new)) (S_new (k, old, new))) (simulate l1 (S_old (k, old, new))).
Proof. intros k old new WF cs E cs' l1 l2. exact (prefix_struct k old new WF cs cs' l1 l2 E). Qed.
Print Assumptions C11_no_transient_loss.

(* the boolean predicate used on real outputs holds of the model's own commands *)
Theorem C11_holds :
  forall k old new cs, wf_C11 (k, old, new) = true -> model_struct k old new = Some cs ->
    cmds_ok (k, old, new) cs = true.
Proof. exact holds_struct. Qed.
Print Assumptions C11_holds.

(* The code as shipped (whole-list shortcut taken although other lines of the list stay)
   violates the property: witness = DESIGN §7 F3, replayed on the real code by the check. *)
Definition k_trunk := RK HwMultiAll "port trunk allow-pass vlan" "undo port trunk allow-pass vlan" false.
Definition f3_old : list line := [(false, [(10, 20); (30, 30)]); (false, [(40, 40); (50, 50)])]%N.
Definition f3_new : list line := [(false, [(10, 20); (30, 30)])]%N.

Theorem C11_undo_all_refuted :
  exists x cs, wf_C11 x = true /\
    model_struct_shipped (in_rule x) (in_old x) (in_new x) = Some cs /\ cmds_ok x cs = false.
Proof. exists (k_trunk, f3_old, f3_new), [RemoveAll]. vm_compute. repeat split. Qed.
Print Assumptions C11_undo_all_refuted.

Theorem C11_undo_all_refuted_text :
  exists x, wf_C11 x = true /\
    model_rows_shipped (in_rule x) (map (print_line (in_rule x)) (in_old x)) (map (print_line (in_rule x)) (in_new x))
      = Some ["undo port trunk allow-pass vlan all"] /\
    P_C11 x (Some ["undo port trunk allow-pass vlan all"]) = false.
Proof. exists (k_trunk, f3_old, f3_new). vm_compute. repeat split. Qed.
Print Assumptions C11_undo_all_refuted_text.

(* non-vacuity: the guard admits multi-line lists with unchanged, removed and edited lines,
   and the repaired model emits the expected rows *)
Example C11_example_wf : wf_C11 (k_trunk, f3_old, f3_new) = true.
Proof. vm_compute. reflexivity. Qed.

Example C11_example_repaired :
  model_rows k_trunk (map (print_line k_trunk) f3_old) (map (print_line k_trunk) f3_new)
  = Some ["undo port trunk allow-pass vlan 40 50"].
Proof. vm_compute. reflexivity. Qed.

Definition k_sw := RK CiscoSwtrunk "switchport trunk allowed vlan" "no switchport trunk allowed vlan" false.
Example C11_example_cisco :
  let old := [(false, [(1, 10); (20, 20)]); (true, [(30, 30); (40, 41)])]%N in
  let new := [(false, [(1, 5); (20, 21)]); (true, [(30, 30); (40, 41)])]%N in
  wf_C11 (k_sw, old, new) = true /\
  model_struct k_sw old new = Some [Remove [(6, 10)]; Add [(21, 21)]]%N /\
  model_rows k_sw (map (print_line k_sw) old) (map (print_line k_sw) new)
  = Some ["no switchport trunk allowed vlan remove 6-10"; "switchport trunk allowed vlan add 21"].
Proof. vm_compute. repeat split. Qed.

Example C11_example_chunks :
  map (@List.length range) (chunked 10 (collapse true (set_of_ranges (map (fun i => (N.of_nat (2 * i), N.of_nat (2 * i))) (seq 1 25)))))
  = [10; 10; 5]%nat.
Proof. vm_compute. reflexivity. Qed.
