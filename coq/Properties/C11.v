(* C11 — property theorems only.  Proofs live in Proofs/VlanProofs.v. *)
From Coq Require Import List String Bool Arith NArith.
From Annet Require Import Base.Str Model.Vlan Spec.P_C11 Proofs.VlanProofs.
