(* C11 — property theorems only.  Proofs live in Proofs/VlanProofs.v. *)
From Coq Require Import List String Bool Arith NArith Permutation.
From Annet Require Import Base.Str Model.Vlan Model.VlanDb Model.VlanCisco Spec.P_C11
     Proofs.VlanProofs Proofs.VlanDbProofs Proofs.VlanCiscoProofs.
Import ListNotations.
Open Scope string_scope.

(* expand(collapse(S)) == S: for every finite set, both settings of tiny_ranges, and every
   chunk length >= 1, the ranges written by collapse_vlandb (cut into chunks) denote S. *)
Theorem C11_expand_collapse :
  forall (tiny : bool) (chunk_len : nat) (s : NS.t),
    NS.Equal (set_of_ranges (List.concat (chunked (S chunk_len) (collapse tiny s)))) s.
Proof. exact expand_collapse_chunked. Qed.
Print Assumptions C11_expand_collapse.

Theorem C11_expand_collapse_unchunked :
  forall (tiny : bool) (s : NS.t), NS.Equal (set_of_ranges (collapse tiny s)) s.
Proof. exact expand_collapse. Qed.
Print Assumptions C11_expand_collapse_unchunked.

(* Inside the domain the (repaired) rule logic always answers (no assertion fires). *)
Theorem C11_total :
  forall k old new, wf_C11 (k, old, new) = true -> exists cs, model_struct k old new = Some cs.
Proof. exact total_struct. Qed.
Print Assumptions C11_total.

(* Executing the emitted commands — in the emitted order or in any other order the
   ordering stage may give them — on S_old yields exactly S_new.  All five rule kinds, all
   sets, all splittings of both range lists over any number of lines. *)
Theorem C11_final :
  forall k old new, wf_C11 (k, old, new) = true ->
  forall cs, model_struct k old new = Some cs ->
  forall cs', Permutation cs' cs ->
    NS.Equal (simulate cs' (S_old (k, old, new))) (S_new (k, old, new)).
Proof. intros k old new WF cs E cs' P. exact (final_struct k old new WF cs cs' E P). Qed.
Print Assumptions C11_final.

(* After every prefix of the commands (again in any order) every VLAN of S_old ∩ S_new is
   still there. *)
Theorem C11_no_transient_loss :
  forall k old new, wf_C11 (k, old, new) = true ->
  forall cs, model_struct k old new = Some cs ->
  forall cs' l1 l2, Permutation cs' cs -> cs' = (l1 ++ l2)%list ->
    NS.Subset (NS.inter (S_old (k, old, new)) (S_new (k, old, new))) (simulate l1 (S_old (k, old, new))).
Proof. intros k old new WF cs E cs' l1 l2. exact (prefix_struct k old new WF cs cs' l1 l2 E). Qed.
Print Assumptions C11_no_transient_loss.

(* the boolean predicate used on real outputs holds of the model's own commands *)
Theorem C11_holds :
  forall k old new cs, wf_C11 (k, old, new) = true -> model_struct k old new = Some cs ->
    cmds_ok (k, old, new) cs = true.
Proof. exact holds_struct. Qed.
Print Assumptions C11_holds.

(* The code as shipped (whole-list shortcut taken although other lines of the list stay)
   violates the property: witness = DESIGN §7 F3, replayed on the real code by the check. *)
Definition k_trunk := RK HwMultiAll "port trunk allow-pass vlan" "undo port trunk allow-pass vlan" false.
Definition f3_old : list line := [(false, [(10, 20); (30, 30)]); (false, [(40, 40); (50, 50)])]%N.
Definition f3_new : list line := [(false, [(10, 20); (30, 30)])]%N.

Theorem C11_undo_all_refuted :
  exists x cs, wf_C11 x = true /\
    model_struct_shipped (in_rule x) (in_old x) (in_new x) = Some cs /\ cmds_ok x cs = false.
Proof. exists (k_trunk, f3_old, f3_new), [RemoveAll]. vm_compute. repeat split. Qed.
Print Assumptions C11_undo_all_refuted.

Theorem C11_undo_all_refuted_text :
  exists x, wf_C11 x = true /\
    model_rows_shipped (in_rule x) (map (print_line (in_rule x)) (in_old x)) (map (print_line (in_rule x)) (in_new x))
      = Some ["undo port trunk allow-pass vlan all"] /\
    P_C11 x (Some ["undo port trunk allow-pass vlan all"]) = false.
Proof. exists (k_trunk, f3_old, f3_new). vm_compute. repeat split. Qed.
Print Assumptions C11_undo_all_refuted_text.

(* non-vacuity: the guard admits multi-line lists with unchanged, removed and edited lines,
   and the repaired model emits the expected rows *)
Example C11_example_wf : wf_C11 (k_trunk, f3_old, f3_new) = true.
Proof. vm_compute. reflexivity. Qed.

Example C11_example_repaired :
  model_rows k_trunk (map (print_line k_trunk) f3_old) (map (print_line k_trunk) f3_new)
  = Some ["undo port trunk allow-pass vlan 40 50"].
Proof. vm_compute. reflexivity. Qed.

Definition k_sw := RK CiscoSwtrunk "switchport trunk allowed vlan" "no switchport trunk allowed vlan" false.
Example C11_example_cisco :
  let old := [(false, [(1, 10); (20, 20)]); (true, [(30, 30); (40, 41)])]%N in
  let new := [(false, [(1, 5); (20, 21)]); (true, [(30, 30); (40, 41)])]%N in
  wf_C11 (k_sw, old, new) = true /\
  model_struct k_sw old new = Some [Remove [(6, 10)]; Add [(21, 21)]]%N /\
  model_rows k_sw (map (print_line k_sw) old) (map (print_line k_sw) new)
  = Some ["no switchport trunk allowed vlan remove 6-10"; "switchport trunk allowed vlan add 21"].
Proof. vm_compute. repeat split. Qed.

Example C11_example_chunks :
  map (@List.length range) (chunked 10 (collapse true (set_of_ranges (map (fun i => (N.of_nat (2 * i), N.of_nat (2 * i))) (seq 1 25)))))
  = [10; 10; 5]%nat.
Proof. vm_compute. reflexivity. Qed.

(* ====================================================================================== *)
(* The Huawei global VLAN database: the VLANs of the device are the union of the `vlan batch`
   lines (any number of lines, any splitting) and of the `vlan N` blocks (with or without
   option rows).  Model: vlan_diff over default_diff, mark_unchanged, `multi` on the batch slot,
   common.default on the `vlan N` slots and on their option rows (Model/VlanDb.v).
   Guard blocks_follow_batch: a VLAN that has a block in the new configuration and was in the
   old batch is in the new batch too (always true of what a device prints; outside it the
   shipped code is refuted below). *)

(* inside the domain no assertion fires *)
Theorem C11_db_total :
  forall old new, wf_db (old, new) = true -> exists gs, db_struct old new = Some gs.
Proof. exact db_total. Qed.
Print Assumptions C11_db_total.

(* executing `vlan batch ...`, `undo vlan batch ...`, `vlan N` (block enter), `undo vlan N` in
   the emitted or in any other order on S_old = batch(old) + blocks(old) yields exactly
   S_new = batch(new) + blocks(new) *)
Theorem C11_db_final :
  forall old new, wf_db (old, new) = true -> blocks_follow_batch (old, new) = true ->
  forall gs, db_struct old new = Some gs ->
  forall gs', Permutation gs' gs ->
    NS.Equal (gsimulate gs' (Sdb_old (old, new))) (Sdb_new (old, new)).
Proof. intros old new WF G gs E gs' P. exact (db_final old new WF G gs gs' E P). Qed.
Print Assumptions C11_db_final.

(* and no VLAN of S_old & S_new is missing after any prefix of the commands, in any order *)
Theorem C11_db_no_transient_loss :
  forall old new, wf_db (old, new) = true -> blocks_follow_batch (old, new) = true ->
  forall gs, db_struct old new = Some gs ->
  forall gs' l1 l2, Permutation gs' gs -> gs' = (l1 ++ l2)%list ->
    NS.Subset (NS.inter (Sdb_old (old, new)) (Sdb_new (old, new))) (gsimulate l1 (Sdb_old (old, new))).
Proof. intros old new WF G gs E gs' l1 l2. exact (db_prefix old new WF G gs gs' l1 l2 E). Qed.
Print Assumptions C11_db_no_transient_loss.

(* the boolean predicate used on real outputs holds of the model's own commands *)
Theorem C11_db_holds :
  forall old new gs, wf_db (old, new) = true -> blocks_follow_batch (old, new) = true ->
    db_struct old new = Some gs -> gcmds_ok (old, new) gs = true.
Proof. exact holds_db_struct. Qed.
Print Assumptions C11_db_holds.

(* Without the guard the statement is false of the shipped code: VLAN 20 leaves `vlan batch`
   but the new configuration keeps it as a named block; the patch is `vlan 20 / name foo` and
   `undo vlan batch 20`, which wipes VLAN 20 (in S_old and in S_new).  Replayed on the real code
   by the check (corpus case, known finding). *)
Definition f4_old : dbcfg := ([(false, [(10, 10); (20, 20)])], [])%N.
Definition f4_new : dbcfg := ([(false, [(10, 10)])], [(20, ["name foo"])])%N.

Theorem C11_db_block_leaves_batch_refuted :
  exists x gs, wf_db x = true /\ db_struct (fst x) (snd x) = Some gs /\ gcmds_ok x gs = false /\
               db_rows (print_db (fst x)) (print_db (snd x))
               = Some [("undo vlan batch 20", []); ("vlan 20", ["name foo"])].
Proof.
  exists (f4_old, f4_new), [GBatch (Remove [(20, 20)]); GEnter 20 ["name foo"]]%N.
  vm_compute. repeat split.
Qed.
Print Assumptions C11_db_block_leaves_batch_refuted.

(* non-vacuity: 25 isolated VLANs wrapped over three `vlan batch` lines, VLAN 230 (second line)
   has a named block that disappears while 230 stays in the batch, VLAN 100 leaves, 4000 joins:
   inside the domain and the guard; the block is entered to undo the name, never removed *)
Definition iso25 : list range := map (fun i => (N.of_nat (100 + 10 * i), N.of_nat (100 + 10 * i))) (seq 0 25).
Definition nv_old : dbcfg :=
  (map (pair false) (chunked 10 iso25), [(230%N, ["name users"])]).
Definition nv_new : dbcfg :=
  (map (pair false) (chunked 10 (List.tl iso25 ++ [(4000, 4000)%N])), []).

Example C11_db_example :
  wf_db (nv_old, nv_new) = true /\ blocks_follow_batch (nv_old, nv_new) = true /\
  List.length (fst nv_new) = 3%nat /\
  db_rows (print_db nv_old) (print_db nv_new)
  = Some [("undo vlan batch 100", []); ("vlan batch 4000", []); ("vlan 230", ["undo name"])].
Proof. vm_compute. repeat split. Qed.

Example C11_db_example_guard_nonvacuous :
  let old : dbcfg := ([(false, [(10, 10); (20, 20)])], [(20, ["name a"])])%N in
  let new : dbcfg := ([(false, [(10, 10)]); (false, [(20, 20); (30, 30)])], [(20, ["name b"]); (40, [])])%N in
  wf_db (old, new) = true /\ blocks_follow_batch (old, new) = true /\
  db_struct old new = Some [GBatch (Add [(30, 30)]); GEnter 20 ["name b"]; GEnter 40 []]%N.
Proof. vm_compute. repeat split. Qed.

(* ====================================================================================== *)
(* The Cisco / Nexus global `vlan` rule with blocks: list rows (`vlan 1-10,20`) and blocks
   (`vlan 5` + option rows) live in one rule slot (cisco.vlandb.simple); the VLANs of the device
   are the union of all rows.  Model: Model/VlanCisco.v (AFFECTED blocks, old_blocks/new_blocks,
   the "block content removed but the VLAN stays" branch, hw.Catalyst, chunks of 15).
   Guard rows_disjoint: in the old configuration a VLAN is written on one row (Catalyst shape). *)

Theorem C11_cisco_blocks_final :
  forall catalyst old new, rows_disjoint (catalyst, old, new) = true ->
  forall gs, cisco_struct catalyst old new = Some gs ->
  forall gs', Permutation gs' gs ->
    NS.Equal (gsimulate gs' (Scdb_old (catalyst, old, new))) (Scdb_new (catalyst, old, new)).
Proof. intros c old new G gs E gs' P. exact (cisco_final c old new G gs gs' E P). Qed.
Print Assumptions C11_cisco_blocks_final.

Theorem C11_cisco_blocks_no_transient_loss :
  forall catalyst old new, rows_disjoint (catalyst, old, new) = true ->
  forall gs, cisco_struct catalyst old new = Some gs ->
  forall gs' l1 l2, Permutation gs' gs -> gs' = (l1 ++ l2)%list ->
    NS.Subset (NS.inter (Scdb_old (catalyst, old, new)) (Scdb_new (catalyst, old, new)))
              (gsimulate l1 (Scdb_old (catalyst, old, new))).
Proof. intros c old new G gs E gs' l1 l2. exact (cisco_prefix c old new G gs gs' l1 l2 E). Qed.
Print Assumptions C11_cisco_blocks_no_transient_loss.

Theorem C11_cisco_blocks_holds :
  forall catalyst old new gs, rows_disjoint (catalyst, old, new) = true ->
    cisco_struct catalyst old new = Some gs -> cgcmds_ok (catalyst, old, new) gs = true.
Proof. exact holds_cisco_struct. Qed.
Print Assumptions C11_cisco_blocks_holds.

(* Without the guard (what a Nexus prints: the VLAN of a block is also in the list row) the
   statement is false of the shipped code: the block `vlan 5 / name x` disappears, the list row
   `vlan 1-10` stays, the patch is `no vlan 5`: VLAN 5 (in S_old and in S_new) is removed.
   Replayed on the real code by the check (corpus case, known finding). *)
Definition f5_old : ccfg := [([(1, 10)], []); ([(5, 5)], ["name x"])]%N.
Definition f5_new : ccfg := [([(1, 10)], [])]%N.

Theorem C11_cisco_block_removed_refuted :
  exists x gs, wf_cdb x = true /\ cisco_struct (cdb_cat x) (cdb_old x) (cdb_new x) = Some gs /\
               cgcmds_ok x gs = false /\
               cisco_rows (cdb_cat x) (print_ccfg (cdb_old x)) (print_ccfg (cdb_new x)) = Some [("no vlan 5", [])].
Proof. exists (false, f5_old, f5_new), [GBatch (Remove [(5, 5)])]%N. vm_compute. repeat split. Qed.
Print Assumptions C11_cisco_block_removed_refuted.

(* non-vacuity of the guard: Catalyst shape, the block of VLAN 5 loses its name and VLAN 5 moves
   into the list row, VLAN 20 gets a block *)
Example C11_cisco_blocks_example :
  let old : ccfg := [([(1, 4); (6, 10)], []); ([(5, 5)], ["name x"])]%N in
  let new : ccfg := [([(1, 10)], []); ([(20, 20)], ["name y"])]%N in
  wf_cdb (true, old, new) = true /\ rows_disjoint (true, old, new) = true /\
  cisco_rows true (print_ccfg old) (print_ccfg new)
  = Some [("vlan 5", ["no name"]); ("vlan 20", ["name y"])].
Proof. vm_compute. repeat split. Qed.

(* ====================================================================================== *)
(* TEXT LEVEL.  The theorems above are about structured inputs (lines = range lists) and commands
   as set effects.  The theorems below tie them to TEXT for all inputs: range lists and lines are
   printed to rows, annet's own readers (_parse_vlancfg, lib.*_expand_vlandb) are run on the rows,
   the emitted command rows are read back by the device reader parse_cmd.
   Domain of the rule texts: rule_text_ok k (Spec/P_C11Text.v), true of every shipped rule kind. *)
From Annet Require Import Spec.P_C11Text Proofs.VlanTextLib Proofs.VlanTextRanges Proofs.VlanTextLines
     Proofs.VlanTextStruct Proofs.VlanTextMore Proofs.VlanStepProofs Proofs.VlanDbText Proofs.VlanCiscoText.
Open Scope list_scope.

Example C11_shipped_rule_texts_ok : forallb rule_text_ok shipped_kinds = true.
Proof. vm_compute. reflexivity. Qed.

(* print / parse round trip of a range list, both syntaxes, no condition on the ranges *)
Theorem C11_print_parse :
  forall rs,
  hw_parse_ranges (words (join_with " " (map hw_range_str rs))) = Some rs /\
  (rs <> [] -> cisco_parse_ranges (join_with "," (map cisco_range_str rs)) = Some rs).
Proof. intro rs. split; [apply hw_print_parse_ranges|apply cisco_print_parse_ranges]. Qed.
Print Assumptions C11_print_parse.

(* annet's expanders on the printed text give the set the ranges denote (ranges lo <= hi) *)
Theorem C11_expand_print :
  forall rs, forallb range_ok rs = true ->
  (exists s, hw_expand (join_with " " (map hw_range_str rs)) = Some s /\ NS.Equal s (set_of_ranges rs)) /\
  (rs <> [] ->
   exists s, cisco_expand (join_with "," (map cisco_range_str rs)) = Some s /\ NS.Equal s (set_of_ranges rs)).
Proof.
  intros rs H. apply ranges_ok_forallb in H. split; [now apply hw_expand_print|].
  intro Hne. now apply cisco_expand_print.
Qed.
Print Assumptions C11_expand_print.

(* expand(print(chunk)) for every chunk of collapse(S), any chunk length, both syntaxes; together
   with C11_expand_collapse (the chunks' sets make up S) this is expand(collapse(S)) = S on text *)
Theorem C11_expand_collapse_text :
  forall tiny chunk_len s c, In c (chunked (S chunk_len) (collapse tiny s)) ->
  (exists sh, hw_expand (join_with " " (map hw_range_str c)) = Some sh /\ NS.Equal sh (set_of_ranges c)) /\
  (exists sc, cisco_expand (join_with "," (map cisco_range_str c)) = Some sc /\ NS.Equal sc (set_of_ranges c)).
Proof. exact expand_print_chunk. Qed.
Print Assumptions C11_expand_collapse_text.

(* annet's _parse_vlancfg on a printed configuration line: the rule's prefix and the line's set *)
Theorem C11_parse_line :
  forall k l, rule_text_ok k = true -> line_ok k l = true ->
  exists s, (if is_hw (rk_logic k) then hw_parse_vlancfg else cisco_parse_vlancfg) (print_line k l)
            = Some (rk_prefix k, s) /\ NS.Equal s (set_of_ranges (snd l)).
Proof. intros k l T H. exact (parse_line k T l H). Qed.
Print Assumptions C11_parse_line.

(* the device reader of configuration rows inverts the line printer (so printing is injective) *)
Theorem C11_read_print_line :
  forall k l, line_ok k l = true -> read_line k (print_line k l) = Some l.
Proof. exact read_print_line. Qed.
Print Assumptions C11_read_print_line.

(* the device reader of command rows inverts the command printer on every emittable command *)
Theorem C11_parse_print_cmd :
  forall k c, rule_text_ok k = true -> emittable k c = true ->
  parse_cmd k (print_cmd k (rk_prefix k) (rk_prefix k) c) = Some c.
Proof. intros k c T H. exact (parse_print_cmd k T c H). Qed.
Print Assumptions C11_parse_print_cmd.

(* every command of the structured model is emittable *)
Theorem C11_model_cmds_emittable :
  forall k old new cs, wf_C11 (k, old, new) = true -> model_struct k old new = Some cs ->
  forallb (emittable k) cs = true.
Proof. intros k old new cs W E. exact (model_cmds_emittable k old new W cs E). Qed.
Print Assumptions C11_model_cmds_emittable.

(* struct_is_text PROVED: the text-level model (row diff by text, _parse_vlancfg_actions on the
   added / removed rows, _process_vlandb, command printing with the parsed prefixes) is the
   structured model composed with the printers, for every input of the domain *)
Theorem C11_struct_is_text :
  forall k old new, rule_text_ok k = true -> wf_C11 (k, old, new) = true ->
  model_rows k (map (print_line k) old) (map (print_line k) new)
  = option_map (map (print_cmd k (rk_prefix k) (rk_prefix k))) (model_struct k old new).
Proof. intros k old new T W. exact (struct_is_text_wf k T old new W). Qed.
Print Assumptions C11_struct_is_text.

(* and the predicate used on real outputs holds of the text-level model's own rows *)
Theorem C11_rows_holds :
  forall k old new, rule_text_ok k = true -> wf_C11 (k, old, new) = true ->
  P_C11 (k, old, new) (model_rows k (map (print_line k) old) (map (print_line k) new)) = true.
Proof. intros k old new T W. exact (rows_holds k T old new W). Qed.
Print Assumptions C11_rows_holds.

(* C11_total / C11_final / C11_no_transient_loss over configuration ROWS (strings; totality = `exists out`).
   rows_wf k ro rn: the rows are in the printer's range and the lines read from them are in wf_C11;
   rows_set k rows: the VLAN set the rows denote on the device.  The emitted rows, in any order, are
   readable as commands; executed on rows_set(old) they give exactly rows_set(new) and no prefix
   drops a VLAN of both. *)
Theorem C11_rows_final :
  forall k ro rn, rows_wf k ro rn = true ->
  exists out, model_rows k ro rn = Some out /\
  forall out', Permutation out' out ->
  exists cs', parse_cmds k out' = Some cs' /\
              NS.Equal (simulate cs' (rows_set k ro)) (rows_set k rn).
Proof.
  intros k ro rn H. destruct (rows_main k ro rn H) as (out & E & G). exists out. split; [exact E|].
  intros out' P. destruct (G out' P) as (cs' & Ep & Hf & _). now exists cs'.
Qed.
Print Assumptions C11_rows_final.

Theorem C11_rows_no_transient_loss :
  forall k ro rn, rows_wf k ro rn = true ->
  exists out, model_rows k ro rn = Some out /\
  forall out', Permutation out' out ->
  exists cs', parse_cmds k out' = Some cs' /\
    forall l1 l2, cs' = (l1 ++ l2)%list ->
      NS.Subset (NS.inter (rows_set k ro) (rows_set k rn)) (simulate l1 (rows_set k ro)).
Proof.
  intros k ro rn H. destruct (rows_main k ro rn H) as (out & E & G). exists out. split; [exact E|].
  intros out' P. destruct (G out' P) as (cs' & Ep & _ & Hp). now exists cs'.
Qed.
Print Assumptions C11_rows_no_transient_loss.

(* the domain over rows is exactly the printer's range of wf_C11 *)
Theorem C11_rows_domain :
  (forall k old new, rule_text_ok k = true -> wf_C11 (k, old, new) = true ->
     rows_wf k (map (print_line k) old) (map (print_line k) new) = true) /\
  (forall old new, wf_db (old, new) = true -> db_rows_wf (print_db old) (print_db new) = true) /\
  (forall catalyst old new, wf_cdb (catalyst, old, new) = true ->
     cdb_rows_wf (print_ccfg old) (print_ccfg new) = true).
Proof. split; [exact rows_wf_print|]. split; [exact db_rows_wf_print|exact cdb_rows_wf_print]. Qed.
Print Assumptions C11_rows_domain.

(* S_old / S_new of the rows theorems are what annet itself reads from the rows *)
Theorem C11_rows_set_is_parsed :
  forall k ro rn, rows_wf k ro rn = true ->
  forall rows, rows = ro \/ rows = rn ->
  exists p s, parse_actions (if is_hw (rk_logic k) then hw_parse_vlancfg else cisco_parse_vlancfg)
                            rows None NS.empty = Some (p, s) /\
              NS.Equal s (rows_set k rows) /\ (rows <> [] -> p = Some (rk_prefix k)).
Proof. exact rows_set_is_parsed. Qed.
Print Assumptions C11_rows_set_is_parsed.

(* non-vacuity: concrete rows of the shipped trunk rule (three lines, one removed, one edited) and
   of the Cisco rule (add form) are in the domain; the emitted rows *)
Example C11_rows_example_hw :
  let ro := ["port trunk allow-pass vlan 10 to 20 30"; "port trunk allow-pass vlan 40 50";
             "port trunk allow-pass vlan 100 to 110"] in
  let rn := ["port trunk allow-pass vlan 10 to 20 30"; "port trunk allow-pass vlan 100 to 105 120"] in
  rows_wf k_trunk ro rn = true /\
  model_rows k_trunk ro rn = Some ["undo port trunk allow-pass vlan 40 50 106 to 110";
                                   "port trunk allow-pass vlan 120"].
Proof. vm_compute. split; reflexivity. Qed.

Example C11_rows_example_cisco :
  let ro := ["switchport trunk allowed vlan 1-10,20"; "switchport trunk allowed vlan add 30,40-41"] in
  let rn := ["switchport trunk allowed vlan 1-5,20-21"; "switchport trunk allowed vlan add 30,40-41"] in
  rows_wf k_sw ro rn = true /\
  model_rows k_sw ro rn = Some ["no switchport trunk allowed vlan remove 6-10";
                                "switchport trunk allowed vlan add 21"].
Proof. vm_compute. split; reflexivity. Qed.

(* ====================================================================================== *)
(* Device semantics of the commands (Model.Vlan.step, Model.VlanDb.effect) are definitions of the
   property.  Sanity theorems: *)

(* a VLAN the command does not name is left as it was; the named ones are decided by the command *)
Theorem C11_step_frame_idempotent :
  (forall c t s v, touched c = Some t -> ~ NS.In v t -> (NS.In v (step c s) <-> NS.In v s)) /\
  (forall c s, NS.Equal (step c (step c s)) (step c s)) /\
  (forall c s s', NS.Equal s s' -> NS.Equal (step c s) (step c s')).
Proof. split; [exact step_frame|]. split; [exact step_idem|exact step_equal]. Qed.
Print Assumptions C11_step_frame_idempotent.

(* a command followed by its inverse restores the set when the command changed exactly the VLANs
   it names (added VLANs were absent / removed VLANs were present) *)
Theorem C11_step_inverse :
  forall c c' t s, inverse c = Some c' -> touched c = Some t ->
  (match c with Add _ => NS.Empty (NS.inter s t) | _ => NS.Subset t s end) ->
  NS.Equal (step c' (step c s)) s.
Proof. exact step_inverse. Qed.
Print Assumptions C11_step_inverse.

(* commands naming disjoint VLAN sets commute; a list of pairwise disjoint commands can be
   executed in any order *)
Theorem C11_step_commute :
  (forall c1 c2 t1 t2 s, touched c1 = Some t1 -> touched c2 = Some t2 -> NS.Empty (NS.inter t1 t2) ->
     NS.Equal (step c1 (step c2 s)) (step c2 (step c1 s))) /\
  (forall cs cs', Permutation cs cs' -> ForallOrdPairs disjoint_cmds cs ->
     forall s, NS.Equal (simulate cs s) (simulate cs' s)).
Proof. split; [exact step_commute|exact simulate_perm_disjoint]. Qed.
Print Assumptions C11_step_commute.

(* `undo ... vlan all` / `undo instance N` / `... vlan none` = removal of the whole current set,
   however it is written; replace = clear then add; a whole-list command does NOT commute with an
   add (why the model must emit it alone) *)
Theorem C11_undo_all_is_removal_of_current :
  forall tiny s, NS.Equal (step RemoveAll s) (step (Remove (collapse tiny s)) s) /\
                 NS.Equal (step SetNone s) (step RemoveAll s) /\
                 (forall rs, NS.Subset s (set_of_ranges rs) -> NS.Equal (step RemoveAll s) (step (Remove rs) s)).
Proof.
  intros tiny s. split; [apply step_remove_all_collapse|]. split; [apply step_none_is_remove_all|].
  intros rs H. now apply step_remove_all_cover.
Qed.
Print Assumptions C11_undo_all_is_removal_of_current.

Theorem C11_whole_list_commands :
  (forall rs s, NS.Equal (step (SetTo rs) s) (simulate [RemoveAll; Add rs] s)) /\
  (exists rs s, ~ NS.Equal (step RemoveAll (step (Add rs) s)) (step (Add rs) (step RemoveAll s))).
Proof. split; [exact step_set_to|exact remove_all_add_not_commute]. Qed.
Print Assumptions C11_whole_list_commands.

(* VLAN database: entering a block creates the VLAN, `undo vlan N` wipes it, they are inverse on a
   VLAN that was absent / present, and commands on different VLANs commute *)
Theorem C11_block_enter_undo :
  forall n kids s,
  NS.In n (gsimulate [GEnter n kids] s) /\ ~ NS.In n (gsimulate [GUndo n] s) /\
  (~ NS.In n s -> NS.Equal (gsimulate [GEnter n kids; GUndo n] s) s) /\
  (NS.In n s -> NS.Equal (gsimulate [GUndo n; GEnter n kids] s) s) /\
  (forall m, n <> m -> NS.Equal (gsimulate [GEnter n kids; GUndo m] s) (gsimulate [GUndo m; GEnter n kids] s)).
Proof.
  intros n kids s. split; [apply enter_creates|]. split; [apply undo_wipes|].
  split; [apply enter_undo|]. split; [apply undo_enter|]. intros m H. now apply block_cmds_commute.
Qed.
Print Assumptions C11_block_enter_undo.

(* ====================================================================================== *)
(* Huawei VLAN database, text level *)

(* struct_is_text_db PROVED: split of the top-level rows between the two rules, batch_new read by
   _parse_vlancfg from every `vlan batch` row, `multi` on the batch rows, block commands *)
Theorem C11_db_struct_is_text :
  forall old new, wf_db (old, new) = true ->
  db_rows (print_db old) (print_db new) = option_map (map print_gcmd) (db_struct old new).
Proof. exact db_struct_is_text. Qed.
Print Assumptions C11_db_struct_is_text.

(* C11_db_final / C11_db_no_transient_loss over the top-level ROWS of the two configurations *)
Theorem C11_db_rows_final :
  forall ro rn, db_rows_wf ro rn = true -> db_rows_guard ro rn = true ->
  exists out, db_rows ro rn = Some out /\
  forall out', Permutation out' out ->
  exists gs', parse_gcmds out' = Some gs' /\
              NS.Equal (gsimulate gs' (db_rows_set ro)) (db_rows_set rn).
Proof.
  intros ro rn H G. destruct (db_rows_main ro rn H G) as (out & E & K). exists out. split; [exact E|].
  intros out' P. destruct (K out' P) as (gs' & Ep & Hf & _). now exists gs'.
Qed.
Print Assumptions C11_db_rows_final.

Theorem C11_db_rows_no_transient_loss :
  forall ro rn, db_rows_wf ro rn = true -> db_rows_guard ro rn = true ->
  exists out, db_rows ro rn = Some out /\
  forall out', Permutation out' out ->
  exists gs', parse_gcmds out' = Some gs' /\
    forall l1 l2, gs' = (l1 ++ l2)%list ->
      NS.Subset (NS.inter (db_rows_set ro) (db_rows_set rn)) (gsimulate l1 (db_rows_set ro)).
Proof.
  intros ro rn H G. destruct (db_rows_main ro rn H G) as (out & E & K). exists out. split; [exact E|].
  intros out' P. destruct (K out' P) as (gs' & Ep & _ & Hp). now exists gs'.
Qed.
Print Assumptions C11_db_rows_no_transient_loss.

Theorem C11_db_rows_holds :
  forall old new, wf_db (old, new) = true -> blocks_follow_batch (old, new) = true ->
  P_C11_db (old, new) (db_rows (print_db old) (print_db new)) = true.
Proof. exact db_rows_holds. Qed.
Print Assumptions C11_db_rows_holds.

Example C11_db_rows_example :
  let ro := [("vlan batch 10 20 30 to 35", []); ("vlan 20", ["name a"])] in
  let rn := [("vlan batch 10", []); ("vlan batch 20 30 to 32 40", []); ("vlan 20", ["name b"]); ("vlan 50", [])] in
  db_rows_wf ro rn = true /\ db_rows_guard ro rn = true /\
  db_rows ro rn = Some [("undo vlan batch 33 to 35", []); ("vlan batch 40", []);
                        ("vlan 20", ["name b"]); ("vlan 50", [])].
Proof. vm_compute. repeat split. Qed.

(* ====================================================================================== *)
(* Cisco / Nexus global `vlan` rule with blocks: totality and text level *)

(* inside the domain no assertion of the block logic fires *)
Theorem C11_cisco_blocks_total :
  forall catalyst old new, wf_cdb (catalyst, old, new) = true ->
  exists gs, cisco_struct catalyst old new = Some gs.
Proof. exact cisco_total. Qed.
Print Assumptions C11_cisco_blocks_total.

(* struct_is_text_cdb PROVED (row diff by row text, _parse_vlancfg on every row, the id of a block
   read from the parsed set) *)
Theorem C11_cisco_struct_is_text :
  forall catalyst old new, wf_cdb (catalyst, old, new) = true ->
  cisco_rows catalyst (print_ccfg old) (print_ccfg new)
  = option_map (map (print_cgcmd catalyst)) (cisco_struct catalyst old new).
Proof. exact cisco_struct_is_text. Qed.
Print Assumptions C11_cisco_struct_is_text.

(* hence the three booleans the correspondence run evaluates (struct_is_text, _db, _cdb) are true on
   every case: they are now regression tests of proved statements *)
Theorem C11_struct_is_text_preds :
  (forall k old new g y, rule_text_ok k = true -> struct_is_text (((k, old, new), g), y) = true) /\
  (forall old new g y, struct_is_text_db (((old, new), g), y) = true) /\
  (forall catalyst old new g y, struct_is_text_cdb (((catalyst, old, new), g), y) = true).
Proof.
  split; [|split].
  - intros k old new g y T. destruct (wf_C11 (k, old, new)) eqn:W.
    + exact (struct_is_text_true k T old new W g y).
    + unfold struct_is_text. cbn [fst snd]. now rewrite W.
  - intros old new g y. destruct (wf_db (old, new)) eqn:W.
    + now apply db_struct_is_text_true.
    + unfold struct_is_text_db. cbn [fst snd]. now rewrite W.
  - intros c old new g y. destruct (wf_cdb (c, old, new)) eqn:W.
    + now apply cisco_struct_is_text_true.
    + unfold struct_is_text_cdb. cbn [fst snd]. now rewrite W.
Qed.
Print Assumptions C11_struct_is_text_preds.

(* the readers the case files use on the rows given to the implementation invert the printers *)
Theorem C11_config_parse_print :
  (forall c, dbcfg_ok c = true -> parse_db (print_db c) = Some c) /\
  (forall c, ccfg_ok c = true -> parse_ccfg (print_ccfg c) = Some c).
Proof.
  split.
  - intros c H. apply parse_print_db. exact (config_ok_lines k_batch _ (dbcfg_ok_lines c H)).
  - intros c H. apply parse_print_ccfg. now apply ccfg_ok_rows.
Qed.
Print Assumptions C11_config_parse_print.

(* the two block theorems over the ROWS of the two configurations, Catalyst or not *)
Theorem C11_cisco_rows_final :
  forall catalyst ro rn, cdb_rows_wf ro rn = true -> cdb_rows_guard ro rn = true ->
  exists out, cisco_rows catalyst ro rn = Some out /\
  forall out', Permutation out' out ->
  exists gs', parse_cgcmds out' = Some gs' /\
              NS.Equal (gsimulate gs' (cdb_rows_set ro)) (cdb_rows_set rn).
Proof.
  intros c ro rn H G. destruct (cdb_rows_main c ro rn H G) as (out & E & K). exists out. split; [exact E|].
  intros out' P. destruct (K out' P) as (gs' & Ep & Hf & _). now exists gs'.
Qed.
Print Assumptions C11_cisco_rows_final.

Theorem C11_cisco_rows_no_transient_loss :
  forall catalyst ro rn, cdb_rows_wf ro rn = true -> cdb_rows_guard ro rn = true ->
  exists out, cisco_rows catalyst ro rn = Some out /\
  forall out', Permutation out' out ->
  exists gs', parse_cgcmds out' = Some gs' /\
    forall l1 l2, gs' = (l1 ++ l2)%list ->
      NS.Subset (NS.inter (cdb_rows_set ro) (cdb_rows_set rn)) (gsimulate l1 (cdb_rows_set ro)).
Proof.
  intros c ro rn H G. destruct (cdb_rows_main c ro rn H G) as (out & E & K). exists out. split; [exact E|].
  intros out' P. destruct (K out' P) as (gs' & Ep & _ & Hp). now exists gs'.
Qed.
Print Assumptions C11_cisco_rows_no_transient_loss.

Theorem C11_cisco_rows_holds :
  forall catalyst old new, wf_cdb (catalyst, old, new) = true -> rows_disjoint (catalyst, old, new) = true ->
  P_C11_cdb (catalyst, old, new) (cisco_rows catalyst (print_ccfg old) (print_ccfg new)) = true.
Proof. exact cdb_rows_holds. Qed.
Print Assumptions C11_cisco_rows_holds.

Example C11_cisco_rows_example :
  let ro := [("vlan 1-4,6-10", []); ("vlan 5", ["name x"])] in
  let rn := [("vlan 1-10", []); ("vlan 20", ["name y"])] in
  cdb_rows_wf ro rn = true /\ cdb_rows_guard ro rn = true /\
  cisco_rows true ro rn = Some [("vlan 5", ["no name"]); ("vlan 20", ["name y"])].
Proof. vm_compute. repeat split. Qed.
