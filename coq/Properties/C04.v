(* C04 — property theorems only.  Proofs live in Proofs/JoinProofs.v, CiscoProofs.v, RosPaths.v, RosProofs.v. *)
From Coq Require Import List String Bool Arith.
From Annet Require Import Base.Str Base.Tree Model.Offside Gen.Src_vendors Model.Join Spec.P_C04 Proofs.JoinProofs
                          Proofs.CiscoProofs Proofs.RosProofs.
Import ListNotations.
Open Scope string_scope.

(* ---------- the vendor table re-read from the repository on this run ---------- *)

(* every registered vendor's formatter is one the model knows (class chain, which class defines join / split /
   _blocks / blocks_and_context / _formatted_blocks, regex sources of _sub_regexs, policy-end tables) *)
Theorem C04_table_understood :
  forallb (fun v => match family v with Some _ => true | None => false end) vendors = true.
Proof. vm_compute. reflexivity. Qed.
Print Assumptions C04_table_understood.

(* ... and it is the table the property is stated over (Spec/P_C04.v spec_family): same formatter family, same
   delimiter words for every one of the 14 vendors *)
Theorem C04_table_as_specified :
  map family vendors = map (fun v => spec_family (v_name v)) vendors /\
  forallb (fun n => match find_vendor n with Some _ => true | None => false end) spec_vendors = true /\
  List.length vendors = List.length spec_vendors.
Proof. vm_compute. auto. Qed.
Print Assumptions C04_table_as_specified.

(* ---------- Tier A ---------- *)

(* plain-indent family, any split kind of the table: any indent of >= 1 blanks, any depth, any forest with unique
   sibling rows whose rows satisfy the split's wf_row: split(join(t)) are the printed lines and they parse to t *)
Theorem C04_plain :
  forall (sk : splitk) (ind : string) (f : forest),
    wf_indent ind = true -> wfb f = true -> all_rows (wf_row_plain sk) f = true ->
    plain_side sk = true -> all_rows (plain_guard_row sk) f = true ->
    parse_f (FPlain sk) ind (join_plain ind f) = Some (Ok f).
Proof. intros sk ind f Hi Hw. apply parse_plain; [exact Hi|apply wfb_wf; exact Hw]. Qed.
Print Assumptions C04_plain.

(* brace family (Juniper, Ribbon; Nokia with its configure wrapper) *)
Theorem C04_brace :
  forall (b : brace) (p : subre) (w : option string) (ind : string) (f : forest),
    wf_C04_family (FBrace b p w) ind f = true ->
    exists text, join_f (FBrace b p w) ind f = Some text /\ parse_f (FBrace b p w) ind text = Some (Ok f).
Proof.
  intros b p w ind f W.
  destruct (family_roundtrip (FBrace b p w) ind f I W eq_refl) as (text & E).
  unfold run_family in E. destruct (join_f (FBrace b p w) ind f) as [t|]; [|discriminate].
  destruct (parse_f (FBrace b p w) ind t) as [[g|n r]|] eqn:P; try discriminate.
  injection E as -> -> _. exists text. auto.
Qed.
Print Assumptions C04_brace.

(* Cisco (Tier B): trees in which the block of every address-family row ends with the leaf row exit-address-family
   (what parsing a device config gives) round-trip, although split shifts those blocks one column to the right *)
Theorem C04_cisco_closed :
  forall (bexit : string) (tbl : list (list string * string)) (ind : string) (f : forest),
    wf_indent ind = true -> wfb f = true -> all_rows (wf_row_plain (SkCisco bexit tbl)) f = true ->
    cisco_closed bexit tbl f = true ->
    parse_f (FPlain (SkCisco bexit tbl)) ind (join_plain ind f) = Some (Ok f).
Proof. intros bexit tbl ind f Hi Hw. apply parse_cisco_closed; [exact Hi|apply wfb_wf; exact Hw]. Qed.
Print Assumptions C04_cisco_closed.

(* RouterOS (Tier B) for the formatter that takes the section path from context.row: any nesting of section words,
   then leaf rows; any indent of >= 1 blanks; whether or not _formatted_blocks flushes its last line *)
Theorem C04_ros :
  forall (ind : string) (flush : bool) (f : forest),
    wf_indent ind = true -> wfb f = true -> ros_wf f = true ->
    exists L, split_ros ind ros_splitters (join_ros RosCtxSelf flush "/" ind f) = Some L /\
              parse_lines default_comments L = Ok f.
Proof. intros ind flush f Hi Hw. apply ros_roundtrip; [exact Hi|apply wfb_wf; exact Hw]. Qed.
Print Assumptions C04_ros.

(* fixed point: re-rendering the parsed text gives the same text (all three families) *)
Theorem C04_fixpoint :
  forall (fm : fam) (ind : string) (f : forest),
    wf_C04_family fm ind f = true -> guard_C04_family fm f = true ->
    exists text g, join_f fm ind f = Some text /\ parse_f fm ind text = Some (Ok g) /\ join_f fm ind g = Some text.
Proof.
  intros fm ind f W G. destruct (family_roundtrip_all fm ind f W G) as (text & E).
  unfold run_family in E. destruct (join_f fm ind f) as [t|] eqn:J; [|discriminate].
  destruct (parse_f fm ind t) as [[g|n r]|] eqn:P; try discriminate.
  injection E as -> -> E. exists text, f. rewrite J in E. auto.
Qed.
Print Assumptions C04_fixpoint.

(* the property predicate holds on the model's outcome for every one of the 14 vendors of the table, on the
   property's domain (wf_C04) inside the guards (guard_C04: Cisco rows with a non-default block exit; RouterOS
   sub-sections while the source takes the section path from context.parent) *)
Theorem C04_holds :
  forall (name ind : string) (f : forest),
    wf_C04 (name, ind, f) = true -> guard_C04 (name, ind, f) = true ->
    P_C04 (name, ind, f) (run_vendor name ind f) = true.
Proof.
  intros name ind f W G.
  destruct (find_vendor name) as [v|] eqn:Fv; [|unfold wf_C04, with_family in W; rewrite Fv in W; discriminate].
  destruct (find_vendor_In name v Fv) as [Hin Hn].
  pose proof (map_eq_In family (fun v => spec_family (v_name v)) vendors v (proj1 C04_table_as_specified) Hin) as E.
  cbv beta in E. rewrite Hn in E.
  destruct (spec_family name) as [fm|] eqn:Fs;
    [|unfold wf_C04, with_family in W; rewrite Fv, Fs in W; discriminate].
  exact (proj1 (vendor_roundtrip_all name ind f v fm Fv E Fs W G)).
Qed.
Print Assumptions C04_holds.

(* ---------- non-vacuity: concrete nested trees inside the guards ---------- *)

Definition ex_tree : forest :=
  [("interface Eth1", T [("description x y", T []); ("sub", T [("deep", T [("deeper", T [])])])]);
   ("exit", T []); ("router bgp 65000", T [("neighbor 10.0.0.2", T [("quit", T [])])])].

Example C04_example_domain :
  forallb (fun n => wf_C04 (n, " 	", ex_tree) && guard_C04 (n, " 	", ex_tree))
          ["huawei"; "h3c"; "optixtrans"; "cisco"; "nexus"; "iosxr"; "arista"; "aruba"; "b4com"; "juniper"; "ribbon";
           "nokia"; "pc"] = true.
Proof. vm_compute. reflexivity. Qed.

Definition ex_cisco : forest :=
  [("router bgp 1", T [("neighbor 10.0.0.2", T []);
                       ("address-family ipv4", T [("neighbor 10.0.0.2 activate", T []); ("exit-address-family", T [])]);
                       ("address-family ipv6", T [("exit-address-family", T [])]);
                       ("neighbor 10.9.9.9 shutdown", T [])]);
   ("interface Eth1", T [("mtu 9000", T [])])].

Example C04_example_cisco_closed :
  wf_C04 ("cisco", "  ", ex_cisco) && guard_C04 ("cisco", "  ", ex_cisco) = true.
Proof. vm_compute. reflexivity. Qed.

Definition ex_ros : forest :=
  [("user", T [("group", T [("set read name=read", T []); ("add name=nocmon", T [])]);
               ("add name=admin", T []); ("aaa", T [("set accounting=yes", T [])])]);
   ("ip", T [("address", T [("add a=1", T [])])])].

Example C04_example_ros_domain : wf_indent "    " && wfb ex_ros && ros_wf ex_ros = true.
Proof. vm_compute. reflexivity. Qed.

Example C04_example_ros_text :
  join_ros RosCtxSelf false "/" "  " ex_ros = "/user
/user group
    set read name=read
    add name=nocmon
/user
    add name=admin
/user aaa
    set accounting=yes
/ip
/ip address
    add a=1".
Proof. vm_compute. reflexivity. Qed.

(* sections holding only rows are inside the guard whichever context level the source uses *)
Example C04_example_ros_flat :
  wf_C04 ("routeros", "  ", [("user", T [("add name=admin", T []); ("add name=x", T [])]); ("snmp", T [("set a=b", T [])])])
  && guard_C04 ("routeros", "  ", [("user", T [("add name=admin", T []); ("add name=x", T [])]); ("snmp", T [("set a=b", T [])])])
  = true.
Proof. vm_compute. reflexivity. Qed.

Example C04_example_juniper_text :
  run_vendor "juniper" "    " [("a", T [("b", T [("c", T [])]); ("d", T [])]); ("e", T [])] =
  ORound "a {
    b {
        c;
    }
    d;
}
e;" (Ok [("a", T [("b", T [("c", T [])]); ("d", T [])]); ("e", T [])]) (Some "a {
    b {
        c;
    }
    d;
}
e;").
Proof. vm_compute. reflexivity. Qed.

(* ---------- what the guards exclude ---------- *)

(* the statement without the Cisco guard ... *)
Definition C04_unguarded_statement : Prop :=
  forall (name ind : string) (f : forest),
    wf_C04 (name, ind, f) = true -> P_C04 (name, ind, f) (run_vendor name ind f) = true.

(* ... is false: an address-family row followed by a sibling comes back as its parent (and with a block and a
   shallower line after it parse_to_tree raises) *)
Theorem C04_cisco_af_refuted :
  exists x, wf_C04 x = true /\ P_C04 x (run_vendor (fst (fst x)) (snd (fst x)) (snd x)) = false.
Proof. exists ("cisco", "  ", [("address-family ipv4", T []); ("f", T [])]). vm_compute. auto. Qed.
Print Assumptions C04_cisco_af_refuted.

Example C04_cisco_af_parser_error :
  run_vendor "cisco" "  " [("address-family ipv4", T [("x", T [])]); ("f", T [])] =
  ORound "address-family ipv4
  x
f" (Err 3 "f") None.
Proof. vm_compute. reflexivity. Qed.

(* RouterOS: with the section path taken from context.parent (the shipped code) a section inside a section is
   printed without its parent path and does not come back *)
Theorem C04_ros_parent_ctx_refuted :
  exists f, ros_wf f = true /\ wfb f = true /\
    match split_ros "  " ros_splitters (join_ros RosCtxParent false "/" "  " f) with
    | Some l => result_eqb (parse_lines default_comments l) (Ok f)
    | None => false
    end = false.
Proof. exists [("interface", T [("bridge", T [("add name=x", T [])])])]. vm_compute. auto. Qed.
Print Assumptions C04_ros_parent_ctx_refuted.
