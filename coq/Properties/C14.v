(* C14 — property theorems only.  Proofs live in Proofs/RplProofs.v.
   The model (Model/Rpl.v) is the hand model of annet/rpl_generators; [patched] is the tree
   with /verif/fixes/C14-*.patch applied, [faithful] the unchanged tree. *)
From Coq Require Import List String Bool Arith.
From Annet Require Import Base.Str Base.Tree Model.Rpl Spec.P_C14 Proofs.RplProofs.
Import ListNotations.
Open Scope string_scope.

(* (d) per action: for every vendor, every environment of entities and every action whose
   list references are type-correct (all list parameters universally quantified), an error
   comes with no line of that action. *)
Theorem C14_error_before_lines :
  forall (v : vendor) (e : env) (a : action) (er : err),
    wf_action e a = true ->
    snd (emit_action patched v e a) = Some er -> fst (emit_action patched v e a) = [].
Proof. exact action_error_before_lines. Qed.
Print Assumptions C14_error_before_lines.

(* (d) per match condition: no guard at all (holds on the unchanged tree as well: conditions
   do not depend on the repairs). *)
Theorem C14_error_before_lines_cond :
  forall (v : vendor) (e : env) (c : cond) (er : err),
    snd (emit_cond v e c) = Some er -> fst (emit_cond v e c) = [].
Proof. exact cond_error_before_lines'. Qed.
Print Assumptions C14_error_before_lines_cond.

(* The unchanged tree violates (d): witnesses replayed on the real generators by the check
   (harness/props/c14.py, exhaustive single-item programs). *)
Theorem C14_huawei_next_hop_refuted :
  exists a, partial_emission faithful Huawei env0 a.
Proof. eexists. exact hw_next_hop_refuted. Qed.
Print Assumptions C14_huawei_next_hop_refuted.

Theorem C14_huawei_as_path_refuted :
  exists a, partial_emission faithful Huawei env0 a.
Proof. eexists. exact hw_as_path_refuted. Qed.
Print Assumptions C14_huawei_as_path_refuted.

Theorem C14_huawei_extcommunity_refuted :
  partial_emission faithful Huawei env0 (AComm AFExt (Some ["RT1"; "SOO1"]) [] []) /\
  partial_emission faithful Huawei env0 (AComm AFExtSoo None ["SOO1"] ["SOO1"]).
Proof. split; [exact hw_extcommunity_refuted | exact hw_extcommunity_soo_refuted]. Qed.
Print Assumptions C14_huawei_extcommunity_refuted.

Theorem C14_arista_as_path_refuted :
  partial_emission faithful Arista env0 (AAsPath (Some ["1"; "2"]) [] [] ["3"] "").
Proof. exact ar_as_path_refuted. Qed.
Print Assumptions C14_arista_as_path_refuted.

Theorem C14_cumulus_refuted :
  partial_emission faithful Cumulus env0 (AAsPath None ["1"] ["3"] [] "") /\
  partial_emission faithful Cumulus env0 (AComm AFLarge None ["L1"] ["L1"]) /\
  partial_emission faithful Cumulus env0 (AComm AFExtRt None ["RT1"] ["RT1"]) /\
  partial_emission faithful Cumulus env0 (AComm AFExtSoo None ["SOO1"] ["SOO1"]).
Proof. repeat split; first [apply cu_as_path_refuted | apply cu_large_refuted | apply cu_ext_rt_refuted | apply cu_ext_soo_refuted]. Qed.
Print Assumptions C14_cumulus_refuted.

(* non-vacuity: guarded theorem has a non-trivial instance in its domain, erroring and not *)
Example C14_example_guard_met :
  wf_action env0 (AComm AFExt (Some ["RT1"; "SOO1"]) [] []) = true /\
  emit_action patched Huawei env0 (AComm AFExt (Some ["RT1"; "SOO1"]) [] []) = ([], Some ENotImpl) /\
  emit_action patched Huawei env0 (AComm AFExt None ["RT1"; "SOO1"] []) =
    ([["apply"; "extcommunity"; "rt"; "100:1"; "additive"]; ["apply"; "extcommunity"; "soo"; "100:2"; "additive"]], None).
Proof. vm_compute. repeat split. Qed.

Example C14_example_patched :
  emit_action patched Huawei env0 (ANextHop NHv4 "192.0.2.1") = ([["apply"; "ip-address"; "next-hop"; "192.0.2.1"]], None).
Proof. vm_compute. reflexivity. Qed.

(* (d) on whole streams: for every vendor and every well-formed program, in the run of every
   generator an error attributed to an item comes with no row tagged with that item. *)
From Annet Require Import Proofs.RplStream.
Theorem C14_stream_error_before_lines :
  forall (v : vendor) (g : prog), P_C14_d v g (model_obs patched v g) = true.
Proof. exact model_P_C14_d. Qed.
Print Assumptions C14_stream_error_before_lines.
