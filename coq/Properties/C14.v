(* C14 — placeholder while the correspondence is brought up *)
From Coq Require Import List String Bool Arith.
From Annet Require Import Base.Str Base.Tree Model.Rpl Spec.P_C14.
Import ListNotations.
Open Scope string_scope.
