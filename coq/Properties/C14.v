(* C14 — property theorems only.  Proofs live in Proofs/RplProofs.v.
   The model (Model/Rpl.v) is the hand model of annet/rpl_generators; [patched] is the tree
   with /verif/fixes/C14-*.patch applied, [faithful] the unchanged tree. *)
From Coq Require Import List String Bool Arith.
From Annet Require Import Base.Str Base.Tree Model.Rpl Spec.P_C14 Proofs.RplProofs.
Import ListNotations.
Open Scope string_scope.

(* (d) per action: for every vendor, every environment of entities and every action whose
   list references are type-correct (all list parameters universally quantified), an error
   comes with no line of that action. *)
Theorem C14_error_before_lines :
  forall (v : vendor) (e : env) (a : action) (er : err),
    wf_action e a = true ->
    snd (emit_action patched v e a) = Some er -> fst (emit_action patched v e a) = [].
Proof. exact action_error_before_lines. Qed.
Print Assumptions C14_error_before_lines.

(* (d) per match condition: no guard at all (holds on the unchanged tree as well: conditions
   do not depend on the repairs). *)
Theorem C14_error_before_lines_cond :
  forall (v : vendor) (e : env) (c : cond) (er : err),
    snd (emit_cond v e c) = Some er -> fst (emit_cond v e c) = [].
Proof. exact cond_error_before_lines'. Qed.
Print Assumptions C14_error_before_lines_cond.

(* The unchanged tree violates (d): witnesses replayed on the real generators by the check
   (harness/props/c14.py, exhaustive single-item programs). *)
Theorem C14_huawei_next_hop_refuted :
  exists a, partial_emission faithful Huawei env0 a.
Proof. eexists. exact hw_next_hop_refuted. Qed.
Print Assumptions C14_huawei_next_hop_refuted.

Theorem C14_huawei_as_path_refuted :
  exists a, partial_emission faithful Huawei env0 a.
Proof. eexists. exact hw_as_path_refuted. Qed.
Print Assumptions C14_huawei_as_path_refuted.

Theorem C14_huawei_extcommunity_refuted :
  partial_emission faithful Huawei env0 (AComm AFExt (Some ["RT1"; "SOO1"]) [] []) /\
  partial_emission faithful Huawei env0 (AComm AFExtSoo None ["SOO1"] ["SOO1"]).
Proof. split; [exact hw_extcommunity_refuted | exact hw_extcommunity_soo_refuted]. Qed.
Print Assumptions C14_huawei_extcommunity_refuted.

Theorem C14_arista_as_path_refuted :
  partial_emission faithful Arista env0 (AAsPath (Some ["1"; "2"]) [] [] ["3"] "").
Proof. exact ar_as_path_refuted. Qed.
Print Assumptions C14_arista_as_path_refuted.

Theorem C14_cumulus_refuted :
  partial_emission faithful Cumulus env0 (AAsPath None ["1"] ["3"] [] "") /\
  partial_emission faithful Cumulus env0 (AComm AFLarge None ["L1"] ["L1"]) /\
  partial_emission faithful Cumulus env0 (AComm AFExtRt None ["RT1"] ["RT1"]) /\
  partial_emission faithful Cumulus env0 (AComm AFExtSoo None ["SOO1"] ["SOO1"]).
Proof. repeat split; first [apply cu_as_path_refuted | apply cu_large_refuted | apply cu_ext_rt_refuted | apply cu_ext_soo_refuted]. Qed.
Print Assumptions C14_cumulus_refuted.

(* non-vacuity: guarded theorem has a non-trivial instance in its domain, erroring and not *)
Example C14_example_guard_met :
  wf_action env0 (AComm AFExt (Some ["RT1"; "SOO1"]) [] []) = true /\
  emit_action patched Huawei env0 (AComm AFExt (Some ["RT1"; "SOO1"]) [] []) = ([], Some ENotImpl) /\
  emit_action patched Huawei env0 (AComm AFExt None ["RT1"; "SOO1"] []) =
    ([["apply"; "extcommunity"; "rt"; "100:1"; "additive"]; ["apply"; "extcommunity"; "soo"; "100:2"; "additive"]], None).
Proof. vm_compute. repeat split. Qed.

Example C14_example_patched :
  emit_action patched Huawei env0 (ANextHop NHv4 "192.0.2.1") = ([["apply"; "ip-address"; "next-hop"; "192.0.2.1"]], None).
Proof. vm_compute. reflexivity. Qed.

(* (d) on whole streams: for every vendor and every well-formed program, in the run of every
   generator an error attributed to an item comes with no row tagged with that item. *)
From Annet Require Import Proofs.RplStream.
Theorem C14_stream_error_before_lines :
  forall (v : vendor) (g : prog), P_C14_d v g (model_obs patched v g) = true.
Proof. exact model_P_C14_d. Qed.
Print Assumptions C14_stream_error_before_lines.

(* ------------------------------------------------------------------------------------------
   (c) refs_defined.  Reading of rows = Model.Rpl.alpha (the reading P_refs applies to the real
   generators' output).  For every vendor and every well-formed program: when none of the list
   generators of the vendor raised, every (name space, name) a row of the policy generator refers
   to — also of a policy stream that stops with an error — is defined by a row of the prefix-list /
   community-list / as-path / RD generator fed the same inputs.  Names are derived by
   Model.Rpl.pfx_name (PrefixListNameGenerator.get_prefix: a bound equal to 0 counts as unset for the
   decision, but is printed) and Model.Rpl.mangle (the "_OR_" name keeps the order of the HAS_ANY
   arguments); both are compared with the real functions on every run (Spec/P_C14x.names_agree) and
   every row of the model is compared word for word with the real stream (agree_full).
   Guards (Spec/P_C14r.refs_guard, computable, evaluated on every generated case):
     - Arista: no used (united) list is called "regexp", no community VALUE is spelled
       "community-list" (the reading of a row cannot tell these command words from names);
     - Arista, Cumulus: one key of the dictionary of used lists stands for one union
       (refuted otherwise, below). *)
From Annet Require Import Spec.P_C14r Proofs.RplRefs Proofs.RplDefs.

Theorem C14_refs_defined :
  forall (fx : fixes) (v : vendor) (g : prog),
    wf_refs g = true -> refs_guard v g = true -> lists_ok v g = true ->
    subset_refs (refs v (policy_rows fx v g)) (defs v (lists_rows v g)) = true.
Proof. exact refs_defined_holds. Qed.
Print Assumptions C14_refs_defined.

(* wf_refs is the part of wf_prog that matters here (references resolve, type-correct, lists have
   members, one family per derived prefix-list name); entity names need not be unique *)
Theorem C14_refs_defined_wf_prog :
  forall (fx : fixes) (v : vendor) (g : prog),
    wf_prog g = true -> refs_guard v g = true -> lists_ok v g = true ->
    subset_refs (refs v (policy_rows fx v g)) (defs v (lists_rows v g)) = true.
Proof. exact refs_defined_holds_wf_prog. Qed.
Print Assumptions C14_refs_defined_wf_prog.

(* first half on its own, without wf_prog: a policy row refers to nothing but the declared uses of
   its condition / action (Spec/P_C14r.cond_uses, act_uses) *)
Theorem C14_refs_are_uses :
  forall (fx : fixes) (v : vendor) (g : prog) (toks : row) (x : ns * string),
    reserved_ok v g = true ->
    In toks (policy_rows fx v g) -> In x (refs1 v toks) -> In x (prog_uses v g).
Proof. exact policy_row_uses. Qed.
Print Assumptions C14_refs_are_uses.

(* non-vacuity: unsorted HAS_ANY arguments, bounds (0,24) and (0,0), every kind of reference *)
Definition c14_envx : env :=
  Env [CL "A" ["1:1"] BASIC LOR false; CL "B" ["2:2"; "3:3"] BASIC LAND false;
       CL "L1" ["1:2:3"] LARGE LOR false; CL "R1" ["100:1"] RT LAND false; CL "S1" ["100:2"] SOO LOR false;
       CL "A_OR_B" ["9:9:9"] LARGE LOR false; CL "E" [] BASIC LOR false]
      [PL "P4" false [PM "10.0.0.0" "8" None None]; PL "P6" true [PM "2001:db8::" "32" (Some 40) None]]
      [AF "AS1" [".*"; "65000"]] [RD "RD1" 7 ["1:1"]].
Definition c14_polx (v : vendor) : list policy :=
  [Pol "pol0"
     [St (Some 10) RAllow
         [CComm FCommunity HAS_ANY (match v with Huawei => "B" :: nil | _ => "B" :: "A" :: nil end);
          CComm FLarge HAS ["L1"]; CComm FExtRt HAS_ANY ["R1"]; CComm FExtSoo HAS ["S1"];
          CPrefix false ["P4"] (Some 0) (Some 24); CPrefix true ["P6"] (Some 0) (Some 0);
          CAsFilter "AS1"]
         [AComm AFCommunity None ["A"] ["B"]; AComm AFLarge (Some ["L1"]) [] []];
      St (Some 20) RNext (match v with Huawei => CRd HAS ("RD1" :: nil) :: nil | _ => nil end)
         [AComm AFExtRt None [] ["R1"]]]].

Example C14_refs_guard_met :
  forall v, let g := Prog c14_envx (c14_polx v) in
    wf_prog g = true /\ refs_guard v g = true /\ lists_ok v g = true /\
    8 <= List.length (refs v (policy_rows patched v g)).
Proof. intros v; destruct v; vm_compute; repeat split; repeat constructor. Qed.

(* duplicate entity names are inside the domain: the LAST list called "A" is the one defined *)
Example C14_refs_guard_met_duplicates :
  let e := Env (e_cl c14_envx ++ [CL "A" ["7:7"; "8:8"] BASIC LAND false]) (e_pl c14_envx) (e_af c14_envx) (e_rd c14_envx) in
  let g := Prog e (c14_polx Arista) in
  wf_prog g = false /\ wf_refs g = true /\ refs_guard Arista g = true /\ lists_ok Arista g = true /\
  In ["ip"; "community-list"; "A"; "permit"; "7:7"; "8:8"] (lists_rows Arista g).
Proof. vm_compute. repeat split. auto 10. Qed.

Example C14_refs_names_derived :
  refs Arista (policy_rows patched Arista (Prog c14_envx (c14_polx Arista))) =
  [(NsComm, "B_OR_A"); (NsLarge, "L1"); (NsExt, "R1"); (NsExt, "S1"); (NsPfx4, "P4_0_24"); (NsPfx6, "P6");
   (NsAsPath, "AS1"); (NsComm, "A"); (NsLarge, "L1")].
Proof. vm_compute. reflexivity. Qed.

(* The guard "one key, one union" is necessary, and the unchanged tree violates the property there
   (replayed on the real generators by the check, known/C14.json): HAS_ANY over the lists A, B next
   to a LARGE list literally called "A_OR_B" — `match community A_OR_B` is emitted and only
   `ip large-community-list A_OR_B` is defined, because the dictionary of used lists is keyed by the
   mangled name. *)
Definition c14_pol_collision : list policy :=
  [Pol "pol0" [St (Some 10) RAllow [CComm FCommunity HAS_ANY ["A"; "B"]] [];
               St (Some 20) RAllow [CComm FLarge HAS ["A_OR_B"]] []]].
Theorem C14_refs_united_name_collision_refuted :
  exists g, wf_prog g = true /\
    (forall v, v <> Huawei -> reserved_ok v g = true /\ lists_ok v g = true /\
               subset_refs (refs v (policy_rows patched v g)) (defs v (lists_rows v g)) = false).
Proof.
  exists (Prog c14_envx c14_pol_collision). split; [vm_compute; reflexivity|].
  intros v Hv; destruct v; [congruence| |]; vm_compute; repeat split.
Qed.
Print Assumptions C14_refs_united_name_collision_refuted.

(* wf_prog's "a referenced list has members" is necessary too: a list without members is referenced
   by name and no row defines it (Huawei, Cumulus: one row per member; Arista: community lists) *)
Theorem C14_refs_empty_list_refuted :
  exists g, forall v, wf_refs g = false /\ refs_guard v g = true /\ lists_ok v g = true /\
    subset_refs (refs v (policy_rows patched v g)) (defs v (lists_rows v g)) = false.
Proof.
  exists (Prog c14_envx [Pol "pol0" [St (Some 10) RAllow [CComm FCommunity HAS ["E"]] []]]).
  intros v; destruct v; vm_compute; repeat split.
Qed.
Print Assumptions C14_refs_empty_list_refuted.

(* ------------------------------------------------------------------------------------------
   (a) acl_covered.  The ACL texts are read from the acl_huawei / acl_arista methods of the five
   generator classes by harness/translators/tr_rpl.py on every run (Gen/Src_rpl.v; fail closed).
   Coverage is the C06 model: Model.Acl.p_acl_covers_path on compile_acl of that text ("a row with
   this path from the top is passed by apply_acl"), the row text being the tokens joined by blanks.
   For Huawei and Arista (Cumulus is a text generator without ACL), for every program — no guard,
   names and members may be any strings — every row of every generator of run_all, also of a stream
   that stops with an error, faithful or patched, is covered by that generator's own ACL:
   huawei community lists basic/advanced x community / extcommunity rt / soo / large, arista
   community / extcommunity / large-community lists with and without regexp, prefix lists (arista:
   block header and seq children), as-path, rd, and every condition / action row of the policy
   generators under the statement header. *)
From Annet Require Import Model.Acl Gen.Src_rpl Proofs.RplAcl Spec.P_C14a.

Theorem C14_acl_covered :
  forall (fx : fixes) (v : vendor) (g : prog) (n : gname) (o : gout) (r : mrow),
    v <> Cumulus -> In (n, o) (run_all fx v g) -> In r (fst o) ->
    exists av a, own_acl v n = Some (av, a) /\ mrow_covered av a r = true.
Proof.
  intros fx v g n o r Hv Hin Hr. destruct v; [| |congruence]; cbn in Hin;
    repeat (destruct Hin as [Hin|Hin]; [injection Hin as <- <-|]); try destruct Hin;
    do 2 eexists; (split; [reflexivity|]).
  - eapply hw_policy_covered; eauto.
  - eapply hw_prefix_covered; eauto.
  - eapply hw_comm_covered; eauto.
  - eapply hw_aspath_covered; eauto.
  - eapply hw_rd_covered; eauto.
  - eapply ar_policy_covered; eauto.
  - eapply ar_prefix_covered; eauto.
  - eapply ar_comm_covered; eauto.
  - eapply ar_aspath_covered; eauto.
Qed.
Print Assumptions C14_acl_covered.

(* the word-level cover used in the proofs is sound for the C06 model *)
Theorem C14_wcover_sound :
  forall av, av_juniper av = false -> forall path rs,
    wcover av rs (map words path) = true -> p_acl_covers_path av rs path = true.
Proof. exact wcover_sound. Qed.
Print Assumptions C14_wcover_sound.

(* teeth: a row is not covered once its line is taken out of the ACL (the former Arista defect) *)
Example C14_acl_large_community_needs_its_line :
  let r := MR [] ["ip"; "large-community-list"; "X"; "permit"; "1:2:3"] false None in
  mrow_covered av_arista acl_community_arista r = true /\
  mrow_covered av_arista (acl_without "ip large-community-list" acl_community_arista) r = false.
Proof. exact large_community_needs_its_line. Qed.

(* ================================================================ generator objects run more than once *)

(* "A generator's output depends only on its inputs, not on earlier runs" (Spec/P_C14h.v).  The model is a
   function of (vendor, program); a Python generator object is run again for the next device
   (PartialGenerator.__call__ re-initialises _rows/_indents).  [history_free step s0]: whatever was run
   before, a run gives what the first run of a new object gives.  The correspondence run builds the objects
   of a session once, runs them for 2-3 devices in sequence, evaluates every predicate of P_C14 on EVERY
   run and lets Coq compare each run with a run of new objects on the same inputs (P_C14_indep). *)
From Annet Require Import Spec.P_C14h Proofs.RplSession.

(* a session of a history-free object is the list of first runs of new objects ... *)
Theorem C14_session_runs :
  forall (S I O : Type) (step : S -> I -> O * S) (s0 : S),
    history_free step s0 -> forall xs, runs step s0 xs = map (fun x => fst (step s0 x)) xs.
Proof. exact runs_history_free. Qed.
Print Assumptions C14_session_runs.

(* ... so every law of single runs holds of every run of every session *)
Theorem C14_session_law :
  forall (S I O : Type) (step : S -> I -> O * S) (s0 : S) (P : I -> O -> bool) (dom : I -> bool),
    history_free step s0 ->
    (forall x, dom x = true -> P x (fst (step s0 x)) = true) ->
    forall xs, forallb dom xs = true ->
      forallb (fun xo => P (fst xo) (snd xo)) (combine xs (runs step s0 xs)) = true.
Proof. exact session_law. Qed.
Print Assumptions C14_session_law.

(* the model's generators are history free (they have no state), hence C14_refs_defined on every run of
   every session, for any sequence of vendors and programs inside its guards *)
Theorem C14_model_history_free : forall fx, history_free (model_step fx) tt.
Proof. exact model_history_free. Qed.
Print Assumptions C14_model_history_free.

Theorem C14_session_refs_defined :
  forall fx (xs : list (vendor * prog)),
    forallb sess_dom xs = true ->
    forallb (fun xo => refs_defined_run (fst xo) (snd xo)) (combine xs (runs (model_step fx) tt xs)) = true.
Proof. exact session_refs_defined. Qed.
Print Assumptions C14_session_refs_defined.

(* non-vacuity: arista, arista again, then huawei — all inside the guard *)
Example C14_session_guard_met :
  let xs := [(Arista, Prog c14_envx (c14_polx Arista)); (Arista, Prog c14_envx (c14_polx Arista));
             (Huawei, Prog c14_envx (c14_polx Huawei))] in
  forallb sess_dom xs = true /\ List.length (runs (model_step patched) tt xs) = 3.
Proof. vm_compute. split; reflexivity. Qed.

(* The clause is necessary: an object that keeps the set of prefix-list names it has emitted between runs
   (in the tree the set is a local of run_huawei / run_arista) gives exactly the model's output on its
   first run — for every input — and on the second run of the same inputs the policy still refers to the
   prefix lists while the list generator defines none: not history free, refs_defined is false. *)
Theorem C14_persisted_names_first_run_is_model :
  forall fx x, fst (persisted_names_step fx [] x) = fst (model_step fx tt x).
Proof. exact persisted_first_run. Qed.
Print Assumptions C14_persisted_names_first_run_is_model.

Theorem C14_persisted_names_refuted :
  exists x : vendor * prog,
    sess_dom x = true /\
    match runs (persisted_names_step patched) [] [x; x] with
    | [o1; o2] => refs_defined_run x o1 = true /\ refs_defined_run x o2 = false
    | _ => False
    end /\
    ~ history_free (persisted_names_step patched) [].
Proof.
  exists (Arista, Prog c14_envx (c14_polx Arista)).
  split; [vm_compute; reflexivity|]. split; [vm_compute; split; reflexivity|].
  apply (not_history_free _ _ _ (persisted_names_step patched) []
                          [(Arista, Prog c14_envx (c14_polx Arista))] (Arista, Prog c14_envx (c14_polx Arista))).
  vm_compute. discriminate.
Qed.
Print Assumptions C14_persisted_names_refuted.
