(* C17 — property theorems only.  Proofs live in Proofs/Implicit{Lib,Spec,Diff,Proofs}.v.

   Domain.  [okf t]: a config tree as the parsers build it (rows distinct on every level, no
   empty row), any depth and width.  [wfr rs]: an implicit rule tree as implicit.compile_tree
   builds it (rule rows distinct on every level, none empty), any depth.  [im] is ANY row
   matcher (rule row -> config row -> bool); the hardware theorems instantiate it with the shared
   pattern compiler (Implicit.imatch = Pattern.rule_match on the rule row) and the rule trees of
   every canonical device of Gen/Src_implicit.v, regenerated from annet/implicit.py on every run.
   m = t + implicit(t) is [add_implicit im rs t] = merge_dicts(t, implicit.config(t, rs)). *)
From Coq Require Import List String Bool Arith.
From Annet Require Import Base.Str Base.Tree Model.Pattern Model.Rulebook Model.Diff Model.Order Model.Patch
     Model.Blocks Model.Pipeline Model.Implicit Spec.P_C17 Gen.Src_implicit
     Proofs.ImplicitLib Proofs.ImplicitSpec Proofs.ImplicitDiff Proofs.ImplicitCompile Proofs.ImplicitProofs.
From Annet Require Import Model.Device Proofs.ImplicitPatch Proofs.ImplicitRemoved.
Import ListNotations.
Open Scope string_scope.

(* ---------------- ties to the source as it is now ---------------- *)

(* the Coq model of parse_text (offside parser + `!` handling) reproduces, for the text of every
   canonical device, the rule tree the real parser returned *)
Theorem C17_src_texts_parse : forallb src_text_parses Src_branches = true.
Proof. exact src_texts_parse. Qed.
Print Assumptions C17_src_texts_parse.

(* every shipped implicit rule row is inside the modelled pattern language *)
Theorem C17_src_rules_modelled : forallb src_modelled Src_branches = true.
Proof. exact src_rules_modelled. Qed.
Print Assumptions C17_src_rules_modelled.

(* every shipped rule tree is in the domain of the theorems below *)
Theorem C17_src_rules_wf : forall b, In b Src_branches -> wfr (branch_rules b).
Proof. exact src_branches_wfr. Qed.
Print Assumptions C17_src_rules_wf.

(* gen.py completes the device side and the generator side by the same statement *)
Theorem C17_gen_completes_both : In "old" Src_gen_completed /\ In "new" Src_gen_completed.
Proof. exact src_gen_completes_both. Qed.
Print Assumptions C17_gen_completes_both.

(* implicit.compile_tree always lands in the domain [wfr] of the theorems below (rows distinct on
   every level), for ANY parsed rule tree without empty rows *)
Theorem C17_compile_tree_wf : forall l, (forall p, In p l -> rows_ne p) -> wfr (compile_tree l).
Proof. exact compile_tree_wfr. Qed.
Print Assumptions C17_compile_tree_wf.

(* the matcher of the hardware theorems is the shared rule matcher, used as Model/Pipeline.v
   uses it, on the widened rule row *)
Theorem C17_matcher_is_rule_match :
  forall pat line,
    imatch pat line = match rule_match (widen pat) false line with Some _ => true | None => false end.
Proof. exact imatch_rule_match. Qed.
Print Assumptions C17_matcher_is_rule_match.

(* ---------------- the model computes the declarative completion ---------------- *)
Theorem C17_model_is_completion :
  forall im rs t, okf t -> wfr rs -> add_implicit im rs t = complete im rs t.
Proof. exact model_is_completion. Qed.
Print Assumptions C17_model_is_completion.

(* ---------------- clause 1: t is an order-preserving subtree of m ---------------- *)
Theorem C17_explicit_kept :
  forall im rs t, okf t -> wfr rs -> subtree t (add_implicit im rs t) = true.
Proof. exact model_explicit_kept. Qed.
Print Assumptions C17_explicit_kept.

(* ---------------- clause 2: implicit(m) adds nothing ---------------- *)
(* under [idem_guard]: every default row, read again as a configuration row, is governed by a
   rule whose children add nothing below it *)
Theorem C17_idem :
  forall im rs t, okf t -> wfr rs -> idem_guard im rs = true ->
    add_implicit im rs (add_implicit im rs t) = add_implicit im rs t.
Proof. exact model_idem. Qed.
Print Assumptions C17_idem.

(* without the guard the statement is false, on a shipped rule tree: Huawei NE, empty config
   (replayed on the real code: known finding C17/idem/default-row-of-rule-with-children) *)
Theorem C17_idem_refuted :
  exists b t, In b Src_branches /\ okf t /\
    add_implicit imatch (branch_rules b) (add_implicit imatch (branch_rules b) t)
    <> add_implicit imatch (branch_rules b) t.
Proof. exact idem_refuted_huawei_ne. Qed.
Print Assumptions C17_idem_refuted.

(* ---------------- clause 3: the default row is there iff no row of its kind is ---------------- *)
(* at every parent [p] reached through explicit rows and the rules governing them, for every
   non-`!` rule r of that parent: the default row is in m iff t has no row there matching r's
   pattern (or has the default row itself) *)
Theorem C17_default_iff :
  forall im rs t p rs' t' r,
    okf t -> wfr rs ->
    rules_at im rs p = Some rs' -> sub_at p t = Some t' -> In r rs' -> i_ign r = false ->
    exists m', sub_at p (add_implicit im rs t) = Some m' /\
               (In (i_row r) (keys m') <-> has_match im (i_row r) t' = false \/ In (i_row r) (keys t')).
Proof. exact model_default_iff. Qed.
Print Assumptions C17_default_iff.

(* nothing else is added: a row of m that t does not have is the childless default row of a
   non-`!` rule whose pattern no row of t matches there *)
Theorem C17_only_defaults_added :
  forall im rs t p rs' t' m' k c,
    okf t -> wfr rs ->
    rules_at im rs p = Some rs' -> sub_at p t = Some t' -> sub_at p (add_implicit im rs t) = Some m' ->
    In (k, c) m' -> ~ In k (keys t') ->
    c = T [] /\ exists r, In r rs' /\ i_row r = k /\ i_ign r = false /\ has_match im k t' = false.
Proof. exact model_only_defaults_added. Qed.
Print Assumptions C17_only_defaults_added.

(* the predicate the check evaluates on the implementation's outputs holds of the model *)
Theorem C17_P_holds_of_model :
  forall im rs t, okf t -> wfr rs -> idem_guard im rs = true ->
    let m := add_implicit im rs t in P_C17 im (rs, t) (m, add_implicit im rs m) = true.
Proof. exact model_P_C17. Qed.
Print Assumptions C17_P_holds_of_model.

(* ---------------- clause 4: no diff entry for a default absent from both sides ---------------- *)
(* both sides completed with the same rules; a default of parent p (present in both t and u) whose
   pattern no row of either side matches, and which neither side has, sits childless in both
   completions, is UNCHANGED in make_diff and absent from the stripped diff - for every patching
   rulebook that treats the rows of the path with the default diff logic (a block under %ordered /
   %rewrite is re-created as a whole, defaults included: C17_no_spurious_rewrite_refuted).
   The name keeps its _partial suffix for the registry; the patch half is proved further down
   (C17_no_spurious_patch ... C17_hw_no_spurious_patch).  The sentence "no command has d or its
   reverse form as last element" is false as it stands (C17_no_spurious_patch_unconditional_refuted)
   and so is the formalisation ImplicitProofs.no_spurious_patch_statement
   (C17_no_spurious_patch_statement_refuted); what holds is: every command below the parent is
   explained by a changed line other than d. *)
Theorem C17_no_spurious_partial :
  forall im rm irs rs t u p rs' t' u' r,
    wfr irs -> okf t -> okf u ->
    rules_at im irs p = Some rs' -> sub_at p t = Some t' -> sub_at p u = Some u' ->
    In r rs' -> i_ign r = false ->
    has_match im (i_row r) t' = false -> has_match im (i_row r) u' = false ->
    ~ In (i_row r) (keys t') -> ~ In (i_row r) (keys u') ->
    path_ddefault rm rs (p ++ [i_row r]) = true ->
    let mt := add_implicit im irs t in
    let mu := add_implicit im irs u in
    let D := make_diff rm rs mt mu in
    (sub_at (p ++ [i_row r]) mt = Some [] /\ sub_at (p ++ [i_row r]) mu = Some []) /\
    Forall (fun e => d_op e = Unchanged) (entries_at (p ++ [i_row r]) D) /\
    entries_at (p ++ [i_row r]) (strip_unchanged D) = [].
Proof. exact no_spurious_diff. Qed.
Print Assumptions C17_no_spurious_partial.

Definition C17_no_spurious_patch_statement : Prop := no_spurious_patch_statement.

(* the underlying fact about make_diff alone (any two trees) *)
Theorem C17_childless_common_row_unchanged :
  forall rm rs old new p,
    wf old -> wf new -> p <> [] ->
    sub_at p old = Some [] -> sub_at p new = Some [] -> path_ddefault rm rs p = true ->
    Forall (fun e => d_op e = Unchanged) (entries_at p (make_diff rm rs old new)) /\
    entries_at p (strip_unchanged (make_diff rm rs old new)) = [].
Proof. exact leaf_both_unchanged. Qed.
Print Assumptions C17_childless_common_row_unchanged.

(* the diff-logic guard is needed: inside a %rewrite block the default is re-created (MOVED) with
   every other line of the block as soon as one line changes *)
Theorem C17_no_spurious_rewrite_refuted :
  exists irs rs t u p rs' t' u' r,
    wfr irs /\ okf t /\ okf u /\
    rules_at imatch irs p = Some rs' /\ sub_at p t = Some t' /\ sub_at p u = Some u' /\
    In r rs' /\ i_ign r = false /\
    has_match imatch (i_row r) t' = false /\ has_match imatch (i_row r) u' = false /\
    ~ In (i_row r) (keys t') /\ ~ In (i_row r) (keys u') /\
    map d_op (entries_at (p ++ [i_row r])
                (strip_unchanged (p_make_diff rs (add_implicit imatch irs t) (add_implicit imatch irs u))))
    = [Moved].
Proof. exact no_spurious_rewrite_refuted. Qed.
Print Assumptions C17_no_spurious_rewrite_refuted.

(* ---------------- every hardware branch of _implicit_tree ---------------- *)
Theorem C17_hw_completion :
  forall b, In b Src_branches -> forall t, okf t ->
    add_implicit imatch (branch_rules b) t = complete imatch (branch_rules b) t.
Proof. exact hw_completion. Qed.
Print Assumptions C17_hw_completion.

Theorem C17_hw_explicit_kept :
  forall b, In b Src_branches -> forall t, okf t ->
    subtree t (add_implicit imatch (branch_rules b) t) = true.
Proof. exact hw_explicit_kept. Qed.
Print Assumptions C17_hw_explicit_kept.

(* every shipped default row matches its own pattern, so clause 3 reads: the default row is ADDED
   at a parent iff no row there matches the rule's pattern *)
Theorem C17_hw_default_added_iff :
  forall b, In b Src_branches -> forall t p rs' t' r,
    okf t -> rules_at imatch (branch_rules b) p = Some rs' -> sub_at p t = Some t' ->
    In r rs' -> i_ign r = false ->
    exists m', sub_at p (add_implicit imatch (branch_rules b) t) = Some m' /\
               (In (i_row r) (keys m') /\ ~ In (i_row r) (keys t') <-> has_match imatch (i_row r) t' = false).
Proof. exact hw_default_added_iff. Qed.
Print Assumptions C17_hw_default_added_iff.

(* idempotent on every branch but Huawei NE (C17_idem_refuted) *)
Theorem C17_hw_idem :
  forall b t, In b Src_branches -> ib_name b <> "huawei_ne" -> okf t ->
    add_implicit imatch (branch_rules b) (add_implicit imatch (branch_rules b) t)
    = add_implicit imatch (branch_rules b) t.
Proof. exact hw_idem. Qed.
Print Assumptions C17_hw_idem.

Theorem C17_hw_no_spurious_partial :
  forall b, In b Src_branches -> forall rs t u p rs' t' u' r,
    okf t -> okf u ->
    rules_at imatch (branch_rules b) p = Some rs' -> sub_at p t = Some t' -> sub_at p u = Some u' ->
    In r rs' -> i_ign r = false ->
    has_match imatch (i_row r) t' = false -> has_match imatch (i_row r) u' = false ->
    path_ddefault pm rs (p ++ [i_row r]) = true ->
    let mt := add_implicit imatch (branch_rules b) t in
    let mu := add_implicit imatch (branch_rules b) u in
    let D := p_make_diff rs mt mu in
    Forall (fun e => d_op e = Unchanged) (entries_at (p ++ [i_row r]) D) /\
    entries_at (p ++ [i_row r]) (strip_unchanged D) = [].
Proof. exact hw_no_spurious_diff. Qed.
Print Assumptions C17_hw_no_spurious_partial.

(* ---------------- clause 4, patch half ---------------- *)
Open Scope list_scope.
(* For ANY diff D, any patch logic (default, undo_redo, ordered, rewrite, permanent, ignore_changes),
   any ordering rules and every formatter family whose command paths are the path stack of the
   block stream (all but the Juniper/Nokia flattening): the last element x of a command path
   p ++ [x] of make_patch (make_pre D) is an exit word of the family, or is explained by the entries
   of D below the parent path p: the row of a non-UNCHANGED entry, the removal command of a REMOVED
   (or %ordered-MOVED) entry, or "commit" next to a %force_commit entry.  (Built on the C02 lemma
   make_patch_rel.) *)
Theorem C17_patch_cmds_explained :
  forall rmatch rsrc rrev block_exit rreverse f D ordering pt p x,
    stack_family f = true ->
    make_patch rmatch rsrc rrev block_exit rreverse (make_pre D) ordering = POk pt ->
    In (p ++ [x]) (cmd_paths f pt) ->
    In x (family_exits f) \/ explained_by rreverse any_entry (level_at p D) x.
Proof. exact patch_cmds_explained. Qed.
Print Assumptions C17_patch_cmds_explained.

(* under the hypotheses of the diff half the entries of the default row d are all UNCHANGED, which
   make_patch never looks at: every command below the parent is explained by an entry whose row is
   NOT d.  Any implicit matcher, any patching matcher and reverse function. *)
Theorem C17_no_spurious_patch :
  forall im rm rsrc rrev block_exit rreverse irs rs ordering f t u p rs' t' u' r pt,
    wfr irs -> okf t -> okf u ->
    rules_at im irs p = Some rs' -> sub_at p t = Some t' -> sub_at p u = Some u' ->
    In r rs' -> i_ign r = false ->
    has_match im (i_row r) t' = false -> has_match im (i_row r) u' = false ->
    ~ In (i_row r) (keys t') -> ~ In (i_row r) (keys u') ->
    path_ddefault rm rs (p ++ [i_row r]) = true ->
    stack_family f = true ->
    let mt := add_implicit im irs t in
    let mu := add_implicit im irs u in
    let D := make_diff rm rs mt mu in
    make_patch rm rsrc rrev block_exit rreverse (make_pre D) ordering = POk pt ->
    forall x, In (p ++ [x]) (cmd_paths f pt) ->
      In x (family_exits f) \/ explained_by rreverse (other_than (i_row r)) (level_at p D) x.
Proof. exact no_spurious_patch. Qed.
Print Assumptions C17_no_spurious_patch.

(* read for the default row itself: when d is neither an exit word nor "commit", a command `d`
   below the parent is the removal command of ANOTHER line of that parent that is REMOVED (or MOVED
   under an %ordered rule) *)
Theorem C17_no_spurious_patch_row :
  forall im rm rsrc rrev block_exit rreverse irs rs ordering f t u p rs' t' u' r pt,
    wfr irs -> okf t -> okf u ->
    rules_at im irs p = Some rs' -> sub_at p t = Some t' -> sub_at p u = Some u' ->
    In r rs' -> i_ign r = false ->
    has_match im (i_row r) t' = false -> has_match im (i_row r) u' = false ->
    ~ In (i_row r) (keys t') -> ~ In (i_row r) (keys u') ->
    path_ddefault rm rs (p ++ [i_row r]) = true ->
    stack_family f = true ->
    ~ In (i_row r) ("commit" :: family_exits f) ->
    let mt := add_implicit im irs t in
    let mu := add_implicit im irs u in
    let D := make_diff rm rs mt mu in
    make_patch rm rsrc rrev block_exit rreverse (make_pre D) ordering = POk pt ->
    In (p ++ [i_row r]) (cmd_paths f pt) ->
    removal_of_other rreverse (i_row r) (level_at p D) (i_row r).
Proof. exact no_spurious_patch_row. Qed.
Print Assumptions C17_no_spurious_patch_row.

(* the model pipeline (Model/Pipeline.v: diff_and_patch, then cmd_paths), in terms of the diff that
   is SHOWN: no entry for d, and every command below the parent is an exit word or is explained by
   a changed line of the shown diff other than d *)
Theorem C17_pipeline_no_spurious_patch :
  forall im (v : vendor) irs rs ordering t u p rs' t' u' r d pt,
    wfr irs -> okf t -> okf u ->
    rules_at im irs p = Some rs' -> sub_at p t = Some t' -> sub_at p u = Some u' ->
    In r rs' -> i_ign r = false ->
    has_match im (i_row r) t' = false -> has_match im (i_row r) u' = false ->
    ~ In (i_row r) (keys t') -> ~ In (i_row r) (keys u') ->
    path_ddefault pm rs (p ++ [i_row r]) = true ->
    stack_family (v_family v) = true ->
    let mt := add_implicit im irs t in
    let mu := add_implicit im irs u in
    diff_and_patch v rs ordering mt mu = (d, POk pt) ->
    entries_at (p ++ [i_row r]) d = [] /\
    patch_explained v (i_row r) p (p_make_diff rs mt mu) d (cmd_paths (v_family v) pt).
Proof. exact pipeline_no_spurious_patch. Qed.
Print Assumptions C17_pipeline_no_spurious_patch.

(* every hardware branch, every vendor of a shipped block family: the shipped default rows and
   their reverse forms are never exit words nor "commit" (by computation on the regenerated
   tables), so: no diff entry for d; a command `d` is the removal command of another REMOVED line of
   that parent; a command `<reverse> d` is an explicit changed row or such a removal command *)
Theorem C17_hw_no_spurious_patch :
  forall b, In b Src_branches -> forall (v : vendor) rs ordering t u p rs' t' u' r d pt,
    okf t -> okf u ->
    rules_at imatch (branch_rules b) p = Some rs' -> sub_at p t = Some t' -> sub_at p u = Some u' ->
    In r rs' -> i_ign r = false ->
    has_match imatch (i_row r) t' = false -> has_match imatch (i_row r) u' = false ->
    path_ddefault pm rs (p ++ [i_row r]) = true ->
    In (v_family v) hw_families -> v_reverse v = ib_reverse b ->
    let mt := add_implicit imatch (branch_rules b) t in
    let mu := add_implicit imatch (branch_rules b) u in
    let full := p_make_diff rs mt mu in
    diff_and_patch v rs ordering mt mu = (d, POk pt) ->
    entries_at (p ++ [i_row r]) d = [] /\
    (In (p ++ [i_row r]) (cmd_paths (v_family v) pt) ->
       removal_shown v (i_row r) (level_at p d) (level_at p full) (i_row r)) /\
    (In (p ++ [reverse_row (i_row r) (v_reverse v)]) (cmd_paths (v_family v) pt) ->
       (exists n, In n (level_at p d) /\ d_row n = reverse_row (i_row r) (v_reverse v)) \/
       removal_shown v (i_row r) (level_at p d) (level_at p full) (reverse_row (i_row r) (v_reverse v))).
Proof. exact hw_no_spurious_patch. Qed.
Print Assumptions C17_hw_no_spurious_patch.

(* the shipped default rows and their reverse forms are not exit words of any shipped block family
   nor "commit" (the computable side condition of the theorem above) *)
Theorem C17_src_defaults_clean :
  forallb (fun b => clean_rules (ib_reverse b) (branch_rules b)) Src_branches = true.
Proof. exact src_branches_clean. Qed.
Print Assumptions C17_src_defaults_clean.

(* the exception is needed - "no command has d as its last element" is false as it stands: Huawei CE,
   the device has `ntp server disable`, the generator nothing; the absent default
   `undo ntp server disable` IS the patch, as the removal command of the removed line
   (replayed on the real code with the shipped rulebook) *)
Theorem C17_no_spurious_patch_unconditional_refuted :
  exists b (v : vendor) rs t u r d pt,
    In b Src_branches /\ okf t /\ okf u /\
    In r (branch_rules b) /\ i_ign r = false /\
    has_match imatch (i_row r) t = false /\ has_match imatch (i_row r) u = false /\
    ~ In (i_row r) (keys t) /\ ~ In (i_row r) (keys u) /\
    path_ddefault pm rs [i_row r] = true /\
    In (v_family v) hw_families /\ v_reverse v = ib_reverse b /\
    diff_and_patch v rs [] (add_implicit imatch (branch_rules b) t) (add_implicit imatch (branch_rules b) u)
      = (d, POk pt) /\
    In [i_row r] (cmd_paths (v_family v) pt).
Proof. exact no_spurious_patch_unconditional_refuted. Qed.
Print Assumptions C17_no_spurious_patch_unconditional_refuted.

(* the earlier formalisation (P_nospur: explained only by a line's own row or reverse_row of the whole
   line) is false: rule `foo *` removes `foo bar baz` by `undo foo bar` (replayed on the real code) *)
Theorem C17_no_spurious_patch_statement_refuted : ~ C17_no_spurious_patch_statement.
Proof. exact no_spurious_patch_statement_refuted. Qed.
Print Assumptions C17_no_spurious_patch_statement_refuted.

(* parents present on ONE side only: a block ADDED as a whole carries the defaults of its completion
   as commands although neither side has them (Huawei CE: a new `user-interface con 0` block is sent
   with `user privilege level 3`; replayed on the real code with the shipped rulebook; open finding
   C17/no-spurious/default-below-a-block-added-as-a-whole).  The restriction of clause 4 to parents
   present on both sides can therefore not be lifted for ADDED parents. *)
Theorem C17_no_spurious_added_parent_refuted :
  exists b (v : vendor) rs t u parent u' rs' r d pt,
    In b Src_branches /\ okf t /\ okf u /\
    sub_at [parent] t = None /\ sub_at [parent] u = Some u' /\
    rules_at imatch (branch_rules b) [parent] = Some rs' /\ In r rs' /\ i_ign r = false /\
    has_match imatch (i_row r) u' = false /\ ~ In (i_row r) (keys u') /\
    path_ddefault pm rs [parent; i_row r] = true /\
    In (v_family v) hw_families /\ v_reverse v = ib_reverse b /\
    diff_and_patch v rs [] (add_implicit imatch (branch_rules b) t) (add_implicit imatch (branch_rules b) u)
      = (d, POk pt) /\
    In [parent; i_row r] (cmd_paths (v_family v) pt) /\
    map d_op (entries_at [parent; i_row r] d) = [Added].
Proof. exact no_spurious_added_parent_refuted. Qed.
Print Assumptions C17_no_spurious_added_parent_refuted.

(* ... and through the predicate the check evaluates on the real outputs (P_nospur_added: no command
   for a default below a block that only the generator side has) *)
Theorem C17_nospur_added_refuted :
  exists b (v : vendor) rs t u d pt,
    In b Src_branches /\ okf t /\ okf u /\ In (v_family v) hw_families /\ v_reverse v = ib_reverse b /\
    let mt := add_implicit imatch (branch_rules b) t in
    let mu := add_implicit imatch (branch_rules b) u in
    diff_and_patch v rs [] mt mu = (d, POk pt) /\
    P_nospur_added imatch (path_ddefault pm rs)
                   (C17Pipe (v_reverse v) (branch_rules b) t u mt mu d (cmd_paths (v_family v) pt)) = false.
Proof. exact nospur_added_refuted. Qed.
Print Assumptions C17_nospur_added_refuted.

(* ---------------- clause 4 below parents present on the DEVICE side only ---------------- *)
(* any two trees: a row q of old that new has not, below a path present on both sides under the
   default diff logic, is REMOVED; a REMOVED entry heads a block of the patch only under a
   %permanent rule; so without one at that level there is NO command strictly below p ++ [q] -
   a block removed as a whole takes its defaults with it silently.  Any patch logic otherwise, any
   ordering, every path-stack formatter family. *)
Theorem C17_removed_parent_no_commands :
  forall rm rsrc rrev block_exit rreverse rs ordering f old new p q ol nl pt,
    wf old -> wf new ->
    sub_at p old = Some ol -> sub_at p new = Some nl -> ~ In q (keys nl) ->
    path_ddefault rm rs p = true ->
    stack_family f = true ->
    let D := make_diff rm rs old new in
    (forall n0, In n0 (level_at p D) -> a_logic (mi_attrs (d_mi n0)) <> LPermanent) ->
    make_patch rm rsrc rrev block_exit rreverse (make_pre D) ordering = POk pt ->
    forall c rest, ~ In (p ++ q :: c :: rest) (cmd_paths f pt).
Proof. exact removed_parent_no_commands. Qed.
Print Assumptions C17_removed_parent_no_commands.

(* which entries can head a block of the patch at all (any diff): ADDED, AFFECTED, MOVED, or REMOVED
   under a %permanent rule *)
Theorem C17_patch_block_headers :
  forall rmatch rsrc rrev block_exit rreverse f D ordering pt p h c rest,
    stack_family f = true ->
    make_patch rmatch rsrc rrev block_exit rreverse (make_pre D) ordering = POk pt ->
    In (p ++ h :: c :: rest) (cmd_paths f pt) ->
    exists n, In n (level_at p D) /\ d_row n = h /\ hdr_ok (level_at p D) n.
Proof.
  intros rmatch rsrc rrev block_exit rreverse f D ordering pt p h c rest Hf Hp Hin.
  apply (cmd_paths_rpaths' f pt _ Hf) in Hin.
  eapply rpaths_headers; [|exact Hin]. eapply make_patch_hdr. exact Hp.
Qed.
Print Assumptions C17_patch_block_headers.

(* every hardware branch, the model pipeline on the completed trees *)
Theorem C17_hw_removed_parent :
  forall b, In b Src_branches -> forall (v : vendor) rs ordering t u p q ml nl d pt,
    okf t -> okf u ->
    let mt := add_implicit imatch (branch_rules b) t in
    let mu := add_implicit imatch (branch_rules b) u in
    sub_at p mt = Some ml -> sub_at p mu = Some nl -> ~ In q (keys nl) ->
    path_ddefault pm rs p = true ->
    In (v_family v) hw_families ->
    (forall n0, In n0 (level_at p (p_make_diff rs mt mu)) -> a_logic (mi_attrs (d_mi n0)) <> LPermanent) ->
    diff_and_patch v rs ordering mt mu = (d, POk pt) ->
    forall c rest, ~ In (p ++ q :: c :: rest) (cmd_paths (v_family v) pt).
Proof. exact hw_removed_parent. Qed.
Print Assumptions C17_hw_removed_parent.

(* the %permanent guard is needed: the block stays as a header and its lines, the default of its
   completion included, are removed one by one (replayed on the real code) *)
Theorem C17_removed_parent_permanent_refuted :
  exists b (v : vendor) rs t u q r d pt,
    In b Src_branches /\ okf t /\ okf u /\ In (v_family v) hw_families /\
    In q (keys t) /\ ~ In q (keys (add_implicit imatch (branch_rules b) u)) /\
    rules_at imatch (branch_rules b) [q] = Some [r] /\ i_ign r = false /\
    sub_at [q; i_row r] t = None /\
    diff_and_patch v rs [] (add_implicit imatch (branch_rules b) t) (add_implicit imatch (branch_rules b) u) = (d, POk pt) /\
    In [q; reverse_row (i_row r) (v_reverse v)] (cmd_paths (v_family v) pt).
Proof. exact removed_parent_permanent_refuted. Qed.
Print Assumptions C17_removed_parent_permanent_refuted.

Example C17_hw_removed_parent_nonvacuous :
  let R := branch_rules br_huawei_ce in
  let mt := add_implicit imatch R w_rm_t in
  let mu := add_implicit imatch R [] in
  exists ml nl d pt,
    okf w_rm_t /\ sub_at [] mt = Some ml /\ sub_at [] mu = Some nl /\
    In "user-interface con 0" (keys ml) /\ ~ In "user-interface con 0" (keys nl) /\
    sub_at ["user-interface con 0"] mt = Some [("idle-timeout 5", T []); ("user privilege level 3", T [])] /\
    path_ddefault pm w_rs [] = true /\ In (v_family w_huawei) hw_families /\
    forallb (fun n0 => negb (logic_eqb (a_logic (mi_attrs (d_mi n0))) LPermanent)) (level_at [] (p_make_diff w_rs mt mu)) = true /\
    diff_and_patch w_huawei w_rs [] mt mu = (d, POk pt) /\
    cmd_paths (v_family w_huawei) pt = [["undo user-interface con"]].
Proof. exact hw_removed_parent_nonvacuous. Qed.

(* non-vacuity of C17_hw_no_spurious_patch: all guards hold on Huawei CE below
   "user-interface con 0", the pipeline answers with a patch that has a command below that parent,
   and neither the default nor its reverse form is among the commands *)
Example C17_hw_no_spurious_patch_nonvacuous :
  let R := branch_rules br_huawei_ce in
  let p := ["user-interface con 0"] in
  exists rs' t' u' r d pt,
    rules_at imatch R p = Some rs' /\ sub_at p w_t = Some t' /\ sub_at p w_u = Some u' /\
    In r rs' /\ i_ign r = false /\ i_row r = "user privilege level 3" /\
    has_match imatch (i_row r) t' = false /\ has_match imatch (i_row r) u' = false /\
    path_ddefault pm w_rs (p ++ [i_row r]) = true /\
    In (v_family w_huawei) hw_families /\ v_reverse w_huawei = ib_reverse br_huawei_ce /\
    diff_and_patch w_huawei w_rs [] (add_implicit imatch R w_t) (add_implicit imatch R w_u) = (d, POk pt) /\
    In (p ++ ["idle-timeout 7"]) (cmd_paths (v_family w_huawei) pt) /\
    ~ In (p ++ [i_row r]) (cmd_paths (v_family w_huawei) pt) /\
    ~ In (p ++ [reverse_row (i_row r) "undo"]) (cmd_paths (v_family w_huawei) pt).
Proof. exact hw_patch_nonvacuous. Qed.

(* ---------------- non-vacuity of the guards ---------------- *)
Definition ex_rs : rset :=
  ([PRule "stp ~" false (Attrs "stp ~" LDefault DDefault false false) [] [];
    PRule "user-interface *" false (Attrs "user-interface *" LDefault DDefault true false)
          [PRule "user ~" false (Attrs "user ~" LDefault DDefault false false) [] []] []], []).
Definition ex_t : forest := [("stp mode rstp x", T []); ("user-interface con 0", T [("idle-timeout 5", T [])])].
Definition ex_u : forest := [("user-interface con 0", T [])].

(* idem_guard holds of a shipped rule tree with nested rules (Huawei CE) *)
Example C17_idem_guard_nonvacuous :
  idem_guard imatch (branch_rules br_huawei_ce) = true /\ okf ex_t /\ wfr (branch_rules br_huawei_ce).
Proof.
  split; [vm_compute; reflexivity|]. split.
  - repeat constructor; cbn; intuition discriminate.
  - apply src_branches_wfr. vm_compute. tauto.
Qed.

(* clause 3 and clause 4 below the top level: parent "user-interface con 0", default
   "user privilege level 3"; all guards hold and the diff does have an (UNCHANGED) entry for it *)
Example C17_no_spurious_nonvacuous :
  let R := branch_rules br_huawei_ce in
  let p := ["user-interface con 0"] in
  exists rs' t' u' r,
    rules_at imatch R p = Some rs' /\ sub_at p ex_t = Some t' /\ sub_at p ex_u = Some u' /\
    In r rs' /\ i_ign r = false /\ i_row r = "user privilege level 3" /\
    has_match imatch (i_row r) t' = false /\ has_match imatch (i_row r) u' = false /\
    path_ddefault pm ex_rs (p ++ [i_row r]) = true /\
    List.length (entries_at (p ++ [i_row r])
                   (p_make_diff ex_rs (add_implicit imatch R ex_t) (add_implicit imatch R ex_u))) = 1.
Proof.
  cbv zeta.
  exists [IRule "user privilege level 3" false []], [("idle-timeout 5", T [])], [],
         (IRule "user privilege level 3" false []).
  vm_compute. repeat split; auto.
Qed.
