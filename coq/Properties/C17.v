(* C17 — property theorems only.  Proofs live in Proofs/Implicit{Lib,Spec,Diff,Proofs}.v.

   Domain.  [okf t]: a config tree as the parsers build it (rows distinct on every level, no
   empty row), any depth and width.  [wfr rs]: an implicit rule tree as implicit.compile_tree
   builds it (rule rows distinct on every level, none empty), any depth.  [im] is ANY row
   matcher (rule row -> config row -> bool); the hardware theorems instantiate it with the shared
   pattern compiler (Implicit.imatch = Pattern.rule_match on the rule row) and the rule trees of
   every canonical device of Gen/Src_implicit.v, regenerated from annet/implicit.py on every run.
   m = t + implicit(t) is [add_implicit im rs t] = merge_dicts(t, implicit.config(t, rs)). *)
From Coq Require Import List String Bool Arith.
From Annet Require Import Base.Str Base.Tree Model.Pattern Model.Rulebook Model.Diff Model.Order Model.Patch
     Model.Blocks Model.Pipeline Model.Implicit Spec.P_C17 Gen.Src_implicit
     Proofs.ImplicitLib Proofs.ImplicitSpec Proofs.ImplicitDiff Proofs.ImplicitCompile Proofs.ImplicitProofs.
Import ListNotations.
Open Scope string_scope.

(* ---------------- ties to the source as it is now ---------------- *)

(* the Coq model of parse_text (offside parser + `!` handling) reproduces, for the text of every
   canonical device, the rule tree the real parser returned *)
Theorem C17_src_texts_parse : forallb src_text_parses Src_branches = true.
Proof. exact src_texts_parse. Qed.
Print Assumptions C17_src_texts_parse.

(* every shipped implicit rule row is inside the modelled pattern language *)
Theorem C17_src_rules_modelled : forallb src_modelled Src_branches = true.
Proof. exact src_rules_modelled. Qed.
Print Assumptions C17_src_rules_modelled.

(* every shipped rule tree is in the domain of the theorems below *)
Theorem C17_src_rules_wf : forall b, In b Src_branches -> wfr (branch_rules b).
Proof. exact src_branches_wfr. Qed.
Print Assumptions C17_src_rules_wf.

(* gen.py completes the device side and the generator side by the same statement *)
Theorem C17_gen_completes_both : In "old" Src_gen_completed /\ In "new" Src_gen_completed.
Proof. exact src_gen_completes_both. Qed.
Print Assumptions C17_gen_completes_both.

(* implicit.compile_tree always lands in the domain [wfr] of the theorems below (rows distinct on
   every level), for ANY parsed rule tree without empty rows *)
Theorem C17_compile_tree_wf : forall l, (forall p, In p l -> rows_ne p) -> wfr (compile_tree l).
Proof. exact compile_tree_wfr. Qed.
Print Assumptions C17_compile_tree_wf.

(* the matcher of the hardware theorems is the shared rule matcher, used as Model/Pipeline.v
   uses it, on the widened rule row *)
Theorem C17_matcher_is_rule_match :
  forall pat line,
    imatch pat line = match rule_match (widen pat) false line with Some _ => true | None => false end.
Proof. exact imatch_rule_match. Qed.
Print Assumptions C17_matcher_is_rule_match.

(* ---------------- the model computes the declarative completion ---------------- *)
Theorem C17_model_is_completion :
  forall im rs t, okf t -> wfr rs -> add_implicit im rs t = complete im rs t.
Proof. exact model_is_completion. Qed.
Print Assumptions C17_model_is_completion.

(* ---------------- clause 1: t is an order-preserving subtree of m ---------------- *)
Theorem C17_explicit_kept :
  forall im rs t, okf t -> wfr rs -> subtree t (add_implicit im rs t) = true.
Proof. exact model_explicit_kept. Qed.
Print Assumptions C17_explicit_kept.

(* ---------------- clause 2: implicit(m) adds nothing ---------------- *)
(* under [idem_guard]: every default row, read again as a configuration row, is governed by a
   rule whose children add nothing below it *)
Theorem C17_idem :
  forall im rs t, okf t -> wfr rs -> idem_guard im rs = true ->
    add_implicit im rs (add_implicit im rs t) = add_implicit im rs t.
Proof. exact model_idem. Qed.
Print Assumptions C17_idem.

(* without the guard the statement is false, on a shipped rule tree: Huawei NE, empty config
   (replayed on the real code: known finding C17/idem/default-row-of-rule-with-children) *)
Theorem C17_idem_refuted :
  exists b t, In b Src_branches /\ okf t /\
    add_implicit imatch (branch_rules b) (add_implicit imatch (branch_rules b) t)
    <> add_implicit imatch (branch_rules b) t.
Proof. exact idem_refuted_huawei_ne. Qed.
Print Assumptions C17_idem_refuted.

(* ---------------- clause 3: the default row is there iff no row of its kind is ---------------- *)
(* at every parent [p] reached through explicit rows and the rules governing them, for every
   non-`!` rule r of that parent: the default row is in m iff t has no row there matching r's
   pattern (or has the default row itself) *)
Theorem C17_default_iff :
  forall im rs t p rs' t' r,
    okf t -> wfr rs ->
    rules_at im rs p = Some rs' -> sub_at p t = Some t' -> In r rs' -> i_ign r = false ->
    exists m', sub_at p (add_implicit im rs t) = Some m' /\
               (In (i_row r) (keys m') <-> has_match im (i_row r) t' = false \/ In (i_row r) (keys t')).
Proof. exact model_default_iff. Qed.
Print Assumptions C17_default_iff.

(* nothing else is added: a row of m that t does not have is the childless default row of a
   non-`!` rule whose pattern no row of t matches there *)
Theorem C17_only_defaults_added :
  forall im rs t p rs' t' m' k c,
    okf t -> wfr rs ->
    rules_at im rs p = Some rs' -> sub_at p t = Some t' -> sub_at p (add_implicit im rs t) = Some m' ->
    In (k, c) m' -> ~ In k (keys t') ->
    c = T [] /\ exists r, In r rs' /\ i_row r = k /\ i_ign r = false /\ has_match im k t' = false.
Proof. exact model_only_defaults_added. Qed.
Print Assumptions C17_only_defaults_added.

(* the predicate the check evaluates on the implementation's outputs holds of the model *)
Theorem C17_P_holds_of_model :
  forall im rs t, okf t -> wfr rs -> idem_guard im rs = true ->
    let m := add_implicit im rs t in P_C17 im (rs, t) (m, add_implicit im rs m) = true.
Proof. exact model_P_C17. Qed.
Print Assumptions C17_P_holds_of_model.

(* ---------------- clause 4: no diff entry for a default absent from both sides ---------------- *)
(* both sides completed with the same rules; a default of parent p (present in both t and u) whose
   pattern no row of either side matches, and which neither side has, sits childless in both
   completions, is UNCHANGED in make_diff and absent from the stripped diff - for every patching
   rulebook that treats the rows of the path with the default diff logic (a block under %ordered /
   %rewrite is re-created as a whole, defaults included: C17_no_spurious_rewrite_refuted).
   PARTIAL: the patch half ("no command has d or its reverse form as last element") is
   ImplicitProofs.no_spurious_patch_statement, covered by the correspondence on the real
   _diff_and_patch only. *)
Theorem C17_no_spurious_partial :
  forall im rm irs rs t u p rs' t' u' r,
    wfr irs -> okf t -> okf u ->
    rules_at im irs p = Some rs' -> sub_at p t = Some t' -> sub_at p u = Some u' ->
    In r rs' -> i_ign r = false ->
    has_match im (i_row r) t' = false -> has_match im (i_row r) u' = false ->
    ~ In (i_row r) (keys t') -> ~ In (i_row r) (keys u') ->
    path_ddefault rm rs (p ++ [i_row r]) = true ->
    let mt := add_implicit im irs t in
    let mu := add_implicit im irs u in
    let D := make_diff rm rs mt mu in
    (sub_at (p ++ [i_row r]) mt = Some [] /\ sub_at (p ++ [i_row r]) mu = Some []) /\
    Forall (fun e => d_op e = Unchanged) (entries_at (p ++ [i_row r]) D) /\
    entries_at (p ++ [i_row r]) (strip_unchanged D) = [].
Proof. exact no_spurious_diff. Qed.
Print Assumptions C17_no_spurious_partial.

Definition C17_no_spurious_patch_statement : Prop := no_spurious_patch_statement.

(* the underlying fact about make_diff alone (any two trees) *)
Theorem C17_childless_common_row_unchanged :
  forall rm rs old new p,
    wf old -> wf new -> p <> [] ->
    sub_at p old = Some [] -> sub_at p new = Some [] -> path_ddefault rm rs p = true ->
    Forall (fun e => d_op e = Unchanged) (entries_at p (make_diff rm rs old new)) /\
    entries_at p (strip_unchanged (make_diff rm rs old new)) = [].
Proof. exact leaf_both_unchanged. Qed.
Print Assumptions C17_childless_common_row_unchanged.

(* the diff-logic guard is needed: inside a %rewrite block the default is re-created (MOVED) with
   every other line of the block as soon as one line changes *)
Theorem C17_no_spurious_rewrite_refuted :
  exists irs rs t u p rs' t' u' r,
    wfr irs /\ okf t /\ okf u /\
    rules_at imatch irs p = Some rs' /\ sub_at p t = Some t' /\ sub_at p u = Some u' /\
    In r rs' /\ i_ign r = false /\
    has_match imatch (i_row r) t' = false /\ has_match imatch (i_row r) u' = false /\
    ~ In (i_row r) (keys t') /\ ~ In (i_row r) (keys u') /\
    map d_op (entries_at (p ++ [i_row r])
                (strip_unchanged (p_make_diff rs (add_implicit imatch irs t) (add_implicit imatch irs u))))
    = [Moved].
Proof. exact no_spurious_rewrite_refuted. Qed.
Print Assumptions C17_no_spurious_rewrite_refuted.

(* ---------------- every hardware branch of _implicit_tree ---------------- *)
Theorem C17_hw_completion :
  forall b, In b Src_branches -> forall t, okf t ->
    add_implicit imatch (branch_rules b) t = complete imatch (branch_rules b) t.
Proof. exact hw_completion. Qed.
Print Assumptions C17_hw_completion.

Theorem C17_hw_explicit_kept :
  forall b, In b Src_branches -> forall t, okf t ->
    subtree t (add_implicit imatch (branch_rules b) t) = true.
Proof. exact hw_explicit_kept. Qed.
Print Assumptions C17_hw_explicit_kept.

(* every shipped default row matches its own pattern, so clause 3 reads: the default row is ADDED
   at a parent iff no row there matches the rule's pattern *)
Theorem C17_hw_default_added_iff :
  forall b, In b Src_branches -> forall t p rs' t' r,
    okf t -> rules_at imatch (branch_rules b) p = Some rs' -> sub_at p t = Some t' ->
    In r rs' -> i_ign r = false ->
    exists m', sub_at p (add_implicit imatch (branch_rules b) t) = Some m' /\
               (In (i_row r) (keys m') /\ ~ In (i_row r) (keys t') <-> has_match imatch (i_row r) t' = false).
Proof. exact hw_default_added_iff. Qed.
Print Assumptions C17_hw_default_added_iff.

(* idempotent on every branch but Huawei NE (C17_idem_refuted) *)
Theorem C17_hw_idem :
  forall b t, In b Src_branches -> ib_name b <> "huawei_ne" -> okf t ->
    add_implicit imatch (branch_rules b) (add_implicit imatch (branch_rules b) t)
    = add_implicit imatch (branch_rules b) t.
Proof. exact hw_idem. Qed.
Print Assumptions C17_hw_idem.

Theorem C17_hw_no_spurious_partial :
  forall b, In b Src_branches -> forall rs t u p rs' t' u' r,
    okf t -> okf u ->
    rules_at imatch (branch_rules b) p = Some rs' -> sub_at p t = Some t' -> sub_at p u = Some u' ->
    In r rs' -> i_ign r = false ->
    has_match imatch (i_row r) t' = false -> has_match imatch (i_row r) u' = false ->
    path_ddefault pm rs (p ++ [i_row r]) = true ->
    let mt := add_implicit imatch (branch_rules b) t in
    let mu := add_implicit imatch (branch_rules b) u in
    let D := p_make_diff rs mt mu in
    Forall (fun e => d_op e = Unchanged) (entries_at (p ++ [i_row r]) D) /\
    entries_at (p ++ [i_row r]) (strip_unchanged D) = [].
Proof. exact hw_no_spurious_diff. Qed.
Print Assumptions C17_hw_no_spurious_partial.

(* ---------------- non-vacuity of the guards ---------------- *)
Definition ex_rs : rset :=
  ([PRule "stp ~" false (Attrs "stp ~" LDefault DDefault false false) [] [];
    PRule "user-interface *" false (Attrs "user-interface *" LDefault DDefault true false)
          [PRule "user ~" false (Attrs "user ~" LDefault DDefault false false) [] []] []], []).
Definition ex_t : forest := [("stp mode rstp x", T []); ("user-interface con 0", T [("idle-timeout 5", T [])])].
Definition ex_u : forest := [("user-interface con 0", T [])].

(* idem_guard holds of a shipped rule tree with nested rules (Huawei CE) *)
Example C17_idem_guard_nonvacuous :
  idem_guard imatch (branch_rules br_huawei_ce) = true /\ okf ex_t /\ wfr (branch_rules br_huawei_ce).
Proof.
  split; [vm_compute; reflexivity|]. split.
  - repeat constructor; cbn; intuition discriminate.
  - apply src_branches_wfr. vm_compute. tauto.
Qed.

(* clause 3 and clause 4 below the top level: parent "user-interface con 0", default
   "user privilege level 3"; all guards hold and the diff does have an (UNCHANGED) entry for it *)
Example C17_no_spurious_nonvacuous :
  let R := branch_rules br_huawei_ce in
  let p := ["user-interface con 0"] in
  exists rs' t' u' r,
    rules_at imatch R p = Some rs' /\ sub_at p ex_t = Some t' /\ sub_at p ex_u = Some u' /\
    In r rs' /\ i_ign r = false /\ i_row r = "user privilege level 3" /\
    has_match imatch (i_row r) t' = false /\ has_match imatch (i_row r) u' = false /\
    path_ddefault pm ex_rs (p ++ [i_row r]) = true /\
    List.length (entries_at (p ++ [i_row r])
                   (p_make_diff ex_rs (add_implicit imatch R ex_t) (add_implicit imatch R ex_u))) = 1.
Proof.
  cbv zeta.
  exists [IRule "user privilege level 3" false []], [("idle-timeout 5", T [])], [],
         (IRule "user privilege level 3" false []).
  vm_compute. repeat split; auto.
Qed.
