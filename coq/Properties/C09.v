(* C09 — the command stream sent at deploy is exactly the patch that was shown.
   Theorems only; the lemma libraries are Proofs/BlocksProofs.v and Proofs/DeployProofs.v. *)
From Coq Require Import List String Ascii Bool Arith NArith ZArith.
From Annet Require Import Base.Str Model.Pattern Model.Order Model.Patch Model.Blocks Gen.Src_apply Model.Deploy
     Spec.P_C09 Proofs.BlocksProofs Proofs.DeployProofs Proofs.DeployCtxProofs Proofs.DeployModelP.
Import ListNotations.
Open Scope string_scope.
Open Scope list_scope.

(* ---------------------------------------------------------------------------------------
   Formatter side.  indent_lines = what `annet patch` prints (indentation level, row);
   path_stack = the keys of the ordered dict CommonFormatter.cmd_paths hands to the deployer;
   lv p = (|p| - 1, last p). *)

(* For ANY well-bracketed block stream: the printed lines are exactly (depth, command) of the
   command paths, in order, provided no path repeats (the ordered dict then loses nothing). *)
Theorem C09_stream :
  forall s : list elem,
    wb s 0 false = true -> NoDup (raw_paths s []) ->
    indent_lines s 0 = map lv (path_stack s [] []).
Proof. exact stream_shown_is_sent. Qed.
Print Assumptions C09_stream.

(* ... and without the ordered dict the equation needs no side condition at all *)
Theorem C09_stream_raw :
  forall s : list elem, wb s 0 false = true -> indent_lines s 0 = map lv (raw_paths s []).
Proof. exact stream_lines. Qed.
Print Assumptions C09_stream_raw.

(* every formatter family yields a well-bracketed stream for every patch tree *)
Theorem C09_stream_any_family :
  forall (f : family) (parent : string) (t : ptree), wb (blocks f parent t) 0 false = true.
Proof. exact wb_blocks_top. Qed.
Print Assumptions C09_stream_any_family.

(* distinct rows at every displayed level (sibling rows and the exit statements shown beside
   them) => all paths distinct => cmd_paths keeps every row *)
Theorem C09_paths_nodup :
  forall (f : family) (parent : string) (t : ptree),
    sib_distinct f parent t = true ->
    NoDup (raw_paths (blocks f parent t) []) /\
    path_stack (blocks f parent t) [] [] = raw_paths (blocks f parent t) [].
Proof. exact paths_nodup. Qed.
Print Assumptions C09_paths_nodup.

(* what is shown is what is sent: every block-structured family, every patch tree of the domain *)
Theorem C09_shown_is_sent :
  forall (f : family) (t : ptree),
    block_family f = true ->
    sib_distinct f "" t = true ->
    indent_lines (blocks f "" t) 0 = map lv (cmd_paths f t).
Proof.
  intros f t Hf H. rewrite (shown_is_sent f t H). destruct f; try discriminate; reflexivity.
Qed.
Print Assumptions C09_shown_is_sent.

(* the model of cmd_paths that also carries the per-row contexts (used for %ifcontext rules;
   exit statements take the context of the last row seen) has exactly these keys *)
Theorem C09_paths_with_contexts :
  forall (f : family) (t : ctree), map fst (ccmd_paths f t) = path_stack (blocks f "" (erase t)) [] [].
Proof. exact ccmd_paths_keys. Qed.
Print Assumptions C09_paths_with_contexts.

(* outside the domain entries collapse: shown twice, sent once *)
Theorem C09_dup_refuted :
  exists (f : family) (t : ptree),
    sib_distinct f "" t = false /\
    List.length (cmd_paths f t) < List.length (indent_lines (blocks f "" t) 0).
Proof.
  exists (FBlockExit "exit"), (PT [("ap-env a", None, (ZFin 0%Z, "", true)); ("ap-env a", None, (ZFin 0%Z, "", true))]).
  vm_compute. split; [reflexivity|repeat constructor].
Qed.
Print Assumptions C09_dup_refuted.

(* the same with a tree that already holds its block's exit statement as a row *)
Theorem C09_dup_exit_refuted :
  exists (f : family) (t : ptree),
    sib_distinct f "" t = false /\
    List.length (cmd_paths f t) < List.length (indent_lines (blocks f "" t) 0).
Proof.
  exists FCisco, (PT [("router bgp 1", Some (PT [("address-family ipv4", Some (PT [("exit-address-family", None, (ZFin 0%Z, "", true))]),
                                                  (ZFin 0%Z, "", true))]), (ZFin 0%Z, "", true))]).
  vm_compute. split; [reflexivity|repeat constructor].
Qed.
Print Assumptions C09_dup_exit_refuted.

(* the displayed patch is the tree, each block followed by the vendor's exit statement *)
Theorem C09_exit_after_each_block :
  forall (f : family) (parent : string) (d : nat) (t : ptree),
    indent_lines (blocks f parent t) d = shown f parent d t.
Proof. exact shown_spec. Qed.
Print Assumptions C09_exit_after_each_block.

(* never more than one exit statement per closed block; exactly one, the family's exit word one
   level below the header, for the plain block-exit families (Nexus, B4com, Aruba, Arista) *)
Theorem C09_exit_count :
  (forall f parent row next d, List.length (indent_lines (exit_stmt f parent row next) d) <= 1) /\
  (forall ex parent row next d, row <> "" ->
                                indent_lines (exit_stmt (FBlockExit ex) parent row next) d = [(S d, ex)]).
Proof. split; [exact exit_lines_le_1|exact exit_blockexit]. Qed.
Print Assumptions C09_exit_count.

Theorem C09_exit_cisco :
  forall parent row next d,
    row <> "" ->
    indent_lines (exit_stmt FCisco parent row next) d =
    [(S d, if startswith "address-family" row then "exit-address-family" else "exit")].
Proof. exact exit_cisco. Qed.
Print Assumptions C09_exit_cisco.

(* ---------------------------------------------------------------------------------------
   Deploy side.  deploy = annet.deploy.apply_deploy_rulebook for an arbitrary rule matcher
   `hit`, an arbitrary table of apply logics `wrappers` and an arbitrary deploy rulebook. *)

(* commands = wrapper-before ++ one Command per path, in order, level |path|-1 ++ wrapper-after,
   when the rules of all paths ask for the same wrapper *)
Theorem C09_deploy_body :
  forall hit wrappers rules paths w cmds,
    paths <> [] ->
    (forall pc, In pc paths -> wrapper_of hit wrappers rules pc = w) ->
    deploy hit wrappers rules paths = Some cmds ->
    exists b m a,
      cmds = b ++ m ++ a /\
      map c_cmd b = fst w /\ Forall (fun c => c_level c = 0) b /\
      map c_cmd a = snd w /\ Forall (fun c => c_level c = 0) a /\
      map (fun c => (c_level c, c_cmd c)) m = map (fun pc => lv (fst pc)) paths.
Proof. exact deploy_body. Qed.
Print Assumptions C09_deploy_body.

(* the general case: maximal runs of equal wrappers *)
Theorem C09_deploy_groups :
  forall hit wrappers rules paths cmds,
    deploy hit wrappers rules paths = Some cmds ->
    exists items emitted,
      opt_all (map (body_cmd hit wrappers rules) paths) = Some items /\
      map (fun x => (c_level (fst x), c_cmd (fst x))) items = map (fun pc => lv (fst pc)) paths /\
      List.concat (map snd (groupby items)) = map fst items /\
      adjacent_differ (groupby items) /\
      Forall2 (fun g x => emit_group hit rules g = Some x) (groupby items) emitted /\
      cmds = List.concat emitted.
Proof. exact deploy_groups. Qed.
Print Assumptions C09_deploy_groups.

(* each emitted group is its wrapper's commands at level 0 around its members *)
Theorem C09_deploy_group_shape :
  forall hit rules g x,
    emit_group hit rules g = Some x ->
    exists b a, x = b ++ snd g ++ a /\
                map c_cmd b = fst (fst g) /\ Forall (fun c => c_level c = 0) b /\
                map c_cmd a = snd (fst g) /\ Forall (fun c => c_level c = 0) a.
Proof. exact emit_group_shape. Qed.
Print Assumptions C09_deploy_group_shape.

(* Session wrapper, over the decision table regenerated from common.apply on this run: for every
   hardware (any assignment of the hardware flags and opaque atoms) and every (do_commit,
   do_finalize): only session commands — enter before; commit, leave, save after —, no commit
   command unless do_commit, no save command unless do_finalize. *)
Theorem C09_wrapper :
  forall (e : env) (w : wrapper),
    common_apply e = Some w -> wrapper_ok (e_commit e) (e_finalize e) w = true.
Proof. exact common_apply_wrapper_ok. Qed.
Print Assumptions C09_wrapper.

Theorem C09_no_commit :
  forall (e : env) (w : wrapper) (c : string),
    common_apply e = Some w -> e_commit e = false -> In c (fst w ++ snd w) -> is_class WCommit c = false.
Proof. exact no_commit_without_do_commit. Qed.
Print Assumptions C09_no_commit.

(* the only other shipped apply logic (aruba ap-env) *)
Theorem C09_wrapper_ap_env :
  forall e : env, wrapper_ok_weak (e_commit e) (ap_env_apply e) = true.
Proof. exact ap_env_wrapper_ok. Qed.
Print Assumptions C09_wrapper_ap_env.

(* match_deploy_rule = the rule of the unique chain matching the path, whenever every header
   row of the path is matched by at most one sibling rule ... *)
Theorem C09_match_rule :
  forall hit path rs c, chain_det hit rs path c = true -> match_rule hit rs path c = spec_rule hit rs path c.
Proof. exact match_rule_spec. Qed.
Print Assumptions C09_match_rule.

(* ... in particular for every path when sibling rules have disjoint languages at every level *)
Theorem C09_match_rule_disjoint :
  forall hit rs, disjoint_book hit rs ->
                 forall path c, match_rule hit rs path c = spec_rule hit rs path c.
Proof. intros hit rs H path c. apply match_rule_spec. apply disjoint_chain_det. exact H. Qed.
Print Assumptions C09_match_rule_disjoint.

(* timeout/dialogs of a command are those of that rule, else (30 s, none) *)
Theorem C09_cmd_params :
  forall hit wrappers rules p c cmd w,
    chain_det hit rules p c = true ->
    body_cmd hit wrappers rules (p, c) = Some (cmd, w) ->
    (c_timeout cmd, c_questions cmd) = spec_params (spec_rule hit rules p c).
Proof. exact cmd_params_spec. Qed.
Print Assumptions C09_cmd_params.

(* a command is refused (Exception "not supported false send_nl") exactly when its rule carries
   a dialog with %send_nl=0 *)
Theorem C09_cmd_refused :
  forall hit wrappers rules p c,
    chain_det hit rules p c = true ->
    (body_cmd hit wrappers rules (p, c) = None <->
     exists r, spec_rule hit rules p c = Some r /\ send_nl_ok r = false).
Proof. exact body_cmd_raises. Qed.
Print Assumptions C09_cmd_refused.

(* outside that domain the code does not take the first matching rule: of two sibling rules
   matching a header row it descends into the last one *)
Theorem C09_first_match_refuted :
  exists rs path c, chain_det row_hit rs path c = false /\
                    match_rule row_hit rs path c <> spec_rule row_hit rs path c.
Proof.
  exists [DRule "bgp *" 5000 [] [] 0 [DRule "peer *" 7000 [] [] 0 []];
          DRule "bgp 1" 9000 [] [] 0 [DRule "peer *" 11000 [] [] 0 []]],
         ["bgp 1"; "peer x"], [].
  vm_compute. split; [reflexivity|discriminate].
Qed.
Print Assumptions C09_first_match_refuted.

(* the matcher used in the case files (rule rows parsed once) is the model's matcher *)
Theorem C09_fast_hit :
  forall rs r row c, fast_hit rs r row c = row_hit r row c.
Proof. exact fast_hit_eq. Qed.
Print Assumptions C09_fast_hit.

(* ---------------------------------------------------------------------------------------
   The predicate evaluated on the implementation's outputs (Spec/P_C09.v) is satisfied by the
   model's own outputs: formatter clauses c9_shown / c9_exits ... *)
Theorem C09_model_formatter :
  forall (f : family) (t : ctree),
    sib_distinct f "" (erase t) = true ->
    lines_eqb (indent_lines (blocks f "" (erase t)) 0) (map (fun pc => lv (fst pc)) (ccmd_paths f t)) = true /\
    lines_eqb (indent_lines (blocks f "" (erase t)) 0) (shown f "" 0 (erase t)) = true.
Proof. exact model_shown_is_sent. Qed.
Print Assumptions C09_model_formatter.

(* ... and the command-stream clause c9_params (command text, level, timeout, dialogs of every
   command incl. the wrapper) when every path has a unique rule chain under the default apply logic *)
Theorem C09_model_stream :
  forall (h : hitfn) (o : obs09) (wrappers : nat -> wrapper),
    single_wrapper h o = true ->
    forall r w cmds,
      r_common r = Some w -> wrappers 0 = w -> r_cmds r = Some cmds ->
      deploy h wrappers (o_rules o) (o_paths0 o) = Some cmds ->
      run_stream cmd_fits h o true (map (fun pc => expect h o (fst pc) (snd pc)) (o_paths0 o)) r = true.
Proof. exact model_stream_fits. Qed.
Print Assumptions C09_model_stream.

(* ---------------------------------------------------------------------------------------
   Non-vacuity of the guarded statements *)

Definition sk0 : skey := (ZFin 0%Z, "", true).

Definition ex_tree : ptree :=
  PT [("xpl route-filter RF", Some (PT [("if a then", Some (PT [("apply x", None, sk0)]), sk0);
                                       ("else", Some (PT [("drop", None, sk0)]), sk0)]), sk0);
      ("bgp 1", Some (PT [("undo peer 1.1.1.1", None, sk0); ("ipv4-family unicast", Some (PT []), sk0)]), sk0);
      ("save", None, sk0)].

Example ex_domain : sib_distinct FHuawei "" ex_tree = true.
Proof. vm_compute. reflexivity. Qed.

Example ex_shown :
  indent_lines (blocks FHuawei "" ex_tree) 0 =
  [(0, "xpl route-filter RF"); (1, "if a then"); (2, "apply x"); (1, "else"); (2, "drop"); (1, "endif");
   (1, "end-filter"); (0, "bgp 1"); (1, "undo peer 1.1.1.1"); (1, "ipv4-family unicast"); (2, "quit"); (1, "quit");
   (0, "save")].
Proof. vm_compute. reflexivity. Qed.

Example ex_stream :
  wb (blocks FHuawei "" ex_tree) 0 false = true /\ nodupb (raw_paths (blocks FHuawei "" ex_tree) []) = true.
Proof. vm_compute. split; reflexivity. Qed.

Definition ex_rules : list drule :=
  [DRule "bgp *" 60000 [Dlg "sure?" "Y" true] [] 0
         [DRule "undo peer *" 5500 [Dlg "/x.*/" "N" true] [] 0 []];
   DRule "save" 10000 [] [] 0 [];
   DRule "undo peer *" 7000 [] [] 0 []].

Definition ex_paths : list (list string * ctx) :=
  [(["bgp 1"], []); (["bgp 1"; "undo peer 1.1.1.1"], []); (["bgp 1"; "quit"], []);
   (["interface X"; "undo peer 2.2.2.2"], []); (["save"], [])].

Definition ex_env : env := Env false true (fun s => String.eqb s "Arista") (fun _ => false).

Example ex_chain : forallb (fun pc => chain_det row_hit ex_rules (fst pc) (snd pc)) ex_paths = true.
Proof. vm_compute. reflexivity. Qed.

Example ex_deploy :
  deploy row_hit (std_wrappers ex_env) ex_rules ex_paths =
  Some [Cmd "conf s" 0 30000 [];
        Cmd "bgp 1" 0 60000 [Q "sure?" "Y" false];
        Cmd "undo peer 1.1.1.1" 1 5500 [Q "x.*" "N" true];
        Cmd "quit" 1 30000 [];
        Cmd "undo peer 2.2.2.2" 1 7000 [];
        Cmd "save" 0 10000 [];
        Cmd "abort" 0 30000 [];
        Cmd "write memory" 0 30000 []].
Proof. vm_compute. reflexivity. Qed.

Example ex_single_wrapper :
  forallb (fun pc => wrapper_eqb (wrapper_of row_hit (std_wrappers ex_env) ex_rules pc) (["conf s"], ["abort"; "write memory"]))
          ex_paths = true.
Proof. vm_compute. reflexivity. Qed.

Example ex_wrapper : common_apply ex_env = Some (["conf s"], ["abort"; "write memory"]).
Proof. vm_compute. reflexivity. Qed.

Example ex_refused :
  deploy row_hit (std_wrappers ex_env) [DRule "no username *" 30000 [Dlg "confirm" "Y" false] [] 0 []]
         [(["no username bob"], [])] = None.
Proof. vm_compute. reflexivity. Qed.

(* a rulebook whose sibling languages are disjoint at every level, for the exact-row matcher *)
Example ex_disjoint :
  disjoint_book (fun r row _ => String.eqb (d_pat r) row)
                [DRule "a" 1000 [] [] 0 [DRule "b" 2000 [] [] 0 []; DRule "c" 3000 [] [] 0 []]; DRule "d" 4000 [] [] 0 []].
Proof.
  assert (forall (l : list drule) (row : string), NoDup (map d_pat l) ->
                                         List.length (filter (fun r => String.eqb (d_pat r) row) l) <= 1) as Hnd.
  { intros l row. induction l as [|x l IH]; cbn; intro H; [auto|].
    inversion H as [|? ? Hx Hl]; subst. destruct (String.eqb (d_pat x) row) eqn:E; [|apply IH; exact Hl].
    apply String.eqb_eq in E. cbn. apply le_n_S.
    assert (filter (fun r => String.eqb (d_pat r) row) l = []) as ->; [|auto].
    clear - Hx E. induction l as [|y l IH]; [reflexivity|]. cbn.
    destruct (String.eqb (d_pat y) row) eqn:Ey.
    - apply String.eqb_eq in Ey. exfalso. apply Hx. left. congruence.
    - apply IH. intro H. apply Hx. right. exact H. }
  assert (forall p t, disjoint_book (fun r row _ => String.eqb (d_pat r) row) (d_kids (DRule p t [] [] 0 []))) as Hleaf.
  { intros p t. cbn [d_kids]. constructor; [intros rr cc; cbn; auto|constructor]. }
  constructor.
  - intros rr cc. apply (Hnd _ rr). cbn. repeat constructor; cbn; intuition discriminate.
  - constructor; [|constructor; [apply Hleaf|constructor]].
    cbn [d_kids]. constructor.
    + intros rr cc. apply (Hnd _ rr). cbn. repeat constructor; cbn; intuition discriminate.
    + constructor; [apply Hleaf|constructor; [apply Hleaf|constructor]].
Qed.

(* the guard of C09_model_stream on a concrete observation (Arista, do_commit = false) *)
Definition ex_obs : obs09 :=
  Obs09 (FBlockExit "exit") (CT []) [] ex_paths ex_paths ex_rules ["Arista"] []
        [Run09 false true (Some (["conf s"], ["abort"; "write memory"])) ([], [])
               (deploy row_hit (std_wrappers ex_env) ex_rules ex_paths)].

Example ex_single_guard : single_wrapper row_hit ex_obs = true.
Proof. vm_compute. reflexivity. Qed.

Example ex_stream_clause :
  forallb (run_stream cmd_fits row_hit ex_obs true (map (fun pc => expect row_hit ex_obs (fst pc) (snd pc)) ex_paths))
          (o_runs ex_obs) = true.
Proof. vm_compute. reflexivity. Qed.

(* =======================================================================================
   Second part: any number of apply logics in one patch, the frame property of the per-command
   parameters, deploy rules in the extended rule language, dialog questions as predicates. *)
From Annet Require Import Model.DeployY Model.Dialog Spec.P_C07 Spec.P_C09G
     Proofs.DeployGroups Proofs.DeployYProofs Proofs.DialogProofs.

(* ---------------------------------------------------------------------------------------
   itertools.groupby(cmds_with_apply, key = (before texts, after texts)).
   is_runs l gs: gs written back as a keyed list is l (nothing dropped, added or moved), no
   group is empty, neighbouring groups have different keys.  The model's groupby is such a
   decomposition and there is no other one. *)
Theorem C09_groupby_runs :
  forall l : list (command * wrapper),
    is_runs l (groupby l) /\ (forall gs, is_runs l gs -> gs = groupby l).
Proof.
  intro l. rewrite groupby_runs_by. split; [apply runs_by_is_runs|apply runs_unique].
Qed.
Print Assumptions C09_groupby_runs.

(* apply_deploy_rulebook for ANY number of apply logics.  The command list is a sequence of
   sessions; a session is (wrapper, before commands, the paths of a run with their commands, after
   commands) and
     - the paths of the sessions, concatenated, are the cmd_paths sequence: every command of the
       patch exactly once, in patch order, nothing moved across a session border;
     - every path of a session asks for the session's wrapper (the one of its rule's apply logic),
       and its command is the command of that path (text, level, timeout, dialogs);
     - the before/after commands are the wrapper's texts, each at level 0 with the parameters of
       the rule matching it as a one-row path;
     - no session is empty and neighbouring sessions have different wrappers. *)
Theorem C09_deploy_sessions :
  forall hit wrappers rules paths cmds,
    deploy hit wrappers rules paths = Some cmds ->
    exists segs : list seg,
      cmds = flat_map seg_cmds segs /\
      flat_map (fun s => map fst (sg_m s)) segs = paths /\
      Forall (seg_ok hit wrappers rules) segs /\
      adj_differ (map (fun s => (sg_w s, sg_m s)) segs).
Proof. exact deploy_general. Qed.
Print Assumptions C09_deploy_sessions.

(* the stream with every wrapper command removed is one command per path, in order, at level
   |path| - 1 *)
Theorem C09_deploy_body_general :
  forall hit wrappers rules paths cmds,
    deploy hit wrappers rules paths = Some cmds ->
    exists segs : list seg,
      cmds = flat_map seg_cmds segs /\ Forall (seg_ok hit wrappers rules) segs /\
      adj_differ (map (fun s => (sg_w s, sg_m s)) segs) /\
      Forall2 (fun pc c => body_only hit wrappers rules pc = Some c) paths (strip_wrappers segs) /\
      map (fun c => (c_level c, c_cmd c)) (strip_wrappers segs) = map (fun pc => lv (fst pc)) paths.
Proof. exact deploy_body_general. Qed.
Print Assumptions C09_deploy_body_general.

(* what seg_ok says about the wrapper commands, spelled out *)
Theorem C09_session_wrapper :
  forall hit wrappers rules (s : seg),
    seg_ok hit wrappers rules s ->
    map c_cmd (sg_b s) = fst (sg_w s) /\ Forall (fun c => c_level c = 0) (sg_b s) /\
    map c_cmd (sg_a s) = snd (sg_w s) /\ Forall (fun c => c_level c = 0) (sg_a s) /\
    Forall (fun x => wrappers (d_apply (rule_for hit rules (fst (fst x)) (snd (fst x)))) = sg_w s) (sg_m s).
Proof.
  intros hit wrappers rules s [_ [Hm [Hb Ha]]].
  assert (forall l cs, wraps hit rules l cs -> map c_cmd cs = l /\ Forall (fun c => c_level c = 0) cs) as Hw.
  { intros l cs H. induction H as [|t c l cs Hc _ [I1 I2]]; [split; [reflexivity|constructor]|].
    apply wrap_cmd_shape in Hc as [H1 H2]. cbn. split; [congruence|constructor; assumption]. }
  destruct (Hw _ _ Hb) as [B1 B2]. destruct (Hw _ _ Ha) as [A1 A2].
  repeat (split; [assumption|]).
  rewrite Forall_forall in *. intros x Hx. apply (Hm x Hx).
Qed.
Print Assumptions C09_session_wrapper.

(* ---------------------------------------------------------------------------------------
   Frame property of the per-command parameters: position i of the stream without wrapper commands
   is the command of path i — text, level and, where the rule chain is unique, timeout and dialogs
   of the rule chain of THAT path (match_deploy_rule walks the whole path) ... *)
Theorem C09_own_chain :
  forall hit wrappers rules paths cmds,
    deploy hit wrappers rules paths = Some cmds ->
    exists segs : list seg,
      cmds = flat_map seg_cmds segs /\ Forall (seg_ok hit wrappers rules) segs /\
      forall i p c, nth_error paths i = Some (p, c) ->
        exists k, nth_error (strip_wrappers segs) i = Some k /\
                  c_cmd k = path_cmd p /\ c_level k = path_level p /\
                  (chain_det hit rules p c = true ->
                   (c_timeout k, c_questions k) = spec_params (spec_rule hit rules p c)).
Proof. exact deploy_own_chain. Qed.
Print Assumptions C09_own_chain.

(* ... and nothing is carried over from the commands seen before: the same path with the same
   context gets the same command in any two patches, at any two positions *)
Theorem C09_frame :
  forall hit wrappers rules paths1 cmds1 paths2 cmds2,
    deploy hit wrappers rules paths1 = Some cmds1 ->
    deploy hit wrappers rules paths2 = Some cmds2 ->
    exists segs1 segs2 : list seg,
      cmds1 = flat_map seg_cmds segs1 /\ Forall (seg_ok hit wrappers rules) segs1 /\
      cmds2 = flat_map seg_cmds segs2 /\ Forall (seg_ok hit wrappers rules) segs2 /\
      forall i j pc, nth_error paths1 i = Some pc -> nth_error paths2 j = Some pc ->
                     nth_error (strip_wrappers segs1) i = nth_error (strip_wrappers segs2) j /\
                     nth_error (strip_wrappers segs1) i <> None.
Proof. exact deploy_frame. Qed.
Print Assumptions C09_frame.

(* the last element of a path does not determine the parameters: the same command text under two
   blocks, two different rule chains (a rule memoised by command text is wrong) *)
Definition twin_rules : list drule :=
  [DRule "bgp *" 30000 [] [] 0
         [DRule "shutdown" 120000 [Dlg "Warning: All BGP sessions will be closed. Continue? [Y/N]:" "Y" true] [] 0 []];
   DRule "interface *" 30000 [] [] 0 [DRule "undo portswitch" 90000 [] [] 0 []]].

Theorem C09_last_element_insufficient :
  exists rules p1 p2,
    last p1 "" = last p2 "" /\
    chain_det row_hit rules p1 [] = true /\ chain_det row_hit rules p2 [] = true /\
    spec_params (spec_rule row_hit rules p1 []) <> spec_params (spec_rule row_hit rules p2 []).
Proof.
  exists twin_rules, ["interface 100GE1/0/1"; "shutdown"], ["bgp 65000"; "shutdown"].
  vm_compute. repeat split; discriminate.
Qed.
Print Assumptions C09_last_element_insufficient.

(* ---------------------------------------------------------------------------------------
   The clause c9_groups of the predicate (Spec/P_C09G.v: the expected stream for any number of
   apply logics, computed from the declarative rule chain and the observed wrappers) holds for the
   model's own output whenever every path has a unique rule chain. *)
Theorem C09_model_groups :
  forall (h : hitfn) (o : obs09) (wrappers : nat -> wrapper) (r : run09),
    (forall id, wrappers id = obs_wrapper r id) ->
    all_det h o = true ->
    forall w cmds,
      r_common r = Some w -> r_cmds r = Some cmds ->
      deploy h wrappers (o_rules o) (o_paths0 o) = Some cmds ->
      run_groups cmd_fits h o r = true.
Proof. exact model_groups_fit. Qed.
Print Assumptions C09_model_groups.

(* with one apply logic the expected stream of c9_groups is wrapper-before ++ body ++ wrapper-after,
   the stream P_C09's single-wrapper clause compares with: c9_groups extends that clause *)
Theorem C09_groups_single :
  forall (h : hitfn) (o : obs09) (r : run09) (w : wrapper),
    single_wrapper h o = true -> r_common r = Some w -> o_paths0 o <> [] ->
    all_det h o = true /\
    exp_stream h o r =
    exp_wrap h o (fst w) ++ map (fun pc => expect h o (fst pc) (snd pc)) (o_paths0 o) ++ exp_wrap h o (snd w).
Proof. exact exp_stream_single. Qed.
Print Assumptions C09_groups_single.

(* ---------------------------------------------------------------------------------------
   Deploy rules in the extended rule language (Model/PatternY.v): a conservative extension. *)
Theorem C09_hit_y_conservative :
  forall r row c, row_plain (d_pat r) = true -> row_hit_y r row c = row_hit r row c.
Proof. exact row_hit_y_conservative. Qed.
Print Assumptions C09_hit_y_conservative.

Theorem C09_deploy_y_conservative :
  forall wrappers rules,
    book_plain rules = true ->
    (forall path c, match_rule row_hit_y rules path c = match_rule row_hit rules path c) /\
    (forall paths, deploy row_hit_y wrappers rules paths = deploy row_hit wrappers rules paths).
Proof.
  intros wrappers rules H. split.
  - intros path c. apply match_rule_y_conservative. exact H.
  - intro paths. apply deploy_y_conservative. exact H.
Qed.
Print Assumptions C09_deploy_y_conservative.

Theorem C09_fast_hit_y :
  forall rs r row c, fast_hit_y rs r row c = row_hit_y r row c.
Proof. exact fast_hit_y_eq. Qed.
Print Assumptions C09_fast_hit_y.

(* ---------------------------------------------------------------------------------------
   Dialog questions / ignore texts as predicates on what the device printed
   (MakeMessageMatcher, RulebookQuestionHandler). *)

(* a text not written as /re/ accepts exactly the contents holding it once whitespace and letter
   case are ignored *)
Theorem C09_dialog_plain :
  forall text content,
    plain_msg text = true ->
    (msg_matches text content = Some true <->
     exists u v, simplify_l (l_of content) = u ++ simplify_l (l_of text) ++ v).
Proof. exact plain_msg_spec. Qed.
Print Assumptions C09_dialog_plain.

Theorem C09_dialog_plain_self :
  forall text pre post content,
    plain_msg text = true ->
    simplify_l (l_of content) = simplify_l (pre ++ l_of text ++ post) ->
    msg_matches text content = Some true.
Proof. exact plain_msg_self. Qed.
Print Assumptions C09_dialog_plain_self.

(* a text written as /re/ (modelled language): some prefix of the content is in the language of
   the expression, letter case ignored *)
Theorem C09_dialog_regex :
  forall text src r content,
    mk_matcher text = MRe src (Some r) ->
    (msg_matches text content = Some true <->
     exists u v, l_of content = u ++ v /\ sre_lang true r u).
Proof. exact re_msg_spec. Qed.
Print Assumptions C09_dialog_regex.

(* a /re/ source inside the modelled language: every word between single blanks is a one-word regexp,
   and the expression accepts exactly the words' languages joined by single blanks *)
Theorem C09_dialog_regex_words :
  forall src r,
    parse_dre src = Some r ->
    exists rs, Forall2 (fun w a => parse_sre_l w = Some a) (split_sp src []) rs /\
               forall ic w, sre_lang ic r w <-> exists us, Forall2 (sre_lang ic) rs us /\ w = ljoin_sp us.
Proof. exact parse_dre_words. Qed.
Print Assumptions C09_dialog_regex_words.

(* the answer sent is that of the first dialog whose question accepts the content *)
Theorem C09_dialog_first :
  forall ds content,
    dialogs_modelled ds = true ->
    answer_for ds content = Some (option_map dg_answer (find (q_hits content) ds)).
Proof. exact answer_for_first. Qed.
Print Assumptions C09_dialog_first.

(* the Question handed to the deploy driver is marked as a regular expression exactly when the
   question text is written between slashes, and then carries the text between them; for the
   (stripped) texts of a compiled rule that is exactly when annet's own matcher reads it as /re/ *)
Theorem C09_question_kind :
  forall d q,
    to_question d = Some q ->
    q_regexp q = is_slashed (l_of (dg_question d)) /\
    q_answer q = dg_answer d /\
    (q_regexp q = true -> l_of (q_text q) = inner (l_of (dg_question d))) /\
    (q_regexp q = false -> q_text q = dg_question d).
Proof. exact question_kind. Qed.
Print Assumptions C09_question_kind.

Theorem C09_question_kind_matcher :
  forall d q,
    to_question d = Some q -> strip_l (l_of (dg_question d)) = l_of (dg_question d) ->
    (q_regexp q = true <-> exists src r, mk_matcher (dg_question d) = MRe src r).
Proof. exact question_kind_matcher. Qed.
Print Assumptions C09_question_kind_matcher.

(* the clause holds_dlg evaluated on the real question handler holds for the model's own outputs *)
Theorem C09_model_dialogs :
  forall ds igs contents,
    dialogs_modelled ds = true ->
    holds_dlg (ObsDlg ds igs (map (model_rundlg ds igs) contents)) = true.
Proof. exact model_dialogs_hold. Qed.
Print Assumptions C09_model_dialogs.

(* ---------------------------------------------------------------------------------------
   Non-vacuity of the second part *)

(* two apply logics interleaved: three sessions, the patch commands in patch order *)
Definition ex2_rules : list drule :=
  [DRule "~" 30000 [] [("block", "ap-env")] 1 []; DRule "write memory" 45000 [] [] 0 []].
Definition ex2_paths : list (list string * ctx) :=
  [(["name:a"], [("block", "ap-env")]); (["usb-port-disable"], []); (["iap-master"], [("block", "ap-env")])].
Definition ex2_env : env := Env true true (fun s => String.eqb s "Aruba") (fun _ => false).

Example ex2_deploy :
  deploy row_hit (std_wrappers ex2_env) ex2_rules ex2_paths =
  Some [Cmd "name:a" 0 30000 []; Cmd "write memory" 0 45000 [];
        Cmd "conf t" 0 30000 []; Cmd "usb-port-disable" 0 30000 []; Cmd "end" 0 30000 []; Cmd "commit apply" 0 30000 [];
        Cmd "write memory" 0 45000 [];
        Cmd "iap-master" 0 30000 []; Cmd "write memory" 0 45000 []].
Proof. vm_compute. reflexivity. Qed.

Definition ex2_obs : obs09 :=
  Obs09 (FBlockExit "exit") (CT []) [] ex2_paths ex2_paths ex2_rules ["Aruba"] []
        [Run09 true true (common_apply ex2_env) (ap_env_apply ex2_env)
               (deploy row_hit (std_wrappers ex2_env) ex2_rules ex2_paths)].

Example ex2_guards :
  all_det row_hit ex2_obs = true /\ single_wrapper row_hit ex2_obs = false /\
  forallb (fun r => run_groups cmd_fits row_hit ex2_obs r) (o_runs ex2_obs) = true.
Proof. vm_compute. repeat split. Qed.

(* a rulebook of the plain language, and rule rows only the extended language reads *)
Example ex_book_plain : book_plain ex_rules = true /\ book_plain twin_rules = true.
Proof. vm_compute. split; reflexivity. Qed.

Example ex_row_y :
  map row_modelled ["(ftp|FTP) *"; "undo (ftp|FTP) server enable"; "undo (ftp|FTP) (server source|server-source)"]
  = [true; true; false] /\
  map row_plain ["(ftp|FTP) *"; "undo (ftp|FTP) server enable"] = [false; false] /\
  row_hit_y (DRule "undo (ftp|FTP) ipv6 server enable" 30000 [] [] 0 []) "undo FTP ipv6 server enable" [] = true /\
  row_hit_y (DRule "(ftp|FTP) *" 30000 [] [] 0 []) "ftpd server" [] = false.
Proof. vm_compute. repeat split. Qed.

(* the six forms of /re/ questions in the shipped deploy rulebooks are inside the modelled language *)
Example ex_shipped_regex_dialogs :
  forallb msg_modelled
    ["/Warning: The current configuration will be written to the device. Continue\? \[Y/N\]:?/";
     "/Do you want to remove the public key named .*\? \[Y/N\]:/"; "/.*Continue\?/"; "/.*continue\?/";
     "/Warning: This operation will delete current ports.*/";
     "/Warning: The interfaces.* will be converted to .* mode/"] = true.
Proof. vm_compute. reflexivity. Qed.

Example ex_dialogs :
  plain_msg "Are you sure to continue?[Y/N]" = true /\
  msg_matches "Are you sure to continue?[Y/N]" "Warning: are you sure to  continue? [y/n]:" = Some true /\
  msg_matches "/Do you want to remove the public key named .*\? \[Y/N\]:/"
              "do you want to remove the public key named k1? [Y/N]:" = Some true /\
  msg_matches "/.*Continue\?/" "Warning: proceed? [Y/N]" = Some false /\
  msg_matches "/a b|c d/" "a b" = None /\
  dialogs_modelled [Dlg "/.*continue\?/" "Y" true; Dlg "sure" "N" true] = true /\
  answer_for [Dlg "/.*continue\?/" "Y" true; Dlg "sure" "N" true] "  Are you SURE? " = Some (Some "N").
Proof. vm_compute. repeat split. Qed.

(* =======================================================================================
   Third part: `annet deploy --dont-commit` builds the PATCH with do_commit = False as well
   (CliDeployerJob.parse_result -> _diff_and_patch(..., do_commit=not dont_commit)).
   Model/PatchDC.v is make_patch with that flag; Spec/P_C09DC.v the declarative reference. *)
From Annet Require Import Base.Tree Model.Rulebook Model.Diff Model.Pipeline Model.PatchDC Spec.P_C09DC Proofs.PatchDCProofs.

(* with do_commit = True it is the make_patch of Model/Patch.v (every theorem about that model stands) *)
Theorem C09_dc_true_is_make_patch :
  forall rmatch rsrc rrev block_exit rreverse p ord,
    make_patch_dc rmatch rsrc rrev block_exit rreverse true p ord = make_patch rmatch rsrc rrev block_exit rreverse p ord.
Proof. exact make_patch_dc_true. Qed.
Print Assumptions C09_dc_true_is_make_patch.

(* the flag matters only through %force_commit rules: a diff that meets none gives the same patch *)
Theorem C09_dc_irrelevant_without_force_commit :
  forall rmatch rsrc rrev block_exit rreverse p,
    fc_free p = true ->
    forall dc ord, make_patch_dc rmatch rsrc rrev block_exit rreverse dc p ord =
                   make_patch rmatch rsrc rrev block_exit rreverse p ord.
Proof. exact make_patch_dc_irrelevant. Qed.
Print Assumptions C09_dc_irrelevant_without_force_commit.

(* do_commit = False: every row of the patch, at ANY depth, is a row the diff offers to a rule that is not
   %force_commit (the row itself or the undo command of its slot), and not below a %force_commit rule:
   no `commit` row is added, nothing of a %force_commit rule is kept *)
Theorem C09_dc_no_added_row :
  forall rmatch rsrc rrev block_exit rreverse p ord t,
    make_patch_dc rmatch rsrc rrev block_exit rreverse false p ord = POk t ->
    incl (pt_rows t) (pre_rows rreverse p).
Proof. exact dc_false_rows. Qed.
Print Assumptions C09_dc_no_added_row.

(* in particular a `commit` row in such a patch is a row of the diff itself *)
Theorem C09_dc_no_commit_row :
  forall rmatch rsrc rrev block_exit rreverse p ord t,
    make_patch_dc rmatch rsrc rrev block_exit rreverse false p ord = POk t ->
    ~ In "commit" (pre_rows_all rreverse p) -> ~ In "commit" (pt_rows t).
Proof.
  intros rmatch rsrc rrev block_exit rreverse p ord t H Hn Hin. apply Hn.
  apply pre_rows_sub. exact (dc_false_rows rmatch rsrc rrev block_exit rreverse p ord t H _ Hin).
Qed.
Print Assumptions C09_dc_no_commit_row.

(* the clause c9_dc_rows of the predicate evaluated on the real outputs holds for the model's own output *)
Theorem C09_dc_model :
  forall (o : obsdc), dc_patch_ok (prreverse (od_vendor o)) (od_pre o) (model_dc o false) = true.
Proof. intro o. apply dc_patch_ok_model. Qed.
Print Assumptions C09_dc_model.

(* ---- the stream handed to the driver under --dont-commit *)
From Annet Require Import Spec.C09Blocks Proofs.PatchDCStream.

(* the command of every path of cmd_paths is a row of the patch tree or a block-exit statement of the family *)
Theorem C09_cmd_paths_rows :
  forall (f : family) (t : ptree) (p : list string),
    block_family f = true -> In p (cmd_paths f t) ->
    In (path_cmd p) (pt_rows t) \/ In (path_cmd p) (exit_words f).
Proof. exact cmd_paths_rows. Qed.
Print Assumptions C09_cmd_paths_rows.

(* apply_deploy_rulebook with do_commit = false (any rule matcher, any deploy rulebook, both shipped apply logics,
   any number of sessions): a commit-class command of the stream is the command of one of the paths *)
Theorem C09_deploy_no_commit_beyond_paths :
  forall hit (e : env) rules paths cmds c,
    e_commit e = false ->
    deploy hit (std_wrappers e) rules paths = Some cmds ->
    In c cmds -> is_class WCommit (c_cmd c) = true ->
    exists pc, In pc paths /\ c_cmd c = path_cmd (fst pc).
Proof. exact deploy_no_commit_beyond_paths. Qed.
Print Assumptions C09_deploy_no_commit_beyond_paths.

(* end to end, as CliDeployerJob.parse_result under --dont-commit: diff -> make_patch(do_commit=False) -> cmd_paths ->
   apply_deploy_rulebook(do_commit=False).  Every commit-class command of the stream is a row the diff offers to a
   rule that is not %force_commit: none is added by make_patch at any depth, none by the formatter, none by the
   session wrappers. *)
Theorem C09_dc_stream :
  forall rmatch rsrc rrev block_exit rreverse (p : pre) ord t
         (f : family) (paths : list (list string * ctx)) hit (e : env) rules cmds c,
    make_patch_dc rmatch rsrc rrev block_exit rreverse false p ord = POk t ->
    block_family f = true -> exits_not_commit f = true ->
    map fst paths = cmd_paths f t ->
    e_commit e = false ->
    deploy hit (std_wrappers e) rules paths = Some cmds ->
    In c cmds -> is_class WCommit (c_cmd c) = true ->
    In (c_cmd c) (pre_rows rreverse p).
Proof. exact dc_stream_rows. Qed.
Print Assumptions C09_dc_stream.

(* ---- non-vacuity of the third part *)

(* the guard on the family: every formatter family of the shipped vendors (their exit words are no commit) *)
Example ex_exits_not_commit :
  forallb exits_not_commit [FCommon; FBlockExit "exit"; FHuawei; FCisco; FAsr] = true.
Proof. vm_compute. reflexivity. Qed.

(* a user rulebook with %force_commit at depth 0, 1 and 2 (huawei) *)
Definition ex3_vendor : vendor := Vendor "undo" "quit" FHuawei.
Definition ex3_rules : rset :=
  ([(PRule "sysname *" false (Attrs "sysname *" LDefault DDefault false false) [] []);
    (PRule "assign forward nvo3 %force_commit" false (Attrs "assign forward nvo3" LDefault DDefault false true) [] []);
    (PRule "bgp *" false (Attrs "bgp *" LDefault DDefault true false)
       [(PRule "router-id *" false (Attrs "router-id *" LDefault DDefault false false) [] []);
        (PRule "ipv4-family vpn-instance *" false (Attrs "ipv4-family vpn-instance *" LDefault DDefault true false)
           [(PRule "route-distinguisher * %force_commit" false (Attrs "route-distinguisher *" LDefault DDefault false true) [] []);
            (PRule "peer * as-number *" false (Attrs "peer * as-number *" LDefault DDefault false false) [] [])] [])] []);
    (PRule "interface *" false (Attrs "interface *" LDefault DDefault true false)
       [(PRule "description ~" false (Attrs "description ~" LDefault DDefault false false) [] []);
        (PRule "port mode * %force_commit" false (Attrs "port mode *" LDefault DDefault false true) [] []);
        (PRule "mtu *" false (Attrs "mtu *" LDefault DDefault false false) [] [])] [])], []).
Definition ex3_old : forest :=
  [("sysname r1", (T []));
   ("bgp 64496", (T [("router-id 10.0.0.1", (T []));
                     ("ipv4-family vpn-instance CUST", (T [("peer 10.1.1.1 as-number 64497", (T []))]))]));
   ("interface 100GE1/0/1", (T [("description uplink", (T [])); ("mtu 9000", (T []))]))].
Definition ex3_new : forest :=
  [("sysname r1", (T [])); ("assign forward nvo3", (T []));
   ("bgp 64496", (T [("router-id 10.0.0.1", (T []));
                     ("ipv4-family vpn-instance CUST", (T [("route-distinguisher 64496:2", (T []));
                                                           ("peer 10.1.1.1 as-number 64498", (T []))]))]));
   ("interface 100GE1/0/1", (T [("description uplink to spine", (T [])); ("port mode 50GE", (T [])); ("mtu 9100", (T []))]))].

Definition ex3_rows (dc : bool) : list string :=
  match patch_of_dc ex3_vendor dc ex3_rules [] ex3_old ex3_new with POk t => pt_rows t | PErr => ["<AssertionError>"] end.

(* committing: each %force_commit row is followed by a `commit` row, at depth 0, 1 and 2 *)
Example ex3_commit :
  ex3_rows true =
  ["assign forward nvo3"; "commit";
   "bgp 64496"; "ipv4-family vpn-instance CUST"; "undo peer 10.1.1.1 as-number 64497"; "peer 10.1.1.1 as-number 64498";
   "route-distinguisher 64496:2"; "commit";
   "interface 100GE1/0/1"; "undo description uplink"; "description uplink to spine"; "undo mtu 9000"; "mtu 9100";
   "port mode 50GE"; "commit"].
Proof. vm_compute. reflexivity. Qed.

(* --dont-commit: the %force_commit rows and their commits are left out at every depth *)
Example ex3_dont_commit :
  ex3_rows false =
  ["bgp 64496"; "ipv4-family vpn-instance CUST"; "undo peer 10.1.1.1 as-number 64497"; "peer 10.1.1.1 as-number 64498";
   "interface 100GE1/0/1"; "undo description uplink"; "description uplink to spine"; "undo mtu 9000"; "mtu 9100"].
Proof. vm_compute. reflexivity. Qed.

(* the statement is about the flag: with do_commit = true the same diff gives commit rows that are no rows of the diff *)
Theorem C09_dc_true_adds_commit :
  exists v rs old new t,
    patch_of_dc v true rs [] old new = POk t /\
    In "commit" (pt_rows t) /\
    ~ In "commit" (pre_rows_all (prreverse v) (make_pre (p_make_diff rs old new))).
Proof.
  exists ex3_vendor, ex3_rules, ex3_old, ex3_new.
  destruct (patch_of_dc ex3_vendor true ex3_rules [] ex3_old ex3_new) as [t|] eqn:E; [|vm_compute in E; discriminate].
  exists t. split; [reflexivity|]. vm_compute in E. injection E as <-. split.
  - vm_compute. tauto.
  - vm_compute. intuition discriminate.
Qed.
Print Assumptions C09_dc_true_adds_commit.

(* the guard of C09_dc_irrelevant_without_force_commit, and a diff outside it *)
Example ex3_fc_free :
  fc_free (make_pre (p_make_diff ex3_rules ex3_old ex3_old)) = true /\
  fc_free (make_pre (p_make_diff ex3_rules ex3_old ex3_new)) = false.
Proof. vm_compute. split; reflexivity. Qed.

(* the whole --dont-commit flow on the example: Huawei CE (commit-capable), shipped-style deploy rule *)
Example ex3_stream :
  let e := Env false true (fun s => existsb (String.eqb s) ["Huawei"; "Huawei.CE"]) (fun _ => false) in
  match patch_of_dc ex3_vendor false ex3_rules [] ex3_old ex3_new with
  | POk t =>
    option_map (map c_cmd)
               (deploy row_hit (std_wrappers e) [] (map (fun p => (p, [])) (cmd_paths FHuawei t)))
  | PErr => None
  end =
  Some ["system-view"; "bgp 64496"; "ipv4-family vpn-instance CUST"; "undo peer 10.1.1.1 as-number 64497";
        "peer 10.1.1.1 as-number 64498"; "quit"; "quit";
        "interface 100GE1/0/1"; "undo description uplink"; "description uplink to spine"; "undo mtu 9000"; "mtu 9100"; "quit";
        "q"; "save"].
Proof. vm_compute. reflexivity. Qed.
