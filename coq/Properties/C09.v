(* C09 — the command stream sent at deploy is exactly the patch that was shown.
   Theorems only; the lemma libraries are Proofs/BlocksProofs.v and Proofs/DeployProofs.v. *)
From Coq Require Import List String Ascii Bool Arith NArith ZArith.
From Annet Require Import Base.Str Model.Pattern Model.Order Model.Patch Model.Blocks Gen.Src_apply Model.Deploy
     Spec.P_C09 Proofs.BlocksProofs Proofs.DeployProofs Proofs.DeployCtxProofs Proofs.DeployModelP.
Import ListNotations.
Open Scope string_scope.
Open Scope list_scope.

(* ---------------------------------------------------------------------------------------
   Formatter side.  indent_lines = what `annet patch` prints (indentation level, row);
   path_stack = the keys of the ordered dict CommonFormatter.cmd_paths hands to the deployer;
   lv p = (|p| - 1, last p). *)

(* For ANY well-bracketed block stream: the printed lines are exactly (depth, command) of the
   command paths, in order, provided no path repeats (the ordered dict then loses nothing). *)
Theorem C09_stream :
  forall s : list elem,
    wb s 0 false = true -> NoDup (raw_paths s []) ->
    indent_lines s 0 = map lv (path_stack s [] []).
Proof. exact stream_shown_is_sent. Qed.
Print Assumptions C09_stream.

(* ... and without the ordered dict the equation needs no side condition at all *)
Theorem C09_stream_raw :
  forall s : list elem, wb s 0 false = true -> indent_lines s 0 = map lv (raw_paths s []).
Proof. exact stream_lines. Qed.
Print Assumptions C09_stream_raw.

(* every formatter family yields a well-bracketed stream for every patch tree *)
Theorem C09_stream_any_family :
  forall (f : family) (parent : string) (t : ptree), wb (blocks f parent t) 0 false = true.
Proof. exact wb_blocks_top. Qed.
Print Assumptions C09_stream_any_family.

(* distinct rows at every displayed level (sibling rows and the exit statements shown beside
   them) => all paths distinct => cmd_paths keeps every row *)
Theorem C09_paths_nodup :
  forall (f : family) (parent : string) (t : ptree),
    sib_distinct f parent t = true ->
    NoDup (raw_paths (blocks f parent t) []) /\
    path_stack (blocks f parent t) [] [] = raw_paths (blocks f parent t) [].
Proof. exact paths_nodup. Qed.
Print Assumptions C09_paths_nodup.

(* what is shown is what is sent: every block-structured family, every patch tree of the domain *)
Theorem C09_shown_is_sent :
  forall (f : family) (t : ptree),
    block_family f = true ->
    sib_distinct f "" t = true ->
    indent_lines (blocks f "" t) 0 = map lv (cmd_paths f t).
Proof.
  intros f t Hf H. rewrite (shown_is_sent f t H). destruct f; try discriminate; reflexivity.
Qed.
Print Assumptions C09_shown_is_sent.

(* the model of cmd_paths that also carries the per-row contexts (used for %ifcontext rules;
   exit statements take the context of the last row seen) has exactly these keys *)
Theorem C09_paths_with_contexts :
  forall (f : family) (t : ctree), map fst (ccmd_paths f t) = path_stack (blocks f "" (erase t)) [] [].
Proof. exact ccmd_paths_keys. Qed.
Print Assumptions C09_paths_with_contexts.

(* outside the domain entries collapse: shown twice, sent once *)
Theorem C09_dup_refuted :
  exists (f : family) (t : ptree),
    sib_distinct f "" t = false /\
    List.length (cmd_paths f t) < List.length (indent_lines (blocks f "" t) 0).
Proof.
  exists (FBlockExit "exit"), (PT [("ap-env a", None, (ZFin 0%Z, "", true)); ("ap-env a", None, (ZFin 0%Z, "", true))]).
  vm_compute. split; [reflexivity|repeat constructor].
Qed.
Print Assumptions C09_dup_refuted.

(* the same with a tree that already holds its block's exit statement as a row *)
Theorem C09_dup_exit_refuted :
  exists (f : family) (t : ptree),
    sib_distinct f "" t = false /\
    List.length (cmd_paths f t) < List.length (indent_lines (blocks f "" t) 0).
Proof.
  exists FCisco, (PT [("router bgp 1", Some (PT [("address-family ipv4", Some (PT [("exit-address-family", None, (ZFin 0%Z, "", true))]),
                                                  (ZFin 0%Z, "", true))]), (ZFin 0%Z, "", true))]).
  vm_compute. split; [reflexivity|repeat constructor].
Qed.
Print Assumptions C09_dup_exit_refuted.

(* the displayed patch is the tree, each block followed by the vendor's exit statement *)
Theorem C09_exit_after_each_block :
  forall (f : family) (parent : string) (d : nat) (t : ptree),
    indent_lines (blocks f parent t) d = shown f parent d t.
Proof. exact shown_spec. Qed.
Print Assumptions C09_exit_after_each_block.

(* never more than one exit statement per closed block; exactly one, the family's exit word one
   level below the header, for the plain block-exit families (Nexus, B4com, Aruba, Arista) *)
Theorem C09_exit_count :
  (forall f parent row next d, List.length (indent_lines (exit_stmt f parent row next) d) <= 1) /\
  (forall ex parent row next d, row <> "" ->
                                indent_lines (exit_stmt (FBlockExit ex) parent row next) d = [(S d, ex)]).
Proof. split; [exact exit_lines_le_1|exact exit_blockexit]. Qed.
Print Assumptions C09_exit_count.

Theorem C09_exit_cisco :
  forall parent row next d,
    row <> "" ->
    indent_lines (exit_stmt FCisco parent row next) d =
    [(S d, if startswith "address-family" row then "exit-address-family" else "exit")].
Proof. exact exit_cisco. Qed.
Print Assumptions C09_exit_cisco.

(* ---------------------------------------------------------------------------------------
   Deploy side.  deploy = annet.deploy.apply_deploy_rulebook for an arbitrary rule matcher
   `hit`, an arbitrary table of apply logics `wrappers` and an arbitrary deploy rulebook. *)

(* commands = wrapper-before ++ one Command per path, in order, level |path|-1 ++ wrapper-after,
   when the rules of all paths ask for the same wrapper *)
Theorem C09_deploy_body :
  forall hit wrappers rules paths w cmds,
    paths <> [] ->
    (forall pc, In pc paths -> wrapper_of hit wrappers rules pc = w) ->
    deploy hit wrappers rules paths = Some cmds ->
    exists b m a,
      cmds = b ++ m ++ a /\
      map c_cmd b = fst w /\ Forall (fun c => c_level c = 0) b /\
      map c_cmd a = snd w /\ Forall (fun c => c_level c = 0) a /\
      map (fun c => (c_level c, c_cmd c)) m = map (fun pc => lv (fst pc)) paths.
Proof. exact deploy_body. Qed.
Print Assumptions C09_deploy_body.

(* the general case: maximal runs of equal wrappers *)
Theorem C09_deploy_groups :
  forall hit wrappers rules paths cmds,
    deploy hit wrappers rules paths = Some cmds ->
    exists items emitted,
      opt_all (map (body_cmd hit wrappers rules) paths) = Some items /\
      map (fun x => (c_level (fst x), c_cmd (fst x))) items = map (fun pc => lv (fst pc)) paths /\
      List.concat (map snd (groupby items)) = map fst items /\
      adjacent_differ (groupby items) /\
      Forall2 (fun g x => emit_group hit rules g = Some x) (groupby items) emitted /\
      cmds = List.concat emitted.
Proof. exact deploy_groups. Qed.
Print Assumptions C09_deploy_groups.

(* each emitted group is its wrapper's commands at level 0 around its members *)
Theorem C09_deploy_group_shape :
  forall hit rules g x,
    emit_group hit rules g = Some x ->
    exists b a, x = b ++ snd g ++ a /\
                map c_cmd b = fst (fst g) /\ Forall (fun c => c_level c = 0) b /\
                map c_cmd a = snd (fst g) /\ Forall (fun c => c_level c = 0) a.
Proof. exact emit_group_shape. Qed.
Print Assumptions C09_deploy_group_shape.

(* Session wrapper, over the decision table regenerated from common.apply on this run: for every
   hardware (any assignment of the hardware flags and opaque atoms) and every (do_commit,
   do_finalize): only session commands — enter before; commit, leave, save after —, no commit
   command unless do_commit, no save command unless do_finalize. *)
Theorem C09_wrapper :
  forall (e : env) (w : wrapper),
    common_apply e = Some w -> wrapper_ok (e_commit e) (e_finalize e) w = true.
Proof. exact common_apply_wrapper_ok. Qed.
Print Assumptions C09_wrapper.

Theorem C09_no_commit :
  forall (e : env) (w : wrapper) (c : string),
    common_apply e = Some w -> e_commit e = false -> In c (fst w ++ snd w) -> is_class WCommit c = false.
Proof. exact no_commit_without_do_commit. Qed.
Print Assumptions C09_no_commit.

(* the only other shipped apply logic (aruba ap-env) *)
Theorem C09_wrapper_ap_env :
  forall e : env, wrapper_ok_weak (e_commit e) (ap_env_apply e) = true.
Proof. exact ap_env_wrapper_ok. Qed.
Print Assumptions C09_wrapper_ap_env.

(* match_deploy_rule = the rule of the unique chain matching the path, whenever every header
   row of the path is matched by at most one sibling rule ... *)
Theorem C09_match_rule :
  forall hit path rs c, chain_det hit rs path c = true -> match_rule hit rs path c = spec_rule hit rs path c.
Proof. exact match_rule_spec. Qed.
Print Assumptions C09_match_rule.

(* ... in particular for every path when sibling rules have disjoint languages at every level *)
Theorem C09_match_rule_disjoint :
  forall hit rs, disjoint_book hit rs ->
                 forall path c, match_rule hit rs path c = spec_rule hit rs path c.
Proof. intros hit rs H path c. apply match_rule_spec. apply disjoint_chain_det. exact H. Qed.
Print Assumptions C09_match_rule_disjoint.

(* timeout/dialogs of a command are those of that rule, else (30 s, none) *)
Theorem C09_cmd_params :
  forall hit wrappers rules p c cmd w,
    chain_det hit rules p c = true ->
    body_cmd hit wrappers rules (p, c) = Some (cmd, w) ->
    (c_timeout cmd, c_questions cmd) = spec_params (spec_rule hit rules p c).
Proof. exact cmd_params_spec. Qed.
Print Assumptions C09_cmd_params.

(* a command is refused (Exception "not supported false send_nl") exactly when its rule carries
   a dialog with %send_nl=0 *)
Theorem C09_cmd_refused :
  forall hit wrappers rules p c,
    chain_det hit rules p c = true ->
    (body_cmd hit wrappers rules (p, c) = None <->
     exists r, spec_rule hit rules p c = Some r /\ send_nl_ok r = false).
Proof. exact body_cmd_raises. Qed.
Print Assumptions C09_cmd_refused.

(* outside that domain the code does not take the first matching rule: of two sibling rules
   matching a header row it descends into the last one *)
Theorem C09_first_match_refuted :
  exists rs path c, chain_det row_hit rs path c = false /\
                    match_rule row_hit rs path c <> spec_rule row_hit rs path c.
Proof.
  exists [DRule "bgp *" 5000 [] [] 0 [DRule "peer *" 7000 [] [] 0 []];
          DRule "bgp 1" 9000 [] [] 0 [DRule "peer *" 11000 [] [] 0 []]],
         ["bgp 1"; "peer x"], [].
  vm_compute. split; [reflexivity|discriminate].
Qed.
Print Assumptions C09_first_match_refuted.

(* the matcher used in the case files (rule rows parsed once) is the model's matcher *)
Theorem C09_fast_hit :
  forall rs r row c, fast_hit rs r row c = row_hit r row c.
Proof. exact fast_hit_eq. Qed.
Print Assumptions C09_fast_hit.

(* ---------------------------------------------------------------------------------------
   The predicate evaluated on the implementation's outputs (Spec/P_C09.v) is satisfied by the
   model's own outputs: formatter clauses c9_shown / c9_exits ... *)
Theorem C09_model_formatter :
  forall (f : family) (t : ctree),
    sib_distinct f "" (erase t) = true ->
    lines_eqb (indent_lines (blocks f "" (erase t)) 0) (map (fun pc => lv (fst pc)) (ccmd_paths f t)) = true /\
    lines_eqb (indent_lines (blocks f "" (erase t)) 0) (shown f "" 0 (erase t)) = true.
Proof. exact model_shown_is_sent. Qed.
Print Assumptions C09_model_formatter.

(* ... and the command-stream clause c9_params (command text, level, timeout, dialogs of every
   command incl. the wrapper) when every path has a unique rule chain under the default apply logic *)
Theorem C09_model_stream :
  forall (h : hitfn) (o : obs09) (wrappers : nat -> wrapper),
    single_wrapper h o = true ->
    forall r w cmds,
      r_common r = Some w -> wrappers 0 = w -> r_cmds r = Some cmds ->
      deploy h wrappers (o_rules o) (o_paths0 o) = Some cmds ->
      run_stream cmd_fits h o true (map (fun pc => expect h o (fst pc) (snd pc)) (o_paths0 o)) r = true.
Proof. exact model_stream_fits. Qed.
Print Assumptions C09_model_stream.

(* ---------------------------------------------------------------------------------------
   Non-vacuity of the guarded statements *)

Definition sk0 : skey := (ZFin 0%Z, "", true).

Definition ex_tree : ptree :=
  PT [("xpl route-filter RF", Some (PT [("if a then", Some (PT [("apply x", None, sk0)]), sk0);
                                       ("else", Some (PT [("drop", None, sk0)]), sk0)]), sk0);
      ("bgp 1", Some (PT [("undo peer 1.1.1.1", None, sk0); ("ipv4-family unicast", Some (PT []), sk0)]), sk0);
      ("save", None, sk0)].

Example ex_domain : sib_distinct FHuawei "" ex_tree = true.
Proof. vm_compute. reflexivity. Qed.

Example ex_shown :
  indent_lines (blocks FHuawei "" ex_tree) 0 =
  [(0, "xpl route-filter RF"); (1, "if a then"); (2, "apply x"); (1, "else"); (2, "drop"); (1, "endif");
   (1, "end-filter"); (0, "bgp 1"); (1, "undo peer 1.1.1.1"); (1, "ipv4-family unicast"); (2, "quit"); (1, "quit");
   (0, "save")].
Proof. vm_compute. reflexivity. Qed.

Example ex_stream :
  wb (blocks FHuawei "" ex_tree) 0 false = true /\ nodupb (raw_paths (blocks FHuawei "" ex_tree) []) = true.
Proof. vm_compute. split; reflexivity. Qed.

Definition ex_rules : list drule :=
  [DRule "bgp *" 60000 [Dlg "sure?" "Y" true] [] 0
         [DRule "undo peer *" 5500 [Dlg "/x.*/" "N" true] [] 0 []];
   DRule "save" 10000 [] [] 0 [];
   DRule "undo peer *" 7000 [] [] 0 []].

Definition ex_paths : list (list string * ctx) :=
  [(["bgp 1"], []); (["bgp 1"; "undo peer 1.1.1.1"], []); (["bgp 1"; "quit"], []);
   (["interface X"; "undo peer 2.2.2.2"], []); (["save"], [])].

Definition ex_env : env := Env false true (fun s => String.eqb s "Arista") (fun _ => false).

Example ex_chain : forallb (fun pc => chain_det row_hit ex_rules (fst pc) (snd pc)) ex_paths = true.
Proof. vm_compute. reflexivity. Qed.

Example ex_deploy :
  deploy row_hit (std_wrappers ex_env) ex_rules ex_paths =
  Some [Cmd "conf s" 0 30000 [];
        Cmd "bgp 1" 0 60000 [Q "sure?" "Y" false];
        Cmd "undo peer 1.1.1.1" 1 5500 [Q "x.*" "N" true];
        Cmd "quit" 1 30000 [];
        Cmd "undo peer 2.2.2.2" 1 7000 [];
        Cmd "save" 0 10000 [];
        Cmd "abort" 0 30000 [];
        Cmd "write memory" 0 30000 []].
Proof. vm_compute. reflexivity. Qed.

Example ex_single_wrapper :
  forallb (fun pc => wrapper_eqb (wrapper_of row_hit (std_wrappers ex_env) ex_rules pc) (["conf s"], ["abort"; "write memory"]))
          ex_paths = true.
Proof. vm_compute. reflexivity. Qed.

Example ex_wrapper : common_apply ex_env = Some (["conf s"], ["abort"; "write memory"]).
Proof. vm_compute. reflexivity. Qed.

Example ex_refused :
  deploy row_hit (std_wrappers ex_env) [DRule "no username *" 30000 [Dlg "confirm" "Y" false] [] 0 []]
         [(["no username bob"], [])] = None.
Proof. vm_compute. reflexivity. Qed.

(* a rulebook whose sibling languages are disjoint at every level, for the exact-row matcher *)
Example ex_disjoint :
  disjoint_book (fun r row _ => String.eqb (d_pat r) row)
                [DRule "a" 1000 [] [] 0 [DRule "b" 2000 [] [] 0 []; DRule "c" 3000 [] [] 0 []]; DRule "d" 4000 [] [] 0 []].
Proof.
  assert (forall (l : list drule) (row : string), NoDup (map d_pat l) ->
                                         List.length (filter (fun r => String.eqb (d_pat r) row) l) <= 1) as Hnd.
  { intros l row. induction l as [|x l IH]; cbn; intro H; [auto|].
    inversion H as [|? ? Hx Hl]; subst. destruct (String.eqb (d_pat x) row) eqn:E; [|apply IH; exact Hl].
    apply String.eqb_eq in E. cbn. apply le_n_S.
    assert (filter (fun r => String.eqb (d_pat r) row) l = []) as ->; [|auto].
    clear - Hx E. induction l as [|y l IH]; [reflexivity|]. cbn.
    destruct (String.eqb (d_pat y) row) eqn:Ey.
    - apply String.eqb_eq in Ey. exfalso. apply Hx. left. congruence.
    - apply IH. intro H. apply Hx. right. exact H. }
  assert (forall p t, disjoint_book (fun r row _ => String.eqb (d_pat r) row) (d_kids (DRule p t [] [] 0 []))) as Hleaf.
  { intros p t. cbn [d_kids]. constructor; [intros rr cc; cbn; auto|constructor]. }
  constructor.
  - intros rr cc. apply (Hnd _ rr). cbn. repeat constructor; cbn; intuition discriminate.
  - constructor; [|constructor; [apply Hleaf|constructor]].
    cbn [d_kids]. constructor.
    + intros rr cc. apply (Hnd _ rr). cbn. repeat constructor; cbn; intuition discriminate.
    + constructor; [apply Hleaf|constructor; [apply Hleaf|constructor]].
Qed.

(* the guard of C09_model_stream on a concrete observation (Arista, do_commit = false) *)
Definition ex_obs : obs09 :=
  Obs09 (FBlockExit "exit") (CT []) [] ex_paths ex_paths ex_rules ["Arista"] []
        [Run09 false true (Some (["conf s"], ["abort"; "write memory"])) ([], [])
               (deploy row_hit (std_wrappers ex_env) ex_rules ex_paths)].

Example ex_single_guard : single_wrapper row_hit ex_obs = true.
Proof. vm_compute. reflexivity. Qed.

Example ex_stream_clause :
  forallb (run_stream cmd_fits row_hit ex_obs true (map (fun pc => expect row_hit ex_obs (fst pc) (snd pc)) ex_paths))
          (o_runs ex_obs) = true.
Proof. vm_compute. reflexivity. Qed.
