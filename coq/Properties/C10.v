(* C10 — property theorems only.  Proofs live in Proofs/GenProgProofs.v and Proofs/GenAclProofs.v. *)
From Coq Require Import List String Bool Arith.
From Annet Require Import Base.Str Base.Tree Model.Pattern Model.Acl Model.Offside Model.GenProg Model.GenAcl.
From Annet Require Import Spec.P_C10 Proofs.GenProgProofs Proofs.GenAclProofs Proofs.GenTopProofs.
From Annet Require Import Spec.P_C05 Spec.P_C10b Gen.Src_vendors Model.Join Model.GenProgV Spec.P_C10v.
From Annet Require Import Proofs.GenItemsProofs Proofs.GenCursorProofs Proofs.GenCursorCons Proofs.GenSplitProofs.
Import ListNotations.
Open Scope string_scope.

(* A generator program whose rows are plain configuration lines (wf_prog: no row is indented by
   itself, blank, a "!"/"#" comment or contains the word None; block headers are one line; no
   zero-width indent) runs without error, and the text PartialGenerator.__call__ returns parses
   (parse_to_tree, CommonFormatter.split) to exactly the tree of its yielded paths — for every
   nesting of block / block_if / multiblock / multiblock_if contexts, tuple and multi-line yields. *)
Theorem C10_emit_parse :
  forall p : prog, wf_prog p = true -> run_noacl p = GOk (tree_of p).
Proof. exact emit_parse. Qed.
Print Assumptions C10_emit_parse.

Theorem C10_tree_holds :
  forall p : prog, P_C10_tree p (run_noacl p) = true.
Proof.
  intros p. unfold P_C10_tree. destruct (wf_prog p) eqn:W; [|reflexivity].
  rewrite (emit_parse p W). cbn. apply forest_eqb_refl.
Qed.
Print Assumptions C10_tree_holds.

(* tree_of is the set of yielded paths: every yielded line is in the tree under the block path it
   was yielded in, and nothing else is *)
Theorem C10_tree_paths :
  forall (p : prog) (q : list string), q <> [] ->
    (mem_path q (tree_of p) = true <-> In q (prog_paths p)).
Proof. exact tree_of_paths. Qed.
Print Assumptions C10_tree_paths.

(* ... once: keys are unique at every level (a repeated line is one line) *)
Theorem C10_tree_once : forall p : prog, wf (tree_of p).
Proof. exact tree_of_wf. Qed.
Print Assumptions C10_tree_once.

(* tree_of read compositionally: a one-line yield is a leaf, a block with a one-line header is that
   line over the tree of its body, statements one after the other add their paths in order *)
Theorem C10_tree_yield :
  forall v r, ytext v = inr r -> has_nl r = false -> tree_of [Yield v] = [(key_of r, T [])].
Proof. exact tree_of_yield. Qed.
Print Assumptions C10_tree_yield.

Theorem C10_tree_block :
  forall toks ind body r, join_toks toks = inr r -> has_nl r = false ->
    tree_of [Block toks ind body] = [(key_of r, T (tree_of body))].
Proof. exact tree_of_block. Qed.
Print Assumptions C10_tree_block.

Theorem C10_tree_app :
  forall p1 p2 : prog, tree_of (p1 ++ p2)%list = insall (prog_paths p2) (tree_of p1).
Proof. exact tree_of_app. Qed.
Print Assumptions C10_tree_app.

(* RunGeneratorResult.config_tree (merge_dicts folded over the generators' configs) is the
   first-seen-order union: the ordered dict obtained by inserting every path of every config *)
Theorem C10_union :
  forall fs : list forest, Forall wf fs -> union_all fs = union_ref fs.
Proof. exact union_all_ref. Qed.
Print Assumptions C10_union.

Theorem C10_union_holds :
  forall fs : list forest, Forall wf fs -> P_C10_union fs (union_all fs) = true.
Proof. intros fs F. unfold P_C10_union. rewrite (union_all_ref fs F). apply forest_eqb_refl. Qed.
Print Assumptions C10_union_holds.

(* a path is in the union iff some generator's config has it; the union has each line once *)
Theorem C10_union_mem :
  forall (fs : list forest) (q : list string), Forall wf fs -> q <> [] ->
    mem_path q (union_all fs) = existsb (mem_path q) fs.
Proof. exact union_all_mem. Qed.
Print Assumptions C10_union_mem.

Theorem C10_union_once : forall fs : list forest, Forall wf fs -> wf (union_all fs).
Proof. exact union_all_wf. Qed.
Print Assumptions C10_union_once.

(* ---------- the generator's own ACL (apply_acl in fatal mode) ---------- *)

(* _run_partial_generator(use_acl=True) raises GeneratorError from the ACL step iff some yielded
   path is refused by the generator's own ACL (a line matched by no rule in force) ... *)
Theorem C10_error_iff :
  forall (v : avendor) (g : gen) (rs : aset),
    wf_prog (g_prog g) = true -> compile_acl (g_acl g) = Some rs ->
    ((exists msg, run_gen v g = GAcl msg) <->
     (exists q, In q (prog_paths (g_prog g)) /\ p_path_status v rs q = Refused)).
Proof. intros v. exact (error_iff acl_pm acl_psrc (acl_prev v) (acl_norm v)). Qed.
Print Assumptions C10_error_iff.

(* ... and the error names a refused yielded path with its parents: the first in document order *)
Theorem C10_error_names :
  forall (v : avendor) (g : gen) (rs : aset) (msg : string),
    wf_prog (g_prog g) = true -> compile_acl (g_acl g) = Some rs ->
    run_gen v g = GAcl msg ->
    exists q, msg = acl_err_text q /\ In q (prog_paths (g_prog g)) /\ p_path_status v rs q = Refused /\
              first_refused acl_pm acl_psrc (acl_prev v) (acl_norm v) rs (tree_of (g_prog g)) q.
Proof. intros v. exact (error_names acl_pm acl_psrc (acl_prev v) (acl_norm v)). Qed.
Print Assumptions C10_error_names.

(* without error the result holds exactly the yielded paths the ACL passes; all of them when every
   yielded path is passed *)
Theorem C10_result_paths :
  forall (v : avendor) (g : gen) (rs : aset) (f : forest),
    wf_prog (g_prog g) = true -> compile_acl (g_acl g) = Some rs ->
    run_gen v g = GOk f ->
    forall q, In q (paths [] f) <-> In q (prog_paths (g_prog g)) /\ p_path_status v rs q = Passed.
Proof. intros v. exact (result_paths acl_pm acl_psrc (acl_prev v) (acl_norm v)). Qed.
Print Assumptions C10_result_paths.

Theorem C10_all_passed :
  forall (v : avendor) (g : gen) (rs : aset),
    wf_prog (g_prog g) = true -> compile_acl (g_acl g) = Some rs ->
    (forall q, In q (prog_paths (g_prog g)) -> p_path_status v rs q = Passed) ->
    run_gen v g = GOk (tree_of (g_prog g)).
Proof. intros v. exact (all_passed_ok acl_pm acl_psrc (acl_prev v) (acl_norm v)). Qed.
Print Assumptions C10_all_passed.

(* The full confinement statement ("a yielded line the ACL does not pass is never emitted and never
   silently dropped: the run fails naming it") *)
Definition C10_confined_statement : Prop :=
  forall (v : avendor) (g : gen), P_C10_confined v g (run_gen v g) = true.

(* proved part: it holds whenever no yielded path runs into the discard rule of apply_acl (the
   reverse form of a rule all of whose cant_delete flags are set).  Missing for the full statement:
   exactly those paths — see C10_confined_refuted. *)
Theorem C10_confined_partial :
  forall (v : avendor) (g : gen) (rs : aset),
    wf_prog (g_prog g) = true -> compile_acl (g_acl g) = Some rs ->
    (forall q, In q (prog_paths (g_prog g)) -> p_path_status v rs q <> Dropped) ->
    P_C10_confined v g (run_gen v g) = true.
Proof. exact confined_partial. Qed.
Print Assumptions C10_confined_partial.

(* the faithful model refutes the full statement: `undo mtu 1` under the ACL `mtu * %cant_delete`
   is neither emitted nor refused (replayed on the real code: known/C10.json) *)
Definition ex_drop_gen : gen :=
  Gen "G0" [AItem "mtu * %cant_delete" "mtu *" false false (Some [true]) 0 [] [];
            AItem "system" "system" false false None 0 [] []]
      [Yield (YS "system"); Yield (YS "undo mtu 1")].

Theorem C10_confined_refuted :
  exists (v : avendor) (g : gen),
    wf_prog (g_prog g) = true /\ run_gen v g = GOk [("system", T [])] /\
    P_C10_confined v g (run_gen v g) = false.
Proof. exists (AVendor "undo" false), ex_drop_gen. vm_compute. repeat split. Qed.
Print Assumptions C10_confined_refuted.

(* ---------- the merged, generator-tagged ACL (apply_acl in exclusive mode) ---------- *)

(* _old_new_per_device: the first generator error escapes; otherwise
   new = apply_acl(config_tree(), compile_acl_text(acl_text()), exclusive=True) *)
Theorem C10_old_new :
  forall (v : avendor) (gs : list gen),
    old_new v gs =
    match run_all v gs with
    | inl e => OGenErr e
    | inr fs => match compile_acl (combined_acl gs) with
                | None => OAclCompile
                | Some rs => exclusive_step (p_apply_acl v) rs (union_all fs)
                end
    end.
Proof. reflexivity. Qed.
Print Assumptions C10_old_new.

Theorem C10_run_all :
  forall (v : avendor) (gs : list gen) (fs : list forest),
    run_all v gs = inr fs <-> map (run_gen v) gs = map GOk fs.
Proof. intros v. exact (run_all_ok acl_pm acl_psrc (acl_prev v) (acl_norm v)). Qed.
Print Assumptions C10_run_all.

(* AclNotExclusiveError is raised iff some line of the union, reached through passed parents, is
   deletable by at least two generators under the merged ACL; it names such a line and them *)
Theorem C10_exclusive_iff :
  forall (v : avendor) (rs : aset) (u : forest),
    ((exists msg g, exclusive_step (p_apply_acl v) rs u = OExclusive msg g) <->
     (exists q g, In q (paths [] u) /\ p_conflict_at v rs q = Some g)).
Proof. intros v. exact (exclusive_iff acl_pm acl_psrc (acl_prev v) (acl_norm v)). Qed.
Print Assumptions C10_exclusive_iff.

Theorem C10_exclusive_names :
  forall (v : avendor) (rs : aset) (u : forest) (msg : string) (g : list string),
    exclusive_step (p_apply_acl v) rs u = OExclusive msg g ->
    exists q, msg = excl_err_text q /\ In q (paths [] u) /\ p_conflict_at v rs q = Some g.
Proof. intros v. exact (exclusive_names acl_pm acl_psrc (acl_prev v) (acl_norm v)). Qed.
Print Assumptions C10_exclusive_names.

(* what a conflict is: the named generators are exactly those having a rule that matches the row
   (directly or in reverse form) with their cant_delete flag off; they are pairwise different and
   at least two *)
Theorem C10_conflict_meaning :
  forall (v : avendor) (row : string) (rs : aset) (g : list string),
    p_match_row_to_acl v row rs true = MErr g <->
    (g = excl_names (find_acl_matches acl_pm acl_psrc (acl_prev v) (acl_norm v) row rs) /\ 2 <= List.length g).
Proof. intros v. exact (mrow_err_iff acl_pm acl_psrc (acl_prev v) (acl_norm v)). Qed.
Print Assumptions C10_conflict_meaning.

Theorem C10_conflict_generators :
  forall (ms : list amatch) (n : string),
    In n (excl_names ms) <-> In (n, false) (name_flags ms).
Proof. exact excl_names_spec. Qed.
Print Assumptions C10_conflict_generators.

Theorem C10_conflict_distinct : forall ms : list amatch, NoDup (excl_names ms).
Proof. exact excl_names_nodup. Qed.
Print Assumptions C10_conflict_distinct.

(* no conflict: new holds exactly the lines of the union the merged ACL passes, and is the union
   when it passes them all *)
Theorem C10_new_paths :
  forall (v : avendor) (rs : aset) (u : forest),
    (forall q, In q (paths [] u) -> p_conflict_at v rs q = None) ->
    exists r, exclusive_step (p_apply_acl v) rs u = OOk r /\
              forall q, In q (paths [] r) <-> In q (paths [] u) /\ p_path_status v rs q = Passed.
Proof. intros v. exact (no_conflict_paths acl_pm acl_psrc (acl_prev v) (acl_norm v)). Qed.
Print Assumptions C10_new_paths.

Theorem C10_new_is_union :
  forall (v : avendor) (rs : aset) (u : forest),
    (forall q, In q (paths [] u) -> p_conflict_at v rs q = None) ->
    (forall q, In q (paths [] u) -> p_path_status v rs q = Passed) ->
    exclusive_step (p_apply_acl v) rs u = OOk u.
Proof. intros v. exact (no_conflict_union acl_pm acl_psrc (acl_prev v) (acl_norm v)). Qed.
Print Assumptions C10_new_is_union.

(* the exclusivity/union clause of the property, on the model's own output.  Full statement: *)
Definition C10_exclusive_statement : Prop :=
  forall (v : avendor) (gs : list gen) (fs : list forest) (rs : aset),
    Forall wf fs -> compile_acl (combined_acl gs) = Some rs ->
    P_C10_exclusive v gs fs (exclusive_step (p_apply_acl v) rs (union_all fs)) = true.

(* proved part: under the guard that the merged ACL passes every line of the union.  Missing: that
   a line passed by its generator's own ACL is passed by the merged ACL (monotonicity of ACL
   merging, property C06, refuted there in general: C06 monotone finding). *)
Theorem C10_exclusive_partial :
  forall (v : avendor) (gs : list gen) (fs : list forest) (rs : aset),
    Forall wf fs -> compile_acl (combined_acl gs) = Some rs ->
    (forall q, In q (paths [] (union_all fs)) -> p_path_status v rs q = Passed) ->
    P_C10_exclusive v gs fs (exclusive_step (p_apply_acl v) rs (union_all fs)) = true.
Proof. exact exclusive_partial. Qed.
Print Assumptions C10_exclusive_partial.

(* ---------- _old_new_per_device over a set of generators, in the words of the property ---------- *)

(* gen_ok: plain rows and an ACL that compiles.  For all lists of such generators:
   a GeneratorError escapes iff some generator yields a path its own ACL refuses *)
Theorem C10_old_new_error_iff :
  forall (v : avendor) (gs : list gen), Forall gen_ok gs ->
    ((exists e, old_new v gs = OGenErr e) <->
     Exists (refuses acl_pm acl_psrc (acl_prev v) (acl_norm v)) gs).
Proof. intros v. exact (old_new_error_iff acl_pm acl_psrc (acl_prev v) (acl_norm v)). Qed.
Print Assumptions C10_old_new_error_iff.

(* every generator's own ACL passes all it yields: AclNotExclusiveError iff some line of the union
   of the programs' trees is deletable by two generators under the merged, generator-tagged ACL *)
Theorem C10_old_new_exclusive_iff :
  forall (v : avendor) (gs : list gen) (rs : aset),
    Forall (fun g => wf_prog (g_prog g) = true /\
                     exists rs, compile_acl (g_acl g) = Some rs /\
                                forall q, In q (prog_paths (g_prog g)) -> p_path_status v rs q = Passed) gs ->
    compile_acl (combined_acl gs) = Some rs ->
    let u := union_all (map (fun g => tree_of (g_prog g)) gs) in
    ((exists msg g, old_new v gs = OExclusive msg g) <->
     (exists q g, In q (paths [] u) /\ p_conflict_at v rs q = Some g)).
Proof. intros v. exact (old_new_exclusive_iff acl_pm acl_psrc (acl_prev v) (acl_norm v)). Qed.
Print Assumptions C10_old_new_exclusive_iff.

(* ... no conflict and the merged ACL passes every line: OldNewResult.new is the union, i.e. it
   holds exactly the yielded paths of all generators, each once *)
Theorem C10_old_new_union :
  forall (v : avendor) (gs : list gen) (rs : aset),
    Forall (fun g => wf_prog (g_prog g) = true /\
                     exists rs, compile_acl (g_acl g) = Some rs /\
                                forall q, In q (prog_paths (g_prog g)) -> p_path_status v rs q = Passed) gs ->
    compile_acl (combined_acl gs) = Some rs ->
    let u := union_all (map (fun g => tree_of (g_prog g)) gs) in
    (forall q, In q (paths [] u) -> p_conflict_at v rs q = None) ->
    (forall q, In q (paths [] u) -> p_path_status v rs q = Passed) ->
    old_new v gs = OOk u /\
    (forall q, q <> [] -> (mem_path q u = true <-> In q (all_paths gs))) /\ wf u.
Proof. intros v. exact (old_new_union acl_pm acl_psrc (acl_prev v) (acl_norm v)). Qed.
Print Assumptions C10_old_new_union.

(* non-vacuity *)
Definition ex_prog : prog :=
  [ Block [TS "interface"; TS "X1"] None
      [ Yield (YS "mtu 1");
        Yield (YT [YS "description"; YL [YS "a"; YS "b"]]);
        BlockIf [TS "ipv4-family"; TNone] None [Yield (YS "undo shutdown")];
        MultiBlock [ML [TS "bgp"; TS "100"]; MT (TS "peer 1")] [Yield (YS "
              as 1
              as 2
           ")] ];
    Yield (YS "system");
    Block [TS "interface X1"] (Some 4) [Yield (YS "mtu 1"); Yield (YS "mtu 2")] ].

Example C10_example_wf : wf_prog ex_prog = true.
Proof. vm_compute. reflexivity. Qed.

Example C10_example_tree :
  run_noacl ex_prog =
  GOk [("interface X1", T [("mtu 1", T []); ("description a b", T []); ("undo shutdown", T []);
                           ("bgp 100", T [("peer 1", T [("as 1", T []); ("as 2", T [])])]);
                           ("mtu 2", T [])]);
       ("system", T [])].
Proof. vm_compute. reflexivity. Qed.

Example C10_example_union :
  union_all [[("a", T [("x", T [])]); ("b", T [])]; [("c", T []); ("a", T [("y", T []); ("x", T [])])]]
  = [("a", T [("x", T []); ("y", T [])]); ("b", T []); ("c", T [])].
Proof. vm_compute. reflexivity. Qed.

(* non-vacuity of the ACL theorems: a covered program, a refused line, a two-generator conflict *)
Definition ex_acl : acl :=
  [AItem "interface *" "interface *" false false None 0 []
     [AItem "mtu *" "mtu *" false false None 0 [] []];
   AItem "system" "system" false false None 0 [] []].
Definition ex_v : avendor := AVendor "undo" false.
Definition ex_g0 : gen :=
  Gen "G0" ex_acl [Block [TS "interface"; TS "X1"] None [Yield (YS "mtu 1")]; Yield (YS "system")].
Definition ex_g1 : gen :=
  Gen "G1" ex_acl [Block [TS "interface X1"] None [Yield (YS "mtu 1"); Yield (YS "description x")]].
Definition ex_g2 : gen :=
  Gen "G2" ex_acl [Block [TS "interface X1"] None [Yield (YS "mtu 1")]].

Example C10_example_covered :
  run_gen ex_v ex_g0 = GOk [("interface X1", T [("mtu 1", T [])]); ("system", T [])].
Proof. vm_compute. reflexivity. Qed.

Example C10_example_refused :
  wf_prog (g_prog ex_g1) = true /\ run_gen ex_v ex_g1 = GAcl "interface X1 / description x".
Proof. vm_compute. split; reflexivity. Qed.

Example C10_example_conflict :
  old_new ex_v [ex_g0; ex_g2] = OExclusive "interface X1/ mtu 1" ["G0"; "G2"].
Proof. vm_compute. reflexivity. Qed.

Example C10_example_union_new :
  old_new ex_v [ex_g0] = OOk [("interface X1", T [("mtu 1", T [])]); ("system", T [])].
Proof. vm_compute. reflexivity. Qed.

(* the guard wf_prog is not idle: a row that brings its own indentation is filed under the previous
   line, and a "#"/"!" row is a comment for parse_to_tree *)
Example C10_example_indented_row :
  run_noacl [Yield (YS "a"); Yield (YS "  b")] = GOk [("a", T [("b", T [])])].
Proof. vm_compute. reflexivity. Qed.

Example C10_example_comment_row :
  run_noacl [Yield (YS "a"); Yield (YS "# b"); Yield (YS "!c")] = GOk [("a", T [])].
Proof. vm_compute. reflexivity. Qed.

Example C10_example_gen_ok : gen_ok ex_g0 /\ gen_ok ex_g1.
Proof. split; (split; [vm_compute; reflexivity|eexists; vm_compute; reflexivity]). Qed.

(* ====================================================================================================
   The tree clause on the whole domain of programs (Spec/P_C10b.v).
   ==================================================================================================== *)

(* Layer 1, no guard.  For EVERY generator program the outcome of _run_partial_generator(use_acl=False) is
   determined by the program's list of (column, raw row) pairs: GeneratorError(InvalidValueFromGenerator)
   iff the run reaches a None / list value; else the None assertion iff a row contains the word None; else
   the offside reference of C05 over the rows, where a row is a '#' section reset (column 0), vanishes
   (blank, "!" or "#" comment) or is a line in column  block column + own indentation. *)
Theorem C10_run_items : forall p : prog, run_noacl p = spec_noacl p.
Proof. exact run_items. Qed.
Print Assumptions C10_run_items.

Theorem C10_items_holds : forall p : prog, P_C10_items p (run_noacl p) = true.
Proof. exact items_holds. Qed.
Print Assumptions C10_items_holds.

(* yields of None, lists, tuples containing None, None among the tokens of an opened block: the run
   fails with the invalid-value error iff such a value is reached (never skipped, never printed) *)
Theorem C10_invalid_iff : forall p : prog, run_noacl p = GInvalid <-> existsb invalid p = true.
Proof. exact invalid_iff. Qed.
Print Assumptions C10_invalid_iff.

Theorem C10_noneword_iff :
  forall p : prog,
    run_noacl p = GNoneWord <->
    existsb invalid p = false /\ exists cr, In cr (prog_rows p) /\ has_none_word (snd cr) = true.
Proof. exact noneword_iff. Qed.
Print Assumptions C10_noneword_iff.

(* Layer 2, the general tree theorem: parse (emit prog) = tree_of' prog under the computable guard
   wfx_prog.  tree_of' is the ordered dict of the yielded paths where
     - blank rows and "!"/"#" comment rows vanish (a '#' row in column 0 also closes the section);
     - a row indented by itself is placed by the offside rule among the recent rows of its own block;
     - the body of a block hangs under the most recent visible row of the block indented by less than the
       block's indent: the last visible line of a (possibly multi-line) header, or, when the whole header
       vanishes, the row yielded just before the block;
     - indent=0 keeps the body in the block's own column under the same block path; any other indent;
     - block_if / multiblock_if open their blocks exactly under their conditions (falsy but printable
       tokens such as "0" or "False" do open the block).
   Outside the guard (see the _refuted witnesses below) Layer 1 still gives the exact outcome. *)
Theorem C10_emit_parse_gen :
  forall p : prog, wfx_prog p = true -> run_noacl p = GOk (tree_of' p).
Proof. exact emit_parse_gen. Qed.
Print Assumptions C10_emit_parse_gen.

Theorem C10_tree'_holds : forall p : prog, P_C10_tree' p (run_noacl p) = true.
Proof. exact tree'_holds. Qed.
Print Assumptions C10_tree'_holds.

Theorem C10_tree'_once : forall p : prog, wf (tree_of' p).
Proof. exact tree_of'_wf. Qed.
Print Assumptions C10_tree'_once.

(* ... it holds every yielded path, and nothing but the yielded paths and the rows above them *)
Theorem C10_tree'_paths :
  forall (p : prog) (q : list string), q <> [] ->
    (mem_path q (tree_of' p) = true <-> exists p0, In p0 (prog_paths' p) /\ prefixb q p0 = true).
Proof. exact tree_of'_paths. Qed.
Print Assumptions C10_tree'_paths.

Theorem C10_tree'_yielded :
  forall (p : prog) (q : list string), In q (prog_paths' p) -> mem_path q (tree_of' p) = true.
Proof. exact tree_of'_yielded. Qed.
Print Assumptions C10_tree'_yielded.

(* the general theorem extends C10_emit_parse: plain programs are inside the wider guard, with the same
   yielded paths and the same tree *)
Theorem C10_gen_extends :
  forall p : prog, wf_prog p = true ->
    wfx_prog p = true /\ prog_paths' p = prog_paths p /\ tree_of' p = tree_of p.
Proof. exact wfx_extends. Qed.
Print Assumptions C10_gen_extends.

(* the device vendor's own formatter.split in the parse step (plain-indentation family: CommonFormatter,
   split_remove_spaces, the huawei / iosxr policy-end filters, CiscoFormatter's re-indentation): a program
   none of whose emitted lines the split touches has the same outcome as with CommonFormatter.split, so both
   layers carry over *)
Theorem C10_vendor_split_neutral :
  forall (sk : splitk) (p : prog), split_neutral sk p = true -> run_noacl_sk sk p = run_noacl p.
Proof. exact run_noacl_sk_neutral. Qed.
Print Assumptions C10_vendor_split_neutral.

Theorem C10_emit_parse_gen_vendor :
  forall (sk : splitk) (p : prog),
    wfx_prog p = true -> split_neutral sk p = true -> run_noacl_sk sk p = GOk (tree_of' p).
Proof. exact emit_parse_gen_sk. Qed.
Print Assumptions C10_emit_parse_gen_vendor.

Theorem C10_vendor_holds :
  forall (name : string) (sk : splitk) (p : prog),
    vendor_splitk name = Some sk -> P_C10_vendor name p (run_noacl_sk sk p) = true.
Proof. exact vendor_holds. Qed.
Print Assumptions C10_vendor_holds.

(* ---------- non-vacuity of the wider guard ---------- *)

Definition nl1 : string := String nl EmptyString.

(* comment / blank rows, a comment header after a row, nested vanishing headers, a multi-line header, a
   three-blank indent, a '#' row at top level, a text with its own nesting *)
Definition ex_prog_x : prog :=
  [ Block [TS "interface X1"] None
      [ Yield (YS "mtu 1");
        Block [TS "# vanishing header"] None [Yield (YS "b"); Block [TS "!"] None [Yield (YS "z")]];
        Yield (YS ""); Yield (YS "   "); Yield (YS "! note");
        Yield (YS "shutdown") ];
    Yield (YS "#");
    Block [TS ("acl 1" ++ nl1 ++ "acl 2")] (Some 3)
      [ Yield (YS ("rule 1" ++ nl1 ++ "  match a" ++ nl1 ++ "    deep" ++ nl1 ++ "  match b" ++ nl1 ++ "rule 2")) ];
    Block [TS "system"] (Some 0) [Yield (YS "sysname r1")];
    BlockIf [TS "area"; TS "0"] None [Yield (YS "network 1")] ].

Example C10_example_x_guard : wfx_prog ex_prog_x = true /\ wf_prog ex_prog_x = false.
Proof. vm_compute. split; reflexivity. Qed.

Example C10_example_x_tree :
  run_noacl ex_prog_x =
  GOk [("interface X1", T [("mtu 1", T [("b", T [("z", T [])])]); ("shutdown", T [])]);
       ("acl 1", T []);
       ("acl 2", T [("rule 1", T [("match a", T [("deep", T [])]); ("match b", T [])]); ("rule 2", T [])]);
       ("system", T []); ("sysname r1", T []);
       ("area 0", T [("network 1", T [])])].
Proof. vm_compute. reflexivity. Qed.

(* the vendor guards are not idle either: huawei (strip().startswith policy-end filter) on the same program *)
Example C10_example_x_huawei :
  vendor_splitk "huawei" = Some (SkStartswith ["end-list"; "endif"; "end-filter"]) /\
  split_neutral (SkStartswith ["end-list"; "endif"; "end-filter"]) ex_prog_x = true.
Proof. vm_compute. split; reflexivity. Qed.

(* ---------- the classes outside the guard: each refutes the unguarded statement ---------- *)

(* "every program that yields only valid values free of the word None parses to tree_of'" *)
Definition C10_emit_parse_gen_statement : Prop :=
  forall p : prog, existsb invalid p = false ->
    existsb (fun cr : crow => has_none_word (snd cr)) (prog_rows p) = false ->
    run_noacl p = GOk (tree_of' p).

(* (a) a block whose header vanishes, first in its block, followed by a sibling: the body is deeper than
   the sibling's column with no line in that column before it - ParserError "Invalid top indention" *)
Definition ex_vanishing_first : prog :=
  [Block [TS "a"] None [Block [TS ""] None [Yield (YS "b")]; Yield (YS "c")]].

Theorem C10_emit_parse_gen_refuted : ~ C10_emit_parse_gen_statement.
Proof.
  intros H. specialize (H ex_vanishing_first eq_refl eq_refl). vm_compute in H. discriminate.
Qed.
Print Assumptions C10_emit_parse_gen_refuted.

Theorem C10_vanishing_header_refuted :
  exists p, existsb invalid p = false /\ wfx_prog p = false /\ run_noacl p = GParse 4 "c".
Proof. exists ex_vanishing_first. vm_compute. repeat split; reflexivity. Qed.
Print Assumptions C10_vanishing_header_refuted.

(* (b) a row indented by itself with no known recent row of its block (here: the very first row): it
   fixes the text's left margin, the next row in the block's real column is refused *)
Theorem C10_leading_blank_refuted :
  exists p, existsb invalid p = false /\ wfx_prog p = false /\ run_noacl p = GParse 2 "b".
Proof. exists [Yield (YS " a"); Yield (YS "b")]. vm_compute. repeat split; reflexivity. Qed.
Print Assumptions C10_leading_blank_refuted.

(* (c) a row indented by itself into a column that no open row of its block started: refused *)
Theorem C10_inner_dedent_refuted :
  exists p, existsb invalid p = false /\ wfx_prog p = false /\ run_noacl p = GParse 3 "c".
Proof.
  exists [Yield (YS ("a" ++ nl1 ++ "    b" ++ nl1 ++ "  c"))]. vm_compute. repeat split; reflexivity.
Qed.
Print Assumptions C10_inner_dedent_refuted.

(* (d) a header line indented deeper than the block's indent: the body column is refused *)
Theorem C10_header_deep_line_refuted :
  exists p, existsb invalid p = false /\ wfx_prog p = false /\ run_noacl p = GParse 3 "x".
Proof.
  exists [Block [TS ("a" ++ nl1 ++ "   b")] None [Yield (YS "x")]]. vm_compute. repeat split; reflexivity.
Qed.
Print Assumptions C10_header_deep_line_refuted.

(* (e) a '#' row in column 0 inside a block header: the section is closed between the header and its
   body, the body lands at top level (no error, but not under the header) *)
Theorem C10_header_reset_refuted :
  exists p, existsb invalid p = false /\ wfx_prog p = false /\
            run_noacl p = GOk [("a", T []); ("x", T [])].
Proof.
  exists [Block [TS ("a" ++ nl1 ++ "#")] None [Yield (YS "x")]]. vm_compute. repeat split; reflexivity.
Qed.
Print Assumptions C10_header_reset_refuted.

(* what the property's wording gets on these rows even INSIDE the guard: a line yielded in a block whose
   header vanishes is filed under the row before the block, not "under the block path it was yielded in" *)
Example C10_example_reattached :
  wfx_prog [Yield (YS "a"); Block [TS ""] None [Yield (YS "b")]; Yield (YS "c")] = true /\
  run_noacl [Yield (YS "a"); Block [TS ""] None [Yield (YS "b")]; Yield (YS "c")]
  = GOk [("a", T [("b", T [])]); ("c", T [])].
Proof. vm_compute. split; reflexivity. Qed.

(* ---------- the vendor guard split_neutral is not idle: plain programs the vendor's split does touch ---------- *)

(* Cisco: CiscoFormatter.split shifts every line behind an `address-family` row one column to the right until
   an `exit-address-family` row - which a generator does not yield (the formatter adds block exits).  A block
   `address-family ...` followed by any other row makes the run fail with ParserError (the generator-side face
   of the open C04 finding on Cisco address-family blocks). *)
Definition ex_cisco_af : prog :=
  [Block [TS "router bgp 1"] None
     [Block [TS "address-family ipv4"] None [Yield (YS "network 1")]; Yield (YS "x")]].

Theorem C10_cisco_address_family_refuted :
  exists sk, vendor_splitk "cisco" = Some sk /\ wf_prog ex_cisco_af = true /\
             split_neutral sk ex_cisco_af = false /\ run_noacl_sk sk ex_cisco_af = GParse 4 "x".
Proof. eexists. vm_compute. repeat split; reflexivity. Qed.
Print Assumptions C10_cisco_address_family_refuted.

(* Huawei / H3C: rows whose stripped text starts with end-list / endif / end-filter are dropped by the split: a
   yielded line silently vanishes (by design of the formatter: these are block terminators of the device) *)
Theorem C10_huawei_policy_end_refuted :
  exists sk p, vendor_splitk "huawei" = Some sk /\ wf_prog p = true /\ split_neutral sk p = false /\
               run_noacl_sk sk p = GOk [("xpl p", T [("if a then", T []); ("pass", T [])])] /\
               tree_of p = [("xpl p", T [("if a then", T []); ("pass", T []); ("endif", T [])])].
Proof.
  eexists. exists [Block [TS "xpl p"] None [Yield (YS "if a then"); Yield (YS "pass"); Yield (YS "endif")]].
  vm_compute. repeat split; reflexivity.
Qed.
Print Assumptions C10_huawei_policy_end_refuted.

(* split_remove_spaces (arista, aruba, b4com, nexus, and inside the other vendor splits): an interior run of
   blanks is collapsed, the line in the tree is not the line that was yielded *)
Theorem C10_spaces_rewritten_refuted :
  exists sk p, vendor_splitk "arista" = Some sk /\ wf_prog p = true /\ split_neutral sk p = false /\
               run_noacl_sk sk p = GOk [("description a b", T [])] /\ tree_of p = [("description a  b", T [])].
Proof. eexists. exists [Yield (YS "description a  b")]. vm_compute. repeat split; reflexivity. Qed.
Print Assumptions C10_spaces_rewritten_refuted.
