(* C08 — property theorems only (the sort library is being extended in Proofs/SortProofs.v). *)
From Coq Require Import List String Bool Arith ZArith Lia.
From Annet Require Import Base.Str Base.Tree Model.Order Model.Patch.
Import ListNotations.
Open Scope string_scope.

Lemma string_compare_refl s : String.compare s s = Eq.
Proof.
  induction s as [|c s IH]; cbn; [reflexivity|].
  unfold Ascii.compare. rewrite N.compare_refl. exact IH.
Qed.

(* For one rule the removal sorts before (or together with, then stably before) the
   re-creation: key (-order, rule, false) <= key (order, rule, true). *)
Theorem C08_undo_before_redo :
  forall (o : Z) (raw : string), (0 <= o)%Z ->
    skey_leb (ZFin (- o), raw, false) (ZFin o, raw, true) = true.
Proof.
  intros o raw Ho. unfold skey_leb, znum_compare.
  destruct (Z.compare_spec (- o) o) as [E|L|G]; [|reflexivity|lia].
  rewrite string_compare_refl. reflexivity.
Qed.
Print Assumptions C08_undo_before_redo.
