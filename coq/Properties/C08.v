(* C08 -- ordering follows the ordering rulebook and only permutes lines.
   Property theorems only; proofs are in Proofs/SortProofs.v (generic stable sort) and
   Proofs/OrderProofs.v.  Everything is stated for an arbitrary row matcher [rmatch], regex
   source [rsrc], negation of a pattern [rrev], exit word and negation word: the theorems do
   not depend on the pattern language.  Model: Model/Order.v (get_order, order_config),
   Model/Patch.v (make_patch); references: Spec/P_C08.v (sort_rec, all_paths, sorted_ok,
   rank_pair_ok, make_patch_u = make_patch without PatchTree.sort). *)
From Coq Require Import List String Ascii Bool Arith ZArith Lia Permutation Sorted.
From Annet Require Import Base.Str Base.Tree Model.Pattern Model.Rulebook Model.Diff Model.Order Model.Patch
     Model.Blocks Model.Pipeline Spec.PipelineCase Proofs.SortProofs Spec.P_C08 Proofs.OrderProofs
     Spec.P_C08meta Proofs.DiffRemoveProofs Proofs.MetaRowProofs Proofs.UnmentionedProofs.
Import ListNotations.
Open Scope list_scope.

(* ================= the sort ================= *)

(* Python compares the key tuples lexicographically; both comparisons are total preorders *)
Theorem C08_keys_total_preorder :
  (forall a b, skey_leb a b = true \/ skey_leb b a = true) /\
  (forall a b c, skey_leb a b = true -> skey_leb b c = true -> skey_leb a c = true) /\
  (forall a b, cfg_key_leb a b = true \/ cfg_key_leb b a = true) /\
  (forall a b c, cfg_key_leb a b = true -> cfg_key_leb b c = true -> cfg_key_leb a c = true).
Proof.
  exact (conj skey_leb_total (conj skey_leb_trans (conj cfg_key_leb_total cfg_key_leb_trans))).
Qed.
Print Assumptions C08_keys_total_preorder.

(* list.sort / sorted are only assumed to be *a* stable sort: any sorted permutation that
   keeps equal keys in input order is the model's insertion sort *)
Theorem C08_stable_sort_unique (l l' : list item) :
  Permutation l' l ->
  StronglySorted (fun a b => ileb a b = true) l' ->
  (forall x, filter (eqv ileb x) l' = filter (eqv ileb x) l) ->
  l' = sort_items l.
Proof. exact (sort_stable_unique ileb ileb_total ileb_trans l l'). Qed.
Print Assumptions C08_stable_sort_unique.

(* ================= patches ================= *)

(* make_patch = recursive stable sort of the unsorted patch; hence at every level the items
   are a permutation of the unsorted items (children sorted in place, under their own
   parent) and the multiset of root-to-command paths is unchanged *)
Theorem C08_patch_perm rmatch rsrc rrev block_exit rreverse p ordering u :
  make_patch_u rmatch rsrc rrev block_exit rreverse p ordering = POk u ->
  exists s, make_patch rmatch rsrc rrev block_exit rreverse p ordering = POk s /\
            s = sort_rec u /\
            (forall pre, Permutation (all_paths pre s) (all_paths pre u)) /\
            Permutation (pitems s) (map srt_item (pitems u)).
Proof. exact (patch_perm_model rmatch rsrc rrev block_exit rreverse p ordering u). Qed.
Print Assumptions C08_patch_perm.

Theorem C08_patch_error_iff rmatch rsrc rrev block_exit rreverse p ordering :
  make_patch rmatch rsrc rrev block_exit rreverse p ordering = PErr <->
  make_patch_u rmatch rsrc rrev block_exit rreverse p ordering = PErr.
Proof. exact (patch_error_model rmatch rsrc rrev block_exit rreverse p ordering). Qed.
Print Assumptions C08_patch_error_iff.

(* every level of every patch is sorted by its keys *)
Theorem C08_patch_sorted rmatch rsrc rrev block_exit rreverse p ordering s :
  make_patch rmatch rsrc rrev block_exit rreverse p ordering = POk s -> sorted_ok s = true.
Proof. exact (patch_sorted_model rmatch rsrc rrev block_exit rreverse p ordering s). Qed.
Print Assumptions C08_patch_sorted.

(* the three patch clauses of P_C08, on the model's own outputs *)
Theorem C08_patch_clauses rmatch rsrc rrev block_exit rreverse p ordering s u :
  make_patch rmatch rsrc rrev block_exit rreverse p ordering = POk s ->
  make_patch_u rmatch rsrc rrev block_exit rreverse p ordering = POk u ->
  sorted_ok s && is_stable_sort_of s u && same_multiset (all_paths [] s) (all_paths [] u) = true.
Proof. exact (patch_clauses_model rmatch rsrc rrev block_exit rreverse p ordering s u). Qed.
Print Assumptions C08_patch_clauses.

(* the keys are get_order's: (+order | -order, raw_rule, order_direct) of a command of the level *)
Theorem C08_patch_keys rmatch rsrc rrev block_exit rreverse p ordering items :
  make_patch rmatch rsrc rrev block_exit rreverse p ordering = POk (PT items) ->
  Forall (key_ok rmatch rsrc rrev block_exit ordering) items.
Proof. exact (make_patch_keys rmatch rsrc rrev block_exit rreverse p ordering items). Qed.
Print Assumptions C08_patch_keys.

(* ================= rank ================= *)

(* sibling rules with pairwise disjoint languages: get_order returns the index of the one
   rule that mentions the row; the direction is kept, except that an %order_reverse rule
   turns a removal it matches directly into a command pinned at +index (and ignores
   everything else) *)
Theorem C08_rank rmatch rsrc rrev block_exit ordering sc i r row cd :
  disjoint_rules rmatch rrev ordering sc -> is_exit block_exit row = false ->
  nth_error ordering i = Some r -> in_scope r sc = true -> hits rmatch rrev r row = true ->
  rank_of rmatch rsrc rrev block_exit ordering row cd sc =
  if o_rev r
  then (if negb cd && matches rmatch (o_pat r) row then (ZFin (Z.of_nat i), true) else (ZFin 0, cd))
  else (ZFin (Z.of_nat i), cd).
Proof. exact (rank_disjoint rmatch rsrc rrev block_exit ordering sc i r row cd). Qed.
Print Assumptions C08_rank.

Example C08_rank_nonvacuous :
  disjoint_rules toy_match toy_rev toy_rules None /\
  rank_of toy_match (fun s => s) toy_rev "exit" toy_rules "no b" false None = (ZFin 1, false) /\
  patch_key "b" (rank_of toy_match (fun s => s) toy_rev "exit" toy_rules "no b" false None)
    = (ZFin (-1), "b"%string, false) /\
  patch_key "b" (rank_of toy_match (fun s => s) toy_rev "exit" toy_rules "b" true None)
    = (ZFin 1, "b"%string, true).
Proof. split; [exact toy_disjoint | vm_compute; auto]. Qed.

Theorem C08_rank_unmentioned rmatch rsrc rrev block_exit ordering row cd sc :
  Forall (fun r => silent rmatch rrev row sc r = true) ordering -> is_exit block_exit row = false ->
  rank_of rmatch rsrc rrev block_exit ordering row cd sc = (ZFin 0, cd).
Proof. exact (rank_unmentioned rmatch rsrc rrev block_exit ordering row cd sc). Qed.
Print Assumptions C08_rank_unmentioned.

(* the vendor's block-exit word gets +inf *)
Theorem C08_rank_exit rmatch rsrc rrev block_exit ordering row cd sc :
  is_exit block_exit row = true ->
  Forall (fun r => silent rmatch rrev row sc r = true) ordering ->
  existsb (fun r => in_scope r sc) ordering = true ->
  rank_of rmatch rsrc rrev block_exit ordering row cd sc = (ZInf, true).
Proof. exact (rank_exit rmatch rsrc rrev block_exit ordering row cd sc). Qed.
Print Assumptions C08_rank_exit.

Example C08_rank_exit_nonvacuous :
  rank_of toy_match (fun s => s) toy_rev "exit" toy_rules "exit" true None = (ZInf, true).
Proof. vm_compute. reflexivity. Qed.

(* what the signed keys mean for the order: earlier rule first; removals mirrored and, from
   the second rule on, before every command; exit word last *)
Theorem C08_key_order (r1 r2 : string) (d1 d2 : bool) (i j : Z) :
  (0 <= i)%Z -> (0 <= j)%Z ->
  ((i < j)%Z -> key_lt (patch_key r1 (ZFin i, true)) (patch_key r2 (ZFin j, true))) /\
  ((i < j)%Z -> key_lt (patch_key r1 (ZFin j, false)) (patch_key r2 (ZFin i, false))) /\
  ((1 <= i)%Z -> key_lt (patch_key r1 (ZFin i, false)) (patch_key r2 (ZFin j, true))) /\
  key_lt (patch_key r1 (ZFin i, d1)) (patch_key r2 (ZInf, d2)).
Proof. exact (key_order_facts r1 r2 d1 d2 i j). Qed.
Print Assumptions C08_key_order.

(* forall sibling commands c1 c2 of a patch: rank c1 < rank c2 => c1 is not behind c2 *)
Theorem C08_no_inversion rmatch rsrc rrev block_exit rreverse p ordering items l1 a l2 b l3 :
  make_patch rmatch rsrc rrev block_exit rreverse p ordering = POk (PT items) ->
  items = l1 ++ a :: l2 ++ b :: l3 ->
  znum_compare (knum b) (knum a) <> Lt.
Proof. exact (patch_no_inversion rmatch rsrc rrev block_exit rreverse p ordering items l1 a l2 b l3). Qed.
Print Assumptions C08_no_inversion.

(* the rank clause of P_C08 (references rank_pair_ok / ref_children) holds at every depth of
   every patch the model builds: each command carries the rank the reference allows, under
   the rules its ancestors hand down *)
Theorem C08_rank_ok rmatch rsrc rrev block_exit rreverse p ordering s :
  make_patch rmatch rsrc rrev block_exit rreverse p ordering = POk s ->
  rank_ok_rec rmatch rrev block_exit ordering s = true.
Proof. exact (rank_ok_rec_model rmatch rsrc rrev block_exit rreverse p ordering s). Qed.
Print Assumptions C08_rank_ok.

(* the reference functions of P_C08 agree with get_order wherever they are defined *)
Theorem C08_ref_rank rmatch rsrc rrev block_exit ordering row cd sc x :
  ref_rank rmatch rrev block_exit sc ordering row cd = Some x ->
  rank_of rmatch rsrc rrev block_exit ordering row cd sc = x.
Proof. exact (ref_rank_model rmatch rsrc rrev block_exit ordering row cd sc x). Qed.
Print Assumptions C08_ref_rank.

Theorem C08_ref_children rmatch rsrc rrev block_exit ordering row cd sc rb :
  ref_children rmatch rrev block_exit sc ordering row = Some rb ->
  snd (get_order rmatch rsrc rrev block_exit ordering row cd sc) = rb.
Proof. exact (ref_children_model rmatch rsrc rrev block_exit ordering row cd sc rb). Qed.
Print Assumptions C08_ref_children.

(* For one rule the removal sorts before (or together with, then stably before) the
   re-creation: key (-order, rule, false) <= key (order, rule, true). *)
Theorem C08_undo_before_redo :
  forall (o : Z) (raw : string), (0 <= o)%Z ->
    skey_leb (ZFin (- o), raw, false) (ZFin o, raw, true) = true.
Proof. exact undo_before_redo. Qed.
Print Assumptions C08_undo_before_redo.

(* a block's children are ordered by the %global rules of the level and the matching
   rule's own children, in rulebook order *)
Theorem C08_children_rules_handed_down rmatch rsrc rrev block_exit pre r post row cd sc :
  Forall (fun r => silent rmatch rrev row sc r = true) pre ->
  Forall (fun r => silent rmatch rrev row sc r = true) post ->
  in_scope r sc = true -> hits rmatch rrev r row = true -> is_exit block_exit row = false ->
  o_rev r = false ->
  snd (get_order rmatch rsrc rrev block_exit (pre ++ r :: post) row cd sc) =
  odict_of (globals_of sc pre ++ (if o_glob r then [r] else []) ++ o_kids r ++ globals_of sc post) [].
Proof. exact (children_unique_hit rmatch rsrc rrev block_exit pre r post row cd sc). Qed.
Print Assumptions C08_children_rules_handed_down.

(* ================= order_config ================= *)

(* multiset of rows preserved at every depth (paths carry the parents) *)
Theorem C08_order_config_perm rmatch rsrc rrev block_exit reverse_prefix ordering pre f :
  Permutation (paths pre (order_config rmatch rsrc rrev block_exit reverse_prefix ordering f)) (paths pre f).
Proof. exact (oc_paths_perm rmatch rsrc rrev block_exit reverse_prefix ordering pre f). Qed.
Print Assumptions C08_order_config_perm.

Theorem C08_order_config_perm_level rmatch rsrc rrev block_exit reverse_prefix ordering f :
  Permutation (order_config rmatch rsrc rrev block_exit reverse_prefix ordering f)
              (map (fun rc => (fst rc,
                               order_config_t rmatch rsrc rrev block_exit reverse_prefix
                                              (row_rb rmatch rsrc rrev block_exit reverse_prefix ordering (fst rc))
                                              (snd rc))) f).
Proof. exact (oc_perm_level rmatch rsrc rrev block_exit reverse_prefix ordering f). Qed.
Print Assumptions C08_order_config_perm_level.

Theorem C08_order_config_sorted rmatch rsrc rrev block_exit reverse_prefix ordering f :
  StronglySorted (fun a b => cfg_key_leb a b = true)
    (map (row_key rmatch rsrc rrev block_exit reverse_prefix ordering)
         (map fst (order_config rmatch rsrc rrev block_exit reverse_prefix ordering f))).
Proof. exact (oc_sorted rmatch rsrc rrev block_exit reverse_prefix ordering f). Qed.
Print Assumptions C08_order_config_sorted.

(* at every depth, the rows whose key the reference determines stand in reference order:
   earlier rule first, negated rows mirrored and first, exit word last, children under the
   rules handed down *)
Theorem C08_order_config_rank rmatch rsrc rrev block_exit reverse_prefix t ordering :
  cfg_rank_sorted_t rmatch rrev block_exit reverse_prefix ordering
    (order_config_t rmatch rsrc rrev block_exit reverse_prefix ordering t) = true.
Proof. exact (cfg_rank_sorted_model rmatch rsrc rrev block_exit reverse_prefix t ordering). Qed.
Print Assumptions C08_order_config_rank.

(* ordering an ordered configuration changes nothing, at every depth *)
Theorem C08_order_config_idem rmatch rsrc rrev block_exit reverse_prefix ordering f :
  order_config rmatch rsrc rrev block_exit reverse_prefix ordering
    (order_config rmatch rsrc rrev block_exit reverse_prefix ordering f) =
  order_config rmatch rsrc rrev block_exit reverse_prefix ordering f.
Proof. exact (oc_idem rmatch rsrc rrev block_exit reverse_prefix ordering f). Qed.
Print Assumptions C08_order_config_idem.

(* the relative order of the rows selected by any predicate on the row text does not depend
   on the other rows *)
Theorem C08_unrelated_rows_irrelevant rmatch rsrc rrev block_exit reverse_prefix ordering (sel : string -> bool) f :
  order_config rmatch rsrc rrev block_exit reverse_prefix ordering (filter (fun rc => sel (fst rc)) f) =
  filter (fun rc => sel (fst rc)) (order_config rmatch rsrc rrev block_exit reverse_prefix ordering f).
Proof. exact (oc_filter_commute rmatch rsrc rrev block_exit reverse_prefix ordering sel f). Qed.
Print Assumptions C08_unrelated_rows_irrelevant.

(* the same for the items of a patch level, positionally: deleting items from the unsorted
   level deletes exactly them from the sorted level *)
Theorem C08_unrelated_items_irrelevant (l l' : list item) :
  sublist l l' -> sublist (sort_items l) (sort_items l').
Proof. exact (sort_sublist ileb ileb_total ileb_trans l l'). Qed.
Print Assumptions C08_unrelated_items_irrelevant.

(* ... but across whole configurations the sentence is refuted (faithful model and real
   code, known/C08.json): commands whose keys tie keep the diff's order, which depends on
   absolute row positions; old = [foo 1; vlan 7 a], new = [bar 1; vlan 9; vlan 7 b]:
   removing the unrelated old row "foo 1" turns [...; vlan 9; vlan 7 b] into [...; vlan 7 b; vlan 9] *)
Definition C08_unrelated_row_statement : Prop :=
  forall v rs ordering old new r,
    unrelated_top_row rs old new r = true -> meta_order_kept v rs ordering old new r.
Theorem C08_unrelated_row_refuted :
  exists v rs ordering old new r,
    unrelated_top_row rs old new r = true /\ ~ meta_order_kept v rs ordering old new r.
Proof. exact unrelated_row_refuted. Qed.
Print Assumptions C08_unrelated_row_refuted.

(* ... and holds for every row that is unrelated in the sense the pipeline needs
   (Spec/P_C08meta.v, meta_guard: the rules do not know the row, or it stands in old and in
   new at the same position within its diff-logic class, is not under rewrite_diff, shares
   its raw_rule with no other top-level row, and taking it out keeps the first-seen order of
   the diff logics; its own subtree may differ arbitrarily).  For rulebooks of any shape,
   any ordering rulebook, trees of any depth, any vendor.  Step by step: *)

(* (1) the diff of the smaller pair is the full diff without r's entry (any row matcher) *)
Theorem C08_diff_minus_row rmatch rs old new r :
  meta_guard_g rmatch rs old new r = true ->
  make_diff rmatch rs (remove_row r old) (remove_row r new) =
  filter (keep r) (make_diff rmatch rs old new).
Proof. exact (make_diff_rm rmatch rs old new r). Qed.
Print Assumptions C08_diff_minus_row.

(* (1') the core of (1), one call of base_diff: a row standing at the same position in old
   and new (|o1| = |n1|) can be taken out of both and only its own entry disappears *)
Theorem C08_base_diff_minus_row r pop inrw mta (o1 o2 : aforest) xo (n1 n2 : list ckid) xn :
  rowof xo = r -> rowof xn = r -> List.length o1 = List.length n1 ->
  ~ In r (map rowof o1) -> ~ In r (map rowof o2) -> ~ In r (map rowof n1) -> ~ In r (map rowof n2) ->
  base_diff (o1 ++ o2) pop inrw mta (n1 ++ n2) =
  filter (keep r) (base_diff (o1 ++ xo :: o2) pop inrw mta (n1 ++ xn :: n2)).
Proof. exact (base_diff_rm r pop inrw mta o1 o2 xo n1 n2 xn). Qed.
Print Assumptions C08_base_diff_minus_row.

(* (2) make_pre of a diff without the entries of one raw_rule is make_pre without that group *)
Theorem C08_pre_minus_group R d :
  make_pre (filter (keepR R) d) = Pre (filter (gkeep R) (pgroups (make_pre d))).
Proof. exact (make_pre_filter R d). Qed.
Print Assumptions C08_pre_minus_group.

(* (3) the unsorted patch of a pre without one group is the unsorted patch without the items
   that carry the group's raw_rule in their sort key, everything else in place ... *)
Theorem C08_unsorted_minus_group rmatch rsrc rrev block_exit rreverse R groups ordering out :
  make_patch_u rmatch rsrc rrev block_exit rreverse (Pre groups) ordering = POk (PT out) ->
  make_patch_u rmatch rsrc rrev block_exit rreverse (Pre (filter (gkeep R) groups)) ordering =
  POk (PT (filter (ikeep R) out)).
Proof. exact (make_patch_u_filter rmatch rsrc rrev block_exit rreverse R groups ordering out). Qed.
Print Assumptions C08_unsorted_minus_group.

(* (4) ... and so is the sorted patch (the sort commutes with the filter) *)
Theorem C08_patch_minus_group rmatch rsrc rrev block_exit rreverse R groups ordering s :
  make_patch rmatch rsrc rrev block_exit rreverse (Pre groups) ordering = POk s ->
  make_patch rmatch rsrc rrev block_exit rreverse (Pre (filter (gkeep R) groups)) ordering =
  POk (drop_rule R s).
Proof. exact (make_patch_filter rmatch rsrc rrev block_exit rreverse R groups ordering s). Qed.
Print Assumptions C08_patch_minus_group.

(* (5) the pipeline: the patch of (old - r, new - r) is the patch of (old, new) without the
   top-level items of r's rule -- same rows, same nesting, same order; it does not fail *)
Theorem C08_unrelated_row_patch v rs ordering old new r s :
  meta_guard rs old new r = true ->
  snd (diff_and_patch v rs ordering old new) = POk s ->
  snd (diff_and_patch v rs ordering (remove_row r old) (remove_row r new)) =
  POk (match raw_of_row rs old r with Some R => drop_rule R s | None => s end).
Proof. exact (p_unrelated_row_exact v rs ordering old new r s). Qed.
Print Assumptions C08_unrelated_row_patch.

Theorem C08_drop_rule_sublist (R : string) (s : ptree) (pre : list string) :
  sublist (pitems (drop_rule R s)) (pitems s) /\
  subseq (all_paths pre (drop_rule R s)) (all_paths pre s) = true.
Proof. exact (conj (drop_rule_sublist R s) (drop_rule_subseq R s pre)). Qed.
Print Assumptions C08_drop_rule_sublist.

(* (6) the property's sentence under the guard: every two remaining commands keep their
   relative order (at every depth: the root-to-command paths of the smaller patch are a
   subsequence of those of the full patch) *)
Theorem C08_unrelated_row v rs ordering old new r :
  meta_guard rs old new r = true -> meta_order_kept v rs ordering old new r.
Proof. exact (p_unrelated_row v rs ordering old new r). Qed.
Print Assumptions C08_unrelated_row.

(* the guard is met by a row the rules know (and the patch really shrinks), is not met by
   a row of a shared rule, and excludes the witness of the refutation above *)
Example C08_unrelated_row_nonvacuous :
  meta_guard w_rules g_old g_new "foo 1"%string = true /\
  meta_known w_rules g_old g_new "foo 1"%string = true /\
  meta_guard w_rules g_old g_new "vlan 9"%string = false /\
  meta_guard w_rules w_old w_new "foo 1"%string = false.
Proof. exact meta_guard_nonvacuous. Qed.

(* the clause of the correspondence run (same guard, evaluated on real outputs there) holds
   on the model's own outputs *)
Theorem C08_unrelated_row_clause c r :
  c8_meta_guarded c r
    (popt (model_patch c))
    (popt (snd (diff_and_patch (pc_vendor c) (pc_rules c) (pc_ordering c)
                               (remove_row r (pc_old c)) (remove_row r (pc_new c))))) = true.
Proof. exact (p_meta_guarded_model c r). Qed.
Print Assumptions C08_unrelated_row_clause.

(* rows no rule mentions: the property's sentence, as stated ... *)
Definition C08_unmentioned_stable_statement : Prop :=
  forall v ordering f, unmentioned_stable v ordering f (p_order_config v ordering f) = true.

(* ... is refuted by the faithful model (and by the real Orderer.order_config, see
   known/C08.json): cisco, no rules, rows [a; no b] come back as [no b; a] *)
Theorem C08_unmentioned_stable_refuted :
  exists v ordering f, unmentioned_stable v ordering f (p_order_config v ordering f) = false.
Proof. exact p_unmentioned_stable_refuted. Qed.
Print Assumptions C08_unmentioned_stable_refuted.

(* what does hold, unconditionally: unmentioned rows of one kind (commands / rows that start
   with the negation word) keep their relative order ... *)
Theorem C08_unmentioned_stable_partial rmatch rsrc rrev block_exit reverse_prefix ordering (b : bool) f :
  let sel := fun rc : string * tree =>
               negb (mentioned_g rmatch rrev block_exit ordering (fst rc)) &&
               Bool.eqb (row_direct reverse_prefix (fst rc)) b in
  map fst (filter sel (order_config rmatch rsrc rrev block_exit reverse_prefix ordering f)) =
  map fst (filter sel f).
Proof. exact (oc_unmentioned_stable_by_kind rmatch rsrc rrev block_exit reverse_prefix ordering b f). Qed.
Print Assumptions C08_unmentioned_stable_partial.

(* ... and the full sentence whenever no unmentioned row starts with the negation word *)
Theorem C08_unmentioned_stable v ordering f :
  has_negated_unmentioned v ordering f = false ->
  unmentioned_stable v ordering f (p_order_config v ordering f) = true.
Proof. exact (p_unmentioned_stable v ordering f). Qed.
Print Assumptions C08_unmentioned_stable.

Example C08_unmentioned_stable_nonvacuous :
  has_negated_unmentioned refute_vendor [] [("b"%string, T []); ("a"%string, T [])] = false.
Proof. vm_compute. reflexivity. Qed.

(* the sentence being refuted, this is what order_config does with the rows no rule mentions,
   for ALL inputs (no guard): in the result they are the unmentioned rows that start with the
   negation word, in input order, followed by the other unmentioned rows, in input order.
   C08_unmentioned_stable above is the special case in which the first list is empty. *)
Theorem C08_unmentioned_exact rmatch rsrc rrev block_exit reverse_prefix ordering f :
  let un := fun rc : string * tree => negb (mentioned_g rmatch rrev block_exit ordering (fst rc)) in
  map fst (filter un (order_config rmatch rsrc rrev block_exit reverse_prefix ordering f)) =
  map fst (filter (fun rc => un rc && negb (row_direct reverse_prefix (fst rc))) f) ++
  map fst (filter (fun rc => un rc && row_direct reverse_prefix (fst rc)) f).
Proof. exact (oc_unmentioned_exact rmatch rsrc rrev block_exit reverse_prefix ordering f). Qed.
Print Assumptions C08_unmentioned_exact.

(* the same as the clause evaluated on the real Orderer.order_config outputs *)
Theorem C08_unmentioned_exact_clause v ordering f :
  unmentioned_exact v ordering f (p_order_config v ordering f) = true.
Proof. exact (p_unmentioned_exact v ordering f). Qed.
Print Assumptions C08_unmentioned_exact_clause.

(* clauses of P_C08 about order_config, on the model's own outputs (pipeline instance) *)
Theorem C08_cfg_clauses v ordering f :
  forest_eqb (p_order_config v ordering (p_order_config v ordering f)) (p_order_config v ordering f) = true /\
  unmentioned_stable_kind v ordering f (p_order_config v ordering f) = true /\
  cfg_rank_sorted v ordering (p_order_config v ordering f) = true.
Proof.
  exact (conj (p_order_config_idem_clause v ordering f)
              (conj (p_unmentioned_stable_kind v ordering f) (p_cfg_rank_sorted v ordering f))).
Qed.
Print Assumptions C08_cfg_clauses.

(* clause resort: PatchTree.sort as specified (sort_rec) applied to any tree *)
Theorem C08_resort_clause u : sorted_ok (sort_rec u) && is_stable_sort_of (sort_rec u) u = true.
Proof. exact (resort_clause u). Qed.
Print Assumptions C08_resort_clause.

(* ====================================================================================================
   The SHIPPED ordering rulebooks (coq/Gen/Src_rules.v, parsed by Model/ShippedText.v).  C08_rank is stated
   for sibling rules with pairwise disjoint languages; [overlaps] (Spec/P_Shipped.v) lists, for a shipped
   *.order text, the sibling pairs (every level) that a conservative literal-word test cannot separate: the
   two forms of each rule (direct, negated) are compared position by position; two forms are separated when
   at some position both demand a literal word / a word of a one-word regex and no word meets both.
   The list per hardware is written to the evidence (shipped_rules.order_sibling_overlaps).
   ==================================================================================================== *)
From Annet Require Import Model.ShippedText Spec.P_Shipped Gen.Src_rules Proofs.ShippedOverlap.

(* every shipped *.order text is parsed by the model's parser *)
Theorem C08_shipped_orderings_compile :
  forallb (fun h => match shipped_ordering h with Some _ => true | None => false end) Src_shipped = true.
Proof. exact shipped_orderings_compile. Qed.
Print Assumptions C08_shipped_orderings_compile.

(* the list is complete: a pair of top-level siblings that is not listed is separated by the test or by %scope *)
Theorem C08_shipped_overlaps_complete :
  forall prefix ord i j x y, i < j -> nth_error ord i = Some x -> nth_error ord j = Some y ->
  ~ In (o_raw x, o_raw y) (overlaps prefix ord) ->
  scopes_meet x y && vecs_overlap (form_vecs prefix x) (form_vecs prefix y) = false.
Proof. exact overlaps_top_complete. Qed.
Print Assumptions C08_shipped_overlaps_complete.

(* The test is conservative for the pattern model: two rules it separates are matched (directly or in reverse form)
   by no common row.  Stated here, PROVED right below (C08_overlap_test_sound; Proofs/ShippedOverlapSound.v): a row
   matched by a pattern meets the pattern's demand vector word by word (lit_vec_sound, by induction over the token
   loops of Model/PatternX.v and Model/PatternY.v: one word per token before the first `~` / `~/re/`, where the
   vector stops demanding; the no-trailing-boundary peculiarity of rows with `~/re/` only loosens the last token,
   which lies at or after the `~/re/` word; an inline (?i) pattern demands nothing; a row with fewer words than the
   demanded positions is not matched), and two vectors the test separates are met by no common word list
   (vecs_differ_sound). *)
Definition C08_overlap_test_sound_statement : Prop :=
  forall prefix r1 r2 row,
    vecs_overlap (form_vecs prefix r1) (form_vecs prefix r2) = false ->
    hits ym (fun p => reverse_row p prefix) r1 row = true -> hits ym (fun p => reverse_row p prefix) r2 row = true -> False.

From Annet Require Import Proofs.ShippedOverlapSound.

Theorem C08_overlap_test_sound : C08_overlap_test_sound_statement.
Proof. exact overlap_test_sound. Qed.
Print Assumptions C08_overlap_test_sound.

(* the word-level fact behind it, for any number n of examined positions: the words of a row matched by a pattern
   meet the pattern's demands (a literal: that very word; a one-word regex: a word of its language) *)
Theorem C08_lit_vec_sound :
  forall n pat row key, ym pat row = Some key -> sat_vec (lit_vec n pat) (words row).
Proof. exact lit_vec_sound. Qed.
Print Assumptions C08_lit_vec_sound.

(* composed with C08_shipped_overlaps_complete: two top-level siblings whose scopes meet and which [overlaps] does not
   list share no row - the hypothesis `pairwise disjoint languages` of C08_rank for that pair *)
Theorem C08_shipped_unlisted_disjoint :
  forall prefix ord i j x y row, i < j -> nth_error ord i = Some x -> nth_error ord j = Some y ->
  ~ In (o_raw x, o_raw y) (overlaps prefix ord) -> scopes_meet x y = true ->
  hits ym (fun p => reverse_row p prefix) x row = true -> hits ym (fun p => reverse_row p prefix) y row = true -> False.
Proof. exact overlaps_unlisted_disjoint. Qed.
Print Assumptions C08_shipped_unlisted_disjoint.

(* non-vacuity: the test separates `service` from `switch` (a literal against a literal) and `interface */Vlan\d+/`
   from `interface Loopback0` (a one-word regex against a literal, second word), each rule mentions rows in both
   forms; it does not separate `interface */Vlan\d+/` from `no interface *` (both mention `no interface Vlan10`) *)
Definition sound_r1 : orule := ORule "service" "service" false false None [].
Definition sound_r2 : orule := ORule "switch" "switch" false false None [].
Definition sound_r3 : orule := ORule "interface */Vlan\d+/" "interface */Vlan\d+/" false false None [].
Definition sound_r4 : orule := ORule "interface Loopback0" "interface Loopback0" false false None [].
Definition sound_r5 : orule := ORule "no interface *" "no interface *" false false None [].
Example C08_overlap_test_sound_nonvacuous :
  vecs_overlap (form_vecs "no" sound_r1) (form_vecs "no" sound_r2) = false /\
  hits ym (fun p => reverse_row p "no") sound_r1 "service password-encryption" = true /\
  hits ym (fun p => reverse_row p "no") sound_r1 "no service pad" = true /\
  hits ym (fun p => reverse_row p "no") sound_r2 "switch 1 provision" = true /\
  vecs_overlap (form_vecs "no" sound_r3) (form_vecs "no" sound_r4) = false /\
  hits ym (fun p => reverse_row p "no") sound_r3 "interface Vlan10" = true /\
  hits ym (fun p => reverse_row p "no") sound_r4 "no interface Loopback0" = true /\
  vecs_overlap (form_vecs "no" sound_r3) (form_vecs "no" sound_r5) = true /\
  hits ym (fun p => reverse_row p "no") sound_r3 "no interface Vlan10" = true /\
  hits ym (fun p => reverse_row p "no") sound_r5 "no interface Vlan10" = true.
Proof. vm_compute. repeat split; reflexivity. Qed.

(* non-vacuity / sensitivity of the test on a shipped text: arista.order lists `logging trap` before `logging` *)
Definition pair_mem (p : string * string) (l : list (string * string)) : bool :=
  existsb (fun q => String.eqb (fst p) (fst q) && String.eqb (snd p) (snd q)) l.
Example C08_shipped_overlap_example :
  pair_mem ("logging trap", "logging") (shipped_overlaps hw_Arista) = true /\
  pair_mem ("service", "switch") (shipped_overlaps hw_Arista) = false.
Proof. vm_compute. split; reflexivity. Qed.

(* ====================================================================================================
   "... except where the rulebook pins a negated command to an explicit position" (Spec/P_C08s.v, Proofs/OrderPin.v).
   For any row matcher, regexp source function, negation function, exit word and ordering rulebook: when exactly
   one %order_reverse rule in scope (position k) matches a row directly and no ordinary rule in scope mentions the
   row through a regexp whose weight exceeds the pinned rule's ([pin_of] = Some k: the usual shipped pair `X *` ...
   `<negation> X * %order_reverse`, whose weights tie, next to a lighter catch-all `~`), get_order gives the removal
   command with that row the order k and makes it direct - the clause `pin` that the C08 check evaluates on real
   patches computed with the shipped rulebooks (harness/shipped_run.py), where C08_rank does not apply because two
   rules mention the row.
   ==================================================================================================== *)
From Annet Require Import Spec.P_C08s Proofs.OrderPin.

Theorem C08_rank_pinned rmatch rsrc rrev block_exit sc ordering row k :
  pin_of rmatch rsrc rrev block_exit sc ordering row = Some k ->
  exists ch, get_order rmatch rsrc rrev block_exit ordering row false sc = (ZFin (Z.of_nat k), true, ch).
Proof. exact (rank_pinned rmatch rsrc rrev block_exit sc ordering row k). Qed.
Print Assumptions C08_rank_pinned.

(* non-vacuity, with the real rule language (Model/Pattern.v): `pool *`, a catch-all, `port *`, then the pinned
   removal of a pool; the removal of a pool is pinned behind the ports, an added row starting with the negation
   word is not *)
Open Scope string_scope.
Definition pin_rules : list orule :=
  [ORule "pool *" "pool *" false false None []; ORule "~" "~" false false None [];
   ORule "port *" "port *" false false None []; ORule "undo pool * %order_reverse" "undo pool *" true false None []].
Example C08_rank_pinned_nonvacuous :
  pin_of pm psrc (fun p => reverse_row p "undo") "quit" (Some "patch") pin_rules "undo pool P1" = Some 3 /\
  fst (get_order pm psrc (fun p => reverse_row p "undo") "quit" pin_rules "undo pool P1" false (Some "patch")) = (ZFin 3, true) /\
  fst (get_order pm psrc (fun p => reverse_row p "undo") "quit" pin_rules "undo pool P1" true (Some "patch")) = (ZFin 0, true) /\
  pin_of pm psrc (fun p => reverse_row p "undo") "quit" (Some "patch") pin_rules "port X1" = None.
Proof. vm_compute. repeat split; reflexivity. Qed.
Open Scope list_scope.
