(* C03 — property theorems only.  Proofs live in Proofs/Diff*.v.
   All statements hold for EVERY rule matcher [rmatch] (the pipeline instantiates it with the
   shared row-pattern compiler of Model/Pattern.v), every rulebook built from the
   default / %ordered / %rewrite diff logics, and config trees of any depth and width
   whose sibling rows are distinct ([wf]: what a Python dict guarantees). *)
From Coq Require Import List String Bool Arith.
From Annet Require Import Base.Str Base.Tree Model.Rulebook Model.Diff Spec.P_C03 Proofs.DiffBasics
     Proofs.DiffProofs.
Import ListNotations.
Open Scope string_scope.

(* Ops are exact at every depth (ADDED => absent from old and present in new, REMOVED =>
   present in old and absent from new, AFFECTED/MOVED/UNCHANGED => on both sides), every row the
   rulebook knows is accounted for exactly once on each level (so dropping the ADDED entries
   gives old|R and dropping the REMOVED ones gives new|R, nesting intact), every entry carries
   the rule and key of its row, and an UNCHANGED entry has only UNCHANGED descendants. *)
Theorem C03_lossless :
  forall rmatch rs old new, wf old -> wf new ->
    lossless (annot_f rmatch rs old) (annot_f rmatch rs new) (make_diff rmatch rs old new) = true.
Proof. exact diff_lossless. Qed.
Print Assumptions C03_lossless.

(* comparing a configuration with itself reports no change at any depth *)
Theorem C03_self_empty :
  forall rmatch rs x, wf x -> strip_unchanged (make_diff rmatch rs x x) = [].
Proof. exact diff_self_empty. Qed.
Print Assumptions C03_self_empty.

(* rows of %ordered rules appear in the diff in new's order, at every depth *)
Theorem C03_ordered_in_new_order :
  forall rmatch rs old new, wf old -> wf new ->
    order_ok (annot_f rmatch rs new) (make_diff rmatch rs old new) = true.
Proof. exact diff_order_ok. Qed.
Print Assumptions C03_ordered_in_new_order.

(* MOVED characterisation (top level of an %ordered group): a surviving row is MOVED iff the
   prefix of new up to and including it deviates from the same-length prefix of old *)
Theorem C03_moved_iff_prefix_deviates :
  forall rmatch rs old new, wf old -> wf new ->
    moved_ok_top (annot_f rmatch rs old) (annot_f rmatch rs new) (make_diff rmatch rs old new) = true.
Proof. exact diff_moved_ok. Qed.
Print Assumptions C03_moved_iff_prefix_deviates.

(* the predicate the check evaluates on the implementation's make_diff outputs holds of the model *)
Theorem C03_P_holds_of_model :
  forall rmatch rs old new, wf old -> wf new ->
    P_C03 rmatch (rs, old, new) (make_diff rmatch rs old new) = true.
Proof. exact diff_P_C03. Qed.
Print Assumptions C03_P_holds_of_model.

(* strip_unchanged is a projection: the stripped diff shown to the operator is stable *)
Theorem C03_strip_idem : forall d, strip_unchanged (strip_unchanged d) = strip_unchanged d.
Proof. exact strip_unchanged_idem. Qed.
Print Assumptions C03_strip_idem.

(* and it contains no UNCHANGED entry at any depth *)
Theorem C03_strip_no_unchanged : forall d, forallb no_unchanged_n (strip_unchanged_n d) = true.
Proof. exact strip_no_unchanged. Qed.
Print Assumptions C03_strip_no_unchanged.
