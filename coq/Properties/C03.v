(* C03 — property theorems only.  Proofs live in Proofs/Diff*.v.
   All statements hold for EVERY rule matcher [rmatch] (the pipeline instantiates it with the
   shared row-pattern compiler of Model/Pattern.v), every rulebook built from the
   default / %ordered / %rewrite diff logics, and config trees of any depth and width
   whose sibling rows are distinct ([wf]: what a Python dict guarantees). *)
From Coq Require Import List String Bool Arith.
From Annet Require Import Base.Str Base.Tree Model.Rulebook Model.Diff Model.Order Model.Patch Model.DiffText
     Spec.P_C03 Spec.P_C03Text Proofs.DiffBasics Proofs.DiffProofs Proofs.DiffProofsProj Proofs.DiffTextProofs.
Require Annet.Gen.Src_vendors.
Import ListNotations.
Open Scope string_scope.

(* Ops are exact at every depth (ADDED => absent from old and present in new, REMOVED =>
   present in old and absent from new, AFFECTED/MOVED/UNCHANGED => on both sides), every row the
   rulebook knows is accounted for exactly once on each level (so dropping the ADDED entries
   gives old|R and dropping the REMOVED ones gives new|R, nesting intact), every entry carries
   the rule and key of its row, and an UNCHANGED entry has only UNCHANGED descendants.  The only
   rows that may be missing from a level of the diff are rows of %rewrite rules, and only when the
   whole %rewrite group of that level is unchanged at every depth ([rw_unchanged]/[same_t]: same rows
   with the same rule and key, same order for %ordered and %rewrite rows, recursively). *)
Theorem C03_lossless :
  forall rmatch rs old new, wf old -> wf new ->
    lossless (annot_f rmatch rs old) (annot_f rmatch rs new) (make_diff rmatch rs old new) = true.
Proof. exact diff_lossless. Qed.
Print Assumptions C03_lossless.

(* The reconstruction law itself: dropping the ADDED entries of the diff gives old|R and dropping the
   REMOVED entries gives new|R ([erase_f (annot_f ..)]: the rows the rulebook knows), as unordered
   trees with the nesting intact ([fperm]: a permutation of the rows of every level; the order inside
   %ordered rules is C03_ordered_in_new_order), for the side on which no row is governed by a %rewrite
   rule ([norw]); with %rewrite rows the exact statement of what may be omitted is C03_lossless. *)
Theorem C03_projections :
  forall rmatch rs old new, wf old -> wf new ->
    (norw (annot_f rmatch rs old) = true ->
     fperm (proj_old (make_diff rmatch rs old new)) (erase_f (annot_f rmatch rs old))) /\
    (norw (annot_f rmatch rs new) = true ->
     fperm (proj_new (make_diff rmatch rs old new)) (erase_f (annot_f rmatch rs new))).
Proof. exact diff_projections. Qed.
Print Assumptions C03_projections.

(* comparing a configuration with itself reports no change at any depth *)
Theorem C03_self_empty :
  forall rmatch rs x, wf x -> strip_unchanged (make_diff rmatch rs x x) = [].
Proof. exact diff_self_empty. Qed.
Print Assumptions C03_self_empty.

(* rows of %ordered rules appear in the diff in new's order, at every depth *)
Theorem C03_ordered_in_new_order :
  forall rmatch rs old new, wf old -> wf new ->
    order_ok (annot_f rmatch rs new) (make_diff rmatch rs old new) = true.
Proof. exact diff_order_ok. Qed.
Print Assumptions C03_ordered_in_new_order.

(* MOVED characterisation at every depth: below an entry that is itself MOVED every surviving row
   is MOVED; below any other entry present on both sides, and at the top level, a surviving row of an
   %ordered rule is MOVED iff the prefix of new up to and including it deviates from the
   same-length prefix of old *)
Theorem C03_moved_all_depths :
  forall rmatch rs old new, wf old -> wf new ->
    moved_ok (annot_f rmatch rs old) (annot_f rmatch rs new) (make_diff rmatch rs old new) = true.
Proof. exact diff_moved_all. Qed.
Print Assumptions C03_moved_all_depths.

(* its top-level part *)
Theorem C03_moved_iff_prefix_deviates :
  forall rmatch rs old new, wf old -> wf new ->
    moved_ok_top (annot_f rmatch rs old) (annot_f rmatch rs new) (make_diff rmatch rs old new) = true.
Proof. exact diff_moved_ok. Qed.
Print Assumptions C03_moved_iff_prefix_deviates.

(* a %rewrite block that is shown is shown as re-entered as a whole: no entry at or below a row of a
   %rewrite rule is AFFECTED or UNCHANGED *)
Theorem C03_rewrite_shown_whole :
  forall rmatch rs old new, wf old -> wf new ->
    rewrite_whole (annot_f rmatch rs old) (annot_f rmatch rs new) (make_diff rmatch rs old new) = true.
Proof. exact diff_rewrite_whole. Qed.
Print Assumptions C03_rewrite_shown_whole.

(* the predicate the check evaluates on the implementation's make_diff outputs holds of the model *)
Theorem C03_P_holds_of_model :
  forall rmatch rs old new, wf old -> wf new ->
    P_C03 rmatch (rs, old, new) (make_diff rmatch rs old new) = true.
Proof. exact diff_P_C03. Qed.
Print Assumptions C03_P_holds_of_model.

(* strip_unchanged is a projection: the stripped diff shown to the operator is stable *)
Theorem C03_strip_idem : forall d, strip_unchanged (strip_unchanged d) = strip_unchanged d.
Proof. exact strip_unchanged_idem. Qed.
Print Assumptions C03_strip_idem.

(* and it contains no UNCHANGED entry at any depth *)
Theorem C03_strip_no_unchanged : forall d, forallb no_unchanged_n (strip_unchanged_n d) = true.
Proof. exact strip_no_unchanged. Qed.
Print Assumptions C03_strip_no_unchanged.

(* ------------------------------------------------------------------------------------------------
   The textual views.  [diff_lines F d] models formatter.diff(d) for a formatter with indent,
   block_begin, block_end, statement_end = F (None = the KeyError raised on an UNCHANGED entry);
   [parse_signed F] reads a signed, indented listing back (Spec/P_C03Text.v); [sshape_f d] is d
   minus its UNCHANGED entries with the rule matches forgotten: entries, signs and nesting.
   Guards: the indent is n >= 1 blanks and the closing word does not start with a blank ([fmt_ok]);
   rows are non-empty and do not start with a blank ([rows_ok]: every vendor's split strips rows). *)

(* render round trip: the deploy confirmation view read back gives the same entries with the same
   signs and nesting -- for the plain family (no delimiters), the brace family (" {", "}", ";" or "")
   and RouterOS ("/"), i.e. for every F with fmt_ok *)
Theorem C03_render_roundtrip :
  forall F d, fmt_ok F = true -> forallb no_unchanged_n d = true -> rows_ok (sshape_f d) = true ->
    exists lines, diff_lines F d = Some lines /\ parse_signed F lines = Some (sshape_f d) /\
                  shape_f d = Some (sshape_f d).
Proof. exact read_back_total. Qed.
Print Assumptions C03_render_roundtrip.

(* hence the confirmation view is injective: two diffs shown by the same lines have the same entries *)
Theorem C03_render_injective :
  forall F d1 d2 lines, fmt_ok F = true ->
    forallb no_unchanged_n d1 = true -> forallb no_unchanged_n d2 = true ->
    rows_ok (sshape_f d1) = true -> rows_ok (sshape_f d2) = true ->
    diff_lines F d1 = Some lines -> diff_lines F d2 = Some lines -> sshape_f d1 = sshape_f d2.
Proof. exact diff_lines_injective. Qed.
Print Assumptions C03_render_injective.

(* the `annet diff` view: gen_pre_as_diff(make_pre(d)) read back gives, on every level, the entries of
   d minus UNCHANGED as a multiset ([tperm]: a permutation of the entries of every level) *)
Theorem C03_pre_render :
  forall ind d, fmt_ok (plain_fmt ind) = true -> rows_ok (sshape_f d) = true ->
    exists s', pre_read_back ind d = Some s' /\ tperm s' (sshape_f d).
Proof. exact pre_render. Qed.
Print Assumptions C03_pre_render.

(* "minus UNCHANGED" is what strip_unchanged leaves *)
Theorem C03_shown_is_stripped : forall d, sshape_f (strip_unchanged d) = sshape_f d.
Proof. exact sshape_strip. Qed.
Print Assumptions C03_shown_is_stripped.

(* every vendor's formatter parameters (table regenerated from annet/annlib/tabparser.py and
   annet/vendors on every run) satisfy the guard of the round trip, whatever blank indent the caller passes *)
Theorem C03_every_vendor_formatter_ok :
  forallb (fun v => forallb (fun ind => match vendor_tfmt (Src_vendors.v_name v) ind with
                                        | Some F => fmt_ok F
                                        | None => false
                                        end) [" "; "  "; "    "]) Src_vendors.vendors = true.
Proof. vm_compute. reflexivity. Qed.
Print Assumptions C03_every_vendor_formatter_ok.

(* ------------------------------------------------------------------------------------------------
   Non-vacuity of the guards. *)
Definition ex_match (pat row : string) : option (list string) :=
  if String.prefix pat row then Some [row] else None.
Definition ex_attrs (dl : dlogic) : attrs := Attrs "e" LDefault dl false false.
Definition ex_rs : rset := ([PRule "e %ordered" false (ex_attrs DOrdered) [] []], []).
Definition ex_old : forest := [("e 1", T []); ("e 2", T []); ("e 3", T [])].
Definition ex_new : forest := [("e 3", T []); ("e 2", T []); ("e 1", T [])].

(* [wf] is satisfiable with a non-trivial outcome: reversing three rows of an %ordered rule moves all
   three, the middle one included although it keeps its index *)
Example C03_wf_nonvacuous :
  wf ex_old /\ wf ex_new /\
  map (fun k => (d_op k, d_row k)) (make_diff ex_match ex_rs ex_old ex_new) =
  [(Moved, "e 3"); (Moved, "e 2"); (Moved, "e 1")].
Proof. split; [apply wfb_wf; reflexivity|]. split; [apply wfb_wf; reflexivity|]. vm_compute. reflexivity. Qed.

(* ... and the [norw] guard of C03_projections holds for it on both sides *)
Example C03_norw_nonvacuous :
  norw (annot_f ex_match ex_rs ex_old) = true /\ norw (annot_f ex_match ex_rs ex_new) = true /\
  annot_f ex_match ex_rs ex_old <> [].
Proof. vm_compute. repeat split; try reflexivity. discriminate. Qed.

(* the guards of the render theorems are satisfiable for a brace-family formatter and a nested diff
   with all four signs, and the listing is the expected one *)
Definition ex_mi : minfo := MI "e" [] (ex_attrs DDefault).
Definition ex_diff : list dnode :=
  [DN Affected "a b" ex_mi [DN Added "c" ex_mi []; DN Moved "d" ex_mi [DN Removed "e" ex_mi []]];
   DN Removed "z" ex_mi []].
Example C03_render_nonvacuous :
  fmt_ok (TFmt "    " " {" "}" ";") = true /\ forallb no_unchanged_n ex_diff = true /\
  rows_ok (sshape_f ex_diff) = true /\ fmt_ok (plain_fmt "  ") = true /\
  diff_lines (TFmt "    " " {" "}" ";") ex_diff =
  Some ["  a b {"; "+     c;"; ">     d {"; "-         e;"; ">     }"; "  }"; "- z;"].
Proof. vm_compute. repeat split; reflexivity. Qed.

(* The stricter reading of "a row is MOVED iff its relative order changed" -- MOVED only if the order
   relative to the other SURVIVING rows changed -- is not what base_diff implements and is refuted by
   the model (witness replayed on the real make_diff: same result): after the removal of "e 1" the two
   surviving rows keep their relative order, yet both are MOVED, because move detection compares
   absolute positions and everything after the first deviation is re-created (which a device that
   applies the block sequentially needs).  The characterisation that does hold is C03_moved_all_depths. *)
Definition ex_new2 : forest := [("e 2", T []); ("e 3", T [])].
Theorem C03_moved_strict_reading_refuted :
  exists rs old new, wf old /\ wf new /\
    map (fun k => (d_op k, d_row k)) (make_diff ex_match rs old new) =
    [(Moved, "e 2"); (Removed, "e 1"); (Moved, "e 3")].
Proof.
  exists ex_rs, ex_old, ex_new2. split; [apply wfb_wf; reflexivity|]. split; [apply wfb_wf; reflexivity|].
  vm_compute. reflexivity.
Qed.
Print Assumptions C03_moved_strict_reading_refuted.

(* the boolean tests the check evaluates on real outputs imply the relations the theorems are stated with *)
Theorem C03_tests_sound :
  (forall a b, unordered_eqb a b = true -> fperm a b) /\ (forall a b, same_levels a b = true -> tperm a b).
Proof. split; [exact unordered_eqb_fperm | exact same_levels_tperm]. Qed.
Print Assumptions C03_tests_sound.
From Coq Require Import Permutation Sorted.
From Annet Require Import Model.Pattern Model.DiffX Model.DiffSort Spec.P_C03X Spec.P_C03Recon Proofs.DiffXProofs Proofs.DiffMProofs Proofs.DiffSortProofs
     Proofs.DiffProofsLib Proofs.DiffProofsLossless Proofs.DiffProofsRecon Proofs.DiffMLevelProofs Proofs.DiffMDeepProofs Spec.P_C03ML.

(* ================================================================================================
   C03X -- the extended domain: %ignore_case re-keying, %multiline rules (Model/DiffX.v, Spec/P_C03X.v) and
   resort_diff's order (Model/DiffSort.v).  [fl] gives the two new attributes of the governing rule.

   LOSSLESS MODULO CASE, exactly: on the domain [xdom] the diff is a lossless description -- in the sense of
   every C03 theorem above -- of the NORMALISED pair (normO ao an, normN ao an): each row governed by an
   %ignore_case rule is replaced by its lower-case spelling at every depth (outside multiline bodies); the diff
   shows that spelling, neither old's nor new's; a row spelled differently on the two sides is one row, present
   on both sides, and carries the match recorded last (new's unless new's spelling is already lower case).
   Forgetting the matches the normalised sides are just the lowered sides (C03X_norm_only_lowers). *)
Theorem C03X_lossless :
  forall fl rmatch rs old new,
    let ao := annot_f rmatch rs old in let an := annot_f rmatch rs new in
    xdom fl ao an = true -> lossless (normO fl ao an) (normN fl ao an) (make_diffX fl rmatch rs old new) = true.
Proof. intros fl rmatch rs old new ao an H. exact (diffX_lossless fl rmatch rs old new H). Qed.
Print Assumptions C03X_lossless.

Theorem C03X_ordered_in_new_order :
  forall fl rmatch rs old new,
    let ao := annot_f rmatch rs old in let an := annot_f rmatch rs new in
    xdom fl ao an = true -> order_ok (normN fl ao an) (make_diffX fl rmatch rs old new) = true.
Proof. intros fl rmatch rs old new ao an H. exact (diffX_order fl rmatch rs old new H). Qed.
Print Assumptions C03X_ordered_in_new_order.

Theorem C03X_moved_all_depths :
  forall fl rmatch rs old new,
    let ao := annot_f rmatch rs old in let an := annot_f rmatch rs new in
    xdom fl ao an = true -> moved_ok (normO fl ao an) (normN fl ao an) (make_diffX fl rmatch rs old new) = true.
Proof. intros fl rmatch rs old new ao an H. exact (diffX_moved fl rmatch rs old new H). Qed.
Print Assumptions C03X_moved_all_depths.

Theorem C03X_rewrite_shown_whole :
  forall fl rmatch rs old new,
    let ao := annot_f rmatch rs old in let an := annot_f rmatch rs new in
    xdom fl ao an = true -> rewrite_whole (normO fl ao an) (normN fl ao an) (make_diffX fl rmatch rs old new) = true.
Proof. intros fl rmatch rs old new ao an H. exact (diffX_whole fl rmatch rs old new H). Qed.
Print Assumptions C03X_rewrite_shown_whole.

(* the normalisation only lowers rows: old|R and new|R modulo case *)
Theorem C03X_norm_only_lowers :
  forall fl ao an, erase_f (normO fl ao an) = erase_f (lower_f fl ao) /\ erase_f (normN fl ao an) = erase_f (lower_f fl an).
Proof. intros fl ao an. split; [apply erase_f_normO | apply erase_f_normN]. Qed.
Print Assumptions C03X_norm_only_lowers.

(* the reconstruction law modulo case: dropping the ADDED entries gives old|R with the rows of %ignore_case rules
   lowered, dropping the REMOVED ones gives new|R lowered (unordered, nesting intact; sides without %rewrite rows) *)
Theorem C03X_projections :
  forall fl rmatch rs old new,
    let ao := annot_f rmatch rs old in let an := annot_f rmatch rs new in
    xdom fl ao an = true ->
    (norw (normO fl ao an) = true -> fperm (proj_old (make_diffX fl rmatch rs old new)) (erase_f (lower_f fl ao))) /\
    (norw (normN fl ao an) = true -> fperm (proj_new (make_diffX fl rmatch rs old new)) (erase_f (lower_f fl an))).
Proof.
  intros fl rmatch rs old new ao an H. destruct (diffX_projections fl rmatch rs old new H) as [H1 H2].
  fold ao an in H1, H2. rewrite erase_f_normO in H1. rewrite erase_f_normN in H2. split; assumption.
Qed.
Print Assumptions C03X_projections.

(* two configurations whose normal forms coincide -- they differ only in the case of rows governed by
   %ignore_case rules -- compare as equal at every depth *)
Theorem C03X_equal_modulo_case :
  forall fl rmatch rs old new,
    let ao := annot_f rmatch rs old in let an := annot_f rmatch rs new in
    xdom fl ao an = true -> normO fl ao an = normN fl ao an ->
    strip_unchanged (make_diffX fl rmatch rs old new) = [].
Proof. intros fl rmatch rs old new ao an H E. exact (diffX_equal_modulo_case fl rmatch rs old new H E). Qed.
Print Assumptions C03X_equal_modulo_case.

(* conservativity: no row governed by an %ignore_case rule => the extended model IS Model/Diff.v's make_diff *)
Theorem C03X_conservative_ignore_case :
  forall fl rmatch rs old new,
    noic fl (annot_f rmatch rs old) = true -> noic fl (annot_f rmatch rs new) = true ->
    make_diffX fl rmatch rs old new = make_diff rmatch rs old new.
Proof. exact diffX_conservative. Qed.
Print Assumptions C03X_conservative_ignore_case.

(* conservativity of the %multiline extension, at every depth: without rows of %multiline rules the extended
   differ is Model/Diff.v's diff_t, so make_diffXM = make_diffX (and = make_diff without %ignore_case rows) *)
Theorem C03X_conservative_multiline :
  forall fl nt, noml fl (akids nt) = true ->
    forall ao pop inrw, noml fl ao = true -> diff_tM fl nt ao pop inrw = diff_t nt ao pop inrw.
Proof. exact diff_tM_coincides. Qed.
Print Assumptions C03X_conservative_multiline.

Theorem C03X_full_model_without_multiline :
  forall fl rmatch rs old new,
    noml fl (normO fl (annot_f rmatch rs old) (annot_f rmatch rs new)) = true ->
    noml fl (normN fl (annot_f rmatch rs old) (annot_f rmatch rs new)) = true ->
    make_diffXM fl rmatch rs old new = make_diffX fl rmatch rs old new.
Proof. exact make_diffXM_noml. Qed.
Print Assumptions C03X_full_model_without_multiline.

(* resort_diff: every level of the output is a permutation of the input level (for ANY comparison function, hence
   also where diff_cmp is inconsistent) ... *)
Theorem C03X_resort_permutes_levels :
  (forall d, Permutation (resort d) (map resort_n d)) /\
  (forall o r m k, resort_n (DN o r m k) = DN o r m (resort k)).
Proof. split; [exact resort_perm | exact resort_n_kids]. Qed.
Print Assumptions C03X_resort_permutes_levels.

(* ... and where diff_cmp is a weak order on the entries of the level ([wo_on]: total and transitive "not greater")
   the level is sorted by it and stable: entries diff_cmp does not distinguish keep their input order *)
Theorem C03X_resort_sorted_stable :
  forall d, wo_on d = true ->
    StronglySorted (fun a b => cmp_leb a b = true) (resort d) /\
    (forall x, In x d -> filter (eqv_on cmp_leb (resort_n x)) (resort d) =
                         filter (eqv_on cmp_leb (resort_n x)) (map resort_n d)).
Proof. exact resort_sorted_stable. Qed.
Print Assumptions C03X_resort_sorted_stable.

(* a level whose entries all have one op is left as it is *)
Theorem C03X_resort_one_op : forall o d, Forall (fun x => d_op x = o) d -> resort d = map resort_n d.
Proof. exact resort_one_op. Qed.
Print Assumptions C03X_resort_one_op.

(* FINDING (replayed on the real diff_cmp / resort_diff): diff_cmp is not a weak order.  removed "a 3" ~ removed "a 1"
   (same op), removed "a 1" < added "a 2" < removed "a 3": the real resort_diff returns [a 3; a 1; a 2] unchanged for
   that input although diff_cmp puts "a 2" before "a 3", and [a 1; a 2; a 3] for the input [a 3; a 2; a 1]. *)
Definition sx_mi : minfo := MI "r" [] (Attrs "r" LDefault DDefault false false).
Theorem C03X_diff_cmp_not_weak_order :
  exists a b c, cmp_leb c a = true /\ cmp_leb a b = true /\ cmp_leb c b = false /\ wo_on [a; b; c] = false.
Proof.
  exists (DN Removed "a 3" sx_mi []), (DN Removed "a 1" sx_mi []), (DN Added "a 2" sx_mi []).
  vm_compute. repeat split; reflexivity.
Qed.
Print Assumptions C03X_diff_cmp_not_weak_order.

(* ---------------- non-vacuity and the behaviours the model reproduces (each replayed on the real make_diff) *)
Definition ci_match (pat row : string) : option (list string) :=
  if String.prefix (lower_str pat) (lower_str row) then Some [row] else None.
Definition x_attrs (p : string) : attrs := Attrs p LDefault DDefault false false.
Definition x_fl := fl_of [("desc %ignore_case", (true, false)); ("key %multiline", (false, true))].
Definition x_rs : rset :=
  ([PRule "desc %ignore_case" false (x_attrs "desc") [] []; PRule "mtu" false (x_attrs "mtu") [] [];
    PRule "key %multiline" false (x_attrs "key") [PRule "l" false (x_attrs "l") [] []] []], []).

(* the guard holds for a respelled row next to a changed one; the diff shows the LOWER-CASE spelling, which occurs
   in neither configuration, and the key of the spelling recorded last *)
Example C03X_xdom_nonvacuous :
  let old := [("Desc A", T []); ("mtu 1", T [])] in let new := [("DESC a", T []); ("mtu 2", T [])] in
  xdom x_fl (annot_f ci_match x_rs old) (annot_f ci_match x_rs new) = true /\
  map (fun k => (d_op k, d_row k, mi_key (d_mi k))) (make_diffX x_fl ci_match x_rs old new) =
  [(Unchanged, "desc a", ["DESC a"]); (Added, "mtu 2", ["mtu 2"]); (Removed, "mtu 1", ["mtu 1"])].
Proof. vm_compute. split; reflexivity. Qed.

Example C03X_modulo_case_nonvacuous :
  let old := [("Desc A", T [])] in let new := [("desc a", T [])] in
  xdom x_fl (annot_f ci_match x_rs old) (annot_f ci_match x_rs new) = true /\
  normO x_fl (annot_f ci_match x_rs old) (annot_f ci_match x_rs new) =
  normN x_fl (annot_f ci_match x_rs old) (annot_f ci_match x_rs new) /\ old <> new.
Proof. vm_compute. repeat split; try reflexivity. discriminate. Qed.

(* a multiline block is shown whole: the entry keeps the op default_diff gives it, its children are the complete new
   body as ADDED rows, unchanged body lines included *)
Example C03X_multiline_shown_whole :
  make_diffXM x_fl ci_match x_rs [("key a", T [("l1", T []); ("l2", T [])])] [("key a", T [("l1", T []); ("l3", T [])])] =
  [DN Affected "key a" (MI "key %multiline" ["key a"] (x_attrs "key")) [DN Added "l1" mi_body []; DN Added "l3" mi_body []]].
Proof. vm_compute. reflexivity. Qed.

(* FINDINGS reproduced by the faithful model (same results from the real make_diff):
   (a) a new (or removed) row of a %multiline rule WITHOUT known children is not in the diff at all;
   (b) a multiline block whose body is emptied is reported UNCHANGED;
   (c) only the ORDER of the body lines differs => the whole block is shown (bodies are compared as ordered trees). *)
Theorem C03X_multiline_losses :
  make_diffXM x_fl ci_match x_rs [] [("key b", T [])] = [] /\
  make_diffXM x_fl ci_match x_rs [("key b", T [])] [] = [] /\
  map (fun k => (d_op k, d_row k)) (make_diffXM x_fl ci_match x_rs [("key a", T [("l1", T [])])] [("key a", T [])]) =
  [(Unchanged, "key a")] /\
  map (fun k => (d_op k, d_row k, List.length (d_kids k)))
      (make_diffXM x_fl ci_match x_rs [("key a", T [("l1", T []); ("l2", T [])])] [("key a", T [("l2", T []); ("l1", T [])])]) =
  [(Affected, "key a", 2)].
Proof. vm_compute. repeat split; reflexivity. Qed.
Print Assumptions C03X_multiline_losses.

(* outside [xdom] (make_diff raises there, or loses a row; see known/C03.json): two spellings with children *)
Example C03X_xdom_excludes_respelled_block :
  let rs := ([PRule "blk %ignore_case" false (x_attrs "blk") [PRule "set" false (x_attrs "set") [] []] []], []) in
  let fl := fl_of [("blk %ignore_case", (true, false))] in
  xdom fl (annot_f ci_match rs [("Blk A", T [("set 1", T [])])]) (annot_f ci_match rs [("blk a", T [("set 2", T [])])]) = false.
Proof. vm_compute. reflexivity. Qed.

(* ------------------------------------------------------------------------------------------------
   %multiline: the per-level law.  Spec/P_C03X.v [ml_level_ok] says what a level must satisfy: a row of a %multiline
   rule is shown iff its bodies differ as ordered trees (absent = empty), exactly once, with an exact op and the
   whole body of the side it is read from (all its lines ADDED, or REMOVED for a removed block); entries of the other
   three groups are never rows of %multiline rules.  It is evaluated on every real output of the correspondence. *)
Definition C03X_multiline_level_statement : Prop :=
  forall fl rmatch rs old new,
    let ao := annot_f rmatch rs old in let an := annot_f rmatch rs new in
    xdom fl ao an = true ->
    ml_level_ok fl (normO fl ao an) (normN fl ao an) (make_diffXM fl rmatch rs old new) = true.

Theorem C03X_multiline_level : C03X_multiline_level_statement.
Proof.
  intros fl rmatch rs old new ao an H. destruct (xdom_inv fl _ _ H) as (Ho & Hn & Hc).
  unfold make_diffXM. apply ml_level_ok_mark. fold ao an.
  change (normN fl ao an) with (akids (AT (normN fl ao an))) at 1.
  apply diff_tM_level_ml; try assumption. left. reflexivity.
Qed.
Print Assumptions C03X_multiline_level.

(* the same law for the level below ANY entry the extended differ produces: it holds of diff_tM for every old side,
   handed-down op and rewrite marker (the three hypotheses are what [xdom] gives for the normalised pair and what
   every recursive call preserves: rows distinct, common rows carry the same match, and the op handed down to a
   level with old rows is AFFECTED or MOVED) *)
Theorem C03X_multiline_level_any_depth :
  forall fl nt ao pop inrw, awf ao -> awf (akids nt) -> compat ao (akids nt) -> pop_ok pop ao ->
    ml_level_ok fl ao (akids nt) (diff_tM fl nt ao pop inrw) = true.
Proof. exact diff_tM_level_ml. Qed.
Print Assumptions C03X_multiline_level_any_depth.

(* ... and therefore at EVERY depth of the diff ([ml_ok], Spec/P_C03ML.v: the law at the top level and at the level
   below every entry that is not itself a row of a %multiline rule): below scanned rows, below removed rows
   (removed_tM), through rewrite_diff's AFFECTED->MOVED pass and through mark_unchanged.  Evaluated on every real
   output of the correspondence too. *)
Theorem C03X_multiline_every_depth :
  forall fl rmatch rs old new,
    let ao := annot_f rmatch rs old in let an := annot_f rmatch rs new in
    xdom fl ao an = true ->
    ml_ok fl (normO fl ao an) (normN fl ao an) (make_diffXM fl rmatch rs old new) = true.
Proof.
  intros fl rmatch rs old new ao an H. destruct (xdom_inv fl _ _ H) as (Ho & Hn & Hc).
  unfold make_diffXM. apply ml_ok_mark. fold ao an.
  change (normN fl ao an) with (akids (AT (normN fl ao an))) at 1.
  apply diff_tM_ml_ok; try assumption. left. reflexivity.
Qed.
Print Assumptions C03X_multiline_every_depth.

(* everything below a removed row obeys the law against an empty new side *)
Theorem C03X_multiline_removed_subtree :
  forall fl t, awf (akids t) -> ml_ok fl (akids t) [] (removed_tM fl t) = true.
Proof. exact removed_ml. Qed.
Print Assumptions C03X_multiline_removed_subtree.

(* non-vacuity at depth: a changed multiline block inside an ordinary block *)
Example C03X_multiline_depth_nonvacuous :
  let rs := ([PRule "blk" false (x_attrs "blk") [PRule "key %multiline" false (x_attrs "key") [PRule "l" false (x_attrs "l") [] []] []] []], []) in
  let old := [("blk a", T [("key k", T [("l1", T [])])])] in
  let new := [("blk a", T [("key k", T [("l2", T [])])])] in
  xdom x_fl (annot_f ci_match rs old) (annot_f ci_match rs new) = true /\
  map (fun k => (d_op k, d_row k, map (fun j => (d_op j, d_row j, map d_row (d_kids j))) (d_kids k))) (make_diffXM x_fl ci_match rs old new) =
  [(Affected, "blk a", [(Affected, "key k", ["l2"])])].
Proof. vm_compute. split; reflexivity. Qed.

(* non-vacuity: a level with a changed multiline block, an unchanged one and an ordinary row *)
Example C03X_multiline_level_nonvacuous :
  let old := [("key a", T [("l1", T []); ("l2", T [])]); ("key b", T [("l1", T [])]); ("mtu 1", T [])] in
  let new := [("key a", T [("l1", T []); ("l3", T [])]); ("key b", T [("l1", T [])]); ("mtu 2", T [])] in
  xdom x_fl (annot_f ci_match x_rs old) (annot_f ci_match x_rs new) = true /\
  map (fun k => (d_op k, d_row k, List.length (d_kids k))) (make_diffXM x_fl ci_match x_rs old new) =
  [(Affected, "key a", 2); (Added, "mtu 2", 0); (Removed, "mtu 1", 0)].
Proof. vm_compute. split; reflexivity. Qed.

(* ------------------------------------------------------------------------------------------------
   The reconstruction law for sides WITH %rewrite rows (Spec/P_C03Recon.v).  The rows an unchanged %rewrite group
   contributes are omitted from the diff and are taken from the other configuration: [recon Added an d] = proj_old d
   plus, on every level, the %rewrite rows of new that the diff does not mention (with their subtrees), and
   symmetrically [recon Removed ao d].  Both sides are recovered as unordered trees, nesting intact -- for EVERY
   rulebook (no [norw] guard); without %rewrite rows on the other side recon is the plain projection. *)
Definition C03X_projections_rewrite_statement : Prop :=
  forall rmatch rs old new, wf old -> wf new ->
    fperm (recon Added (annot_f rmatch rs new) (make_diff rmatch rs old new)) (erase_f (annot_f rmatch rs old)) /\
    fperm (recon Removed (annot_f rmatch rs old) (make_diff rmatch rs old new)) (erase_f (annot_f rmatch rs new)).

Theorem C03X_projections_rewrite : C03X_projections_rewrite_statement.
Proof. exact diff_recon. Qed.
Print Assumptions C03X_projections_rewrite.

(* it is a consequence of [lossless] alone, so it holds of any diff the checker accepts -- in particular of the
   real make_diff outputs on which P_C03 is evaluated *)
Theorem C03X_recon_of_lossless :
  forall d ao an, awf ao -> awf an -> lossless ao an d = true ->
    fperm (recon Added an d) (erase_f ao) /\ fperm (recon Removed ao d) (erase_f an).
Proof. intros d ao an Ho Hn H. split; [eapply lossless_recon_old | eapply lossless_recon_new]; eassumption. Qed.
Print Assumptions C03X_recon_of_lossless.

(* and of the %ignore_case model on its domain: both NORMALISED sides are recovered *)
Theorem C03X_projections_rewrite_modulo_case :
  forall fl rmatch rs old new,
    let ao := annot_f rmatch rs old in let an := annot_f rmatch rs new in
    xdom fl ao an = true ->
    fperm (recon Added (normN fl ao an) (make_diffX fl rmatch rs old new)) (erase_f (lower_f fl ao)) /\
    fperm (recon Removed (normO fl ao an) (make_diffX fl rmatch rs old new)) (erase_f (lower_f fl an)).
Proof.
  intros fl rmatch rs old new ao an H. destruct (xdom_inv fl _ _ H) as (Ho & Hn & Hc).
  pose proof (diffX_lossless fl rmatch rs old new H) as HL. fold ao an in HL.
  rewrite <- (erase_f_normO fl ao an), <- (erase_f_normN fl ao an).
  split; [eapply lossless_recon_old | eapply lossless_recon_new]; eassumption.
Qed.
Print Assumptions C03X_projections_rewrite_modulo_case.

(* recon extends the projections of C03_projections: nothing is added where the other side has no %rewrite row *)
Theorem C03X_recon_is_projection_without_rewrite :
  forall drop other x, norw other = true -> recon_n drop other x = proj_n drop x.
Proof. intros drop other x H. apply recon_norw_n. exact H. Qed.
Print Assumptions C03X_recon_is_projection_without_rewrite.

(* non-vacuity: an unchanged %rewrite block next to a changed row: the diff omits the block, proj_old loses it,
   recon restores it *)
Definition rw_rs : rset :=
  ([PRule "blk %rewrite" false (Attrs "blk" LDefault DRewrite false false) [PRule "set" false (x_attrs "set") [] []] [];
    PRule "mtu" false (x_attrs "mtu") [] []], []).
Example C03X_recon_nonvacuous :
  let old := [("blk a", T [("set 1", T [])]); ("mtu 1", T [])] in
  let new := [("blk a", T [("set 1", T [])]); ("mtu 2", T [])] in
  wf old /\ wf new /\
  map d_row (make_diff ex_match rw_rs old new) = ["mtu 2"; "mtu 1"] /\
  proj_old (make_diff ex_match rw_rs old new) = [("mtu 1", T [])] /\
  recon Added (annot_f ex_match rw_rs new) (make_diff ex_match rw_rs old new) =
  [("mtu 1", T []); ("blk a", T [("set 1", T [])])].
Proof. split; [apply wfb_wf; reflexivity|]. split; [apply wfb_wf; reflexivity|]. vm_compute. repeat split; reflexivity. Qed.

(* ------------------------------------------------------------------------------------------------
   LOSSLESS MODULO CASE, about the ORIGINAL pair.  Spec/P_C03Case.v [spelt fl ao f]: f is the configuration ao
   (its known rows) re-spelt: the same rows in the same order with the same nesting, where a row governed by an
   %ignore_case rule may be replaced by its lower-case spelling and nothing else changes (multiline bodies verbatim).
   On [xdom] the diff together with the other side determines a re-spelling of each side, up to the order of the
   rows of a level, for every rulebook (with or without %rewrite rules).  What is lost is exactly the spelling:
   a re-spelling equals the original up to the case of rows ([ci_eq]) and IS the original when no row is governed by
   an %ignore_case rule. *)
From Coq Require Import ZArith.
From Annet Require Import Spec.P_C03Case Spec.P_C03Sort Proofs.DiffCaseProofs Proofs.DiffSortAdj.

Theorem C03X_lossless_original_modulo_case :
  forall fl rmatch rs old new,
    let ao := annot_f rmatch rs old in let an := annot_f rmatch rs new in
    xdom fl ao an = true ->
    exists fo fn, spelt fl ao fo /\ spelt fl an fn /\
      fperm (recon Added (normN fl ao an) (make_diffX fl rmatch rs old new)) fo /\
      fperm (recon Removed (normO fl ao an) (make_diffX fl rmatch rs old new)) fn.
Proof.
  intros fl rmatch rs old new ao an H. exists (erase_f (lower_f fl ao)), (erase_f (lower_f fl an)).
  split; [apply spelt_lower_f|]. split; [apply spelt_lower_f|].
  exact (C03X_projections_rewrite_modulo_case fl rmatch rs old new H).
Qed.
Print Assumptions C03X_lossless_original_modulo_case.

Theorem C03X_only_spelling_lost :
  forall fl f g, spelt fl f g -> ci_eq g (erase_f f) /\ (noic fl f = true -> g = erase_f f).
Proof.
  intros fl f g H. split; [apply (spelt_ci fl f g H)|]. intros Hn. exact (spelt_noic fl (AT f) g Hn H).
Qed.
Print Assumptions C03X_only_spelling_lost.

(* the re-spelling is not the identity in general: C03X_modulo_case_nonvacuous above has old <> new with one normal form *)
Example C03X_spelt_nonvacuous :
  let ao := annot_f ci_match x_rs [("Desc A", T []); ("mtu 1", T [])] in
  spelt x_fl ao [("desc a", T []); ("mtu 1", T [])] /\ erase_f ao = [("Desc A", T []); ("mtu 1", T [])].
Proof.
  split; [|vm_compute; reflexivity].
  pose proof (spelt_lower_f x_fl (annot_f ci_match x_rs [("Desc A", T []); ("mtu 1", T [])])) as H.
  vm_compute in H. exact H.
Qed.

(* ------------------------------------------------------------------------------------------------
   resort_diff with NO hypothesis on diff_cmp.  diff_cmp is sign-antisymmetric for all entries, so "not greater" is
   total; the stable insertion sort then leaves no entry immediately followed by a strictly smaller one, at every
   depth ([adj_all], Spec/P_C03Sort.v).  The strong form (C03X_resort_sorted_stable) therefore needs transitivity on
   the entries of the level only -- and that hypothesis cannot be dropped: for the entries of
   C03X_diff_cmp_not_weak_order the output is not strongly sorted although a strongly sorted arrangement of the same
   entries exists and is what resort returns for another input order. *)
Theorem C03X_diff_cmp_antisymmetric : forall a b, diff_cmp b a = (- diff_cmp a b)%Z.
Proof. exact diff_cmp_antisym. Qed.
Print Assumptions C03X_diff_cmp_antisymmetric.

Theorem C03X_resort_no_adjacent_descent :
  forall d, adj_all (resort d) = true /\ Sorted (fun a b => cmp_leb a b = true) (resort d).
Proof. intros d. split; [apply resort_adj_all | apply resort_adjacent]. Qed.
Print Assumptions C03X_resort_no_adjacent_descent.

Theorem C03X_resort_sorted_stable_transitive :
  forall d, trans_lvl d = true ->
    StronglySorted (fun a b => cmp_leb a b = true) (resort d) /\
    (forall x, In x d -> filter (eqv_on cmp_leb (resort_n x)) (resort d) =
                         filter (eqv_on cmp_leb (resort_n x)) (map resort_n d)).
Proof. exact resort_sorted_stable_trans. Qed.
Print Assumptions C03X_resort_sorted_stable_transitive.

Theorem C03X_resort_transitivity_needed :
  exists d p, Permutation p d /\ trans_lvl d = false /\
    StronglySorted (fun a b => cmp_leb a b = true) (resort p) /\
    ~ StronglySorted (fun a b => cmp_leb a b = true) (resort d) /\ adj_all (resort d) = true.
Proof.
  pose (a3 := DN Removed "a 3" sx_mi []). pose (a1 := DN Removed "a 1" sx_mi []). pose (a2 := DN Added "a 2" sx_mi []).
  exists [a3; a1; a2], [a1; a3; a2]. split.
  - apply perm_swap.
  - split; [vm_compute; reflexivity|]. split.
    + assert (E : resort [a1; a3; a2] = [a1; a2; a3]) by (vm_compute; reflexivity). rewrite E.
      repeat constructor.
    + split; [|vm_compute; reflexivity].
      assert (E : resort [a3; a1; a2] = [a3; a1; a2]) by (vm_compute; reflexivity). rewrite E.
      intros H. inversion H as [|x l _ HF]; subst. inversion HF as [|y l' _ HF2]; subst. inversion HF2 as [|z l'' Hz _]; subst.
      vm_compute in Hz. discriminate.
Qed.
Print Assumptions C03X_resort_transitivity_needed.
