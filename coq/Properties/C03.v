(* C03 — property theorems only.  Proofs live in Proofs/Diff*.v.
   All statements hold for EVERY rule matcher [rmatch] (the pipeline instantiates it with the
   shared row-pattern compiler of Model/Pattern.v), every rulebook built from the
   default / %ordered / %rewrite diff logics, and config trees of any depth and width
   whose sibling rows are distinct ([wf]: what a Python dict guarantees). *)
From Coq Require Import List String Bool Arith.
From Annet Require Import Base.Str Base.Tree Model.Rulebook Model.Diff Model.Order Model.Patch Model.DiffText
     Spec.P_C03 Spec.P_C03Text Proofs.DiffBasics Proofs.DiffProofs Proofs.DiffProofsProj Proofs.DiffTextProofs.
Require Annet.Gen.Src_vendors.
Import ListNotations.
Open Scope string_scope.

(* Ops are exact at every depth (ADDED => absent from old and present in new, REMOVED =>
   present in old and absent from new, AFFECTED/MOVED/UNCHANGED => on both sides), every row the
   rulebook knows is accounted for exactly once on each level (so dropping the ADDED entries
   gives old|R and dropping the REMOVED ones gives new|R, nesting intact), every entry carries
   the rule and key of its row, and an UNCHANGED entry has only UNCHANGED descendants.  The only
   rows that may be missing from a level of the diff are rows of %rewrite rules, and only when the
   whole %rewrite group of that level is unchanged at every depth ([rw_unchanged]/[same_t]: same rows
   with the same rule and key, same order for %ordered and %rewrite rows, recursively). *)
Theorem C03_lossless :
  forall rmatch rs old new, wf old -> wf new ->
    lossless (annot_f rmatch rs old) (annot_f rmatch rs new) (make_diff rmatch rs old new) = true.
Proof. exact diff_lossless. Qed.
Print Assumptions C03_lossless.

(* The reconstruction law itself: dropping the ADDED entries of the diff gives old|R and dropping the
   REMOVED entries gives new|R ([erase_f (annot_f ..)]: the rows the rulebook knows), as unordered
   trees with the nesting intact ([fperm]: a permutation of the rows of every level; the order inside
   %ordered rules is C03_ordered_in_new_order), for the side on which no row is governed by a %rewrite
   rule ([norw]); with %rewrite rows the exact statement of what may be omitted is C03_lossless. *)
Theorem C03_projections :
  forall rmatch rs old new, wf old -> wf new ->
    (norw (annot_f rmatch rs old) = true ->
     fperm (proj_old (make_diff rmatch rs old new)) (erase_f (annot_f rmatch rs old))) /\
    (norw (annot_f rmatch rs new) = true ->
     fperm (proj_new (make_diff rmatch rs old new)) (erase_f (annot_f rmatch rs new))).
Proof. exact diff_projections. Qed.
Print Assumptions C03_projections.

(* comparing a configuration with itself reports no change at any depth *)
Theorem C03_self_empty :
  forall rmatch rs x, wf x -> strip_unchanged (make_diff rmatch rs x x) = [].
Proof. exact diff_self_empty. Qed.
Print Assumptions C03_self_empty.

(* rows of %ordered rules appear in the diff in new's order, at every depth *)
Theorem C03_ordered_in_new_order :
  forall rmatch rs old new, wf old -> wf new ->
    order_ok (annot_f rmatch rs new) (make_diff rmatch rs old new) = true.
Proof. exact diff_order_ok. Qed.
Print Assumptions C03_ordered_in_new_order.

(* MOVED characterisation at every depth: below an entry that is itself MOVED every surviving row
   is MOVED; below any other entry present on both sides, and at the top level, a surviving row of an
   %ordered rule is MOVED iff the prefix of new up to and including it deviates from the
   same-length prefix of old *)
Theorem C03_moved_all_depths :
  forall rmatch rs old new, wf old -> wf new ->
    moved_ok (annot_f rmatch rs old) (annot_f rmatch rs new) (make_diff rmatch rs old new) = true.
Proof. exact diff_moved_all. Qed.
Print Assumptions C03_moved_all_depths.

(* its top-level part *)
Theorem C03_moved_iff_prefix_deviates :
  forall rmatch rs old new, wf old -> wf new ->
    moved_ok_top (annot_f rmatch rs old) (annot_f rmatch rs new) (make_diff rmatch rs old new) = true.
Proof. exact diff_moved_ok. Qed.
Print Assumptions C03_moved_iff_prefix_deviates.

(* a %rewrite block that is shown is shown as re-entered as a whole: no entry at or below a row of a
   %rewrite rule is AFFECTED or UNCHANGED *)
Theorem C03_rewrite_shown_whole :
  forall rmatch rs old new, wf old -> wf new ->
    rewrite_whole (annot_f rmatch rs old) (annot_f rmatch rs new) (make_diff rmatch rs old new) = true.
Proof. exact diff_rewrite_whole. Qed.
Print Assumptions C03_rewrite_shown_whole.

(* the predicate the check evaluates on the implementation's make_diff outputs holds of the model *)
Theorem C03_P_holds_of_model :
  forall rmatch rs old new, wf old -> wf new ->
    P_C03 rmatch (rs, old, new) (make_diff rmatch rs old new) = true.
Proof. exact diff_P_C03. Qed.
Print Assumptions C03_P_holds_of_model.

(* strip_unchanged is a projection: the stripped diff shown to the operator is stable *)
Theorem C03_strip_idem : forall d, strip_unchanged (strip_unchanged d) = strip_unchanged d.
Proof. exact strip_unchanged_idem. Qed.
Print Assumptions C03_strip_idem.

(* and it contains no UNCHANGED entry at any depth *)
Theorem C03_strip_no_unchanged : forall d, forallb no_unchanged_n (strip_unchanged_n d) = true.
Proof. exact strip_no_unchanged. Qed.
Print Assumptions C03_strip_no_unchanged.

(* ------------------------------------------------------------------------------------------------
   The textual views.  [diff_lines F d] models formatter.diff(d) for a formatter with indent,
   block_begin, block_end, statement_end = F (None = the KeyError raised on an UNCHANGED entry);
   [parse_signed F] reads a signed, indented listing back (Spec/P_C03Text.v); [sshape_f d] is d
   minus its UNCHANGED entries with the rule matches forgotten: entries, signs and nesting.
   Guards: the indent is n >= 1 blanks and the closing word does not start with a blank ([fmt_ok]);
   rows are non-empty and do not start with a blank ([rows_ok]: every vendor's split strips rows). *)

(* render round trip: the deploy confirmation view read back gives the same entries with the same
   signs and nesting -- for the plain family (no delimiters), the brace family (" {", "}", ";" or "")
   and RouterOS ("/"), i.e. for every F with fmt_ok *)
Theorem C03_render_roundtrip :
  forall F d, fmt_ok F = true -> forallb no_unchanged_n d = true -> rows_ok (sshape_f d) = true ->
    exists lines, diff_lines F d = Some lines /\ parse_signed F lines = Some (sshape_f d) /\
                  shape_f d = Some (sshape_f d).
Proof. exact read_back_total. Qed.
Print Assumptions C03_render_roundtrip.

(* hence the confirmation view is injective: two diffs shown by the same lines have the same entries *)
Theorem C03_render_injective :
  forall F d1 d2 lines, fmt_ok F = true ->
    forallb no_unchanged_n d1 = true -> forallb no_unchanged_n d2 = true ->
    rows_ok (sshape_f d1) = true -> rows_ok (sshape_f d2) = true ->
    diff_lines F d1 = Some lines -> diff_lines F d2 = Some lines -> sshape_f d1 = sshape_f d2.
Proof. exact diff_lines_injective. Qed.
Print Assumptions C03_render_injective.

(* the `annet diff` view: gen_pre_as_diff(make_pre(d)) read back gives, on every level, the entries of
   d minus UNCHANGED as a multiset ([tperm]: a permutation of the entries of every level) *)
Theorem C03_pre_render :
  forall ind d, fmt_ok (plain_fmt ind) = true -> rows_ok (sshape_f d) = true ->
    exists s', pre_read_back ind d = Some s' /\ tperm s' (sshape_f d).
Proof. exact pre_render. Qed.
Print Assumptions C03_pre_render.

(* "minus UNCHANGED" is what strip_unchanged leaves *)
Theorem C03_shown_is_stripped : forall d, sshape_f (strip_unchanged d) = sshape_f d.
Proof. exact sshape_strip. Qed.
Print Assumptions C03_shown_is_stripped.

(* every vendor's formatter parameters (table regenerated from annet/annlib/tabparser.py and
   annet/vendors on every run) satisfy the guard of the round trip, whatever blank indent the caller passes *)
Theorem C03_every_vendor_formatter_ok :
  forallb (fun v => forallb (fun ind => match vendor_tfmt (Src_vendors.v_name v) ind with
                                        | Some F => fmt_ok F
                                        | None => false
                                        end) [" "; "  "; "    "]) Src_vendors.vendors = true.
Proof. vm_compute. reflexivity. Qed.
Print Assumptions C03_every_vendor_formatter_ok.

(* ------------------------------------------------------------------------------------------------
   Non-vacuity of the guards. *)
Definition ex_match (pat row : string) : option (list string) :=
  if String.prefix pat row then Some [row] else None.
Definition ex_attrs (dl : dlogic) : attrs := Attrs "e" LDefault dl false false.
Definition ex_rs : rset := ([PRule "e %ordered" false (ex_attrs DOrdered) [] []], []).
Definition ex_old : forest := [("e 1", T []); ("e 2", T []); ("e 3", T [])].
Definition ex_new : forest := [("e 3", T []); ("e 2", T []); ("e 1", T [])].

(* [wf] is satisfiable with a non-trivial outcome: reversing three rows of an %ordered rule moves all
   three, the middle one included although it keeps its index *)
Example C03_wf_nonvacuous :
  wf ex_old /\ wf ex_new /\
  map (fun k => (d_op k, d_row k)) (make_diff ex_match ex_rs ex_old ex_new) =
  [(Moved, "e 3"); (Moved, "e 2"); (Moved, "e 1")].
Proof. split; [apply wfb_wf; reflexivity|]. split; [apply wfb_wf; reflexivity|]. vm_compute. reflexivity. Qed.

(* ... and the [norw] guard of C03_projections holds for it on both sides *)
Example C03_norw_nonvacuous :
  norw (annot_f ex_match ex_rs ex_old) = true /\ norw (annot_f ex_match ex_rs ex_new) = true /\
  annot_f ex_match ex_rs ex_old <> [].
Proof. vm_compute. repeat split; try reflexivity. discriminate. Qed.

(* the guards of the render theorems are satisfiable for a brace-family formatter and a nested diff
   with all four signs, and the listing is the expected one *)
Definition ex_mi : minfo := MI "e" [] (ex_attrs DDefault).
Definition ex_diff : list dnode :=
  [DN Affected "a b" ex_mi [DN Added "c" ex_mi []; DN Moved "d" ex_mi [DN Removed "e" ex_mi []]];
   DN Removed "z" ex_mi []].
Example C03_render_nonvacuous :
  fmt_ok (TFmt "    " " {" "}" ";") = true /\ forallb no_unchanged_n ex_diff = true /\
  rows_ok (sshape_f ex_diff) = true /\ fmt_ok (plain_fmt "  ") = true /\
  diff_lines (TFmt "    " " {" "}" ";") ex_diff =
  Some ["  a b {"; "+     c;"; ">     d {"; "-         e;"; ">     }"; "  }"; "- z;"].
Proof. vm_compute. repeat split; reflexivity. Qed.

(* The stricter reading of "a row is MOVED iff its relative order changed" -- MOVED only if the order
   relative to the other SURVIVING rows changed -- is not what base_diff implements and is refuted by
   the model (witness replayed on the real make_diff: same result): after the removal of "e 1" the two
   surviving rows keep their relative order, yet both are MOVED, because move detection compares
   absolute positions and everything after the first deviation is re-created (which a device that
   applies the block sequentially needs).  The characterisation that does hold is C03_moved_all_depths. *)
Definition ex_new2 : forest := [("e 2", T []); ("e 3", T [])].
Theorem C03_moved_strict_reading_refuted :
  exists rs old new, wf old /\ wf new /\
    map (fun k => (d_op k, d_row k)) (make_diff ex_match rs old new) =
    [(Moved, "e 2"); (Removed, "e 1"); (Moved, "e 3")].
Proof.
  exists ex_rs, ex_old, ex_new2. split; [apply wfb_wf; reflexivity|]. split; [apply wfb_wf; reflexivity|].
  vm_compute. reflexivity.
Qed.
Print Assumptions C03_moved_strict_reading_refuted.

(* the boolean tests the check evaluates on real outputs imply the relations the theorems are stated with *)
Theorem C03_tests_sound :
  (forall a b, unordered_eqb a b = true -> fperm a b) /\ (forall a b, same_levels a b = true -> tperm a b).
Proof. split; [exact unordered_eqb_fperm | exact same_levels_tperm]. Qed.
Print Assumptions C03_tests_sound.
