(* C03 — property theorems only. *)
From Coq Require Import List String Bool Arith.
From Annet Require Import Base.Str Base.Tree Model.Rulebook Model.Diff Spec.P_C03 Proofs.DiffBasics.
Import ListNotations.

(* strip_unchanged is a projection: the stripped diff shown to the operator is stable *)
Theorem C03_strip_idem : forall d, strip_unchanged (strip_unchanged d) = strip_unchanged d.
Proof. exact strip_unchanged_idem. Qed.
Print Assumptions C03_strip_idem.

(* and it contains no UNCHANGED entry at any depth *)
Theorem C03_strip_no_unchanged : forall d, forallb no_unchanged_n (strip_unchanged_n d) = true.
Proof. exact strip_no_unchanged. Qed.
Print Assumptions C03_strip_no_unchanged.
