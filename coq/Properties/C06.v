(* C06 — property theorems only.  Proofs live in Proofs/AclProofs.v.
   All statements are for every rule set (compiled from an ACL text or not), every config
   tree of any depth and width, and every row matcher (rmatch/rsrc/rrev/norm are universally
   quantified: in particular the pattern compiler of Model/Pattern.v for any vendor). *)
From Coq Require Import List String Bool Arith.
From Annet Require Import Base.Str Base.Tree Model.Pattern Model.Order Model.Acl Spec.P_C06 Proofs.AclProofs
     Proofs.AclMono Proofs.AclSelect Proofs.AclMF Model.AclDiff Spec.P_C06_diff Proofs.AclDiffProofs.
Import ListNotations.
Open Scope string_scope.
Open Scope list_scope.

(* Lenient filtering returns exactly the lines whose whole path is covered. *)
Theorem C06_exact :
  forall rmatch rsrc rrev norm (rs : aset) (pre : list string) (f : forest),
    apply_acl rmatch rsrc rrev norm rs false false pre f = inl (ref_filter rmatch rsrc rrev norm rs f).
Proof. exact apply_lenient_exact. Qed.
Print Assumptions C06_exact.

(* In every mode (fatal_acl, exclusive): the outcome is the declarative one — the first
   offending line in document order is named with its path, otherwise the covered lines. *)
Theorem C06_strict_modes :
  forall rmatch rsrc rrev norm (rs : aset) (fatal excl : bool) (f : forest),
    apply_acl rmatch rsrc rrev norm rs fatal excl [] f = ref_run rmatch rsrc rrev norm rs fatal excl f.
Proof. exact apply_is_ref_run. Qed.
Print Assumptions C06_strict_modes.

(* The result is an order-preserving sub-tree of the input. *)
Theorem C06_subtree_order :
  forall rmatch rsrc rrev norm rs fatal excl pre f g,
    apply_acl rmatch rsrc rrev norm rs fatal excl pre f = inl g -> sub g f /\ subb g f = true.
Proof.
  intros. split; [eapply apply_subtree | eapply apply_subb]; eassumption.
Qed.
Print Assumptions C06_subtree_order.

(* Filtering twice changes nothing. *)
Theorem C06_idempotent :
  forall rmatch rsrc rrev norm rs fatal excl pre pre' f g,
    apply_acl rmatch rsrc rrev norm rs fatal excl pre f = inl g ->
    apply_acl rmatch rsrc rrev norm rs false false pre' g = inl g.
Proof. exact apply_idempotent. Qed.
Print Assumptions C06_idempotent.

(* Strict mode raises iff some row at a covered parent is uncovered ... *)
Theorem C06_fatal_iff :
  forall rmatch rsrc rrev norm rs f,
    (exists e, apply_acl rmatch rsrc rrev norm rs true false [] f = inr e) <->
    (exists p, In p (paths [] f) /\ uncovered_at rmatch rsrc rrev norm rs p = true).
Proof. exact fatal_iff. Qed.
Print Assumptions C06_fatal_iff.

(* ... the error names the first such row in document order, with its parents ... *)
Theorem C06_fatal_names_first :
  forall rmatch rsrc rrev norm rs f e,
    apply_acl rmatch rsrc rrev norm rs true false [] f = inr e ->
    exists l1 p l2, paths [] f = l1 ++ p :: l2 /\ e = EUncovered p /\
                    uncovered_at rmatch rsrc rrev norm rs p = true /\
                    forall q, In q l1 -> uncovered_at rmatch rsrc rrev norm rs q = false.
Proof. exact fatal_names_first. Qed.
Print Assumptions C06_fatal_names_first.

(* ... and nothing is dropped silently: without such a row the strict result is the lenient one. *)
Theorem C06_fatal_clean :
  forall rmatch rsrc rrev norm rs f,
    (forall p, In p (paths [] f) -> uncovered_at rmatch rsrc rrev norm rs p = false) ->
    apply_acl rmatch rsrc rrev norm rs true false [] f = inl (ref_filter rmatch rsrc rrev norm rs f).
Proof. exact fatal_clean. Qed.
Print Assumptions C06_fatal_clean.

(* The predicate evaluated on the real implementation's outputs holds of the model's
   outputs for every vendor, ACL (pair), tree and mode. *)
Theorem C06_holds :
  forall v a b t excl, P_C06_core (model_case v a b t excl) = true.
Proof. exact model_case_holds. Qed.
Print Assumptions C06_holds.

(* Which rule governs a row (C06_select_sound): a candidate — candidates being exactly the
   rules matching the row directly or in reverse form —, maximal for (prio, shared symbols),
   the first such in the documented order; only the inherited %global rules apply below a
   match that is not cr-allowed. *)
Theorem C06_select_sound :
  forall rmatch rsrc rrev norm row rs m crs,
    match_row_to_acl rmatch rsrc rrev norm row rs false = MSome m crs ->
    In m (acl_candidates rmatch rsrc rrev norm row rs) /\
    (forall m', In m' (acl_candidates rmatch rsrc rrev norm row rs) -> metric_geb m m' = true) /\
    (exists l1 l2, acl_candidates rmatch rsrc rrev norm row rs = l1 ++ m :: l2 /\
                   forall y, In y l1 -> metric_geb y m = false) /\
    crs = select_children (find_acl_matches rmatch rsrc rrev norm row rs) rs /\
    (am_cr m = false -> crs = ([], merge_as [] (snd rs))).
Proof. exact select_sound. Qed.
Print Assumptions C06_select_sound.

Theorem C06_candidates :
  forall rmatch rsrc rrev norm row rs m,
    In m (acl_candidates rmatch rsrc rrev norm row rs) <->
    exists (r : arule) (rev g : bool), In r (if g then snd rs else fst rs) /\
      rmatch (if rev then rrev (ar_id r) else ar_id r) (norm row) <> None /\
      m = AM r (negb g && negb rev) rev (ar_prio r)
             (shared_chars row (rsrc (if rev then rrev (ar_id r) else ar_id r))).
Proof. exact cands_spec. Qed.
Print Assumptions C06_candidates.

(* ... and below a cr-allowed match the children rules are a least upper bound, for the
   domination order, of the children rules of all local rules matching the row directly
   (plus the inherited globals): the "union" of _select_match, stated order-free. *)
Theorem C06_children_are_lub :
  forall rmatch rsrc rrev norm row rs m crs,
    match_row_to_acl rmatch rsrc rrev norm row rs false = MSome m crs -> am_cr m = true ->
    (forall r G, In r (cr_matches rmatch norm rs row) -> lle (ar_kl r) (fst crs) G /\ gle (ar_kg r) (snd crs)) /\
    gle (snd rs) (snd crs) /\
    (forall C G, wfl C ->
       (forall r, In r (cr_matches rmatch norm rs row) -> lle (ar_kl r) C G /\ gle (ar_kg r) G) -> gle (snd rs) G ->
       lle (fst crs) C G /\ gle (snd crs) G).
Proof. exact children_are_lub. Qed.
Print Assumptions C06_children_are_lub.

(* If all rules matching a row (directly or reversed) would treat it the same way, its fate
   is that common one — read off the unsorted candidate list, i.e. independent of prio, of the
   shared-symbol heuristic and of the order of the rules. *)
Theorem C06_row_fate_metric_free :
  forall rmatch rsrc rrev norm rs row,
    row_unambiguous rmatch rsrc rrev norm rs row = true ->
    match acl_candidates rmatch rsrc rrev norm row rs with
    | [] => match_row_to_acl rmatch rsrc rrev norm row rs false = MNone
    | c :: _ => exists m crs, match_row_to_acl rmatch rsrc rrev norm row rs false = MSome m crs /\ mclass m = mclass c
    end.
Proof. exact row_fate_metric_free. Qed.
Print Assumptions C06_row_fate_metric_free.

(* C06_exact, metric-free form: on inputs unambiguous along every path (acl_unambiguous:
   at every line reached, all rules matching it directly or reversed agree on drop / pass with
   children rules / pass with inherited globals only) the filtered tree does not depend on
   how competing rules are ranked.  (a) For a rule set compiled from an ACL text: any two
   weight sources (the shared-symbol heuristic is one of them) give the same tree. *)
Theorem C06_exact_metric_free :
  forall rmatch rrev norm rsrc1 rsrc2 (a : acl) (rs : aset) (t : forest),
    compile_acl a = Some rs ->
    acl_unambiguous rmatch rsrc1 rrev norm rs t = true -> acl_unambiguous rmatch rsrc2 rrev norm rs t = true ->
    ref_filter rmatch rsrc1 rrev norm rs t = ref_filter rmatch rsrc2 rrev norm rs t.
Proof. exact mf_exact_compiled. Qed.
Print Assumptions C06_exact_metric_free.

(* (b) For two rule sets with the same rows at the same places and the same cant_delete
   verdicts (rank_equiv: prio values, the order of the rules, repeated flags may differ): the
   same tree, whatever the two weight sources. *)
Theorem C06_exact_ranking_free :
  forall rmatch rrev norm rsrc1 rsrc2 (a b : aset) (t : forest),
    rank_equiv a b ->
    acl_unambiguous rmatch rsrc1 rrev norm a t = true -> acl_unambiguous rmatch rsrc2 rrev norm b t = true ->
    ref_filter rmatch rsrc1 rrev norm a t = ref_filter rmatch rsrc2 rrev norm b t.
Proof. exact mf_exact. Qed.
Print Assumptions C06_exact_ranking_free.

(* filter_diff: apply_acl_diff keeps exactly the diff entries whose whole path is matched by the
   ACL (no reverse-form drop here), in order, and turns a removal into "affected" iff the rule
   governing the entry has all cant_delete flags set. *)
Theorem C06_filter_diff_exact :
  forall rmatch rsrc rrev norm (rs : aset) (d : list dtree),
    apply_acl_diff rmatch rsrc rrev norm rs d = ref_filter_diff rmatch rsrc rrev norm rs d.
Proof. exact apply_acl_diff_is_ref. Qed.
Print Assumptions C06_filter_diff_exact.


(* ---------- merged ACLs ---------- *)

Definition mk (pat : string) (glob : bool) (cd : option (list bool)) (kids : list aitem) : aitem :=
  AItem (pat ++ (if glob then " %global" else "") ++ match cd with Some _ => " %cant_delete" | None => "" end)
        pat false glob cd 0 [] kids.
Definition cisco := AVendor "no" false.
Definition T0 : forest :=
  [("a", T [("b", T []); ("c", T [])]); ("a 1", T [("b", T []); ("no b", T [])]);
   ("no a", T [("b", T [("c", T [])])]); ("no a 1", T []); ("b", T [("a", T [])])].

Example C06_example_filter_diff :
  match compile_acl [mk "a *" false (Some [true]) [mk "b" false None []]] with
  | Some rs =>
    dlist_eqb (p_apply_acl_diff cisco rs
                 [DT OpRemoved "a 1" [DT OpRemoved "b" []; DT OpAdded "c" []]; DT OpAdded "no a 2" []; DT OpAdded "x" []])
              [DT OpAffected "a 1" [DT OpRemoved "b" []]; DT OpAdded "no a 2" []]
  | None => false
  end = true.
Proof. vm_compute. reflexivity. Qed.

(* The law "A + B passes everything A passes" is false for the faithful model (and for the
   code: known findings C06/monotone/...): A = "a / b", B = "a %global / b". *)
Theorem C06_monotone_refuted :
  exists (v : avendor) (a b : acl) (t : forest),
    acl_in_language v a = true /\ acl_in_language v b = true /\ wfb t = true /\
    acl_consistentb (acl_concat a b) = true /\
    exists fa fab, run_acl v a false false t = OTree fa /\
                   run_acl v (acl_concat a b) false false t = OTree fab /\
                   ~ forest_le fa fab.
Proof.
  exists cisco, [mk "a" false None [mk "b" false None []]], [mk "a" true None [mk "b" false None []]],
         [("a", T [("b", T [])])].
  repeat (split; [vm_compute; reflexivity|]).
  exists [("a", T [("b", T [])])], [("a", T [])].
  split; [vm_compute; reflexivity|]. split; [vm_compute; reflexivity|].
  intros H.
  assert (Hin : In ["a"; "b"] (paths [] [("a", T [("b", T [])])])) by (cbn; right; now left).
  apply H in Hin. cbn in Hin. destruct Hin as [Hin|[]]. discriminate.
Qed.
Print Assumptions C06_monotone_refuted.

(* Under the guard (no line of t has a reason code: the merged governing match neither drops
   the line nor loses children rules) the law holds — for rule sets ... *)
Theorem C06_monotone_guarded :
  forall rmatch rsrc rrev norm (own mrg : aset) (t : forest),
    wf_aset mrg = true -> aset_le own mrg = true -> mono_guard rmatch rsrc rrev norm own mrg t = true ->
    forest_le (ref_filter rmatch rsrc rrev norm own t) (ref_filter rmatch rsrc rrev norm mrg t).
Proof. exact mono_guarded. Qed.
Print Assumptions C06_monotone_guarded.

(* ... and for ACL texts: compile_acl_text(A) and compile_acl_text(B) are dominated by
   compile_acl_text(A + "\n" + B), so apply_acl(t,A) + apply_acl(t,B) is inside apply_acl(t,A+B). *)
Theorem C06_monotone_texts :
  forall rmatch rsrc rrev norm (a b : acl) ra rb rab t,
    acl_consistent (acl_concat a b) ->
    compile_acl a = Some ra -> compile_acl b = Some rb -> compile_acl (acl_concat a b) = Some rab ->
    mono_guard rmatch rsrc rrev norm ra rab t = true -> mono_guard rmatch rsrc rrev norm rb rab t = true ->
    forest_le (ref_filter rmatch rsrc rrev norm ra t) (ref_filter rmatch rsrc rrev norm rab t) /\
    forest_le (ref_filter rmatch rsrc rrev norm rb t) (ref_filter rmatch rsrc rrev norm rab t).
Proof. exact mono_texts. Qed.
Print Assumptions C06_monotone_texts.

Theorem C06_compile_dominated :
  forall (a z : acl) ra rz,
    (forall x, In x a -> In x z) -> acl_consistent z ->
    compile_acl a = Some ra -> compile_acl z = Some rz -> ale ra rz /\ wfl (fst rz).
Proof. exact compile_acl_mono. Qed.
Print Assumptions C06_compile_dominated.

(* non-vacuity of the guard: a merge with overlapping rows, children rules united, a
   reverse-form row and an inherited global where every line keeps passing *)
Example C06_example_guard_holds :
  let a := [mk "a *" false None [mk "b" false None []]; mk "b" false None [mk "~" true None []]] in
  let b := [mk "a *" false None [mk "c" false None []]; mk "a 1" false None [mk "no b" false None []]] in
  match compile_acl a, compile_acl b, compile_acl (acl_concat a b) with
  | Some ra, Some rb, Some rab =>
    acl_consistentb (acl_concat a b) && wf_aset rab && aset_le ra rab && aset_le rb rab
    && mono_guard acl_pm acl_psrc (acl_prev cisco) (acl_norm cisco) ra rab T0
    && mono_guard acl_pm acl_psrc (acl_prev cisco) (acl_norm cisco) rb rab T0
    && negb (forest_eqb (p_ref_filter cisco rb T0) (p_ref_filter cisco rab T0))
    && negb (forest_eqb (p_ref_filter cisco rb T0) [])
  | _, _, _ => false
  end = true.
Proof. vm_compute. reflexivity. Qed.

(* non-vacuity of the unambiguity guard: two ACLs listing the same rules in another order and
   with other priorities are rank-equivalent, the tree is unambiguous for both (with the real
   heuristic and with no heuristic at all) and is filtered non-trivially *)
Definition mkp (pat : string) (prio : nat) (kids : list aitem) : aitem :=
  AItem (pat ++ " %prio") pat false false None prio [] kids.
Example C06_example_unambiguous :
  let a := [mkp "a *" 0 [mk "b" false None []]; mkp "a 1" 5 [mk "c" false None []]; mk "x ~" true None []] in
  let b := [mk "x ~" true None []; mkp "a 1" 0 [mk "c" false None []]; mkp "a *" 3 [mk "b" false None []]] in
  let t := [("a 1", T [("b", T []); ("c", T []); ("d", T []); ("x y", T [("z", T [])])]); ("a 2", T [("b", T []); ("c", T [])]); ("q", T [])] in
  match compile_acl a, compile_acl b with
  | Some ra, Some rb =>
    rank_equivb ra rb
    && acl_unambiguous acl_pm acl_psrc (acl_prev cisco) (acl_norm cisco) ra t
    && acl_unambiguous acl_pm (fun _ => "") (acl_prev cisco) (acl_norm cisco) rb t
    && forest_eqb (p_ref_filter cisco ra t)
                  [("a 1", T [("b", T []); ("c", T []); ("x y", T [])]); ("a 2", T [("b", T [])])]
  | _, _ => false
  end = true.
Proof. vm_compute. reflexivity. Qed.

(* ... and the guard is needed: a local rule with children rules against a more specific
   %global rule — the heuristic decides, and without it the other one governs *)
Example C06_example_ambiguous :
  let a := [mk "a *" false None [mk "b" false None []]; mk "a 1" true None []] in
  let t := [("a 1", T [("b", T [])])] in
  match compile_acl a with
  | Some ra =>
    negb (acl_unambiguous acl_pm acl_psrc (acl_prev cisco) (acl_norm cisco) ra t)
    && forest_eqb (ref_filter acl_pm acl_psrc (acl_prev cisco) (acl_norm cisco) ra t) [("a 1", T [])]
    && forest_eqb (ref_filter acl_pm (fun _ => "") (acl_prev cisco) (acl_norm cisco) ra t) [("a 1", T [("b", T [])])]
  | None => false
  end = true.
Proof. vm_compute. reflexivity. Qed.

(* each reason code of the guard is needed: one counterexample per code (the same six are the
   known findings on the real code) *)
Definition mcode (a b : acl) (t : forest) := mono_code (model_case cisco a (Some b) t false).
Example C06_reason_1 : mcode [mk "~" false None [mk "b" false None []]] [mk "a" false (Some [true]) [mk "~" true None []]] T0 = 1.
Proof. vm_compute. reflexivity. Qed.
Example C06_reason_2 : mcode [mk "~" true None [mk "~" true None []]] [mk "no a" false (Some [true]) []] T0 = 2.
Proof. vm_compute. reflexivity. Qed.
Example C06_reason_3 : mcode [mk "~" false (Some [true]) [mk "b" false None []]] [mk "no a" false None [mk "~" true None []]] T0 = 3.
Proof. vm_compute. reflexivity. Qed.
Example C06_reason_4 : mcode [mk "a" false None [mk "b" false None []]] [mk "a" true None [mk "b" false None []]] T0 = 4.
Proof. vm_compute. reflexivity. Qed.
Example C06_reason_5 : mcode [mk "~" false None [mk "~" true None []]] [mk "a *" true None [mk "b" false None []]] T0 = 5.
Proof. vm_compute. reflexivity. Qed.
Example C06_reason_6 :
  mcode [mk "a *" false None [mk "b" false None []]; mk "a 1" false None [mk "c" false None []]] [mk "a *" true None []]
        [("a 1", T [("b", T []); ("c", T [])])] = 6.
Proof. vm_compute. reflexivity. Qed.

(* non-vacuity: a strict run that raises, one that does not, a reverse-form drop *)
Example C06_example_fatal :
  run_acl (AVendor "no" false)
          [AItem "interface *" "interface *" false false None 0 [] [AItem "mtu *" "mtu *" false false None 0 [] []]]
          true false
          [("interface Eth1", T [("mtu 9000", T []); ("speed 10", T [])])]
  = OUncovered ["interface Eth1"; "speed 10"].
Proof. vm_compute. reflexivity. Qed.

Example C06_example_filter :
  run_acl (AVendor "no" false)
          [AItem "interface *" "interface *" false false None 0 [] [AItem "mtu *" "mtu *" false false None 0 [] []];
           AItem "~ %global" "~" false true None 0 [] []]
          false false
          [("interface Eth1", T [("mtu 9000", T []); ("speed 10", T [])]); ("no interface Eth2", T []);
           ("snmp x", T [("y", T [])])]
  = OTree [("interface Eth1", T [("mtu 9000", T []); ("speed 10", T [])]); ("snmp x", T [("y", T [])])].
Proof. vm_compute. reflexivity. Qed.

(* ================================================================================== *)
(* The ACL TEXT front end (Model/AclText.v: compile_acl_text = _split_rows, the offside parser with
   "#" comments, _parse_raw_rule with its %params and validators, _merge_toplevel, _compile_acl).
   Proofs live in Proofs/AclTextParse.v, AclTextGroup.v, AclTextProofs.v. *)
From Annet Require Import Model.Offside Model.GenProg Model.AclText Spec.P_C05 Spec.P_C06_text
     Proofs.OffsideProofs Proofs.AclTextParse Proofs.AclTextGroup Proofs.AclTextProofs.

(* The text printed from a structured ACL (harness/aclgen.py acl_text: one line per item, four blanks
   per level, children below their parent — any depth, any width, repeated lines included) compiles
   to exactly what compile_acl makes of the structured ACL; the guard acl_ok says that every line is
   its own key (stripped, not a comment, not a continuation row) and parses, by the model of
   _parse_raw_rule and the validators, to the fields its item carries.  Through this equation every
   theorem above about compile_acl / structured ACLs is a theorem about compile_acl_text of the
   printed text. *)
Theorem C06_text_roundtrip :
  forall (a : acl) (v : avendor),
    acl_ok a -> compile_acl_text (acl_text a) v = structured_outcome a.
Proof. exact text_roundtrip. Qed.
Print Assumptions C06_text_roundtrip.

(* the same with the decidable guard the correspondence run evaluates on every generated ACL *)
Theorem C06_text_roundtrip_b :
  forall (a : acl) (v : avendor),
    acl_okb a = true -> compile_acl_text (acl_text a) v = structured_outcome a.
Proof. intros a v H. apply text_roundtrip. apply acl_okb_ok. exact H. Qed.
Print Assumptions C06_text_roundtrip_b.

(* the structured ACL the text stands for: the parsed text is the grouping parse_items describes *)
Theorem C06_text_acl_printed :
  forall a, acl_ok a -> text_acl (acl_text a) = inr (Acl.parse_items (S (acl_depth a)) a).
Proof. exact text_acl_printed. Qed.
Print Assumptions C06_text_acl_printed.

(* the parser on a printed text, any depth: the tree of the lines' paths; one level of it *)
Theorem C06_text_parse_printed :
  forall a, acl_ok a -> rb_parse (acl_text a) = Ok (aforest a).
Proof. exact rb_parse_acl_text. Qed.
Print Assumptions C06_text_parse_printed.

Theorem C06_text_tree_levels :
  forall a, aforest a =
            map (fun k => (k, T (aforest (flat_map ai_kids (grp_raw a k))))) (first_keys [] (map ai_raw a)).
Proof. exact aforest_unfold. Qed.
Print Assumptions C06_text_tree_levels.

(* Two printed texts one after the other compile to compile_acl of the concatenated structured ACLs:
   the object C06_monotone_texts and C06_compile_dominated quantify over (acl_concat), with
   _merge_toplevel's uniters (or / list concatenation / max, Model/Acl.v compile_items) applied to
   lines of A and B that share a rule row, and the text parser's merge of identical lines. *)
Theorem C06_text_concat :
  forall (a b : acl) (v : avendor),
    acl_ok a -> acl_ok b -> a <> [] -> b <> [] ->
    compile_acl_text (acl_text a ++ nl_s ++ acl_text b) v = structured_outcome (acl_concat a b).
Proof. exact text_concat_printed. Qed.
Print Assumptions C06_text_concat.

(* Any two texts (not only printed ones): when b does not begin with a continuation row and every
   section of a and of b starts in column 0, the text a + "\n" + b inserts a's paths and then b's
   paths into one tree, and compile_acl_text is the compilation of that tree. *)
Theorem C06_text_concat_paths :
  forall (a b : string) pa pb (v : avendor),
    cont_line b = false -> text_sect0 a = true -> text_sect0 b = true ->
    text_paths a = Some pa -> text_paths b = Some pb ->
    text_paths (a ++ nl_s ++ b) = Some (pa ++ pb) /\
    compile_acl_text (a ++ nl_s ++ b) v = compile_paths (pa ++ pb).
Proof.
  intros a b pa pb v Hc Sa Sb Ha Hb. split; [apply text_paths_concat | apply text_concat]; assumption.
Qed.
Print Assumptions C06_text_concat_paths.

(* For arbitrary texts a, b (not only printed ones) with text_acl a = inr A and text_acl b = inr B:
   compile_acl_text (a + "\n" + b) = structured_outcome (A ++ B).  Proofs/AclTextConcat.v: the items read
   off the tree of pa ++ pb (C06_text_concat_paths) are the grouping parse_items of the items of pa's tree
   followed by those of pb's tree, level by level (insall_by_keys), lines with the same text under the
   same parent being one node; a row the item reader skips (a bare "!" row, a %context row) is skipped
   with everything below it on both sides, so A and B need not cover every row of a and b. *)
Definition C06_text_concat_general_statement : Prop :=
  forall (a b : string) (x y : acl) (v : avendor),
    cont_line b = false -> text_sect0 a = true -> text_sect0 b = true ->
    text_acl a = inr x -> text_acl b = inr y ->
    compile_acl_text (a ++ nl_s ++ b) v = structured_outcome (acl_concat x y).

From Annet Require Import Proofs.AclTextConcat.

Theorem C06_text_concat_general : C06_text_concat_general_statement.
Proof. intros a b x y v Hc Sa Sb Ha Hb. exact (proj2 (text_concat_general a b x y v Hc Sa Sb Ha Hb)). Qed.
Print Assumptions C06_text_concat_general.

(* ... and the structured ACL a + "\n" + b stands for is the grouping of A ++ B *)
Theorem C06_text_concat_acl :
  forall (a b : string) (x y : acl),
    cont_line b = false -> text_sect0 a = true -> text_sect0 b = true ->
    text_acl a = inr x -> text_acl b = inr y ->
    text_acl (a ++ nl_s ++ b) = inr (Acl.parse_items (S (acl_depth (acl_concat x y))) (acl_concat x y)).
Proof. intros a b x y Hc Sa Sb Ha Hb. exact (proj1 (text_concat_general a b x y no_vendor Hc Sa Sb Ha Hb)). Qed.
Print Assumptions C06_text_concat_acl.

(* the tree-level core: the items of the tree of two runs of paths, one after the other *)
Theorem C06_items_of_paths_app :
  forall n pa pb x y, pitems n pa = inr x -> pitems n pb = inr y ->
    pitems n (pa ++ pb) = inr (Acl.parse_items n (x ++ y)).
Proof. exact pitems_app. Qed.
Print Assumptions C06_items_of_paths_app.

Theorem C06_items_of_paths :
  forall n ps, (forall p, In p ps -> List.length p <= n) -> items_of_forest (insall ps []) = pitems n ps.
Proof. exact items_of_insall. Qed.
Print Assumptions C06_items_of_paths.

(* non-vacuity: two hand-written texts (other indentation units, a comment, a continuation row, a bare "!"
   row with a child, a %context row, a line of b repeating a line of a with other children) *)
Example C06_example_concat_general :
  let a := "interface *
  mtu *  %global
  # a comment
!
    below a skipped row
vlan *
   %prio=2" in
  let b := "%context=block:x
interface *
        ip ~ %cant_delete
vlan *   %prio=2
  name ~" in
  cont_line b = false /\ text_sect0 a = true /\ text_sect0 b = true /\
  match text_acl a, text_acl b with
  | inr x, inr y =>
    List.length x = 2 /\ List.length y = 2 /\
    compile_acl_text (a ++ nl_s ++ b) no_vendor =
    inr ([ARule "interface *" [true] 0 [] [ARule "ip ~" [true] 0 [] [] []] [ARule "mtu *" [false] 0 [] [] []];
          ARule "vlan *" [false; false] 2 [] [ARule "name ~" [false] 0 [] [] []] []], [])
  | _, _ => False
  end.
Proof. vm_compute. repeat split. Qed.

(* Blank rows and comment rows are irrelevant: texts whose rows differ only in rows the parser skips
   compile to the same rules (a ParserError names the same row; only its line number moves) ... *)
Theorem C06_comment_blank_irrelevant :
  forall (t1 t2 : string) (v : avendor),
    filter not_skip (text_items t1) = filter not_skip (text_items t2) ->
    tres_nolineno (compile_acl_text t1 v) = tres_nolineno (compile_acl_text t2 v).
Proof. exact text_skip_irrelevant. Qed.
Print Assumptions C06_comment_blank_irrelevant.

(* ... in particular a blank line or an indented "#" comment put between two lines of a text *)
Theorem C06_comment_blank_line_irrelevant :
  forall (a c b : string) (v : avendor),
    skip_line c = true -> cont_line b = false ->
    tres_nolineno (compile_acl_text (a ++ nl_s ++ c ++ nl_s ++ b) v) =
    tres_nolineno (compile_acl_text (a ++ nl_s ++ b) v).
Proof. exact text_skip_line_irrelevant. Qed.
Print Assumptions C06_comment_blank_line_irrelevant.

(* ... but not a "#" comment in column 0: it ends the block (tabparser's BlockEnd applies to rulebook
   texts), the children below it become top-level rules — replayed on the real compile_acl_text *)
Theorem C06_col0_comment_irrelevant_refuted :
  exists a c b v,
    startswith "#" c = true /\
    compile_acl_text (a ++ nl_s ++ c ++ nl_s ++ b) v <> compile_acl_text (a ++ nl_s ++ b) v.
Proof. exact col0_comment_relevant. Qed.
Print Assumptions C06_col0_comment_irrelevant_refuted.

(* surplus fuel does not change _compile_acl *)
Theorem C06_compile_fuel :
  forall f f' x, acl_depth x <= f -> acl_depth x <= f' -> compile_items f x = compile_items f' x.
Proof. exact compile_items_fuel. Qed.
Print Assumptions C06_compile_fuel.

(* non-vacuity of acl_ok: nesting, every parameter, a repeated line, two lines with one row *)
Definition text_example : acl :=
  [AItem "interface * %cant_delete=0,1 %generator_names=g1,g2" "interface *" false false (Some [false; true]) 0 ["g1"; "g2"]
         [AItem "mtu * %prio=3" "mtu *" false false None 3 []
                [AItem "~ %global" "~" false true None 0 [] []];
          AItem "ip ~ %cant_delete" "ip ~" false false (Some [true]) 0 [] []];
   AItem "vlan 1 %prio=0" "vlan 1" false false None 0 [] [];
   AItem "interface * %cant_delete=0,1 %generator_names=g1,g2" "interface *" false false (Some [false; true]) 0 ["g1"; "g2"]
         [AItem "description ~" "description ~" false false None 0 [] []];
   AItem "vlan 1 %prio=2 %generator_names=g3" "vlan 1" false false None 2 ["g3"] []].

Example C06_example_text_ok : acl_okb text_example = true.
Proof. vm_compute. reflexivity. Qed.

Example C06_example_text_compiled :
  compile_acl_text (acl_text text_example) no_vendor =
  inr ([ARule "interface *" [false; true] 0 ["g1"; "g2"]
              [ARule "mtu *" [false] 3 [] [] [ARule "~" [false] 0 [] [] []];
               ARule "ip ~" [true] 0 [] [] [];
               ARule "description ~" [false] 0 [] [] []] [];
        ARule "vlan 1" [false; false] 2 ["g3"] [] []], []).
Proof. vm_compute. reflexivity. Qed.

(* non-vacuity of the guards of C06_text_concat_paths and of skip_line *)
Example C06_example_concat_paths :
  let a := "interface *
    mtu *  %global
# section
vlan *" in
  let b := "interface *
  %cant_delete
    ip ~" in
  cont_line b = false /\ text_sect0 a = true /\ text_sect0 b = true /\
  text_paths a = Some [["interface *"]; ["interface *"; "mtu *  %global"]; ["vlan *"]] /\
  text_paths b = Some [["interface *   %cant_delete"]; ["interface *   %cant_delete"; "ip ~"]].
Proof. vm_compute. repeat split. Qed.

Example C06_example_skip_line : skip_line "      # a comment" = true /\ skip_line "   " = true /\ skip_line "# col 0" = false.
Proof. vm_compute. repeat split. Qed.

(* The line printer of harness/aclgen.py, raw_rule (Model/AclText.v print_raw), always produces a line
   inside the guard of C06_text_roundtrip: the line is its own key and the model of _parse_raw_rule reads
   back the printed fields (Proofs/AclTextPrint.v: the %params scanner pscan on row ++ " %key[=value]"
   groups, split_list of a comma-joined list, nat_of_digits (dec n) = n).  Guards: the row is a stripped
   single-blank row without a percent sign and not an ignore row, generator names are non-empty without
   blanks and commas, cant_delete is not the empty list (raw_rule would print "%cant_delete=", which reads
   as [True]). *)
From Coq Require Import Ascii.
From Annet Require Model.Json.
From Annet Require Import Model.PatternT.
Definition gen_name_ok (g : string) : bool :=
  negb (is_empty g) && forallb (fun c => negb (is_ws c) && negb (is_delim c)) (list_ascii_of_string g).
Definition pat_ok (pat : string) : bool :=
  line_ok pat && String.eqb (raw_row pat) pat && negb (existsb (Ascii.eqb "%"%char) (list_ascii_of_string pat))
  && negb (startswith "!" pat).
Definition C06_print_raw_statement : Prop :=
  forall pat glob cd cd_bare prio prio_explicit gens,
    pat_ok pat = true -> forallb gen_name_ok gens = true -> cd <> Some [] ->
    let raw := print_raw pat false glob cd cd_bare prio prio_explicit gens Json.dec in
    line_ok raw = true /\ parse_line raw = LItem pat false glob cd prio gens.

From Annet Require Import Proofs.AclTextPrint.

Theorem C06_print_raw : C06_print_raw_statement.
Proof. exact print_raw_ok. Qed.
Print Assumptions C06_print_raw.

(* the %params scanner on a printed line: exactly the printed groups, in order *)
Theorem C06_find_params_printed :
  forall pat gs, sall nopct pat = true -> forallb gok gs = true -> find_params (pat ++ gsfx gs) = map kv gs.
Proof. exact find_params_printed. Qed.
Print Assumptions C06_find_params_printed.

(* C06_text_roundtrip without the guard acl_ok, for every ACL aclgen can generate (gitem: the generator's
   dicts, any depth and width, repeated lines included; aitem_of: aclgen.coq_aitem, the line by raw_rule):
   the guards are on the atoms the generator draws (rows, generator names, cant_delete lists) only *)
Theorem C06_generated_acl_ok :
  forall gs, forallb gitem_okb gs = true -> acl_ok (map aitem_of gs).
Proof. exact generated_acl_ok. Qed.
Print Assumptions C06_generated_acl_ok.

Theorem C06_text_roundtrip_generated :
  forall gs v, forallb gitem_okb gs = true ->
    compile_acl_text (acl_text (map aitem_of gs)) v = structured_outcome (map aitem_of gs).
Proof. exact generated_roundtrip. Qed.
Print Assumptions C06_text_roundtrip_generated.

Example C06_example_generated :
  let g := [GItem "interface */[a-z0-9]+/ ~" true (Some [true; false]) false 12 true ["g1"; "g2"] [];
            GItem "vlan *" false (Some [true]) true 0 true []
                  [GItem "name ~" false None false 3 false ["g3"] []; GItem "vlan *" false None false 0 false [] []];
            GItem "vlan *" false None false 0 false [] [GItem "mtu 1500" false None false 0 false [] []]] in
  forallb gitem_okb g = true /\ acl_okb (map aitem_of g) = true /\
  map ai_raw (map aitem_of g) =
    ["interface */[a-z0-9]+/ ~ %global %cant_delete=1,0 %prio=12 %generator_names=g1,g2";
     "vlan * %cant_delete %prio=0"; "vlan *"].
Proof. vm_compute. repeat split. Qed.

Example C06_example_print_raw :
  let raw := print_raw "interface */[a-z0-9]+/ ~" false true (Some [true; false]) false 12 true ["g1"; "g2"] Json.dec in
  raw = "interface */[a-z0-9]+/ ~ %global %cant_delete=1,0 %prio=12 %generator_names=g1,g2" /\
  pat_ok "interface */[a-z0-9]+/ ~" = true /\
  line_ok raw = true /\
  parse_line raw = LItem "interface */[a-z0-9]+/ ~" false true (Some [true; false]) 12 ["g1"; "g2"].
Proof. vm_compute. repeat split. Qed.
