(* C19 — property theorems only.  Proofs live in Proofs/FilesProofs.v. *)
From Coq Require Import List String Bool Arith ZArith Permutation.
From Annet Require Import Base.Str Model.Files Spec.P_C19 Proofs.FilesProofs.
Import ListNotations.
Open Scope string_scope.

Theorem C19_holds_refuted :
  exists x, wf_C19 x = true /\ P_C19 x (model differ_lines x) = false.
Proof. exact holds_lines_refuted. Qed.
Print Assumptions C19_holds_refuted.
