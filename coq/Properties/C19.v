(* C19 — property theorems only.  Proofs live in Proofs/FilesProofs.v and
   Proofs/FilesDeployProofs.v.  All statements are for any number of generators in any
   listing order, any old map, any contents. *)
From Coq Require Import List String Bool Arith ZArith Permutation.
From Annet Require Import Base.Str Model.Files Spec.P_C19 Proofs.FilesProofs Proofs.FilesDeployProofs.
Import ListNotations.
Open Scope string_scope.

(* ------------------------------------------------------------------ winning generator *)

(* new_files()[path] is the output and the reload commands of the highest-priority generator *)
Theorem C19_argmax :
  forall etck gens g,
    distinct_prios gens = true -> In g gens -> g_path g <> "" ->
    (forall h, In h gens -> g_path h = g_path g -> (g_prio h <= g_prio g)%Z) ->
    lookup (g_path g) (new_files false (run_file_generators etck gens)) =
    Some (g_out g, reload_cmds etck (g_path g) (g_reload g)).
Proof. exact argmax. Qed.
Print Assumptions C19_argmax.

(* ... and nothing else is planned *)
Theorem C19_argmax_only :
  forall etck gens p o r,
    distinct_prios gens = true ->
    lookup p (new_files false (run_file_generators etck gens)) = Some (o, r) ->
    exists g, In g gens /\ g_path g = p /\ p <> "" /\ o = g_out g /\
              r = reload_cmds etck p (g_reload g) /\
              forall h, In h gens -> g_path h = p -> (g_prio h <= g_prio g)%Z.
Proof. exact argmax_only. Qed.
Print Assumptions C19_argmax_only.

(* as a dict, new_files(safe) is the declarative reference `planned` *)
Theorem C19_planned :
  forall etck safe gens,
    distinct_prios gens = true ->
    nf_eqb (new_files safe (run_file_generators etck gens)) (planned etck safe gens) = true.
Proof. exact new_files_planned. Qed.
Print Assumptions C19_planned.

(* regardless of the order generators are listed in *)
Theorem C19_perm :
  forall etck safe gens gens',
    Permutation gens gens' -> distinct_prios gens = true ->
    (forall p, lookup p (new_files safe (run_file_generators etck gens)) =
               lookup p (new_files safe (run_file_generators etck gens'))) /\
    nf_eqb (new_files safe (run_file_generators etck gens))
           (new_files safe (run_file_generators etck gens')) = true.
Proof.
  intros etck safe gens gens' HP Hd. split.
  - intro p. apply planned_perm_lookup; assumption.
  - apply planned_perm; assumption.
Qed.
Print Assumptions C19_perm.

(* safe mode keeps exactly the winners that are safe *)
Theorem C19_safe_filter :
  forall etck gens g,
    distinct_prios gens = true -> In g gens -> g_path g <> "" ->
    (forall h, In h gens -> g_path h = g_path g -> (g_prio h <= g_prio g)%Z) ->
    lookup (g_path g) (new_files true (run_file_generators etck gens)) =
    if g_safe g then Some (g_out g, reload_cmds etck (g_path g) (g_reload g)) else None.
Proof. exact safe_argmax. Qed.
Print Assumptions C19_safe_filter.

(* ------------------------------------------------------------------ upload / reload / bytes,
   for any pluggable differ whose emptiness is its own notion `deq` of "same file" *)

Theorem C19_upload_iff :
  forall (differ : differ_t) (deq : string -> option string -> string -> bool),
    (forall p o n, differ p o n = [] <-> deq p o n = true) ->       (* H_diff *)
    (forall p o n, differ p o n <> [""]) ->                          (* "\n".join(lines) is truthy *)
    forall m old nf,
      files_of_pr (parse_result differ m old nf) =
      map (fun e => (fst e, fst (snd e)))
          (filter (fun e => negb (deq (fst e) (old_get old (fst e)) (fst (snd e))) || force_reload m) nf).
Proof. exact upload_iff. Qed.
Print Assumptions C19_upload_iff.

Theorem C19_reload_iff :
  forall (differ : differ_t) (deq : string -> option string -> string -> bool),
    (forall p o n, differ p o n = [] <-> deq p o n = true) ->
    (forall p o n, differ p o n <> [""]) ->
    forall m old nf,
      keys (cmds_of_pr (parse_result differ m old nf)) =
      (if enable_reload m then keys (files_of_pr (parse_result differ m old nf)) else []) /\
      forall p c, In (p, c) (cmds_of_pr (parse_result differ m old nf)) ->
        enable_reload m = true /\
        exists b, In (p, (b, c)) nf /\ In (p, b) (files_of_pr (parse_result differ m old nf)).
Proof.
  intros differ deq H1 H2 m old nf. split.
  - apply (reload_keys differ deq H1 H2).
  - intros p c. apply (reload_cmd differ deq H1 H2).
Qed.
Print Assumptions C19_reload_iff.

Theorem C19_bytes :
  forall (differ : differ_t) (deq : string -> option string -> string -> bool),
    (forall p o n, differ p o n = [] <-> deq p o n = true) ->
    (forall p o n, differ p o n <> [""]) ->
    forall m old nf p b,
      In (p, b) (files_of_pr (parse_result differ m old nf)) -> exists r, In (p, (b, r)) nf.
Proof. exact bytes. Qed.
Print Assumptions C19_bytes.

Theorem C19_diff_iff :
  forall (differ : differ_t) (deq : string -> option string -> string -> bool),
    (forall p o n, differ p o n = [] <-> deq p o n = true) ->
    forall old nf,
      keys (pc_diff differ old nf) =
      map fst (filter (fun e => negb (deq (fst e) (old_get old (fst e)) (fst (snd e)))) nf).
Proof. exact pc_diff_keys. Qed.
Print Assumptions C19_diff_iff.

(* both modelled differs satisfy the hypotheses, each with its own `deq` *)
Theorem C19_differ_laws :
  (forall p o n, differ_lines p o n = [] <-> list_str_eqb (lines_of o) (splitlines n) = true) /\
  (forall p o n, differ_lines p o n <> [""]) /\
  (forall p o n, differ_exact p o n = [] <-> o = Some n) /\
  (forall p o n, differ_exact p o n <> [""]).
Proof.
  repeat split; try apply differ_lines_law; try apply differ_lines_noblank; try apply differ_exact_noblank.
  - intro H. apply differ_exact_law in H. apply opt_str_eqb_eq. exact H.
  - intro H. apply differ_exact_law. apply opt_str_eqb_eq. exact H.
Qed.
Print Assumptions C19_differ_laws.

(* ------------------------------------------------------------------ the whole property *)

(* any differ with "diff empty <-> contents equal": the full predicate holds *)
Theorem C19_holds_exact :
  forall differ : differ_t,
    (forall p o n, differ p o n = [] <-> o = Some n) ->
    (forall p o n, differ p o n <> [""]) ->
    forall x, wf_C19 x = true -> P_C19 x (model differ x) = true.
Proof. exact holds_exact. Qed.
Print Assumptions C19_holds_exact.

(* the repaired UnifiedFileDiffer (fixes/C19-unified-differ-eol.patch) *)
Theorem C19_holds_fixed :
  forall x, wf_C19 x = true -> P_C19 x (model differ_exact x) = true.
Proof. exact holds_differ_exact. Qed.
Print Assumptions C19_holds_fixed.

(* the shipped UnifiedFileDiffer (splitlines() comparison): refuted *)
Theorem C19_holds_refuted :
  exists x, wf_C19 x = true /\ P_C19 x (model differ_lines x) = false.
Proof. exact holds_lines_refuted. Qed.
Print Assumptions C19_holds_refuted.

(* the gap between "contents differ" and "line lists differ": newline at end of file, CRLF vs
   LF, absent vs empty — the shipped differ is empty, the repaired one is not *)
Theorem C19_lines_gap_refuted :
  forall w, In w gap_witnesses ->
    fst w <> Some (snd w) /\ differ_lines "/etc/a" (fst w) (snd w) = [] /\
    differ_exact "/etc/a" (fst w) (snd w) <> [].
Proof. exact lines_gap. Qed.
Print Assumptions C19_lines_gap_refuted.

Theorem C19_differ_lines_not_exact :
  ~ (forall p o n, differ_lines p o n = [] <-> o = Some n).
Proof. exact differ_lines_not_exact. Qed.
Print Assumptions C19_differ_lines_not_exact.

(* ... so that with the shipped differ nothing is uploaded or shown for the three classes,
   while the reference uploads the generated content *)
Theorem C19_upload_iff_refuted :
  forall w, In w gap_witnesses ->
    let x := x_of (fst w) (snd w) RYes in
    wf_C19 x = true /\
    o_deploy (model differ_lines x) = None /\ o_diff (model differ_lines x) = [] /\
    spec_files RYes (i_old x) (sel_of x) = [("/etc/a", snd w)] /\
    P_files x (model differ_lines x) = false /\ P_diff x (model differ_lines x) = false /\
    P_C19 x (model differ_exact x) = true.
Proof. exact upload_lines_refuted. Qed.
Print Assumptions C19_upload_iff_refuted.

(* where the shipped differ is nevertheless right: LF-terminated texts without other line
   boundaries, file present on the device (partial: the guard excludes exactly the gap) *)
Theorem C19_splitlines_inj_unix :
  forall s t, unix_text s = true -> unix_text t = true -> splitlines s = splitlines t -> s = t.
Proof. exact splitlines_inj_unix. Qed.
Print Assumptions C19_splitlines_inj_unix.

Theorem C19_upload_iff_shipped_partial :
  forall m old nf,
    unix_case old nf ->
    files_of_pr (parse_result differ_lines m old nf) = spec_files m old nf /\
    cmds_of_pr (parse_result differ_lines m old nf) = spec_cmds m old nf /\
    keys (pc_diff differ_lines old nf) = spec_diff old nf.
Proof. exact upload_iff_lines_unix. Qed.
Print Assumptions C19_upload_iff_shipped_partial.

(* ------------------------------------------------------------------ non-vacuity *)

Definition ex_gens : list gen :=
  [ Gen "/etc/a" 10 ("low" ++ LF) "r-low" true;
    Gen "/etc/b" 5 ("b" ++ LF) "" true;
    Gen "/etc/a" 200 ("high" ++ LF) "r-high" false;
    Gen "" 999 "skipped" "" true;
    Gen "/etc/a" 100 ("mid" ++ LF) "r-mid" true ].

Example C19_example_guard : distinct_prios ex_gens = true.
Proof. vm_compute. reflexivity. Qed.

(* the guard of C19_argmax is met by the third generator, and the conclusion is what it says *)
Example C19_example_argmax :
  let g := Gen "/etc/a" 200 ("high" ++ LF) "r-high" false in
  In g ex_gens /\ is_winner ex_gens g = true /\
  new_files false (run_file_generators false ex_gens) =
    [("/etc/a", (("high" ++ LF)%string, "r-high")); ("/etc/b", (("b" ++ LF)%string, ""))] /\
  new_files true (run_file_generators false ex_gens) = [("/etc/b", (("b" ++ LF)%string, ""))] /\
  new_files false (run_file_generators true ex_gens) =
    [("/etc/a", (("high" ++ LF)%string, ("r-high" ++ LF ++ "/usr/bin/etckeeper commitreload /etc/a")%string));
     ("/etc/b", (("b" ++ LF)%string, "/usr/bin/etckeeper commitreload /etc/b"))].
Proof. cbn zeta. split; [right; right; left; reflexivity|]. repeat split; vm_compute; reflexivity. Qed.

Example C19_example_perm :
  Permutation ex_gens (rev ex_gens) /\
  new_files false (run_file_generators false (rev ex_gens)) =
    [("/etc/a", (("high" ++ LF)%string, "r-high")); ("/etc/b", (("b" ++ LF)%string, ""))].
Proof. split; [apply Permutation_rev | vm_compute; reflexivity]. Qed.

(* equal priorities are outside the guard: the first listed wins, so the order matters *)
Example C19_example_tie_is_order_dependent :
  let a := Gen "/p" 1 "A" "" true in let b := Gen "/p" 1 "B" "" true in
  distinct_prios [a; b] = false /\
  new_files false (run_file_generators false [a; b]) = [("/p", ("A", ""))] /\
  new_files false (run_file_generators false [b; a]) = [("/p", ("B", ""))].
Proof. repeat split; vm_compute; reflexivity. Qed.

Definition ex_input (m : rmode) : input :=
  In_ ex_gens false false
      [("/etc/a", Some ("high" ++ LF)%string); ("/etc/b", Some ("old" ++ LF)%string)] m.

Example C19_example_holds :
  wf_C19 (ex_input RYes) = true /\
  o_deploy (model differ_exact (ex_input RYes)) = Some ([("/etc/b", ("b" ++ LF)%string)], [("/etc/b", "")]) /\
  o_deploy (model differ_exact (ex_input RNo)) = Some ([("/etc/b", ("b" ++ LF)%string)], []) /\
  o_deploy (model differ_exact (ex_input RForce)) =
    Some ([("/etc/a", ("high" ++ LF)%string); ("/etc/b", ("b" ++ LF)%string)],
          [("/etc/a", "r-high"); ("/etc/b", "")]) /\
  o_diff (model differ_exact (ex_input RYes)) = [("/etc/b", false)].
Proof. repeat split; vm_compute; reflexivity. Qed.

(* the guard of C19_upload_iff_shipped_partial is met by a case that uploads one of two files *)
Example C19_example_unix_case :
  unix_case (i_old (ex_input RYes)) (new_files false (run_file_generators false ex_gens)) /\
  files_of_pr (parse_result differ_lines RYes (i_old (ex_input RYes))
                 (new_files false (run_file_generators false ex_gens))) = [("/etc/b", ("b" ++ LF)%string)].
Proof.
  split; [|vm_compute; reflexivity].
  intros e He. vm_compute in He. destruct He as [He|[He|[]]]; subst e; cbn [fst snd]; split;
    try (vm_compute; reflexivity).
  - exists ("high" ++ LF)%string. split; vm_compute; reflexivity.
  - exists ("old" ++ LF)%string. split; vm_compute; reflexivity.
Qed.

(* ------------------------------------------------------------------ generators that do not
   produce a result (Model/FilesKinds.v): supports_device false, NotSupportedDevice from run(),
   run() returning None.  The plan is the argmax over the generators that PRODUCED a result. *)
From Annet Require Import Model.FilesKinds Spec.P_C19K Proofs.FilesKindsProofs.

(* the loop with such generators = the loop of Model/Files.v over the producing generators only;
   it fails iff a generator that supports the device returns None from run() *)
Theorem C19_kinds_run :
  forall etck ks,
    k_run_file_generators etck ks =
    if existsb fails ks then None else Some (run_file_generators etck (produced ks)).
Proof. exact k_run_spec. Qed.
Print Assumptions C19_kinds_run.

(* priorities need to be distinct among the producing generators only; a higher-priority generator
   that turned the device down does not shadow anybody *)
Theorem C19_kinds_argmax :
  forall etck ks g,
    existsb fails ks = false -> distinct_prios (produced ks) = true ->
    In (KGen g KOk) ks -> g_path g <> "" ->
    (forall h, In (KGen h KOk) ks -> g_path h = g_path g -> (g_prio h <= g_prio g)%Z) ->
    exists res, k_run_file_generators etck ks = Some res /\
      lookup (g_path g) (new_files false res) = Some (g_out g, reload_cmds etck (g_path g) (g_reload g)).
Proof. exact k_argmax. Qed.
Print Assumptions C19_kinds_argmax.

Theorem C19_kinds_argmax_only :
  forall etck ks res p o r,
    distinct_prios (produced ks) = true ->
    k_run_file_generators etck ks = Some res ->
    lookup p (new_files false res) = Some (o, r) ->
    exists g, In (KGen g KOk) ks /\ g_path g = p /\ p <> "" /\ o = g_out g /\
              r = reload_cmds etck p (g_reload g) /\
              forall h, In (KGen h KOk) ks -> g_path h = p -> (g_prio h <= g_prio g)%Z.
Proof. exact k_argmax_only. Qed.
Print Assumptions C19_kinds_argmax_only.

Theorem C19_kinds_planned :
  forall etck safe ks,
    existsb fails ks = false -> distinct_prios (produced ks) = true ->
    exists res, k_run_file_generators etck ks = Some res /\
      nf_eqb (new_files safe res) (planned etck safe (produced ks)) = true.
Proof. exact k_planned. Qed.
Print Assumptions C19_kinds_planned.

(* every listing order: the same failure, or the same plan *)
Theorem C19_kinds_perm :
  forall etck safe ks ks',
    Permutation ks ks' -> distinct_prios (produced ks) = true ->
    match k_run_file_generators etck ks, k_run_file_generators etck ks' with
    | Some res, Some res' =>
      (forall p, lookup p (new_files safe res) = lookup p (new_files safe res')) /\
      nf_eqb (new_files safe res) (new_files safe res') = true
    | None, None => True
    | _, _ => False
    end.
Proof. exact k_perm. Qed.
Print Assumptions C19_kinds_perm.

(* a generator that produces nothing (and is not broken) can be listed anywhere or not at all *)
Theorem C19_kinds_silent_irrelevant :
  forall etck ks1 k ks2,
    produces k = false -> fails k = false ->
    k_run_file_generators etck (ks1 ++ k :: ks2) = k_run_file_generators etck (ks1 ++ ks2).
Proof. exact k_silent_irrelevant. Qed.
Print Assumptions C19_kinds_silent_irrelevant.

Theorem C19_kinds_holds_exact :
  forall differ : differ_t,
    (forall p o n, differ p o n = [] <-> o = Some n) ->
    (forall p o n, differ p o n <> [""]) ->
    forall x, wf_C19K x = true -> P_C19K x (k_model differ x) = true.
Proof. exact k_holds_exact. Qed.
Print Assumptions C19_kinds_holds_exact.

Theorem C19_kinds_holds_fixed :
  forall x, wf_C19K x = true -> P_C19K x (k_model differ_exact x) = true.
Proof. exact k_holds_differ_exact. Qed.
Print Assumptions C19_kinds_holds_fixed.

(* where every generator renders, the extended model is the model of Model/Files.v *)
Theorem C19_kinds_conservative :
  forall differ x, k_model differ (k_of x) = Some (model differ x).
Proof. exact k_model_all_ok. Qed.
Print Assumptions C19_kinds_conservative.

(* non-vacuity: the highest-priority generator for /etc/a turns the device down while rendering,
   another one does not support the device; the prio-100 generator wins in both listing orders,
   although priorities 100 are NOT distinct among all listed generators *)
Definition ex_kgens : list kgen :=
  [ KGen (Gen "/etc/a" 200 ("high" ++ LF) "r-high" true) KDeclines;
    KGen (Gen "/etc/a" 100 ("mid" ++ LF) "r-mid" true) KOk;
    KGen (Gen "/etc/a" 100 ("other" ++ LF) "" true) KUnsupported;
    KGen (Gen "/etc/a" 10 ("low" ++ LF) "r-low" true) KOk;
    KGen (Gen "" 999 "x" "" true) KNone ].

Example C19_example_kinds :
  existsb fails ex_kgens = false /\ distinct_prios (produced ex_kgens) = true /\
  distinct_prios (map k_gen ex_kgens) = false /\
  Permutation ex_kgens (rev ex_kgens) /\
  k_run_file_generators false ex_kgens = k_run_file_generators false (rev ex_kgens) /\
  option_map (new_files false) (k_run_file_generators false ex_kgens) =
    Some [("/etc/a", (("mid" ++ LF)%string, "r-mid"))].
Proof.
  split; [vm_compute; reflexivity|]. split; [vm_compute; reflexivity|]. split; [vm_compute; reflexivity|].
  split; [apply Permutation_rev|]. split; vm_compute; reflexivity.
Qed.

Example C19_example_kinds_broken :
  let ks := ex_kgens ++ [KGen (Gen "/etc/b" 1 "" "" true) KNone] in
  existsb fails ks = true /\ k_run_file_generators false ks = None /\
  k_run_file_generators false (rev ks) = None.
Proof. repeat split; vm_compute; reflexivity. Qed.
