(* C05 — property theorems only.  Proofs live in Proofs/OffsideProofs.v. *)
From Coq Require Import List String Bool Arith.
From Annet Require Import Base.Str Base.Tree Model.Offside Spec.P_C05 Proofs.OffsideProofs.
Import ListNotations.
Open Scope string_scope.

(* The stack parser (model of parse_to_tree) returns exactly what the declarative
   offside reference returns: the same tree, or a ParserError at the same line naming
   the same row — for every comment tuple and every text (any length, depth, widths). *)
Theorem C05_parse_is_offside :
  forall (comments : list string) (text : string),
    parse_text comments text = ref_parse comments text.
Proof. exact parse_text_is_offside. Qed.
Print Assumptions C05_parse_is_offside.

Theorem C05_holds :
  forall (comments : list string) (text : string),
    P_C05 (comments, text) (parse_text comments text) = true.
Proof.
  intros comments text. unfold P_C05. cbn [fst snd]. rewrite parse_text_is_offside.
  destruct (ref_parse comments text); cbn.
  - apply forest_eqb_refl.
  - rewrite Nat.eqb_refl, String.eqb_refl. reflexivity.
Qed.
Print Assumptions C05_holds.

(* on every list of classified lines, from any parser state satisfying the invariant *)
Theorem C05_items :
  forall its n, parse_items its n ps_init = ref_items its n [] [].
Proof. intros its n. apply parse_items_ref. exact Inv_init. Qed.
Print Assumptions C05_items.

Theorem C05_comment_blank_irrelevant :
  forall its n m h acc,
    no_lineno (ref_items its n h acc) = no_lineno (ref_items (filter not_skip its) m h acc).
Proof. exact ref_items_skip_irrelevant. Qed.
Print Assumptions C05_comment_blank_irrelevant.

Theorem C05_dup_merge :
  forall its n h acc lvl row,
    ref_consistent h lvl = true ->
    exists h', ref_items (Content lvl row :: Content lvl row :: its) n h acc =
               ref_items its (S (S n)) h' (ins (ref_path h lvl row) acc).
Proof. exact ref_items_dup_merge. Qed.
Print Assumptions C05_dup_merge.

(* non-vacuity / sanity: the reference builds nesting and refuses a bad dedent *)
Example C05_example_nested :
  ref_parse ["!"; "#"] "a
  b
     c
  d
e" = Ok [("a", T [("b", T [("c", T [])]); ("d", T [])]); ("e", T [])].
Proof. vm_compute. reflexivity. Qed.

Example C05_example_bad_dedent :
  ref_parse ["!"; "#"] "a
    b
  c" = Err 3 "c".
Proof. vm_compute. reflexivity. Qed.
