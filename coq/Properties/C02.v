(* C02 — a patch never touches configuration outside the generators' ACL.
   Property theorems only; the proofs are in Proofs/AclPipelineProofs.v, Proofs/AclDeviceProofs.v (top level of
   the device), Proofs/AclPatchRel2.v and Proofs/AclDeviceNested.v (every depth), Proofs/AclGuardDomain.v (the
   per-level guards follow from the device domain), the predicates in
   Spec/P_C02.v, the model of _diff_and_patch(old, new, acl_rules, ...) in Model/AclPipeline.v.

   The general theorems hold for EVERY row matcher of the ACL side (amatch_, asrc, arev, anorm)
   and of the patching side (rmatch, rsrc, rrev, rreverse), every compiled ACL, patching and
   ordering rulebook, and configurations of any depth and width; the logics are the six common
   ones of Model/Patch.v.  The check instantiates the matchers with Model/Pattern.v. *)
From Coq Require Import List String Bool Arith ZArith.
From Annet Require Import Base.Str Base.Tree Model.Pattern Model.Rulebook Model.Diff Model.Order Model.Patch
     Model.Blocks Model.Pipeline Model.Device Model.Acl Model.AclPipeline Spec.PipelineCase Spec.P_C01 Spec.P_C02
     Proofs.AclPipelineProofs Proofs.AclDeviceProofs Proofs.AclPatchRel2 Proofs.AclDeviceNested Proofs.AclGuardDomain
     Spec.P_C02Gen Proofs.AclGenStage.
Import ListNotations.
Open Scope string_scope.

(* (a) Every command path of the patch is covered by the ACL level by level: every element
   but the last is PASSED by the rule set obtained by walking the ACL along the path (matched, and
   not as the reverse form of a cant_delete rule); the last is passed as well (matched by a direct
   or reverse regexp, not as the reverse form of a rule all of whose cant_delete flags are set), or
   is the negation of an ACL-matched entry of the shown diff that is REMOVED and not governed by a
   cant_delete rule (or MOVED under an %ordered rule), or is a block-exit word.  In particular no
   command is the removal command of a cant_delete row.  Any block formatter family;
   [diff_regular]: no %force_commit pseudo-command, one set of attributes per rule text. *)
Theorem C02_cmds_covered :
  forall amatch_ asrc arev anorm rmatch rsrc rrev block_exit rreverse is_exit f ars rs ordering old new p,
    is_block_family f = true ->
    (forall e, In e (family_exits f) -> is_exit e = true) ->
    diff_regular (acl_make_diff amatch_ asrc arev anorm rmatch ars rs
                    (acl_filter amatch_ asrc arev anorm ars old) (acl_filter amatch_ asrc arev anorm ars new)) = true ->
    snd (acl_diff_and_patch amatch_ asrc arev anorm rmatch rsrc rrev block_exit rreverse ars rs ordering old new) = POk p ->
    paths_covered amatch_ asrc arev anorm rmatch rreverse is_exit ars rs
      (fst (acl_diff_and_patch amatch_ asrc arev anorm rmatch rsrc rrev block_exit rreverse ars rs ordering old new))
      (cmd_paths f p) = true.
Proof. exact acl_pipeline_cmds_covered. Qed.
Print Assumptions C02_cmds_covered.

(* the same, as the clause of P_C02 evaluated on real outputs, for the instantiated model *)
Theorem C02_a_holds_of_model :
  forall x ordering, diff_regular (p_full_diff x) = true -> C02_a x (model_out x ordering) = true.
Proof. exact C02_a_model. Qed.
Print Assumptions C02_a_holds_of_model.

(* the diff shown never mentions a row the ACL does not pass, at any depth - unguarded *)
Theorem C02_diff_covered :
  forall amatch_ asrc arev anorm rmatch rsrc rrev block_exit rreverse ars rs ordering old new,
    diff_covered amatch_ asrc arev anorm ars
      (fst (acl_diff_and_patch amatch_ asrc arev anorm rmatch rsrc rrev block_exit rreverse ars rs ordering old new)) = true.
Proof. exact acl_pipeline_diff_covered. Qed.
Print Assumptions C02_diff_covered.

(* (c), diff level: an entry governed by an ACL rule all of whose cant_delete flags are set is
   never REMOVED - in the diff shown and in the diff the patch is made from, at any depth,
   unguarded.  Together with C02_cmds_covered (a removal command negates a REMOVED entry that is
   not cant_delete, or a MOVED entry of an %ordered rule) no logic is ever asked to delete it. *)
Theorem C02_cant_delete_not_removed :
  forall amatch_ asrc arev anorm rmatch rsrc rrev block_exit rreverse ars rs ordering old new,
    cd_not_removed amatch_ asrc arev anorm ars
      (fst (acl_diff_and_patch amatch_ asrc arev anorm rmatch rsrc rrev block_exit rreverse ars rs ordering old new)) = true /\
    cd_not_removed amatch_ asrc arev anorm ars
      (acl_make_diff amatch_ asrc arev anorm rmatch ars rs
         (acl_filter amatch_ asrc arev anorm ars old) (acl_filter amatch_ asrc arev anorm ars new)) = true.
Proof. exact acl_pipeline_cant_delete_not_removed. Qed.
Print Assumptions C02_cant_delete_not_removed.

Theorem C02_a_diff_holds_of_model : forall x ordering, C02_a_diff x (model_out x ordering) = true.
Proof. exact C02_a_diff_model. Qed.
Print Assumptions C02_a_diff_holds_of_model.

(* (c), device level, PARTIAL (top level of the configuration - where interface blocks live):
   on the reference device holding old, the (rule, key) slot of a top-level row of old governed by
   a cant_delete ACL rule is still occupied after the whole command stream of the patch, for every
   block formatter, ordering rulebook, old and new.  Hypotheses: the row's rule is not %ordered (a
   moved %ordered row is undone and redone); the removal command of its slot is that of no other
   row of old and entries of the slot share their rule attributes (both part of the device domain
   P_C01.wf_step for rulebooks parsed from text); the diff is regular.
   Missing for the full statement C02_cant_delete_kept_statement: rows below the top level (needs
   the cursor invariant of Device.exec_path along surviving ancestor blocks). *)
Theorem C02_cant_delete_kept_partial :
  forall amatch_ asrc arev anorm rmatch rsrc rrev block_exit rreverse is_exit f ars rs ordering old new p r s,
    is_block_family f = true ->
    (forall e, In e (family_exits f) -> is_exit e = true) ->
    diff_regular (acl_make_diff amatch_ asrc arev anorm rmatch ars rs
                    (acl_filter amatch_ asrc arev anorm ars old) (acl_filter amatch_ asrc arev anorm ars new)) = true ->
    snd (acl_diff_and_patch amatch_ asrc arev anorm rmatch rsrc rrev block_exit rreverse ars rs ordering old new) = POk p ->
    In r (keys old) ->
    acl_cant_delete amatch_ asrc arev anorm ars r = true ->
    slot_of rmatch rs r = Some s ->
    a_logic (mi_attrs s) <> LOrdered ->
    slot_det rmatch rreverse rs s ->
    (forall r' s', In r' (keys old) -> slot_of rmatch rs r' = Some s' ->
                   reverse_of rreverse s' = reverse_of rreverse s -> r' = r) ->
    occupied rmatch rs s (exec rmatch rreverse is_exit rs (cmd_paths f p) old) = true.
Proof. exact cant_delete_kept_top. Qed.
Print Assumptions C02_cant_delete_kept_partial.

(* the same for the instantiated model, in the vocabulary of P_C02 (slot_occupied, after) *)
Theorem C02_cant_delete_kept_top_of_model :
  forall x ordering p r s,
    is_block_family (v_family (i_vendor x)) = true ->
    diff_regular (p_full_diff x) = true ->
    snd (p_acl_diff_and_patch (i_vendor x) (i_av x) (i_ars x) (i_rules x) ordering (i_old x) (i_new x)) = POk p ->
    In r (keys (i_old x)) ->
    acl_cant_delete acl_pm acl_psrc (acl_prev (i_av x)) (acl_norm (i_av x)) (i_ars x) r = true ->
    slot_of pm (i_rules x) r = Some s ->
    a_logic (mi_attrs s) <> LOrdered ->
    slot_det pm (prreverse (i_vendor x)) (i_rules x) s ->
    (forall r' s', In r' (keys (i_old x)) -> slot_of pm (i_rules x) r' = Some s' ->
                   reverse_of (prreverse (i_vendor x)) s' = reverse_of (prreverse (i_vendor x)) s -> r' = r) ->
    slot_occupied pm (i_rules x) r (after x (cmd_paths (v_family (i_vendor x)) p)) = true.
Proof. exact C02_c_top_model. Qed.
Print Assumptions C02_cant_delete_kept_top_of_model.

(* the same with every hypothesis in computable form ([c_top_guard]: block family, regular diff,
   one set of attributes per rule text at the top of the rulebook, r a cant_delete row of old whose
   rule is not %ordered and whose removal command is that of no other row of old) *)
Theorem C02_cant_delete_kept_top_guarded :
  forall x ordering p r,
    c_top_guard x r = true ->
    snd (p_acl_diff_and_patch (i_vendor x) (i_av x) (i_ars x) (i_rules x) ordering (i_old x) (i_new x)) = POk p ->
    slot_occupied pm (i_rules x) r (after x (cmd_paths (v_family (i_vendor x)) p)) = true.
Proof. exact C02_c_top_guarded. Qed.
Print Assumptions C02_cant_delete_kept_top_guarded.

(* (b), device level, PARTIAL (top level): a top-level entry (u, t) of old that the ACL does not pass is
   still on the device with exactly the same subtree after the whole command stream of the patch, for
   every block formatter, ordering rulebook, old and new - provided the ACL does not split its slot
   (no passed row of old or of the filtered new is in the slot of u: slot_closed at the top level) and
   the removal command of no passed row of old is matched by a rule or hits u (device domain).
   Missing for the full statement C02_uncovered_untouched_statement: rows below the top level. *)
Theorem C02_uncovered_untouched_partial :
  forall amatch_ asrc arev anorm rmatch rsrc rrev block_exit rreverse is_exit f ars rs ordering old new p u t,
    is_block_family f = true ->
    (forall e, In e (family_exits f) -> is_exit e = true) ->
    diff_regular (acl_make_diff amatch_ asrc arev anorm rmatch ars rs
                    (acl_filter amatch_ asrc arev anorm ars old) (acl_filter amatch_ asrc arev anorm ars new)) = true ->
    snd (acl_diff_and_patch amatch_ asrc arev anorm rmatch rsrc rrev block_exit rreverse ars rs ordering old new) = POk p ->
    In (u, t) old ->
    acl_passes amatch_ asrc arev anorm ars u = None ->
    (forall r' s' crs, In r' (keys old) \/ In r' (keys (acl_filter amatch_ asrc arev anorm ars new)) ->
                       acl_passes amatch_ asrc arev anorm ars r' <> None ->
                       match_row rmatch r' rs = Some (s', crs) -> in_slot rmatch rs s' (u, t) = false) ->
    (forall r' s', In r' (keys old) -> acl_passes amatch_ asrc arev anorm ars r' <> None -> slot_of rmatch rs r' = Some s' ->
                   match_row rmatch (reverse_of rreverse s') rs = None /\
                   reverse_hits rmatch rreverse rs (reverse_of rreverse s') (u, t) = false) ->
    In (u, t) (exec rmatch rreverse is_exit rs (cmd_paths f p) old).
Proof. exact uncovered_untouched_top. Qed.
Print Assumptions C02_uncovered_untouched_partial.

(* the same for the instantiated model with every hypothesis in computable form *)
Theorem C02_uncovered_untouched_top_guarded :
  forall x ordering p u t,
    b_top_guard x u t = true ->
    snd (p_acl_diff_and_patch (i_vendor x) (i_av x) (i_ars x) (i_rules x) ordering (i_old x) (i_new x)) = POk p ->
    In (u, t) (after x (cmd_paths (v_family (i_vendor x)) p)).
Proof. exact C02_b_top_guarded. Qed.
Print Assumptions C02_uncovered_untouched_top_guarded.

(* the device: a command path leaves an entry alone unless it addresses it - for ANY command stream *)
Theorem C02_device_entry_kept :
  forall rmatch rreverse is_exit rs e ps f,
    (forall p, In p ps -> spares rmatch rreverse is_exit rs e p) -> In e f ->
    In e (exec rmatch rreverse is_exit rs ps f).
Proof. exact exec_keeps. Qed.
Print Assumptions C02_device_entry_kept.

(* the device: a direct command never empties a slot, a removal command only the slots whose
   removal command it is, a command inside a block none of the level - for ANY command stream *)
Theorem C02_device_slot_stays_occupied :
  forall rmatch rreverse is_exit rs s, slot_det rmatch rreverse rs s ->
    forall ps f, occupied rmatch rs s f = true ->
    (forall c, In [c] ps -> is_exit c = false -> match_row rmatch c rs = None -> c <> reverse_of rreverse s) ->
    occupied rmatch rs s (exec rmatch rreverse is_exit rs ps f) = true.
Proof. exact exec_occupied. Qed.
Print Assumptions C02_device_slot_stays_occupied.

(* ------------------------------------------------------------------------------------ *)
(* (b), (c) on the device for rows at EVERY depth (Proofs/AclDeviceNested.v)             *)

(* The cursor invariant of Device.exec_path.  Executing the command path hs ++ q (q not empty):
   the block reached by entering the first entries with texts hs is afterwards what executing q
   in it gives, under the rules that govern it (and nothing happens if no rule knows a header) ... *)
Theorem C02_device_cursor :
  forall rmatch rreverse is_exit hs rs q f, q <> [] ->
    descend hs (exec_path rmatch rreverse is_exit rs (hs ++ q) f) =
    match rwalk rmatch rs hs with
    | Some rs' => option_map (exec_path rmatch rreverse is_exit rs' q) (descend hs f)
    | None => descend hs f
    end.
Proof. exact exec_path_cursor. Qed.
Print Assumptions C02_device_cursor.

(* ... a longer path that leaves the chain hs does not touch that block at all ... *)
Theorem C02_device_cursor_elsewhere :
  forall rmatch rreverse is_exit hs rs p f,
    List.length hs < List.length p -> firstn (List.length hs) p <> hs ->
    descend hs (exec_path rmatch rreverse is_exit rs p f) = descend hs f.
Proof. exact exec_path_elsewhere. Qed.
Print Assumptions C02_device_cursor_elsewhere.

(* ... and on every level a path that works inside the block c keeps the rows of the level and leaves
   every sibling of c, with its whole subtree, exactly as it was *)
Theorem C02_device_siblings_untouched :
  forall rmatch rreverse is_exit rs c c2 rest f,
    keys (exec_path rmatch rreverse is_exit rs (c :: c2 :: rest) f) = keys f /\
    (forall r, r <> c -> tfind r (exec_path rmatch rreverse is_exit rs (c :: c2 :: rest) f) = tfind r f) /\
    tfind c (exec_path rmatch rreverse is_exit rs (c :: c2 :: rest) f) =
    match match_row rmatch c rs with
    | Some (_, crs) => option_map (fun t => T (exec_path rmatch rreverse is_exit crs (c2 :: rest) (kids t))) (tfind c f)
    | None => tfind c f
    end.
Proof.
  intros. split; [apply exec_path_level_rows|]. split; [intros r Hr; apply exec_path_sibling; exact Hr | apply exec_path_block].
Qed.
Print Assumptions C02_device_siblings_untouched.

(* Chains of blocks, for ANY command stream: if every path of the stream leaves the chain hs alone
   ([pspares]: on the level of hi a command is the header hi itself - the block is entered and keeps its
   children, except those of %rewrite rules -, an exit word, a direct command of another slot, or a
   removal command other than that of hi; below, recursively) and keeps the property P of the block at
   the end of the chain, then the chain and P survive the whole stream. *)
Theorem C02_device_chain_kept :
  forall rmatch rreverse is_exit (P : rset -> forest -> Prop),
    (forall rs g, P rs g -> P rs (enter rmatch rs g)) ->
    forall hs rs ps f,
      chain rmatch rs hs P f ->
      (forall p, In p ps ->
                 pspares rmatch rreverse is_exit rs hs
                         (fun rs' q => forall g, P rs' g -> P rs' (exec_path rmatch rreverse is_exit rs' q g)) p) ->
      chain rmatch rs hs P (exec rmatch rreverse is_exit rs ps f).
Proof. exact exec_chain. Qed.
Print Assumptions C02_device_chain_kept.

(* (c) at every depth, every row matcher, ACL, rulebook, ordering, block formatter, old and new.
   The device holds old.  hs = h1 .. hk is a chain of blocks of old ([chain]: every hi occupies its
   (rule, key) slot on its level and is not the row of a %rewrite rule), each passed by the ACL, and the
   diff the patch is made from neither removes nor replaces any of them ([dchain]: on the diff level at
   the place of hi every entry of the slot of hi is hi itself and is not REMOVED / MOVED; removal commands
   of that level are matched by no rule and are that of the slot of hi only for entries of that slot) -
   "all ancestors survive", which cannot be dropped: C02_cant_delete_ancestor_refuted below.
   In the block reached, s is the slot of a row r governed by a cant_delete ACL rule ([Rc]: r's rule is not
   %ordered, its removal command is that of no other REMOVED / MOVED entry of that diff level; [Pc]: s
   is occupied in old, entries of s share the removal command and none is the row of a %rewrite rule).
   Then after the whole command stream of the patch the chain of blocks is still there and the slot s
   in the block reached is still occupied.  (For hs = [] see C02_cant_delete_kept_partial, which states the
   condition on removal commands over the rows of old - every REMOVED entry of the diff is one - and needs
   no %rewrite condition, nothing being entered above the top level.) *)
Theorem C02_cant_delete_kept :
  forall amatch_ asrc arev anorm rmatch rsrc rrev block_exit rreverse is_exit f ars rs ordering old new p hs r s,
    is_block_family f = true ->
    (forall e, In e (family_exits f) -> is_exit e = true) ->
    diff_regular (acl_make_diff amatch_ asrc arev anorm rmatch ars rs
                    (acl_filter amatch_ asrc arev anorm ars old) (acl_filter amatch_ asrc arev anorm ars new)) = true ->
    snd (acl_diff_and_patch amatch_ asrc arev anorm rmatch rsrc rrev block_exit rreverse ars rs ordering old new) = POk p ->
    chain rmatch rs hs (Pc rmatch rreverse s) old ->
    dchain amatch_ asrc arev anorm rmatch rreverse ars rs hs
           (acl_make_diff amatch_ asrc arev anorm rmatch ars rs
              (acl_filter amatch_ asrc arev anorm ars old) (acl_filter amatch_ asrc arev anorm ars new))
           (Rc amatch_ asrc arev anorm rmatch rreverse r s) ->
    chain rmatch rs hs (Pc rmatch rreverse s) (exec rmatch rreverse is_exit rs (cmd_paths f p) old).
Proof. exact cant_delete_kept_deep. Qed.
Print Assumptions C02_cant_delete_kept.

(* the same read with tfind, as Spec/P_C02.v does: the blocks hs can be entered one after the other
   in the device after the patch, and the slot of r is occupied in the block reached *)
Theorem C02_cant_delete_kept_descend :
  forall amatch_ asrc arev anorm rmatch rsrc rrev block_exit rreverse is_exit f ars rs ordering old new p hs r s,
    is_block_family f = true ->
    (forall e, In e (family_exits f) -> is_exit e = true) ->
    diff_regular (acl_make_diff amatch_ asrc arev anorm rmatch ars rs
                    (acl_filter amatch_ asrc arev anorm ars old) (acl_filter amatch_ asrc arev anorm ars new)) = true ->
    snd (acl_diff_and_patch amatch_ asrc arev anorm rmatch rsrc rrev block_exit rreverse ars rs ordering old new) = POk p ->
    chain rmatch rs hs (Pc rmatch rreverse s) old ->
    dchain amatch_ asrc arev anorm rmatch rreverse ars rs hs
           (acl_make_diff amatch_ asrc arev anorm rmatch ars rs
              (acl_filter amatch_ asrc arev anorm ars old) (acl_filter amatch_ asrc arev anorm ars new))
           (Rc amatch_ asrc arev anorm rmatch rreverse r s) ->
    exists rs' g, rwalk rmatch rs hs = Some rs' /\
                  descend hs (exec rmatch rreverse is_exit rs (cmd_paths f p) old) = Some g /\
                  occupied rmatch rs' s g = true.
Proof.
  intros until s. intros Hf Hex Hreg Hp Hc Hd.
  destruct (chain_descend rmatch _ hs rs _ (cant_delete_kept_deep amatch_ asrc arev anorm rmatch rsrc rrev block_exit rreverse
              is_exit f ars rs ordering old new p hs r s Hf Hex Hreg Hp Hc Hd)) as (rs' & g & H1 & H2 & H3 & _).
  exists rs', g. repeat split; assumption.
Qed.
Print Assumptions C02_cant_delete_kept_descend.

(* (b) at every depth.  Along a chain hs of blocks of old as above, an entry (u, t) of the block reached
   that the ACL does not pass (or that no rule knows) is, after the whole command stream of the patch,
   still the first entry with text u of that block, with exactly the same subtree t - provided no entry of
   the diff level at its place is in the slot of u (the ACL does not split the slot: slot_closed; without
   it the statement is false, C02_slot_split_refuted) and no removal command of that level hits u ([Rb]);
   [Pb]: (u, t) is the first entry with text u in old and u is not the row of a %rewrite rule.
   (For hs = [] see C02_uncovered_untouched_partial.) *)
Theorem C02_uncovered_untouched :
  forall amatch_ asrc arev anorm rmatch rsrc rrev block_exit rreverse is_exit f ars rs ordering old new p hs u t,
    is_block_family f = true ->
    (forall e, In e (family_exits f) -> is_exit e = true) ->
    diff_regular (acl_make_diff amatch_ asrc arev anorm rmatch ars rs
                    (acl_filter amatch_ asrc arev anorm ars old) (acl_filter amatch_ asrc arev anorm ars new)) = true ->
    snd (acl_diff_and_patch amatch_ asrc arev anorm rmatch rsrc rrev block_exit rreverse ars rs ordering old new) = POk p ->
    chain rmatch rs hs (Pb rmatch u t) old ->
    dchain amatch_ asrc arev anorm rmatch rreverse ars rs hs
           (acl_make_diff amatch_ asrc arev anorm rmatch ars rs
              (acl_filter amatch_ asrc arev anorm ars old) (acl_filter amatch_ asrc arev anorm ars new))
           (Rb amatch_ asrc arev anorm rmatch rreverse u t) ->
    chain rmatch rs hs (Pb rmatch u t) (exec rmatch rreverse is_exit rs (cmd_paths f p) old).
Proof. exact uncovered_untouched_deep. Qed.
Print Assumptions C02_uncovered_untouched.

(* The ancestor exception, positively: a block (h, t) of old all of whose entries in the diff are REMOVED
   (rule not `permanent`, removal commands of its level matched by no rule) is, after the whole stream,
   either untouched and alone in its slot or gone - the patch never re-creates or enters it ([PR], [RR]).
   Rests on Proofs/AclPatchRel2.v: only the `permanent` logic answers a REMOVED entry with a direct
   command.  So "the ancestors survive" in (b), (c) is decided by the diff, not by the order of commands. *)
Theorem C02_removed_block_not_recreated :
  forall amatch_ asrc arev anorm rmatch rsrc rrev block_exit rreverse is_exit f ars rs ordering old new p hs h t s,
    is_block_family f = true ->
    (forall e, In e (family_exits f) -> is_exit e = true) ->
    diff_regular (acl_make_diff amatch_ asrc arev anorm rmatch ars rs
                    (acl_filter amatch_ asrc arev anorm ars old) (acl_filter amatch_ asrc arev anorm ars new)) = true ->
    snd (acl_diff_and_patch amatch_ asrc arev anorm rmatch rsrc rrev block_exit rreverse ars rs ordering old new) = POk p ->
    chain rmatch rs hs (PR rmatch h t s) old ->
    dchain amatch_ asrc arev anorm rmatch rreverse ars rs hs
           (acl_make_diff amatch_ asrc arev anorm rmatch ars rs
              (acl_filter amatch_ asrc arev anorm ars old) (acl_filter amatch_ asrc arev anorm ars new))
           (RR rmatch rreverse h s) ->
    chain rmatch rs hs (PR rmatch h t s) (exec rmatch rreverse is_exit rs (cmd_paths f p) old).
Proof. exact removed_block_deep. Qed.
Print Assumptions C02_removed_block_not_recreated.

(* a direct item of the patch stands for a REMOVED entry of the diff only under the `permanent` logic *)
Theorem C02_patch_items_sharp :
  forall rmatch rsrc rrev block_exit rreverse D ord t,
    make_patch rmatch rsrc rrev block_exit rreverse (make_pre D) ord = POk t -> pt_rel2 rreverse t D.
Proof. exact make_patch_rel2. Qed.
Print Assumptions C02_patch_items_sharp.

(* THE CLAUSES OF P_C02, as evaluated on real outputs, for the model pipeline - all rows of old, every depth.
   [c_deep_guard x] / [b_deep_guard x] (computable; Proofs/AclDeviceNested.v section 6) state the hypotheses
   above for every row of old at once: block formatter, regular diff, and walking old, the ACL, the
   rulebook and the diff together, for every passed row the rulebook knows
     (c) if it is cant_delete: one attribute set per rule text on its level, rule neither %ordered nor
         %rewrite, removal command that of no other REMOVED / MOVED entry of the diff level;
     (b) for every row the ACL does not pass: first entry with its text, not a %rewrite row, no diff entry in
         its slot (slot_closed), no removal command of the level hits it;
     and if it has children: either it is followed (occupies its slot, not %rewrite, the diff neither removes
         nor replaces it, removal commands unambiguous) and the same holds below, or the diff removes it
         (then it is untouched or gone, C02_removed_block_not_recreated; sibling rows below distinct).
   Not covered (guard false): a block with children that is cant_delete / `permanent` and absent from new
   while new holds another row of its slot, and blocks of %rewrite rules. *)
Theorem C02_cant_delete_kept_of_model :
  forall x ordering, c_deep_guard x = true -> C02_c x (model_out x ordering) = true.
Proof. exact C02_c_deep_model. Qed.
Print Assumptions C02_cant_delete_kept_of_model.

Theorem C02_uncovered_untouched_of_model :
  forall x ordering, b_deep_guard x = true -> C02_b x (model_out x ordering) = true.
Proof. exact C02_b_deep_model. Qed.
Print Assumptions C02_uncovered_untouched_of_model.

(* the FULL form of (c), without the ancestor exception (clause cl_c_deep of the run-time predicate): it holds
   as soon as, moreover, no passed cant_delete row sits inside a block that the diff removes ([c_full_guard]) -
   the class of the open finding C02_cant_delete_ancestor_refuted is the only obstacle *)
Theorem C02_cant_delete_kept_full_of_model :
  forall x ordering, c_full_guard x = true -> C02_c_deep x (model_out x ordering) = true.
Proof. exact C02_c_full_model. Qed.
Print Assumptions C02_cant_delete_kept_full_of_model.

Theorem C02_holds_of_model :
  forall x ordering, c_full_guard x = true -> b_deep_guard x = true -> P_C02 x (model_out x ordering) = true.
Proof.
  intros x ordering Hc Hb. unfold P_C02.
  assert (Hreg : diff_regular (p_full_diff x) = true).
  { unfold c_full_guard in Hc. rewrite !andb_true_iff in Hc. tauto. }
  rewrite (C02_a_model x ordering Hreg), (C02_a_diff_model x ordering), (C02_b_deep_model x ordering Hb), (C02_c_full_model x ordering Hc).
  reflexivity.
Qed.
Print Assumptions C02_holds_of_model.

(* all clauses together: the predicate with the ancestor exception holds of the model pipeline *)
Theorem C02_weak_holds_of_model :
  forall x ordering, c_deep_guard x = true -> b_deep_guard x = true -> P_C02_weak x (model_out x ordering) = true.
Proof.
  intros x ordering Hc Hb. unfold P_C02_weak.
  assert (Hreg : diff_regular (p_full_diff x) = true).
  { unfold c_deep_guard in Hc. rewrite !andb_true_iff in Hc. tauto. }
  rewrite (C02_a_model x ordering Hreg), (C02_a_diff_model x ordering), (C02_b_deep_model x ordering Hb), (C02_c_deep_model x ordering Hc).
  reflexivity.
Qed.
Print Assumptions C02_weak_holds_of_model.

(* ------------------------------------------------------------------------------------ *)
(* (b), (c) FROM THE DEVICE DOMAIN ALONE (Proofs/AclGuardDomain.v)                          *)
(* The guards above are stated on the entries of the diff.  They follow from hypotheses on old, the ACL-filtered new
   and the rulebook only:
     [c02_dev_domain_A]  the device domain Spec/P_C01.v wf_A on old and the filtered new: distinct sibling rows, one row
                         per (rule, key) slot, and on the universe of rows of both: default diff logic, logic among
                         default / undo_redo / permanent / ignore_changes, no %force_commit, unambiguous removal
                         commands, one set of attributes per rule text - i.e. [c02_dev_domain] minus %force_commit;
     [c02_rules_det]     one set of attributes per rule text on every rule set that a row of old reaches (what a rulebook
                         parsed from text guarantees; the domain says it of the rows of old and new only);
     [c02_kept_ok]       no passed block of old with children, known to the rulebook and reached through such blocks, that
                         is absent from new at its place and (X1) is governed by a cant_delete ACL rule while new holds
                         another row of its slot, or (X2) is not cant_delete and its patching rule is `permanent`;
     [c02_closed]        the ACL does not split a slot (for (b)).
   One level of that diff inside the domain is characterised exactly (every entry is the entry of a row of the filtered
   new - ADDED, or AFFECTED / UNCHANGED when old has the row - or of a row of the filtered old that new lacks - REMOVED, or
   AFFECTED / UNCHANGED under a cant_delete ACL rule; below an entry that is neither ADDED nor REMOVED the diff is again
   such a diff), at every depth. *)
Theorem C02_diff_level_in_domain :
  forall amatch_ asrc arev anorm rmatch rreverse is_exit ars rs U of nf n,
    ConvergeMain.uok rmatch rreverse is_exit rs U -> ConvergeMain.good rmatch rs U of -> ConvergeMain.good rmatch rs U nf ->
    In n (acl_make_diff amatch_ asrc arev anorm rmatch ars rs of nf) ->
    exists m acrs crs,
      acl_match amatch_ asrc arev anorm (d_row n) ars = MSome m acrs /\ match_row rmatch (d_row n) rs = Some (d_mi n, crs) /\
      ((exists tn, In (d_row n, tn) nf /\
                   ((exists to, In (d_row n, to) of /\ is_rm (d_op n) = false /\
                                d_kids n = acl_make_diff amatch_ asrc arev anorm rmatch acrs crs (kids to) (kids tn)) \/
                    (~ In (d_row n) (keys of) /\ d_op n = Added))) \/
       (exists to, In (d_row n, to) of /\ ~ In (d_row n) (keys nf) /\
                   ((all_cd m = false /\ d_op n = Removed) \/
                    (all_cd m = true /\ is_rm (d_op n) = false /\
                     d_kids n = acl_make_diff amatch_ asrc arev anorm rmatch acrs crs (kids to) [])))).
Proof. exact level_entry. Qed.
Print Assumptions C02_diff_level_in_domain.

(* the diff the patch is made from is regular inside the domain (no guard on the diff is left) *)
Theorem C02_diff_regular_in_domain : forall x, c02_dev_domain_A x = true -> diff_regular (p_full_diff x) = true.
Proof. exact domain_diff_regular_model. Qed.
Print Assumptions C02_diff_regular_in_domain.

(* the guards of the full-depth theorems follow from the domain *)
Theorem C02_c_guard_from_domain :
  forall x, is_block_family (v_family (i_vendor x)) = true -> c02_dev_domain_A x = true ->
            c02_rules_det x = true -> c02_kept_ok x = true -> c_deep_guard x = true.
Proof. exact domain_c_deep_guard. Qed.
Print Assumptions C02_c_guard_from_domain.

Theorem C02_b_guard_from_domain :
  forall x, is_block_family (v_family (i_vendor x)) = true -> c02_dev_domain_A x = true -> c02_closed x = true ->
            c02_kept_ok x = true -> b_deep_guard x = true.
Proof. exact domain_b_deep_guard. Qed.
Print Assumptions C02_b_guard_from_domain.

(* (c): C02_cant_delete_kept_statement for block formatters, without %force_commit, outside the classes X1 / X2 *)
Theorem C02_cant_delete_kept_in_domain :
  forall x ordering, is_block_family (v_family (i_vendor x)) = true -> c02_dev_domain_A x = true ->
                     c02_rules_det x = true -> c02_kept_ok x = true -> C02_c x (model_out x ordering) = true.
Proof. exact C02_c_domain_model. Qed.
Print Assumptions C02_cant_delete_kept_in_domain.

(* (b): C02_uncovered_untouched_statement, likewise *)
Theorem C02_uncovered_untouched_in_domain :
  forall x ordering, is_block_family (v_family (i_vendor x)) = true -> c02_dev_domain_A x = true -> c02_closed x = true ->
                     c02_kept_ok x = true -> C02_b x (model_out x ordering) = true.
Proof. exact C02_b_domain_model. Qed.
Print Assumptions C02_uncovered_untouched_in_domain.

(* all clauses of the predicate with the ancestor exception, from the domain alone *)
Theorem C02_weak_holds_in_domain :
  forall x ordering, is_block_family (v_family (i_vendor x)) = true -> c02_dev_domain_A x = true -> c02_closed x = true ->
                     c02_rules_det x = true -> c02_kept_ok x = true -> P_C02_weak x (model_out x ordering) = true.
Proof.
  intros x ordering Hf Hd Hcl Hdet Hk. apply C02_weak_holds_of_model.
  - apply domain_c_deep_guard; assumption.
  - apply domain_b_deep_guard; assumption.
Qed.
Print Assumptions C02_weak_holds_in_domain.

(* the FULL form of (c) and the property P_C02 itself from the domain alone: [c02_kept_ok_full] says moreover that no
   passed cant_delete row sits inside a deletable block of old that is absent from new at its place - the class of the
   open finding C02_cant_delete_ancestor_refuted, stated on old / new instead of on the diff *)
Theorem C02_c_full_guard_from_domain :
  forall x, is_block_family (v_family (i_vendor x)) = true -> c02_dev_domain_A x = true ->
            c02_rules_det x = true -> c02_kept_ok_full x = true -> c_full_guard x = true.
Proof. exact domain_c_full_guard. Qed.
Print Assumptions C02_c_full_guard_from_domain.

Theorem C02_cant_delete_kept_full_in_domain :
  forall x ordering, is_block_family (v_family (i_vendor x)) = true -> c02_dev_domain_A x = true ->
                     c02_rules_det x = true -> c02_kept_ok_full x = true -> C02_c_deep x (model_out x ordering) = true.
Proof. exact C02_c_full_domain_model. Qed.
Print Assumptions C02_cant_delete_kept_full_in_domain.

Theorem C02_holds_in_domain :
  forall x ordering, is_block_family (v_family (i_vendor x)) = true -> c02_dev_domain_A x = true -> c02_closed x = true ->
                     c02_rules_det x = true -> c02_kept_ok_full x = true -> P_C02 x (model_out x ordering) = true.
Proof.
  intros x ordering Hf Hd Hcl Hdet Hk. apply C02_holds_of_model.
  - apply domain_c_full_guard; assumption.
  - apply (domain_b_deep_guard_with true); assumption.
Qed.
Print Assumptions C02_holds_in_domain.

(* the shared report evaluated by the harness is the list of the predicates of Spec/P_C02.v *)
Theorem C02_report_is_the_predicates :
  forall c, c2_report c =
            [c2_agree_compile c; c2_agree_filter c; c2_agree_diff_full c; c2_agree_diff c; c2_agree_patch c;
             c2_agree_paths c; c2_agree_lines c; c2_gen_same c; c2_holds c; c2_cl_a c; c2_cl_a_diff c; c2_cl_b c;
             c2_cl_c c; c2_cl_c_deep c; c2_st_domain c; c2_st_closed c; c2_st_b_unguarded c; c2_st_c_text c;
             c2_st_a_textual c].
Proof. exact c2_report_spec. Qed.
Print Assumptions C02_report_is_the_predicates.

(* ------------------------------------------------------------------------------------ *)
(* witnesses (each is also run through the real _diff_and_patch on every check: the corpus
   of harness/props/c02.py)                                                               *)

Definition hw := Vendor "undo" "quit" FHuawei.
Definition hav := AVendor "undo" false.
Definition leaf (pat : string) := PRule pat false (Attrs pat LDefault DDefault false false) [] [].
Definition acl_of (a : acl) : aset := match compile_acl a with Some r => r | None => ([], []) end.

(* non-vacuity of the guard of C02_cmds_covered, and of the device domain of (b), (c) *)
Definition w0_rules : rset :=
  ([PRule "interface *" false (Attrs "interface *" LDefault DDefault true false) [leaf "mtu *"; leaf "descr ~"] []; leaf "vlan *"], []).
Definition w0_acl : acl :=
  [AItem "interface *" "interface *" false false None 0 [] [AItem "mtu *" "mtu *" false false None 0 [] []]].
Definition w0 :=
  C02In hw hav (acl_of w0_acl) w0_rules
        [("interface Eth1", T [("mtu 1500", T []); ("descr a b", T [])]); ("interface Eth2", T [("mtu 9000", T [])]); ("vlan 5", T [])]
        [("interface Eth1", T [("mtu 9000", T [])]); ("interface Eth3", T [("mtu 1500", T [])])].
Example C02_guards_not_vacuous :
  diff_regular (p_full_diff w0) = true /\ c02_dev_domain w0 = true /\ c02_closed w0 = true /\
  o_cmds (model_out w0 []) =
    Some [["interface Eth1"]; ["interface Eth1"; "undo mtu 1500"]; ["interface Eth1"; "mtu 9000"]; ["interface Eth1"; "quit"];
          ["interface Eth3"]; ["interface Eth3"; "mtu 1500"]; ["interface Eth3"; "quit"];
          ["interface Eth2"]; ["interface Eth2"; "undo mtu 9000"]; ["interface Eth2"; "quit"]] /\
  (* interface Eth2 (cant_delete by default) is emptied, not removed; "descr a b" and "vlan 5" are outside the ACL *)
  after w0 [["interface Eth1"]; ["interface Eth1"; "undo mtu 1500"]; ["interface Eth1"; "mtu 9000"]; ["interface Eth1"; "quit"];
            ["interface Eth3"]; ["interface Eth3"; "mtu 1500"]; ["interface Eth3"; "quit"];
            ["interface Eth2"]; ["interface Eth2"; "undo mtu 9000"]; ["interface Eth2"; "quit"]] =
    [("interface Eth1", T [("descr a b", T []); ("mtu 9000", T [])]); ("interface Eth2", T []); ("vlan 5", T []);
     ("interface Eth3", T [("mtu 1500", T [])])] /\
  P_C02 w0 (model_out w0 []) = true.
Proof. vm_compute. repeat split. Qed.

(* the guard of C02_cant_delete_kept_top_guarded holds for the interface that disappears from new *)
Example C02_top_guard_not_vacuous : c_top_guard w0 "interface Eth2" = true /\ c_top_guard w0 "interface Eth1" = true.
Proof. vm_compute. split; reflexivity. Qed.

(* the guard of C02_uncovered_untouched_top_guarded holds for the row outside the ACL *)
Example C02_b_top_guard_not_vacuous : b_top_guard w0 "vlan 5" (T []) = true.
Proof. vm_compute. reflexivity. Qed.

(* non-vacuity of the full-depth theorems: a cant_delete row ("pwd x") and a row outside the ACL ("descr foo
   bar") two blocks deep, next to a non-empty block the diff removes ("peer b") *)
Definition blk (pat : string) (k : list prule) := PRule pat false (Attrs pat LDefault DDefault true false) k [].
Definition w4_rules : rset := ([blk "bgp *" [blk "peer *" [leaf "pwd *"; leaf "descr ~"; leaf "ttl *"]]; leaf "vlan *"], []).
Definition w4_acl : acl :=
  [AItem "bgp *" "bgp *" false false None 0 []
     [AItem "peer *" "peer *" false false None 0 []
        [AItem "pwd * %cant_delete=1" "pwd *" false false (Some [true]) 0 [] [];
         AItem "ttl *" "ttl *" false false None 0 [] []]]].
Definition w4 :=
  C02In hw hav (acl_of w4_acl) w4_rules
        [("bgp 1", T [("peer a", T [("pwd x", T []); ("descr foo bar", T []); ("ttl 5", T [])]); ("peer b", T [("ttl 1", T [])])]);
         ("vlan 5", T [])]
        [("bgp 1", T [("peer a", T [("ttl 9", T [])])])].
Example C02_deep_guards_not_vacuous :
  c_deep_guard w4 = true /\ c_full_guard w4 = true /\ b_deep_guard w4 = true /\ c02_dev_domain w4 = true /\ c02_closed w4 = true /\
  o_cmds (model_out w4 []) =
    Some [["bgp 1"]; ["bgp 1"; "undo peer b"]; ["bgp 1"; "peer a"]; ["bgp 1"; "peer a"; "undo ttl 5"];
          ["bgp 1"; "peer a"; "ttl 9"]; ["bgp 1"; "peer a"; "quit"]; ["bgp 1"; "quit"]] /\
  after w4 [["bgp 1"]; ["bgp 1"; "undo peer b"]; ["bgp 1"; "peer a"]; ["bgp 1"; "peer a"; "undo ttl 5"];
            ["bgp 1"; "peer a"; "ttl 9"]; ["bgp 1"; "peer a"; "quit"]; ["bgp 1"; "quit"]] =
    [("bgp 1", T [("peer a", T [("pwd x", T []); ("descr foo bar", T []); ("ttl 9", T [])])]); ("vlan 5", T [])] /\
  P_C02 w4 (model_out w4 []) = true.
Proof. vm_compute. repeat split. Qed.

(* the hypotheses of C02_cant_delete_kept hold for the row "pwd x" below bgp 1 / peer a *)
Definition w4_s := MI "pwd *" ["x"] (Attrs "pwd *" LDefault DDefault false false).
Example C02_cant_delete_kept_not_vacuous :
  chain pm (i_rules w4) ["bgp 1"; "peer a"] (Pc pm (prreverse hw) w4_s) (i_old w4) /\
  dchain acl_pm acl_psrc (acl_prev hav) (acl_norm hav) pm (prreverse hw) (i_ars w4) (i_rules w4) ["bgp 1"; "peer a"]
         (p_full_diff w4) (Rc acl_pm acl_psrc (acl_prev hav) (acl_norm hav) pm (prreverse hw) "pwd x" w4_s).
Proof.
  split.
  - cbn [chain]. eexists _, _, _. split; [vm_compute; reflexivity|]. split; [reflexivity|]. split; [vm_compute; reflexivity|].
    eexists _, _, _. split; [vm_compute; reflexivity|]. split; [reflexivity|]. split; [vm_compute; reflexivity|].
    split; [vm_compute; reflexivity|]. split.
    + eapply (slot_det_of_rules_det pm (prreverse hw) _ "pwd x"); vm_compute; reflexivity.
    + intros row m Hm Hss. unfold is_rewrite.
      erewrite (slot_attrs_of_rules_det pm _ "pwd x" w4_s); [reflexivity | | | exact Hm | exact Hss]; vm_compute; reflexivity.
  - cbn [dchain]. eexists _, _, _. split; [vm_compute; reflexivity|]. split; [vm_compute; reflexivity|].
    split; [apply stable_b_spec; vm_compute; reflexivity|]. split; [apply rev_ok_b_spec; vm_compute; reflexivity|].
    eexists _, _, _. split; [vm_compute; reflexivity|]. split; [vm_compute; reflexivity|].
    split; [apply stable_b_spec; vm_compute; reflexivity|]. split; [apply rev_ok_b_spec; vm_compute; reflexivity|].
    split; [vm_compute; reflexivity|]. split; [vm_compute; reflexivity|]. split; [vm_compute; discriminate|].
    apply rev_only_b_spec. vm_compute. reflexivity.
Qed.

(* ... and those of C02_uncovered_untouched for the entry ("descr foo bar", T []) of the same block *)
Example C02_uncovered_untouched_not_vacuous :
  chain pm (i_rules w4) ["bgp 1"; "peer a"] (Pb pm "descr foo bar" (T [])) (i_old w4) /\
  dchain acl_pm acl_psrc (acl_prev hav) (acl_norm hav) pm (prreverse hw) (i_ars w4) (i_rules w4) ["bgp 1"; "peer a"]
         (p_full_diff w4) (Rb acl_pm acl_psrc (acl_prev hav) (acl_norm hav) pm (prreverse hw) "descr foo bar" (T [])).
Proof.
  split.
  - cbn [chain]. eexists _, _, _. split; [vm_compute; reflexivity|]. split; [reflexivity|]. split; [vm_compute; reflexivity|].
    eexists _, _, _. split; [vm_compute; reflexivity|]. split; [reflexivity|]. split; [vm_compute; reflexivity|].
    split; [vm_compute; reflexivity | vm_compute; reflexivity].
  - cbn [dchain]. eexists _, _, _. split; [vm_compute; reflexivity|]. split; [vm_compute; reflexivity|].
    split; [apply stable_b_spec; vm_compute; reflexivity|]. split; [apply rev_ok_b_spec; vm_compute; reflexivity|].
    eexists _, _, _. split; [vm_compute; reflexivity|]. split; [vm_compute; reflexivity|].
    split; [apply stable_b_spec; vm_compute; reflexivity|]. split; [apply rev_ok_b_spec; vm_compute; reflexivity|].
    apply (Rb_intro acl_pm acl_psrc (acl_prev hav) (acl_norm hav) pm (prreverse hw) _
                    [("pwd x", T []); ("descr foo bar", T []); ("ttl 5", T [])]);
      [left; vm_compute; reflexivity | vm_compute; reflexivity].
Qed.

(* ... and those of C02_removed_block_not_recreated for the block "peer b" below bgp 1, which the diff removes *)
Definition w4_sb := MI "peer *" ["b"] (Attrs "peer *" LDefault DDefault true false).
Definition w4_bgp : forest :=
  [("peer a", T [("pwd x", T []); ("descr foo bar", T []); ("ttl 5", T [])]); ("peer b", T [("ttl 1", T [])])].
Example C02_removed_block_not_vacuous :
  chain pm (i_rules w4) ["bgp 1"] (PR pm "peer b" (T [("ttl 1", T [])]) w4_sb) (i_old w4) /\
  dchain acl_pm acl_psrc (acl_prev hav) (acl_norm hav) pm (prreverse hw) (i_ars w4) (i_rules w4) ["bgp 1"]
         (p_full_diff w4) (RR pm (prreverse hw) "peer b" w4_sb).
Proof.
  split.
  - cbn [chain]. eexists _, _, _. split; [vm_compute; reflexivity|]. split; [reflexivity|]. split; [vm_compute; reflexivity|].
    refine (proj1 (removed_b_spec pm (prreverse hw) (i_ars w4) _ _ _ _ _ (dsub "bgp 1" (p_full_diff w4)) _ _)); vm_compute; reflexivity.
  - cbn [dchain]. eexists _, _, _. split; [vm_compute; reflexivity|]. split; [vm_compute; reflexivity|].
    split; [apply stable_b_spec; vm_compute; reflexivity|]. split; [apply rev_ok_b_spec; vm_compute; reflexivity|].
    refine (proj2 (removed_b_spec pm (prreverse hw) _ _ w4_bgp _ (T [("ttl 1", T [])]) _ _ _ _)); vm_compute; reflexivity.
Qed.

(* "never removed" is a statement about the (rule, key) slot: a cant_delete row whose key gets a
   new value is rewritten (the REMOVED entry becomes AFFECTED, then UNCHANGED; the ADDED entry of
   the same slot is emitted) - the slot stays occupied, the old text does not.  The literal-text
   reading of (c) is false, P_C02 holds. *)
Definition w2_rules : rset := ([leaf "mtu *"], []).
Definition w2_acl : acl := [AItem "mtu * %cant_delete=1" "mtu *" false false (Some [true]) 0 [] []].
Definition w2 := C02In hw hav (acl_of w2_acl) w2_rules [("mtu 1 x", T [])] [("mtu 1 y", T [])].
Theorem C02_rewrite_is_not_removal :
  exists x ordering, c02_dev_domain x = true /\
                     o_cmds (model_out x ordering) = Some [["mtu 1 y"]] /\
                     C02_c_text x (model_out x ordering) = false /\ P_C02 x (model_out x ordering) = true.
Proof. exists w2, []. vm_compute. repeat split. Qed.
Print Assumptions C02_rewrite_is_not_removal.

(* (b) needs slot_closed: when the ACL passes only some rows of a (rule, key) slot, the covered
   row of new replaces the uncovered row of old that occupies the slot - on any device that holds
   one line per slot.  Not a defect of the code: the ACL splits a slot. *)
Definition w3_acl : acl := [AItem "mtu * x" "mtu * x" false false None 0 [] []].
Definition w3 := C02In hw hav (acl_of w3_acl) w2_rules [("mtu 1 y", T [])] [("mtu 1 x", T [])].
Theorem C02_slot_split_refuted :
  exists x ordering, c02_dev_domain x = true /\ c02_closed x = false /\
                     C02_b_unguarded x (model_out x ordering) = false /\ P_C02 x (model_out x ordering) = true.
Proof. exists w3, []. vm_compute. repeat split. Qed.
Print Assumptions C02_slot_split_refuted.

(* FINDING (known/C02.json): cant_delete is not inherited by the blocks above.  A deletable,
   ACL-covered block is removed as a whole together with the cant_delete rows inside it: (c) in its
   full form is false, with the ancestor exception (P_C02_weak) it holds. *)
Definition w1_rules : rset :=
  ([PRule "alpha *" false (Attrs "alpha *" LDefault DDefault true false) [leaf "beta *"] []], []).
Definition w1_acl : acl :=
  [AItem "alpha *" "alpha *" false false None 0 []
         [AItem "beta * %cant_delete=1" "beta *" false false (Some [true]) 0 [] []]].
Definition w1 := C02In hw hav (acl_of w1_acl) w1_rules [("alpha 1", T [("beta 2", T [])])] [].
Theorem C02_cant_delete_ancestor_refuted :
  exists x ordering, c02_dev_domain x = true /\
                     o_cmds (model_out x ordering) = Some [["undo alpha 1"]] /\
                     C02_c_deep x (model_out x ordering) = false /\ P_C02_weak x (model_out x ordering) = true.
Proof. exists w1, []. vm_compute. repeat split. Qed.
Print Assumptions C02_cant_delete_ancestor_refuted.
(* on the witness the guard of the form with the exception holds, the guard of the full form does not *)
Example C02_ancestor_witness_guards : c_deep_guard w1 = true /\ c_full_guard w1 = false /\ b_deep_guard w1 = true.
Proof. vm_compute. repeat split. Qed.

(* ------------------------------------------------------------------------------------ *)
(* statements not proved in this generality (evaluated on every real output by the check)  *)

(* (c), device level: inside the device domain the slot of every cant_delete row of old whose
   ancestors are all still there is occupied after the patch.
   PROVED from the domain alone: C02_cant_delete_kept_in_domain - block formatter, [c02_dev_domain_A] (the domain minus
   %force_commit), [c02_rules_det], [c02_kept_ok].  What remains between that theorem and this statement, exactly:
   (1) %force_commit rules: the pseudo-command "commit" is executed by the reference device like any command; the
       clauses hold on the witness below (C02_force_commit_witness) but the diff is irregular and the proofs of (a) and
       of the chains do not cover it; for (b) this class is a genuine exception (C02_force_commit_refuted);
   (2) classes X1 / X2 of [c02_kept_ok]: a block with children, absent from new at its place, that is cant_delete while
       new holds another row of its slot (the default logic keeps the old block and drops the new row), or is
       `permanent` and not cant_delete (the logic answers the REMOVED entry with a direct command).  The clauses hold on
       the witnesses below (C02_kept_classes_witness: domain and clauses true, guards false); a proof needs the
       sharper relation "one direct item per (rule, key) group, the AFFECTED one first" of the patch;
   (3) rulebooks with two attribute sets for one rule text on a rule set old reaches ([c02_rules_det] false: the
       dictionary of a parsed rulebook cannot hold them);
   (4) formatters that are not block formatters (outside Model/Device.v). *)
Definition C02_cant_delete_kept_statement : Prop :=
  forall x ordering, c02_dev_domain x = true -> C02_c x (model_out x ordering) = true.
(* (b): inside the device domain and under slot_closed every row of old the ACL does not pass, whose
   ancestors are all still there, is unchanged with its subtree.
   PROVED from the domain alone: C02_uncovered_untouched_in_domain; what remains: as for (c) - and over the whole of
   [c02_dev_domain], i.e. with %force_commit rules, the statement is FALSE of the reference device
   (C02_uncovered_untouched_statement_refuted: the pseudo-command "commit" overwrites an uncovered row of a rule whose
   text is "commit"); it has to be read with [c02_dev_domain_A]. *)
Definition C02_uncovered_untouched_statement : Prop :=
  forall x ordering, c02_dev_domain x = true -> c02_closed x = true -> C02_b x (model_out x ordering) = true.

(* ------------------------------------------------------------------------------------ *)
(* the theorems from the domain alone: non-vacuity and the classes left                    *)

(* the hypotheses of C02_cant_delete_kept_in_domain / C02_uncovered_untouched_in_domain hold of the witnesses w0
   (interface default, rows outside the ACL) and w4 (cant_delete row and uncovered row two blocks deep, next to a
   block the diff removes) *)
Example C02_domain_theorems_not_vacuous :
  c02_dev_domain_A w0 = true /\ c02_rules_det w0 = true /\ c02_kept_ok w0 = true /\ c02_closed w0 = true /\
  c02_dev_domain_A w4 = true /\ c02_rules_det w4 = true /\ c02_kept_ok w4 = true /\ c02_closed w4 = true /\
  c02_kept_ok_full w0 = true /\ c02_kept_ok_full w4 = true.
Proof. vm_compute. repeat split. Qed.
(* on the witness of the open finding the hypothesis of the full form fails, that of the form with the exception holds *)
Example C02_ancestor_witness_domain :
  c02_dev_domain_A w1 = true /\ c02_rules_det w1 = true /\ c02_kept_ok w1 = true /\ c02_kept_ok_full w1 = false.
Proof. vm_compute. repeat split. Qed.

(* classes X1 and X2: inside the domain, guards of the diff false, [c02_kept_ok] false - the clauses hold all the same.
   X1: "peer a x" (cant_delete, with children) is absent from new, new holds "peer a y" of the same slot: the default logic
   keeps the AFFECTED old block and drops the new row.  X2: "peer a" is `permanent`, absent from new: the logic enters it. *)
Definition blkp (pat : string) (lg : logic) (k : list prule) := PRule pat false (Attrs pat lg DDefault true false) k [].
Definition x1_rules : rset := ([blk "peer *" [leaf "pwd *"; leaf "descr ~"]], []).
Definition x1_acl : acl :=
  [AItem "peer * %cant_delete=1" "peer *" false false (Some [true]) 0 []
     [AItem "pwd *" "pwd *" false false None 0 [] []]].
Definition x1 := C02In hw hav (acl_of x1_acl) x1_rules
   [("peer a x", T [("pwd 1", T []); ("descr foo", T [])])]
   [("peer a y", T [("pwd 2", T [])])].
Definition x2_rules : rset := ([blkp "peer *" LPermanent [leaf "pwd *"; leaf "descr ~"]], []).
Definition x2_acl : acl :=
  [AItem "peer *" "peer *" false false None 0 []
     [AItem "pwd * %cant_delete=1" "pwd *" false false (Some [true]) 0 [] []]].
Definition x2 := C02In hw hav (acl_of x2_acl) x2_rules [("peer a", T [("pwd 1", T []); ("descr foo", T [])])] [].
Example C02_kept_classes_witness :
  (c02_dev_domain_A x1 = true /\ c02_closed x1 = true /\ c02_rules_det x1 = true /\ c02_kept_ok x1 = false /\
   c_deep_guard x1 = false /\ b_deep_guard x1 = false /\
   o_cmds (model_out x1 []) = Some [["peer a x"]; ["peer a x"; "undo pwd 1"]; ["peer a x"; "quit"]] /\
   P_C02_weak x1 (model_out x1 []) = true) /\
  (c02_dev_domain_A x2 = true /\ c02_closed x2 = true /\ c02_rules_det x2 = true /\ c02_kept_ok x2 = false /\
   c_deep_guard x2 = false /\ b_deep_guard x2 = false /\
   o_cmds (model_out x2 []) = Some [["peer a"]; ["peer a"; "pwd 1"]; ["peer a"; "quit"]] /\
   P_C02_weak x2 (model_out x2 []) = true).
Proof. vm_compute. repeat split. Qed.

(* %force_commit: inside [c02_dev_domain], outside [c02_dev_domain_A]; the pseudo-command "commit" is one more command
   path, the clauses hold *)
Definition fleaf (pat : string) := PRule pat false (Attrs pat LDefault DDefault false true) [] [].
Definition fc_rules : rset := ([blk "bgp *" [fleaf "pwd *"; leaf "descr ~"; fleaf "ttl *"]; leaf "vlan *"], []).
Definition fc_acl : acl :=
  [AItem "bgp *" "bgp *" false false None 0 []
     [AItem "pwd * %cant_delete=1" "pwd *" false false (Some [true]) 0 [] [];
      AItem "ttl *" "ttl *" false false None 0 [] []]].
Definition fcw := C02In hw hav (acl_of fc_acl) fc_rules
   [("bgp 1", T [("pwd x", T []); ("descr foo", T []); ("ttl 5", T [])]); ("vlan 5", T [])]
   [("bgp 1", T [("ttl 9", T [])])].
Example C02_force_commit_witness :
  c02_dev_domain fcw = true /\ c02_dev_domain_A fcw = false /\ c02_closed fcw = true /\ diff_regular (p_full_diff fcw) = false /\
  o_cmds (model_out fcw []) =
    Some [["bgp 1"]; ["bgp 1"; "undo ttl 5"]; ["bgp 1"; "commit"]; ["bgp 1"; "ttl 9"]; ["bgp 1"; "quit"]] /\
  P_C02_weak fcw (model_out fcw []) = true.
Proof. vm_compute. repeat split. Qed.

(* ... but (b) as stated over the whole of [c02_dev_domain] is FALSE: the reference device reads the pseudo-command
   "commit" like any command, so next to a rule whose text is "commit" it overwrites an uncovered row of that rule
   ("commit foo").  The real _diff_and_patch emits the same command paths [undo ttl 5] [commit] [ttl 9] (replayed on the
   unchanged tree).  Not a defect of the code: the statement has to exclude %force_commit ([c02_dev_domain_A], as
   C02_uncovered_untouched_in_domain does) or the device has to know the pseudo-command. *)
Definition fr_rules : rset := ([fleaf "ttl *"; leaf "commit"], []).
Definition fr_acl : acl := [AItem "ttl *" "ttl *" false false None 0 [] []].
Definition fr := C02In hw hav (acl_of fr_acl) fr_rules [("commit foo", T []); ("ttl 5", T [])] [("ttl 9", T [])].
Theorem C02_force_commit_refuted :
  exists x ordering, c02_dev_domain x = true /\ c02_closed x = true /\ c02_dev_domain_A x = false /\
                     o_cmds (model_out x ordering) = Some [["undo ttl 5"]; ["commit"]; ["ttl 9"]] /\
                     C02_b x (model_out x ordering) = false /\ C02_c x (model_out x ordering) = true.
Proof. exists fr, []. vm_compute. repeat split. Qed.
Print Assumptions C02_force_commit_refuted.

Theorem C02_uncovered_untouched_statement_refuted : ~ C02_uncovered_untouched_statement.
Proof.
  intro H. specialize (H fr [] eq_refl eq_refl). vm_compute in H. discriminate.
Qed.
Print Assumptions C02_uncovered_untouched_statement_refuted.

(* ------------------------------------------------------------------ the generator stage (annet.gen._old_new_per_device)
   The ACL a patch is confined to is the union of the ACLs of the selected generators that RUN for the device
   (Spec/P_C02Gen.v: ref_acl); a generator skipped for the device (no run_<vendor>, supports_device() false,
   NotSupportedDevice) contributes nothing.  Proofs/AclGenStage.v. *)

(* No selected generator runs: the reference ACL is empty, the pipeline produces an empty diff and NO command, the
   device keeps its configuration - for every device configuration, every generated configuration, rulebook,
   ordering and vendor (unbounded: induction over the configuration in acl_filter_empty). *)
Theorem C02_no_running_generator_nothing_touched : forall v av rs ordering ps old new,
  (forall p, In p ps -> gp_runs p = false) ->
  ref_acl ps = [] /\
  model_out (gen_in v av rs ps old new) ordering = C02Out [] (Some []) /\
  (forall y, model_out (gen_in v av rs ps old new) ordering = y ->
     match o_cmds y with Some cs => after (gen_in v av rs ps old new) cs = old | None => False end).
Proof. exact no_running_generator_nothing_touched. Qed.
Print Assumptions C02_no_running_generator_nothing_touched.

(* non-vacuity: two selected generators with non-empty ACLs, none of which runs; a running one gives a non-empty ACL *)
Example C02_no_running_generator_example :
  let ps := [GPart [AItem "sysname" "sysname" false false None 0 ["g1"] []] false;
             GPart [AItem "ntp-service" "ntp-service" false false None 0 ["g2"] []] false] in
  (forall p, In p ps -> gp_runs p = false) /\ ps <> [] /\
  ref_acl [GPart [AItem "sysname" "sysname" false false None 0 ["g1"] []] true] <> [].
Proof. exact no_running_generator_example. Qed.

(* A skipped generator is irrelevant wherever it stands in the selection: same reference ACL, same pipeline result. *)
Theorem C02_skipped_generator_is_irrelevant : forall v av rs ordering a p b old new,
  gp_runs p = false ->
  model_out (gen_in v av rs (a ++ p :: b) old new) ordering = model_out (gen_in v av rs (a ++ b) old new) ordering.
Proof. exact skipped_generator_is_irrelevant. Qed.
Print Assumptions C02_skipped_generator_is_irrelevant.

(* The empty ACL passes nothing of any configuration (what apply_acl(old, <empty rules>) is in _old_new_per_device). *)
Theorem C02_empty_acl_filters_everything : forall av f, p_acl_filter av ([], []) f = [].
Proof. intros av f. apply acl_filter_empty. Qed.
Print Assumptions C02_empty_acl_filters_everything.
