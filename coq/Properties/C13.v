(* C13 — property theorems only.  Proofs live in Proofs/JsonProofs.v, Proofs/JsonFragProofs.v. *)
From Coq Require Import List String Bool Arith ZArith.
From Annet Require Import Base.Str Model.Json Spec.P_C13 Proofs.JsonProofs.
Import ListNotations.
Open Scope string_scope.

(* make_patch as it is in the current tree — sorted(library ops, key=path) — does not
   reproduce the target: a correct operation list applies differently once sorted. *)
Theorem C13_sorted_refuted :
  exists a b ops,
    apply_ops ops a = Some b /\ apply_ops (make_patch_of V_current ops) a <> Some b.
Proof. exact sorted_refuted. Qed.
Print Assumptions C13_sorted_refuted.

(* Partial: the third-party diff is assumed correct (hypothesis on D, validated case by
   case in the correspondence).  With the library's order kept (fixes/C13-make-patch-order)
   apply_patch(old, make_patch(old, new)) = new. *)
Theorem C13_patch_roundtrip_partial :
  forall (D : json -> json -> list op),
    (forall a b, apply_ops (D a b) a = Some b) ->
    forall a b, apply_ops (make_patch_of V_fixed (D a b)) a = Some b.
Proof. intros D HD a b. apply patch_roundtrip_keep_order; [exact HD | reflexivity]. Qed.
Print Assumptions C13_patch_roundtrip_partial.

(* current tree: matched keys containing "/" or "~" are re-parsed without escaping *)
Theorem C13_unescaped_refuted :
  exists x, dom_frag x = true /\ P_C13_frag x (frag_outcome V_current x) = false /\
            P_C13_frag x (frag_outcome V_fixed x) = true.
Proof. exact unescaped_refuted. Qed.
Print Assumptions C13_unescaped_refuted.
