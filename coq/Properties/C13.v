(* C13 — property theorems only.  Proofs live in Proofs/JsonProofs.v, Proofs/JsonFragProofs.v.

   [V_fixed] is the model of jsontools.py with the three repairs of /verif/fixes/C13-*.patch,
   [V_current] the model of the tree as it is (the correspondence run detects which shape the
   tree under test has and compares the implementation with that instance of the model).
   For [V_current] the statements below are refuted by the witnesses at the end. *)
From Coq Require Import List String Bool Arith ZArith.
From Annet Require Import Base.Str Model.Json Spec.P_C13 Spec.P_C13_arr Proofs.JsonProofs Proofs.JsonFragProofs
  Proofs.JsonArrProofs Proofs.JsonDiffProofs.
Import ListNotations.
Open Scope string_scope.

(* Guard [wf_C13 pats old f]: dict invariant (unique keys), old and f of one schema, no glob
   pointer of the list ever steps into an array, none is the root pointer.  Unbounded:
   any depth, any number of keys (with "/", "~", "|", "*" or anything else in them), any
   number of patterns, any glob. *)

(* merging never raises on the domain *)
Theorem C13_total :
  forall acl pats old f,
    parse_acl acl = Some pats -> wf_C13 pats old f = true ->
    exists r, apply_fragment V_fixed old f acl = Some r.
Proof.
  intros acl pats old f Hp Hwf. destruct (fragment_main acl pats old f Hp Hwf) as [r [E _]].
  exists r. exact E.
Qed.
Print Assumptions C13_total.

(* r|acl = f|acl : on every selected path the result has exactly what the fragment has
   there — and nothing where the fragment has nothing (keys the fragment lacks are removed) *)
Theorem C13_inside :
  forall acl pats old f r,
    parse_acl acl = Some pats -> wf_C13 pats old f = true ->
    apply_fragment V_fixed old f acl = Some r ->
    forall p, restrict pats r p = restrict pats f p.
Proof.
  intros acl pats old f r Hp Hwf Hr. destruct (fragment_main acl pats old f Hp Hwf) as [r' [E [H _]]].
  rewrite E in Hr. injection Hr as Hr. subst r'. exact H.
Qed.
Print Assumptions C13_inside.

(* r|not acl = old|not acl : every leaf that is not at or below a selected path is as in old *)
Theorem C13_outside :
  forall acl pats old f r,
    parse_acl acl = Some pats -> wf_C13 pats old f = true ->
    apply_fragment V_fixed old f acl = Some r ->
    forall p, outside pats r p = outside pats old p.
Proof.
  intros acl pats old f r Hp Hwf Hr. destruct (fragment_main acl pats old f Hp Hwf) as [r' [E [_ [H _]]]].
  rewrite E in Hr. injection Hr as Hr. subst r'. exact H.
Qed.
Print Assumptions C13_outside.

(* merging again changes nothing (Leibniz equality, key order included) *)
Theorem C13_idem :
  forall acl pats old f r,
    parse_acl acl = Some pats -> wf_C13 pats old f = true ->
    apply_fragment V_fixed old f acl = Some r ->
    apply_fragment V_fixed r f acl = Some r.
Proof.
  intros acl pats old f r Hp Hwf Hr. destruct (fragment_main acl pats old f Hp Hwf) as [r' [E [_ [_ [H _]]]]].
  rewrite E in Hr. injection Hr as Hr. subst r'. exact H.
Qed.
Print Assumptions C13_idem.

(* the boolean predicate that the correspondence run evaluates on the implementation's
   outputs holds on the model's outputs (domain guard of the predicate: dom_frag) *)
Theorem C13_holds :
  forall acl pats old f,
    parse_acl acl = Some pats -> wf_C13 pats old f = true ->
    P_C13_frag (old, f, acl) (frag_outcome V_fixed (old, f, acl)) = true.
Proof. exact fragment_holds. Qed.
Print Assumptions C13_holds.

(* Partial: proved for filters that address object members (a filter stepping into an array
   is outside [wf_filter]; the array case is covered by the correspondence only).
   Whenever apply_acl_filters returns, the result is a sub-document of the filtered one. *)
Theorem C13_filter_subdoc_partial :
  forall d F r,
    wf_filter d F = true -> apply_acl_filters V_fixed d F = Some r -> subdoc r d = true.
Proof. exact filter_subdoc. Qed.
Print Assumptions C13_filter_subdoc_partial.

(* non-vacuity of the guard: nested objects, keys with "/", "~", "|", "*", an array and a
   string as leaves, globs; the merge adds, replaces and removes *)
Definition ex_old : json :=
  JObj [("PORT", JObj [("Eth1/1", JObj [("mtu", JNum 1500); ("alias", JStr "a~b")]);
                       ("Eth1/2", JObj [("mtu", JNum 9000)])]);
        ("k*|x", JArr [JNum 1; JNum 2]);
        ("~keep", JNull)].
Definition ex_f : json :=
  JObj [("PORT", JObj [("Eth1/1", JObj [("mtu", JNum 9100)]);
                       ("Eth1/3", JObj [("mtu", JNum 1500); ("alias", JStr "new")])]);
        ("k*|x", JArr [JNum 3])].
Definition ex_acl : list string := ["/PORT/Eth1~1[13]/*"; "/k[*]|?"].

Example C13_example_guard :
  exists pats, parse_acl ex_acl = Some pats /\ wf_C13 pats ex_old ex_f = true.
Proof. eexists. split; vm_compute; reflexivity. Qed.

Example C13_example_result :
  apply_fragment V_fixed ex_old ex_f ex_acl =
  Some (JObj [("PORT", JObj [("Eth1/1", JObj [("mtu", JNum 9100)]);
                             ("Eth1/2", JObj [("mtu", JNum 9000)]);
                             ("Eth1/3", JObj [("mtu", JNum 1500); ("alias", JStr "new")])]);
              ("k*|x", JArr [JNum 3]);
              ("~keep", JNull)]).
Proof. vm_compute. reflexivity. Qed.

Example C13_example_predicate :
  P_C13_frag (ex_old, ex_f, ex_acl) (frag_outcome V_fixed (ex_old, ex_f, ex_acl)) = true /\
  dom_frag (ex_old, ex_f, ex_acl) = true.
Proof. vm_compute. split; reflexivity. Qed.

Example C13_example_filter :
  wf_filter ex_old [" /PORT/*/mtu"; ""; "/~0keep "] = true /\
  apply_acl_filters V_fixed ex_old [" /PORT/*/mtu"; ""; "/~0keep "] =
  Some (JObj [("PORT", JObj [("Eth1/1", JObj [("mtu", JNum 1500)]); ("Eth1/2", JObj [("mtu", JNum 9000)])]);
              ("~keep", JNull)]).
Proof. vm_compute. split; reflexivity. Qed.

(* ---- patches ---- *)

(* make_patch as it is in the current tree — sorted(library ops, key=path) — does not
   reproduce the target: a correct operation list applies differently once sorted. *)
Theorem C13_sorted_refuted :
  exists a b ops,
    apply_ops ops a = Some b /\ apply_ops (make_patch_of V_current ops) a <> Some b.
Proof. exact sorted_refuted. Qed.
Print Assumptions C13_sorted_refuted.

Theorem C13_sorted_refuted_raises :
  exists a ops, apply_ops ops a <> None /\ apply_ops (make_patch_of V_current ops) a = None.
Proof. exact sorted_refuted_raises. Qed.
Print Assumptions C13_sorted_refuted_raises.

(* Partial: the third-party diff is assumed correct (hypothesis on D, validated case by
   case in the correspondence).  With the library's order kept (fixes/C13-make-patch-order)
   apply_patch(old, make_patch(old, new)) = new. *)
Theorem C13_patch_roundtrip_partial :
  forall (D : json -> json -> list op),
    (forall a b, apply_ops (D a b) a = Some b) ->
    forall a b, apply_ops (make_patch_of V_fixed (D a b)) a = Some b.
Proof. intros D HD a b. apply patch_roundtrip_keep_order; [exact HD | reflexivity]. Qed.
Print Assumptions C13_patch_roundtrip_partial.

(* ---- the current tree ---- *)

(* matched keys containing "/" or "~" are re-parsed without escaping: a one-schema input
   on which the current model violates the predicate and the repaired one satisfies it *)
Theorem C13_unescaped_refuted :
  exists x, dom_frag x = true /\ P_C13_frag x (frag_outcome V_current x) = false /\
            P_C13_frag x (frag_outcome V_fixed x) = true.
Proof. exact unescaped_refuted. Qed.
Print Assumptions C13_unescaped_refuted.

(* a str is treated as a Sequence: the filter returns characters of a string *)
Theorem C13_strseq_refuted :
  exists d F, P_C13_filter (d, F) (apply_acl_filters V_current d F) = false /\
              P_C13_filter (d, F) (apply_acl_filters V_fixed d F) = true.
Proof. exact strseq_filter_refuted. Qed.
Print Assumptions C13_strseq_refuted.

(* outside the guard, both trees: a pattern stepping into an array *)
Theorem C13_array_step_refuted :
  exists x, dom_frag x = true /\ P_inside x (frag_outcome V_fixed x) = false.
Proof. exact array_step_refuted. Qed.
Print Assumptions C13_array_step_refuted.

(* ================================================================ arrays under glob pointers *)

(* Guard [wf_replace pats old f] (Spec/P_C13_arr.v): dict invariant, no root pointer, and every
   pattern selects the same concrete pointers in old and in f — object members AND array
   indices.  Patterns may step into arrays ("/a/*", "/a/0") and through them ("/acl/*/act",
   "/PORT/*/lanes/*"); no "one schema" clause is needed.  In this regime the merge only
   overwrites.  Outside it the real code (and the model) fail in three ways, see the
   refutations below; each clause of the guard is what excludes them. *)

Theorem C13_arr_total :
  forall acl pats old f,
    parse_acl acl = Some pats -> wf_replace pats old f = true ->
    exists r, apply_fragment V_fixed old f acl = Some r.
Proof.
  intros acl pats old f Hp Hwf. destruct (fragment_replace_main acl pats old f Hp Hwf) as [r [E _]].
  exists r. exact E.
Qed.
Print Assumptions C13_arr_total.

Theorem C13_arr_inside :
  forall acl pats old f r,
    parse_acl acl = Some pats -> wf_replace pats old f = true ->
    apply_fragment V_fixed old f acl = Some r ->
    forall p, restrict pats r p = restrict pats f p.
Proof.
  intros acl pats old f r Hp Hwf Hr. destruct (fragment_replace_main acl pats old f Hp Hwf) as [r' [E [H _]]].
  rewrite E in Hr. injection Hr as Hr. subst r'. exact H.
Qed.
Print Assumptions C13_arr_inside.

Theorem C13_arr_outside :
  forall acl pats old f r,
    parse_acl acl = Some pats -> wf_replace pats old f = true ->
    apply_fragment V_fixed old f acl = Some r ->
    forall p, outside pats r p = outside pats old p.
Proof.
  intros acl pats old f r Hp Hwf Hr. destruct (fragment_replace_main acl pats old f Hp Hwf) as [r' [E [_ [H _]]]].
  rewrite E in Hr. injection Hr as Hr. subst r'. exact H.
Qed.
Print Assumptions C13_arr_outside.

(* merging again changes nothing, and the result is again inside the guard *)
Theorem C13_arr_idem :
  forall acl pats old f r,
    parse_acl acl = Some pats -> wf_replace pats old f = true ->
    apply_fragment V_fixed old f acl = Some r ->
    apply_fragment V_fixed r f acl = Some r /\ wf_replace pats r f = true.
Proof.
  intros acl pats old f r Hp Hwf Hr.
  destruct (fragment_replace_main acl pats old f Hp Hwf) as [r' [E [_ [_ [H [_ H2]]]]]].
  rewrite E in Hr. injection Hr as Hr. subst r'. split; assumption.
Qed.
Print Assumptions C13_arr_idem.

Theorem C13_arr_holds :
  forall acl pats old f,
    parse_acl acl = Some pats -> wf_replace pats old f = true ->
    P_C13_frag (old, f, acl) (frag_outcome V_fixed (old, f, acl)) = true.
Proof. exact fragment_replace_holds. Qed.
Print Assumptions C13_arr_holds.

(* what _resolve_json_pointers returns, for any container: exactly the existing paths the
   glob selects (array indices as keys) *)
Theorem C13_resolve_spec :
  forall pat d p, uniq d = true ->
    (In p (resolve_parts false pat d) <-> pmatch pat p = true /\ exists v, get p d = Some v).
Proof. intros pat d p Hu. exact (sel_any pat d p Hu). Qed.
Print Assumptions C13_resolve_spec.

(* Full strength (replaces the guard of C13_filter_subdoc_partial): filters may step into
   arrays, be malformed or select nothing; whenever apply_acl_filters returns, the result is
   a sub-document of the filtered one. *)
Theorem C13_filter_subdoc :
  forall d F r,
    uniq d = true -> apply_acl_filters V_fixed d F = Some r -> subdoc r d = true.
Proof. exact filter_subdoc_any. Qed.
Print Assumptions C13_filter_subdoc.

(* non-vacuity: patterns stepping into an array (last step) and through an array of records *)
Definition exa_old : json :=
  JObj [("PORT", JObj [("Eth1/1", JObj [("lanes", JArr [JNum 1; JNum 2]); ("mtu", JNum 1500)])]);
        ("acl", JArr [JObj [("id", JNum 1); ("act", JStr "permit")]; JObj [("id", JNum 2); ("act", JStr "deny")]]);
        ("keep", JArr [JNum 0])].
Definition exa_f : json :=
  JObj [("acl", JArr [JObj [("act", JStr "deny")]; JObj [("act", JStr "deny"); ("id", JNum 9)]]);
        ("PORT", JObj [("Eth1/1", JObj [("lanes", JArr [JNum 5; JNum 6])])])].
Definition exa_acl : list string := ["/PORT/*/lanes/*"; "/acl/*/act"].

Example C13_arr_example_guard :
  exists pats, parse_acl exa_acl = Some pats /\ wf_replace pats exa_old exa_f = true /\
               steps_into_array pats exa_old = true /\ wf_C13 pats exa_old exa_f = false.
Proof. eexists. split; [|split; [|split]]; vm_compute; reflexivity. Qed.

Example C13_arr_example_result :
  apply_fragment V_fixed exa_old exa_f exa_acl =
  Some (JObj [("PORT", JObj [("Eth1/1", JObj [("lanes", JArr [JNum 5; JNum 6]); ("mtu", JNum 1500)])]);
              ("acl", JArr [JObj [("id", JNum 1); ("act", JStr "deny")]; JObj [("id", JNum 2); ("act", JStr "deny")]]);
              ("keep", JArr [JNum 0])]).
Proof. vm_compute. reflexivity. Qed.

Example C13_filter_example_array :
  apply_acl_filters V_fixed exa_old ["/acl/1/act"; "/PORT/*/lanes"] =
  Some (JObj [("acl", JObj [("1", JObj [("act", JStr "deny")])]);
              ("PORT", JObj [("Eth1/1", JObj [("lanes", JArr [JNum 1; JNum 2])])])]).
Proof. vm_compute. reflexivity. Qed.

(* outside the guard (both trees; each witness replayed on the real code): *)
Theorem C13_array_index_missing_refuted :
  exists x, dom_frag x = true /\ in_replace_guard x = false /\ fst (frag_outcome V_fixed x) = None.
Proof. exact array_index_missing_refuted. Qed.
Print Assumptions C13_array_index_missing_refuted.

Theorem C13_array_member_below_missing_refuted :
  exists x, dom_frag x = true /\ in_replace_guard x = false /\ fst (frag_outcome V_fixed x) = None.
Proof. exact array_member_below_missing_refuted. Qed.
Print Assumptions C13_array_member_below_missing_refuted.

Theorem C13_array_not_removed_refuted :
  exists x, dom_frag x = true /\ in_replace_guard x = false /\
            fst (frag_outcome V_fixed x) = Some (JObj [("a", JArr [JNum 4; JNum 2; JNum 3])]) /\
            P_inside x (frag_outcome V_fixed x) = false.
Proof. exact array_not_removed_refuted. Qed.
Print Assumptions C13_array_not_removed_refuted.

Theorem C13_array_becomes_object_refuted :
  exists x, dom_frag x = true /\ in_replace_guard x = false /\
            fst (frag_outcome V_fixed x) = Some (JObj [("b", JNum 1); ("a", JObj [("0", JNum 7); ("1", JNum 8)])]) /\
            P_C13_frag x (frag_outcome V_fixed x) = true /\ P_kinds x (frag_outcome V_fixed x) = false.
Proof. exact array_becomes_object_refuted. Qed.
Print Assumptions C13_array_becomes_object_refuted.

(* Not proved: the mixed regime.  Object members added or removed by the LAST pointer step below
   an array ("/acl/*/x" where some records of old or f lack x) also satisfy the laws on the real
   code (139 of the 1584 cases of the exhaustive array scope of the correspondence run), but lie
   outside both guards ([wf_C13]: no arrays; [wf_replace]: same pointers on both sides).  Missing:
   put/del lemmas with an array prefix, and a guard that is preserved by both kinds of step. *)

(* ================================================================ a verified differ *)

(* RFC 6901: printing a pointer and parsing it back is the identity, for every key *)
Theorem C13_pointer_roundtrip : forall p, parse_pointer (pointer_path p) = Some p.
Proof. exact parse_pointer_path. Qed.
Print Assumptions C13_pointer_roundtrip.

(* The hypothesis of C13_patch_roundtrip_partial is satisfiable: (1) the root differ *)
Theorem C13_diff_root_ok : forall a b, apply_ops (diff_root a b) a = Some b.
Proof. exact diff_root_ok. Qed.
Print Assumptions C13_diff_root_ok.

Theorem C13_patch_hypothesis_satisfiable : exists D, forall a b, apply_ops (D a b) a = Some b.
Proof. exact patch_hypothesis_satisfiable. Qed.
Print Assumptions C13_patch_hypothesis_satisfiable.

(* (2) a recursive object differ emitting remove / add / replace with escaped string pointers
   (Proofs/JsonDiffProofs.diff): for ALL documents with unique keys its patch applies and
   gives the target up to the order of object members (Python dict ==; Leibniz equality is
   refuted by diff_not_leibniz: add appends) *)
Theorem C13_diff_ok :
  forall a b, uniq a = true -> uniq b = true ->
    exists r, apply_ops (diff a b) a = Some r /\ jeq r b = true /\ uniq r = true.
Proof. exact diff_ok. Qed.
Print Assumptions C13_diff_ok.

(* make_patch (order kept) + apply_patch with the verified differ in place of the library's:
   the predicate the correspondence evaluates on the real outputs holds, no hypothesis left *)
Theorem C13_patch_roundtrip_verified_differ :
  forall a b, uniq a = true -> uniq b = true ->
    P_C13_patch (a, b) (apply_ops (make_patch_of V_fixed (diff a b)) a) = true.
Proof. intros a b Ha Hb. apply diff_roundtrip_P_C13; [reflexivity | exact Ha | exact Hb]. Qed.
Print Assumptions C13_patch_roundtrip_verified_differ.

Example C13_diff_example :
  uniq ex_a = true /\ uniq ex_b = true /\ apply_ops (diff ex_a ex_b) ex_a = Some ex_r /\ jeq ex_r ex_b = true /\
  List.length (diff ex_a ex_b) = 7.
Proof. vm_compute. repeat split. Qed.

(* ---- operation order (the repaired defect: make_patch must keep the library's order) ---- *)

(* sorting is a permutation of the same operations ... *)
Theorem C13_sort_is_permutation : forall ops, Permutation.Permutation ops (sort_ops ops).
Proof. exact sort_ops_perm. Qed.
Print Assumptions C13_sort_is_permutation.

(* ... and EVERY reordering policy that puts a two-element list into "path" order, whatever it
   does on ties and on longer lists, breaks a correct patch: "sorted by path" is refuted for
   all such policies, not only for Python's stable sort *)
Theorem C13_reorder_observable :
  forall R : list op -> list op,
    (forall x y, path_leb x y = false -> R [x; y] = [y; x]) ->
    exists a b ops, apply_ops ops a = Some b /\ apply_ops (R ops) a <> Some b.
Proof. exact reorder_observable. Qed.
Print Assumptions C13_reorder_observable.

(* order sensitivity is not a property of one document: for every array length n + 2 there is
   a document and two permutations of one patch that give different results *)
Theorem C13_permutation_sensitive_unbounded :
  forall n, exists l ops ops' b,
    List.length l = n + 2 /\ Permutation.Permutation ops ops' /\
    apply_ops ops (JObj [("d", JArr l)]) = Some b /\ apply_ops ops' (JObj [("d", JArr l)]) <> Some b.
Proof. exact permutation_sensitive_unbounded. Qed.
Print Assumptions C13_permutation_sensitive_unbounded.

(* ================================================================ the API sequence on ONE old document; purity *)

(* What annet/api (_patch_worker, Deployer) does with one file: merge the generators' fragments into the
   old document, make the patch from THE SAME old object and the result, upload it to the device that
   holds the original old.  Gallina values cannot be written to, so every theorem above that mentions
   an input again after a call reads "the argument still has its value"; for Python objects this is the
   separate PURITY clause (Spec/P_C13_sess.v): apply_json_fragment, apply_acl_filters, make_patch and
   apply_patch leave every object handed to them with the value it had.  An implementation that may
   write to its arguments returns their values afterwards as well ([eff_frag]); the model read this way
   is [pure_frag].  The correspondence run observes the clause on the real code: the runner reports every
   (function, argument) whose serialised text changed over a call (flag "mutated", equality of two real
   values computed by the runner), and on sessions Coq evaluates [P_C13_session]: the old object still
   has its value and the existing round-trip predicate P_C13_patch holds for the real patch, made from
   the one old object, applied to the serialised original. *)
From Annet Require Import Spec.P_C13_sess Proofs.JsonSessProofs.

(* for every implementation that returns what the model returns and is pure, and every differ with the
   hypothesis of C13_patch_roundtrip_partial, the device ends up with the merged document *)
Theorem C13_session_roundtrip_partial :
  forall (I : eff_frag) (D : json -> json -> list op),
    returns_like V_fixed I -> leaves_inputs I ->
    (forall a b, apply_ops (D a b) a = Some b) ->
    forall old f acl new,
      apply_fragment V_fixed old f acl = Some new ->
      api_session I (fun a b => make_patch_of V_fixed (D a b)) old f acl = (Some new, Some new).
Proof. intros I D HR HL HD. apply session_roundtrip; [reflexivity | exact HR | exact HL | exact HD]. Qed.
Print Assumptions C13_session_roundtrip_partial.

(* with the verified differ no hypothesis on a differ is left *)
Theorem C13_session_roundtrip_verified_differ :
  forall (I : eff_frag),
    returns_like V_fixed I -> leaves_inputs I ->
    forall old f acl new,
      uniq old = true -> uniq new = true ->
      apply_fragment V_fixed old f acl = Some new ->
      fst (api_session I (fun a b => make_patch_of V_fixed (diff a b)) old f acl) = Some new /\
      P_C13_patch (old, new) (snd (api_session I (fun a b => make_patch_of V_fixed (diff a b)) old f acl)) = true.
Proof. intros I HR HL. apply session_roundtrip_verified; [reflexivity | exact HR | exact HL]. Qed.
Print Assumptions C13_session_roundtrip_verified_differ.

(* the model is such an implementation (pure by construction) *)
Theorem C13_model_is_pure : returns_like V_fixed (pure_frag V_fixed) /\ leaves_inputs (pure_frag V_fixed).
Proof. split; [apply pure_frag_returns_like | apply pure_frag_leaves_inputs]. Qed.
Print Assumptions C13_model_is_pure.

(* The purity clause can be neither dropped nor derived from the laws about the returned document: an
   implementation with the model's return value for EVERY input (so inside / outside / idempotent hold
   of it) that leaves the result in [old] makes the API sequence compute an empty patch; the device
   keeps the stale member and the round-trip predicate is false. *)
Theorem C13_session_needs_purity :
  returns_like V_fixed (aliasing_frag V_fixed) /\
  exists old f acl new,
    uniq old = true /\ uniq new = true /\
    apply_fragment V_fixed old f acl = Some new /\
    fst (api_session (aliasing_frag V_fixed) (fun a b => make_patch_of V_fixed (diff a b)) old f acl) = Some new /\
    snd (api_session (aliasing_frag V_fixed) (fun a b => make_patch_of V_fixed (diff a b)) old f acl) = Some old /\
    P_C13_patch (old, new) (snd (api_session (aliasing_frag V_fixed) (fun a b => make_patch_of V_fixed (diff a b)) old f acl)) = false.
Proof. exact (session_needs_purity V_fixed eq_refl). Qed.
Print Assumptions C13_session_needs_purity.

(* the predicate evaluated on the real sessions holds on the model's own session (any number of
   chained generators, verified differ) *)
Theorem C13_session_holds :
  forall old steps new,
    uniq old = true -> uniq new = true ->
    chain V_fixed old steps = Some new ->
    P_C13_session (old, steps) (session_outcome V_fixed diff (old, steps)) = true.
Proof. intros old steps new Ho Hn Hc. apply (session_outcome_holds V_fixed old steps new); [reflexivity | exact Ho | exact Hn | exact Hc]. Qed.
Print Assumptions C13_session_holds.

(* non-vacuity: two chained generators, one of them only removes *)
Example C13_session_example :
  let old := JObj [("T", JObj [("a", JNum 1%Z); ("b", JNum 2%Z)]); ("U", JObj [("k", JNum 0%Z)])] in
  let steps := [(JObj [("T", JObj [("a", JNum 1%Z)])], ["/T/*"]); (JObj [("U", JObj [("n", JNum 5%Z)])], ["/U/n"])] in
  let new := JObj [("T", JObj [("a", JNum 1%Z)]); ("U", JObj [("k", JNum 0%Z); ("n", JNum 5%Z)])] in
  uniq old = true /\ uniq new = true /\ chain V_fixed old steps = Some new /\
  P_C13_session (old, steps) (session_outcome V_fixed diff (old, steps)) = true.
Proof. vm_compute. repeat split. Qed.
