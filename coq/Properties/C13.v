(* C13 — property theorems only.  Proofs live in Proofs/JsonProofs.v, Proofs/JsonFragProofs.v.

   [V_fixed] is the model of jsontools.py with the three repairs of /verif/fixes/C13-*.patch,
   [V_current] the model of the tree as it is (the correspondence run detects which shape the
   tree under test has and compares the implementation with that instance of the model).
   For [V_current] the statements below are refuted by the witnesses at the end. *)
From Coq Require Import List String Bool Arith ZArith.
From Annet Require Import Base.Str Model.Json Spec.P_C13 Proofs.JsonProofs Proofs.JsonFragProofs.
Import ListNotations.
Open Scope string_scope.

(* Guard [wf_C13 pats old f]: dict invariant (unique keys), old and f of one schema, no glob
   pointer of the list ever steps into an array, none is the root pointer.  Unbounded:
   any depth, any number of keys (with "/", "~", "|", "*" or anything else in them), any
   number of patterns, any glob. *)

(* merging never raises on the domain *)
Theorem C13_total :
  forall acl pats old f,
    parse_acl acl = Some pats -> wf_C13 pats old f = true ->
    exists r, apply_fragment V_fixed old f acl = Some r.
Proof.
  intros acl pats old f Hp Hwf. destruct (fragment_main acl pats old f Hp Hwf) as [r [E _]].
  exists r. exact E.
Qed.
Print Assumptions C13_total.

(* r|acl = f|acl : on every selected path the result has exactly what the fragment has
   there — and nothing where the fragment has nothing (keys the fragment lacks are removed) *)
Theorem C13_inside :
  forall acl pats old f r,
    parse_acl acl = Some pats -> wf_C13 pats old f = true ->
    apply_fragment V_fixed old f acl = Some r ->
    forall p, restrict pats r p = restrict pats f p.
Proof.
  intros acl pats old f r Hp Hwf Hr. destruct (fragment_main acl pats old f Hp Hwf) as [r' [E [H _]]].
  rewrite E in Hr. injection Hr as Hr. subst r'. exact H.
Qed.
Print Assumptions C13_inside.

(* r|not acl = old|not acl : every leaf that is not at or below a selected path is as in old *)
Theorem C13_outside :
  forall acl pats old f r,
    parse_acl acl = Some pats -> wf_C13 pats old f = true ->
    apply_fragment V_fixed old f acl = Some r ->
    forall p, outside pats r p = outside pats old p.
Proof.
  intros acl pats old f r Hp Hwf Hr. destruct (fragment_main acl pats old f Hp Hwf) as [r' [E [_ [H _]]]].
  rewrite E in Hr. injection Hr as Hr. subst r'. exact H.
Qed.
Print Assumptions C13_outside.

(* merging again changes nothing (Leibniz equality, key order included) *)
Theorem C13_idem :
  forall acl pats old f r,
    parse_acl acl = Some pats -> wf_C13 pats old f = true ->
    apply_fragment V_fixed old f acl = Some r ->
    apply_fragment V_fixed r f acl = Some r.
Proof.
  intros acl pats old f r Hp Hwf Hr. destruct (fragment_main acl pats old f Hp Hwf) as [r' [E [_ [_ [H _]]]]].
  rewrite E in Hr. injection Hr as Hr. subst r'. exact H.
Qed.
Print Assumptions C13_idem.

(* the boolean predicate that the correspondence run evaluates on the implementation's
   outputs holds on the model's outputs (domain guard of the predicate: dom_frag) *)
Theorem C13_holds :
  forall acl pats old f,
    parse_acl acl = Some pats -> wf_C13 pats old f = true ->
    P_C13_frag (old, f, acl) (frag_outcome V_fixed (old, f, acl)) = true.
Proof. exact fragment_holds. Qed.
Print Assumptions C13_holds.

(* Partial: proved for filters that address object members (a filter stepping into an array
   is outside [wf_filter]; the array case is covered by the correspondence only).
   Whenever apply_acl_filters returns, the result is a sub-document of the filtered one. *)
Theorem C13_filter_subdoc_partial :
  forall d F r,
    wf_filter d F = true -> apply_acl_filters V_fixed d F = Some r -> subdoc r d = true.
Proof. exact filter_subdoc. Qed.
Print Assumptions C13_filter_subdoc_partial.

(* non-vacuity of the guard: nested objects, keys with "/", "~", "|", "*", an array and a
   string as leaves, globs; the merge adds, replaces and removes *)
Definition ex_old : json :=
  JObj [("PORT", JObj [("Eth1/1", JObj [("mtu", JNum 1500); ("alias", JStr "a~b")]);
                       ("Eth1/2", JObj [("mtu", JNum 9000)])]);
        ("k*|x", JArr [JNum 1; JNum 2]);
        ("~keep", JNull)].
Definition ex_f : json :=
  JObj [("PORT", JObj [("Eth1/1", JObj [("mtu", JNum 9100)]);
                       ("Eth1/3", JObj [("mtu", JNum 1500); ("alias", JStr "new")])]);
        ("k*|x", JArr [JNum 3])].
Definition ex_acl : list string := ["/PORT/Eth1~1[13]/*"; "/k[*]|?"].

Example C13_example_guard :
  exists pats, parse_acl ex_acl = Some pats /\ wf_C13 pats ex_old ex_f = true.
Proof. eexists. split; vm_compute; reflexivity. Qed.

Example C13_example_result :
  apply_fragment V_fixed ex_old ex_f ex_acl =
  Some (JObj [("PORT", JObj [("Eth1/1", JObj [("mtu", JNum 9100)]);
                             ("Eth1/2", JObj [("mtu", JNum 9000)]);
                             ("Eth1/3", JObj [("mtu", JNum 1500); ("alias", JStr "new")])]);
              ("k*|x", JArr [JNum 3]);
              ("~keep", JNull)]).
Proof. vm_compute. reflexivity. Qed.

Example C13_example_predicate :
  P_C13_frag (ex_old, ex_f, ex_acl) (frag_outcome V_fixed (ex_old, ex_f, ex_acl)) = true /\
  dom_frag (ex_old, ex_f, ex_acl) = true.
Proof. vm_compute. split; reflexivity. Qed.

Example C13_example_filter :
  wf_filter ex_old [" /PORT/*/mtu"; ""; "/~0keep "] = true /\
  apply_acl_filters V_fixed ex_old [" /PORT/*/mtu"; ""; "/~0keep "] =
  Some (JObj [("PORT", JObj [("Eth1/1", JObj [("mtu", JNum 1500)]); ("Eth1/2", JObj [("mtu", JNum 9000)])]);
              ("~keep", JNull)]).
Proof. vm_compute. split; reflexivity. Qed.

(* ---- patches ---- *)

(* make_patch as it is in the current tree — sorted(library ops, key=path) — does not
   reproduce the target: a correct operation list applies differently once sorted. *)
Theorem C13_sorted_refuted :
  exists a b ops,
    apply_ops ops a = Some b /\ apply_ops (make_patch_of V_current ops) a <> Some b.
Proof. exact sorted_refuted. Qed.
Print Assumptions C13_sorted_refuted.

Theorem C13_sorted_refuted_raises :
  exists a ops, apply_ops ops a <> None /\ apply_ops (make_patch_of V_current ops) a = None.
Proof. exact sorted_refuted_raises. Qed.
Print Assumptions C13_sorted_refuted_raises.

(* Partial: the third-party diff is assumed correct (hypothesis on D, validated case by
   case in the correspondence).  With the library's order kept (fixes/C13-make-patch-order)
   apply_patch(old, make_patch(old, new)) = new. *)
Theorem C13_patch_roundtrip_partial :
  forall (D : json -> json -> list op),
    (forall a b, apply_ops (D a b) a = Some b) ->
    forall a b, apply_ops (make_patch_of V_fixed (D a b)) a = Some b.
Proof. intros D HD a b. apply patch_roundtrip_keep_order; [exact HD | reflexivity]. Qed.
Print Assumptions C13_patch_roundtrip_partial.

(* ---- the current tree ---- *)

(* matched keys containing "/" or "~" are re-parsed without escaping: a one-schema input
   on which the current model violates the predicate and the repaired one satisfies it *)
Theorem C13_unescaped_refuted :
  exists x, dom_frag x = true /\ P_C13_frag x (frag_outcome V_current x) = false /\
            P_C13_frag x (frag_outcome V_fixed x) = true.
Proof. exact unescaped_refuted. Qed.
Print Assumptions C13_unescaped_refuted.

(* a str is treated as a Sequence: the filter returns characters of a string *)
Theorem C13_strseq_refuted :
  exists d F, P_C13_filter (d, F) (apply_acl_filters V_current d F) = false /\
              P_C13_filter (d, F) (apply_acl_filters V_fixed d F) = true.
Proof. exact strseq_filter_refuted. Qed.
Print Assumptions C13_strseq_refuted.

(* outside the guard, both trees: a pattern stepping into an array *)
Theorem C13_array_step_refuted :
  exists x, dom_frag x = true /\ P_inside x (frag_outcome V_fixed x) = false.
Proof. exact array_step_refuted. Qed.
Print Assumptions C13_array_step_refuted.
