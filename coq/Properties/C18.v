(* C18 — property theorems only.  Proofs live in Proofs/HwDbProofs.v (general) and
   Proofs/HwDbSrc.v (facts about the regenerated tables Gen/Src_devdb.v). *)
From Coq Require Import List String Bool Arith Permutation.
From Annet Require Import Base.Str Model.HwDb Spec.P_C18 Gen.Src_devdb
                          Proofs.HwDbProofs Proofs.HwDbTables Proofs.HwDbSrc Proofs.HwDbChain.
Import ListNotations.
Open Scope string_scope.

(* For every database that loads and satisfies db_ok, every regex semantics `hit`, every
   model m and every database entry s: find_true_sequences reports s true exactly when
   each step s[:1], s[:2], ..., s of its chain is found in the model string. *)
Theorem C18_true_iff_chain :
  forall (d : db) (t : list node), build_tree d = Some t -> db_ok d = true ->
  forall (M : Type) (hit : rid -> M -> bool) (m : M) (s : seq), In s (keys d) ->
    (In s (tree_true M hit m t) <-> chain_hits M hit d m s = true).
Proof. exact true_iff_chain. Qed.
Print Assumptions C18_true_iff_chain.

(* hierarchy: a true family has every ancestor true (any depth, any model, any regexes) *)
Theorem C18_prefix_closed :
  forall (d : db) (t : list node), build_tree d = Some t -> db_ok d = true ->
  forall (M : Type) (hit : rid -> M -> bool) (m : M) (s p : seq),
    In s (keys d) -> In s (tree_true M hit m t) -> In p (seq_subs s) -> In p (tree_true M hit m t).
Proof. exact prefix_closed. Qed.
Print Assumptions C18_prefix_closed.

(* the same as the boolean the correspondence run evaluates on real outputs *)
Theorem C18_hier_holds :
  forall (d : db) (t : list node), build_tree d = Some t -> db_ok d = true ->
  forall (M : Type) (hit : rid -> M -> bool) (m : M), hier_ok (keys d) (tree_true M hit m t) = true.
Proof. exact hier_ok_model. Qed.
Print Assumptions C18_hier_holds.

(* the shipped devdb.json (as regenerated on this run) loads and satisfies db_ok *)
Theorem C18_db_ok_src : build_tree Src_db = Some Src_tree /\ db_ok Src_db = true.
Proof. split; [exact Src_tree_built | exact Src_db_ok]. Qed.
Print Assumptions C18_db_ok_src.

Theorem C18_prefix_closed_src :
  forall (M : Type) (hit : rid -> M -> bool) (m : M) (s p : seq),
    In s (keys Src_db) -> In s (tree_true M hit m Src_tree) -> In p (seq_subs s) ->
    In p (tree_true M hit m Src_tree).
Proof. exact src_prefix_closed. Qed.
Print Assumptions C18_prefix_closed_src.

(* a database in which some entry lacks a parent cannot be loaded (KeyError in _build_tree) *)
Theorem C18_missing_parent_fails :
  forall (d : db) (s p : seq), In s (keys d) -> In p (seq_subs s) -> lookup p d = None -> build_tree d = None.
Proof. exact missing_parent_fails. Qed.
Print Assumptions C18_missing_parent_fails.

(* Registry.match (stable descending sort, first element) returns a vendor holding a match
   with the maximal number of dots: "the most specific registered one" *)
Theorem C18_match_is_argmax :
  forall tr all vs n, registry_match tr all vs = VName n ->
    exists k, In (n, k) (matched tr all vs) /\ forall x, In x (matched tr all vs) -> snd x <= k.
Proof. exact registry_match_argmax. Qed.
Print Assumptions C18_match_is_argmax.

(* ... and its result does not depend on the registration order as long as the matches with
   the maximal number of dots belong to one vendor (tie_free, checked on every observed model) *)
Theorem C18_vendor_perm :
  forall (M : Type) (hit : rid -> M -> bool) (d : db) (vs vs' : vendors) (m : M),
    Permutation vs vs' -> tie_free M hit d vs m = true ->
    vendor_of M hit d vs m = vendor_of M hit d vs' m.
Proof. exact vendor_of_perm. Qed.
Print Assumptions C18_vendor_perm.

(* the static part of P_C18 holds of the model on the current tables, for every model
   string and every regex semantics, under the tie-free guard
   (partial: the runtime part of P_C18 - rendering, import of logic functions, regex
   compilation, equality of two loads - is not a theorem, see harness/props/c18.py) *)
Theorem C18_static_holds_partial :
  forall (M : Type) (hit : rid -> M -> bool) (m : M),
    let tr := tree_true M hit m Src_tree in
    match_err tr Src_all Src_vendors = false ->
    no_tie (matched tr Src_all Src_vendors) = true ->
    matched tr Src_all Src_vendors <> [] ->
    P_C18_static Src_keys Src_all Src_vendors tr (registry_match tr Src_all Src_vendors) = true.
Proof. exact src_static_holds. Qed.
Print Assumptions C18_static_holds_partial.

(* the terms the case files evaluate are the model on the current tables *)
Theorem C18_case_terms_are_model :
  forall vs m, src_true m = true_sequences _ hit_tbl Src_db m /\
               src_vendor vs m = vendor_of _ hit_tbl Src_db vs m.
Proof. intros vs m. split; [apply src_true_is_model | apply src_vendor_is_model]. Qed.
Print Assumptions C18_case_terms_are_model.

(* the tie-free guard is necessary: with the match lists shipped at review time (vendor
   optixtrans matching on the bare name OptiXtrans, 0 dots, like Huawei) the model
   "Huawei OptiXtrans DC908" resolves to huawei or to optixtrans depending on which of
   the two was registered first *)
Theorem C18_tie_refuted :
  db_ok ex_db = true /\
  exists (m : list nat) (vs' : vendors),
    Permutation ex_vendors vs' /\
    tie_free _ hit_tbl ex_db ex_vendors m = false /\
    vendor_of _ hit_tbl ex_db ex_vendors m = VName "huawei" /\
    vendor_of _ hit_tbl ex_db vs' m = VName "optixtrans".
Proof. exact tie_refuted. Qed.
Print Assumptions C18_tie_refuted.

(* non-vacuity of the guards, on frozen example tables *)
Example C18_example_db_ok : db_ok ex_db = true /\ build_tree ex_db <> None.
Proof. split; [vm_compute; reflexivity | vm_compute; discriminate]. Qed.

(* "Cisco Nexus 9316": hits 0,2,3; nexus (1 dot) beats cisco (0 dots); tie-free *)
Example C18_example_nexus :
  tie_free _ hit_tbl ex_db ex_vendors [0; 2; 3] = true /\
  vendor_of _ hit_tbl ex_db ex_vendors [0; 2; 3] = VName "nexus" /\
  vendor_of _ hit_tbl ex_db ex_vendors' [0; 2; 3] = VName "nexus" /\
  true_sequences _ hit_tbl ex_db [0; 2; 3] =
    Some [["Cisco"]; ["Cisco"; "Nexus"]; ["Nexus"]; ["Cisco"; "N9x"]; ["Cisco"; "Nexus"; "N9x"];
          ["Nexus"; "N9x"]; ["N9x"]].
Proof. repeat split; vm_compute; reflexivity. Qed.

(* a child regex found without its parent makes nothing true *)
Example C18_example_child_without_parent :
  true_sequences _ hit_tbl ex_db [3; 5] = Some [].
Proof. vm_compute. reflexivity. Qed.

(* db_ok rejects two children of one parent sharing a regex (they would share a tree node
   and the second family could never be true while its own children can) *)
Example C18_example_shared_regex_rejected :
  db_ok [(["A"], 0); (["A"; "B"], 1); (["A"; "C"], 1); (["A"; "C"; "D"], 2)] = false /\
  true_sequences _ hit_tbl [(["A"], 0); (["A"; "B"], 1); (["A"; "C"], 1); (["A"; "C"; "D"], 2)] [0; 1; 2]
    = Some [["A"]; ["A"; "B"]; ["B"]; ["A"; "D"]; ["A"; "C"; "D"]; ["C"; "D"]; ["D"]].
Proof. split; vm_compute; reflexivity. Qed.

(* ---- exactness of the reported families (clause chain_ok of P_C18_full) --------------------- *)

(* For every database that loads and satisfies db_ok, every regex semantics and every model
   string: the set find_true_sequences reports satisfies chain_ok - a database entry is in it
   exactly when its whole chain of regexes is found (in particular two sibling families whose
   regexes both match are both true: "CE6865E" is CE6865 and CE6865E). *)
Theorem C18_chain_exact :
  forall (d : db) (t : list node), build_tree d = Some t -> db_ok d = true ->
  forall (M : Type) (hit : rid -> M -> bool) (m : M),
    chain_ok M hit d m (keys d) (tree_true M hit m t) = true.
Proof. exact chain_ok_model. Qed.
Print Assumptions C18_chain_exact.

(* ... and the clause leaves no freedom on the database entries: any reported set satisfying
   chain_ok has exactly the model's true entries *)
Theorem C18_chain_unique :
  forall (d : db) (t : list node), build_tree d = Some t -> db_ok d = true ->
  forall (M : Type) (hit : rid -> M -> bool) (m : M) (tr : list seq),
    chain_ok M hit d m (keys d) tr = true ->
    forall s, In s (keys d) -> (In s tr <-> In s (tree_true M hit m t)).
Proof. exact chain_ok_unique. Qed.
Print Assumptions C18_chain_unique.

(* the boolean the case files evaluate (part_chain, on the regenerated tables) is true of every
   observation that reports what the model computes from the observed hits *)
Theorem C18_chain_holds_src :
  forall (m : list nat) (y : obs), o_true y = src_true m -> part_chain (m, y) = true.
Proof. exact src_chain_holds. Qed.
Print Assumptions C18_chain_holds_src.

(* the clause is not vacuous: on ex_db the model "Cisco ASR Nexus"-like hit set 0,1,2 makes both
   sibling families Cisco.ASR and Cisco.Nexus true; a report that stops at the first matching
   sibling (Cisco.ASR only) violates chain_ok although it is prefix-closed (hier_ok) *)
Example C18_example_sibling_skipped :
  chain_ok _ hit_tbl ex_db [0; 1; 2] (keys ex_db) [["Cisco"]; ["Cisco"; "ASR"]; ["ASR"]] = false /\
  hier_ok (keys ex_db) [["Cisco"]; ["Cisco"; "ASR"]; ["ASR"]] = true /\
  (exists tr, true_sequences _ hit_tbl ex_db [0; 1; 2] = Some tr /\
              chain_ok _ hit_tbl ex_db [0; 1; 2] (keys ex_db) tr = true /\
              mem ["Cisco"; "Nexus"] tr = true /\ mem ["Cisco"; "ASR"] tr = true).
Proof.
  split; [vm_compute; reflexivity |]. split; [vm_compute; reflexivity |].
  eexists. split; [vm_compute; reflexivity |]. repeat split; vm_compute; reflexivity.
Qed.
