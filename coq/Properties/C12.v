(* C12 — property theorems only (preliminary: tie + refutations). *)
From Coq Require Import List Bool Arith.
From Annet Require Import Model.Pool Spec.P_C12 Gen.Src_parallel.
Import ListNotations.

Theorem C12_source_shape :
  shape_ok src_known src_parent_order src_break src_worker_order = true /\
  brk_safe src_break = true /\ brk_live src_break = true.
Proof. vm_compute. auto. Qed.
Print Assumptions C12_source_shape.
