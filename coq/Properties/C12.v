(* C12 — the worker pool returns exactly one result per submitted id.
   Property theorems only; proofs live in Proofs/PoolProofs.v (and Proofs/PoolProgress.v).
   Model: Model/Pool.v (transition system parent loop x workers x task queue x done queue x feeder
   buffers; `reachable cfg s` = s is reached from the initial state by any finite interleaving).
   Gen/Src_parallel.v is regenerated from annet/parallel.py on every run. *)
From Coq Require Import List Bool Arith Permutation.
From Annet Require Import Model.Pool Spec.P_C12 Proofs.PoolProofs Proofs.PoolProgress Gen.Src_parallel.
From Annet Require Import Model.PoolSession Spec.P_C12x Proofs.PoolSessionProofs.
Import ListNotations.

(* The assumed runtime law: a dying worker's exit code becomes visible to the parent only when its
   queue feeder thread holds nothing any more ("a put is visible before the exit code is"). *)
Definition put_before_exit (cfg : config) : Prop := forall out, c_exit cfg out = true -> out = [].

(* --- tie to the source --------------------------------------------------------------------------- *)

(* The loops of annet/parallel.py, as re-read on this run, have the order of operations hard-wired in
   Model/Pool.v, and the source's break test leaves the loop only if (and whenever) the pool is empty,
   was already empty before the last get, and that get found nothing. *)
Theorem C12_source_shape :
  shape_ok src_known src_parent_order src_break src_worker_order = true /\
  brk_safe src_break = true /\ brk_live src_break = true.
Proof. vm_compute. auto. Qed.
Print Assumptions C12_source_shape.

(* --- invariants, for every break test ------------------------------------------------------------ *)

(* delivered (+) in flight (+) busy (+) pending = submitted, in every reachable state *)
Theorem C12_conservation :
  forall cfg, put_before_exit cfg -> wf_cfg cfg = true ->
  forall s, reachable cfg s -> Permutation (accounted s) (c_ids cfg).
Proof. exact conservation. Qed.
Print Assumptions C12_conservation.

Theorem C12_no_id_twice :
  forall cfg, put_before_exit cfg -> wf_cfg cfg = true ->
  forall s, reachable cfg s -> NoDup (c_ids cfg) -> NoDup (accounted s).
Proof. exact no_id_twice. Qed.
Print Assumptions C12_no_id_twice.

(* every result, delivered or still in flight, carries the value the task computed for its id *)
Theorem C12_payload :
  forall cfg, put_before_exit cfg -> wf_cfg cfg = true ->
  forall s, reachable cfg s ->
  Forall (fun r => snd r = c_f cfg (fst r)) (delivered s ++ in_flight s).
Proof. exact payload. Qed.
Print Assumptions C12_payload.

(* --- terminal states ----------------------------------------------------------------------------- *)

Definition terminal_complete_for (brk : bexpr) : Prop :=
  forall cfg, c_brk cfg = brk -> put_before_exit cfg -> wf_cfg cfg = true ->
  forall s, reachable cfg s -> ppc s = Done -> Permutation (map fst (delivered s)) (c_ids cfg).

(* any loop whose break test is safe: once the parent loop has exited, exactly the submitted multiset
   of ids has been delivered (any n, pool size, max_tasks, failing ids, interleaving) *)
Theorem C12_terminal_complete : forall brk, brk_safe brk = true -> terminal_complete_for brk.
Proof.
  intros brk HB cfg E HL HW s HR Hd. subst brk. exact (terminal_complete cfg HL HW s HB HR Hd).
Qed.
Print Assumptions C12_terminal_complete.

(* ... in particular the loop that is in the source now *)
Theorem C12_terminal_complete_source : terminal_complete_for src_break.
Proof. apply C12_terminal_complete. exact (proj1 (proj2 C12_source_shape)). Qed.
Print Assumptions C12_terminal_complete_source.

(* and nothing is left anywhere *)
Theorem C12_terminal_nothing_left :
  forall cfg, put_before_exit cfg -> wf_cfg cfg = true -> brk_safe (c_brk cfg) = true ->
  forall s, reachable cfg s -> ppc s = Done ->
  in_flight s = [] /\ busy_ids (ws s) = [] /\ pending_ids (taskq s) = [].
Proof. intros cfg HL HW HB s HR Hd. exact (terminal_state cfg HL HW s HB HR Hd). Qed.
Print Assumptions C12_terminal_nothing_left.

(* tolerate_fails = False: irun raises only the failure of an id whose task failed, and what was
   delivered before plus that id is a sub-multiset of the submitted ids *)
Theorem C12_abort_sound :
  forall cfg, put_before_exit cfg -> wf_cfg cfg = true ->
  forall s i, reachable cfg s -> ppc s = Aborted i ->
  c_tol cfg = false /\ is_fail (c_f cfg i) = true /\
  forall x, count_occ Nat.eq_dec (i :: map fst (delivered s)) x <= count_occ Nat.eq_dec (c_ids cfg) x.
Proof. exact abort_sound. Qed.
Print Assumptions C12_abort_sound.

(* --- the property predicate ---------------------------------------------------------------------- *)

(* what P_C12 says about a completed call: the delivered list is a permutation of the reference
   [(i, f i) | i <- ids] *)
Theorem C12_predicate_meaning :
  forall x d, P_C12 x (Completed d) = true -> Permutation d (spec_C12 x).
Proof. exact P_C12_completed_spec. Qed.
Print Assumptions C12_predicate_meaning.

(* every outcome the pool model can produce satisfies P_C12 *)
Theorem C12_holds :
  forall cfg, put_before_exit cfg -> wf_cfg cfg = true -> brk_safe (c_brk cfg) = true ->
  forall s o, reachable cfg s -> outcome_of_state s = Some o ->
  P_C12 (c_ids cfg, c_tol cfg, c_f cfg) o = true.
Proof. exact pool_holds. Qed.
Print Assumptions C12_holds.

(* the single-process way of irun (pool_size = 1) *)
Theorem C12_sequential :
  forall tol f ids, P_C12 (ids, tol, f) (seq_run tol f ids) = true.
Proof. exact seq_holds. Qed.
Print Assumptions C12_sequential.

(* --- refutations --------------------------------------------------------------------------------- *)

(* the loop as it was written (`if not pool: break`): a reachable state with the loop exited and a
   result still queued; and the schedule of the real-code reproduction (2 of 8 delivered) *)
Theorem C12_lost_result_refuted :
  ~ terminal_complete_for brk_as_written /\
  exists s, reachable (ex_cfg (seq 0 8) 3 25 [] brk_as_written lawful_exit) s /\ ppc s = Done /\
            map fst (delivered s) = [0; 1] /\ map fst (in_flight s) = [2; 3; 4; 5; 6; 7].
Proof.
  split.
  - intros H. destruct (refuted_by _ _ _ _ sched_lost_final) as (s & HR & Hd & Hdel & _).
    specialize (H (ex_cfg [0; 1] 2 25 [] brk_as_written lawful_exit) eq_refl).
    assert (HL : put_before_exit (ex_cfg [0; 1] 2 25 [] brk_as_written lawful_exit)).
    { intros out E. destruct out; [reflexivity | discriminate]. }
    specialize (H HL eq_refl s HR Hd). rewrite Hdel in H. apply Permutation_length in H. discriminate.
  - destruct (refuted_by _ _ _ _ sched_f1_final) as (s & HR & Hd & Hdel & Hfl).
    exists s. rewrite Hdel, Hfl. auto.
Qed.
Print Assumptions C12_lost_result_refuted.

(* the naive repair (`if not pool and queue_empty: break`) is refuted too *)
Theorem C12_naive_fix_refuted : ~ terminal_complete_for brk_naive.
Proof.
  intros H. destruct (refuted_by _ _ _ _ sched_naive_final) as (s & HR & Hd & Hdel & _).
  specialize (H (ex_cfg [0; 1] 2 25 [] brk_naive lawful_exit) eq_refl).
  assert (HL : put_before_exit (ex_cfg [0; 1] 2 25 [] brk_naive lawful_exit)).
  { intros out E. destruct out; [reflexivity | discriminate]. }
  specialize (H HL eq_refl s HR Hd). rewrite Hdel in H. apply Permutation_length in H. discriminate.
Qed.
Print Assumptions C12_naive_fix_refuted.

(* the runtime law is needed: if exit codes could overtake the feeder thread, the repaired loop would
   lose results as well *)
Theorem C12_law_needed :
  exists s, reachable (ex_cfg [0; 1] 2 25 [] brk_fixed (fun _ => true)) s /\ ppc s = Done /\
            delivered s = [] /\ map fst (in_flight s) = [0; 1].
Proof.
  destruct (refuted_by _ _ _ _ sched_lawless_final) as (s & HR & Hd & Hdel & Hfl).
  exists s. rewrite Hdel, Hfl. auto.
Qed.
Print Assumptions C12_law_needed.

(* --- progress ------------------------------------------------------------------------------------ *)

(* no deadlock: in every state where the parent loop has not ended the parent has an enabled step *)
Theorem C12_progress_enabled :
  forall cfg s, ppc s <> Done -> (forall i, ppc s <> Aborted i) -> exists l s', exec cfg s l = Some s'.
Proof. exact parent_enabled. Qed.
Print Assumptions C12_progress_enabled.

(* every step except a timed-out get strictly decreases the measure [mu]; a timed-out get adds at most 3 *)
Theorem C12_progress_measure :
  forall cfg, put_before_exit cfg -> wf_cfg cfg = true ->
  forall s l s', reachable cfg s -> exec cfg s l = Some s' ->
  (l <> LGetEmpty -> mu cfg s' < mu cfg s) /\ (l = LGetEmpty -> mu cfg s' <= mu cfg s + 3).
Proof. exact mu_decreases. Qed.
Print Assumptions C12_progress_measure.

(* a timed-out get in a state where no worker can move (no take/stop/finish/flush/exit-visibility step is
   enabled; exit codes of dead workers do become visible: c_exit [] = true) is followed, within the same
   iteration of the parent, by the end of the loop or by a strictly smaller measure: the parent never spins
   on its own.  Together with C12_progress_measure: every run in which each enabled worker step is
   eventually taken reaches a terminal state (the fairness argument itself is not formalised). *)
Theorem C12_progress_no_idle_spin :
  forall cfg, put_before_exit cfg -> c_exit cfg [] = true -> wf_cfg cfg = true -> brk_live (c_brk cfg) = true ->
  forall s, reachable cfg s -> ppc s = AtGet -> doneq s = [] -> quiescent cfg s ->
  exists s', run cfg s [LGetEmpty; LReap (reap_obs (ws s)); LNoDeliver;
                        if eval_brk (c_brk cfg) (pool_empty (map reap_w (ws s))) (pool_empty (ws s)) true
                        then LBreak else LLoop] = Some s' /\
             (ppc s' = Done \/ mu cfg s' < mu cfg s).
Proof. exact no_idle_spin. Qed.
Print Assumptions C12_progress_no_idle_spin.

(* --- non-vacuity --------------------------------------------------------------------------------- *)

(* a concrete run of the repaired loop to a terminal state: 3 ids, 2 workers, max_tasks = 1 (each task
   retires its worker, slots are restarted), id 1 fails; everything is delivered *)
Example C12_example_terminal :
  exists s, reachable (ex_cfg [0; 1; 2] 2 1 [1] brk_fixed lawful_exit) s /\ ppc s = Done /\
            delivered s = [(0, VOk 3); (1, VFail 18); (2, VOk 17)] /\ in_flight s = [].
Proof. exact (refuted_by _ _ _ _ sched_ok_final). Qed.

Example C12_example_guards :
  wf_cfg (ex_cfg [0; 1; 2] 2 1 [1] brk_fixed lawful_exit) = true /\
  put_before_exit (ex_cfg [0; 1; 2] 2 1 [1] brk_fixed lawful_exit) /\
  brk_safe brk_fixed = true /\ brk_live brk_fixed = true /\
  brk_safe brk_as_written = false /\ brk_safe brk_naive = false.
Proof.
  repeat split; try reflexivity. intros out E. destruct out; [reflexivity | discriminate].
Qed.

Example C12_example_predicate :
  P_C12 ([0; 1; 2], true, std_f [1]) (Completed [(0, VOk 3); (1, VFail 18); (2, VOk 17)]) = true /\
  P_C12 (seq 0 8, true, std_f []) (Completed [(0, VOk 3); (1, VOk 10)]) = false /\
  P_C12 ([0; 1], true, std_f []) (Completed [(0, VOk 3); (1, VOk 10); (1, VOk 10)]) = false /\
  P_C12 ([0; 1], true, std_f []) (Completed [(0, VOk 3); (1, VOk 11)]) = false /\
  P_C12 ([0; 1], false, std_f [1]) (Raised 1 [(0, VOk 3)]) = true /\
  P_C12 ([0; 1], true, std_f [1]) (Raised 1 [(0, VOk 3)]) = false.
Proof. vm_compute. repeat split; reflexivity. Qed.

(* ================================================================================================ *)
(* Around the protocol: invoke_retry (what a worker computes for an id out of the attempts of the task
   function), payloads that are lists of yielded values, callbacks, and several pools in one process.
   Model: Model/PoolSession.v; predicate: Spec/P_C12x.v; proofs: Proofs/PoolSessionProofs.v. *)

(* --- invoke_retry -------------------------------------------------------------------------------- *)

(* the payload is what the first invocation that does not die with a network error computes (the value,
   for a generator the list of yielded values, or the exception it raises), whenever that invocation is
   among the first net_retry + 1 - for every task, every net_retry, every number of leading resets *)
Theorem C12_retry_delivers :
  forall net_retry att n x,
  (forall j, j < n -> is_net (att j)) -> settle (att n) = ADone x -> n <= net_retry ->
  invoke_retry net_retry att = x.
Proof. exact invoke_retry_done. Qed.
Print Assumptions C12_retry_delivers.

(* ... else the failure: net_retry + 1 network errors in a row give the last of them *)
Theorem C12_retry_exhausted :
  forall net_retry att e,
  (forall j, j < net_retry -> is_net (att j)) -> settle (att net_retry) = ANet e ->
  invoke_retry net_retry att = XFail e.
Proof. exact invoke_retry_exhausted. Qed.
Print Assumptions C12_retry_exhausted.

(* the two cases are exhaustive *)
Theorem C12_retry_total :
  forall net_retry att,
  (exists n x, n <= net_retry /\ (forall j, j < n -> is_net (att j)) /\ settle (att n) = ADone x /\
               invoke_retry net_retry att = x) \/
  (exists e, (forall j, j <= net_retry -> is_net (att j)) /\ settle (att net_retry) = ANet e /\
             invoke_retry net_retry att = XFail e).
Proof. exact invoke_retry_cases. Qed.
Print Assumptions C12_retry_total.

(* whichever attempt succeeds, a generator has been consumed: the payload is never a generator object *)
Theorem C12_retry_materialised :
  forall net_retry att,
  invoke_retry net_retry att <> XOk PLazy /\ invoke_retry net_retry att <> XOk POther /\
  invoke_retry net_retry att <> XFailOther.
Proof. exact invoke_retry_materialised. Qed.
Print Assumptions C12_retry_materialised.

(* the task of the correspondence runs, closed form: k leading resets are absorbed iff k <= net_retry *)
Theorem C12_retry_std_task :
  forall gen raising flaky n i,
  eff_f n (std_task gen raising flaky) i =
  if Nat.leb (lookup i flaky) n then std_value gen raising i else XFail (1000 + 11 * i + n).
Proof. exact std_task_retry. Qed.
Print Assumptions C12_retry_std_task.

(* --- the extended predicate ----------------------------------------------------------------------- *)

(* on numbers-only payloads P_C12x is P_C12 *)
Theorem C12_extended_predicate_conservative :
  forall ids tol f o,
  P_C12x (ids, tol, fun i => embed (f i)) (embed_outcome o) = P_C12 (ids, tol, f) o.
Proof. exact P_C12x_conservative. Qed.
Print Assumptions C12_extended_predicate_conservative.

Theorem C12_extended_predicate_meaning :
  forall ids tol g d,
  P_C12x (ids, tol, g) (XCompleted d) = true -> Permutation d (map (fun i => (i, g i)) ids).
Proof. exact P_C12x_completed_spec. Qed.
Print Assumptions C12_extended_predicate_meaning.

(* the pool protocol delivers, for every id, what its worker computed ([g id], e.g. eff_f net_retry task):
   every outcome of the protocol model, run on the success/failure shadow of g and read with the payloads
   g, satisfies the extended predicate *)
Theorem C12_holds_extended :
  forall cfg g, (forall i, c_f cfg i = shadow (g i)) ->
  put_before_exit cfg -> wf_cfg cfg = true -> brk_safe (c_brk cfg) = true ->
  forall s o, reachable cfg s -> outcome_of_state s = Some o ->
  P_C12x (c_ids cfg, c_tol cfg, g) (lift_outcome g o) = true.
Proof. exact pool_holds_x. Qed.
Print Assumptions C12_holds_extended.

(* the single-process way with retry and callbacks, for an object whose callbacks know the submitted ids
   (PoolProgressLogger is built from the fqdn table of the devices of its own run) *)
Theorem C12_sequential_extended :
  forall o ids tol t,
  obj_covers ids o = true -> P_C12x (ids, tol, eff_f (o_retry o) t) (run_obj o ids tol t) = true.
Proof. exact run_obj_holds. Qed.
Print Assumptions C12_sequential_extended.

(* --- several pools in one process ----------------------------------------------------------------- *)

(* what the pools of object p deliver is determined by the operations on p alone: it does not depend on
   the callbacks registered on, the tuning of, or the runs of any other Parallel object of the process *)
Theorem C12_pool_independence :
  forall p ops, of_obj p (session new_store ops) = session new_store (filter (on_obj p) ops).
Proof. intros p ops. apply session_frame. reflexivity. Qed.
Print Assumptions C12_pool_independence.

(* every run of a session satisfies the predicate for what was submitted to its own object *)
Theorem C12_session_run_holds :
  forall pre p ids tol tk post,
  obj_covers ids (obj_after new_obj p pre) = true ->
  exists l1 l2 o,
    session new_store (pre ++ ORun p ids tol tk :: post) = l1 ++ (p, o) :: l2 /\
    o = run_obj (obj_after new_obj p pre) ids tol tk /\
    P_C12x (ids, tol, eff_f (o_retry (obj_after new_obj p pre)) tk) o = true.
Proof. exact session_run_holds. Qed.
Print Assumptions C12_session_run_holds.

(* a pool nobody registered a callback on or tuned behaves like the first pool of a process (no callbacks,
   net_retry = 3), whatever callbacks and tunings the pools before it got *)
Theorem C12_fresh_pool_after_others :
  forall pre p ids tol tk post,
  (forall x, In x pre -> match x with ORun _ _ _ _ => True | _ => op_obj x <> p end) ->
  exists l1 l2 o,
    session new_store (pre ++ ORun p ids tol tk :: post) = l1 ++ (p, o) :: l2 /\
    o = run_obj new_obj ids tol tk /\
    P_C12x (ids, tol, eff_f 3 tk) o = true.
Proof. exact session_fresh_holds. Qed.
Print Assumptions C12_fresh_pool_after_others.

(* --- non-vacuity ---------------------------------------------------------------------------------- *)

(* a generator task; id 2 is reset 3 times (= net_retry, succeeds on the last permitted attempt), id 4 once,
   id 5 four times (exhausted: the failure is the reset of attempt 3), id 6 raises *)
Example C12_example_retry :
  map (eff_f 3 (std_task true [6] [(2, 3); (4, 1); (5, 4)])) [1; 2; 4; 5; 6] =
  [XOk (PList [10; 1]); XOk (PList [17; 2]); XOk (PList [31; 4]); XFail 1058; XFail 83] /\
  eff_f 0 (std_task false [] []) 2 = XOk (PInt 17) /\
  eff_f 0 (std_task false [] [(2, 1)]) 2 = XFail 1022 /\
  is_net (std_task true [] [(2, 3)] 2 2) /\ ~ is_net (std_task true [] [(2, 3)] 2 3).
Proof.
  repeat split; try reflexivity.
  - exists 1024. reflexivity.
  - intros [e H]. discriminate.
Qed.

(* pool 0 gets a progress callback over its ids and net_retry = 1, then pool 1 (nothing registered) runs
   other ids whose task needs 3 retries: pool 1 delivers everything with the right payloads *)
Example C12_example_session :
  let t0 := std_task true [] [(2, 1)] in
  let t1 := std_task true [11] [(10, 3)] in
  session new_store [OAdd 0 false (CbTable [1; 2; 3]); OAdd 0 true (CbTable [1; 2; 3]); OTune 0 1;
                     ORun 0 [1; 2; 3] true t0; ORun 1 [10; 11] true t1] =
  [(0, XCompleted [(1, XOk (PList [10; 1])); (2, XOk (PList [17; 2])); (3, XOk (PList [24; 3]))]);
   (1, XCompleted [(10, XOk (PList [73; 10])); (11, XFail 148)])] /\
  obj_covers [1; 2; 3] (obj_after new_obj 0 [OAdd 0 false (CbTable [1; 2; 3]); OAdd 0 true (CbTable [1; 2; 3]);
                                            OTune 0 1]) = true /\
  P_C12_session
    [(([1; 2; 3], true, eff_f 1 t0),
      XCompleted [(1, XOk (PList [10; 1])); (2, XOk (PList [17; 2])); (3, XOk (PList [24; 3]))]);
     (([10; 11], true, eff_f 3 t1), XCompleted [(10, XOk (PList [73; 10])); (11, XFail 148)])] = true.
Proof. vm_compute. repeat split; reflexivity. Qed.

(* what the predicate rejects: an unconsumed generator as payload, a computed value delivered as a failure,
   and - the guard of C12_sequential_extended is needed - what a callback of ANOTHER pool's ids does *)
Example C12_example_extended_predicate :
  let g := eff_f 3 (std_task true [] [(2, 3)]) in
  P_C12x ([2], true, g) (XCompleted [(2, XOk (PList [17; 2]))]) = true /\
  P_C12x ([2], true, g) (XCompleted [(2, XOk PLazy)]) = false /\
  P_C12x ([2], true, g) (XCompleted [(2, XFailOther)]) = false /\
  run_obj (PObj [] [CbTable [1; 3]] 3) [2] true (std_task true [] [(2, 3)]) = XCompleted [(2, XFailOther)].
Proof. vm_compute. repeat split; reflexivity. Qed.
