(* C16 — property theorems only. *)
From Coq Require Import List String Bool Arith ZArith.
From Annet Require Import Base.Str Base.Tree Model.Pattern Model.Rulebook Model.Diff Model.Order
     Model.Patch Model.Blocks Model.Pipeline Spec.PipelineCase Gen.Src_api Spec.P_C16.
Import ListNotations.
Open Scope string_scope.

(* With the data flow read from annet/api/__init__.py on this run, the file front end
   and the device front end return the same stripped diff and the same patch for every
   vendor, rulebook, ordering rulebook and pair of configurations — and this for ANY
   rule logic, because both build the patch from the same (unstripped) diff.  The proof
   is by computation on the generated stage expressions: it stops checking as soon as
   one front end strips, or fails to strip, where the other does not. *)
Theorem C16_same :
  forall (v : vendor) (rs : rset) (ordering : list orule) (old new : forest),
    file_mode v rs ordering old new = device_mode v rs ordering old new.
Proof. intros. reflexivity. Qed.
Print Assumptions C16_same.

(* stated on the front ends' three observables *)
Theorem C16_same_observables :
  forall (v : vendor) (rs : rset) (ordering : list orule) (old new : forest),
    fst (file_mode v rs ordering old new) = fst (device_mode v rs ordering old new) /\
    snd (file_mode v rs ordering old new) = snd (device_mode v rs ordering old new) /\
    (forall p q, snd (file_mode v rs ordering old new) = POk p ->
                 snd (device_mode v rs ordering old new) = POk q ->
                 cmd_paths (v_family v) p = cmd_paths (v_family v) q).
Proof.
  intros. rewrite C16_same. repeat split. intros p q Hp Hq. rewrite Hp in Hq. injection Hq as ->. reflexivity.
Qed.
Print Assumptions C16_same_observables.

(* Why the data flow matters: a front end that strips unchanged rows BEFORE make_pre
   (what _read_old_new_diff_patch did before the fix) orders the patch differently as
   soon as a (rule, key) slot holds an unchanged row next to a changed one — even for
   the default logic, which never reads the UNCHANGED bucket. *)
Definition c16_witness_rules : rset :=
  ([PRule "gamma *" false (Attrs "gamma *" LDefault DDefault false false) [] []], []).
Definition c16_witness_old : forest := [("gamma 1 delta y", T [])].
Definition c16_witness_new : forest :=
  [("gamma 1 delta y", T []); ("gamma Eth1", T []); ("gamma 1 delta", T [])].
Theorem C16_strip_first_refuted :
  let v := Vendor "undo" "quit" FHuawei in
  snd (file_diff_and_patch_stripped_first v c16_witness_rules [] c16_witness_old c16_witness_new)
  <> snd (diff_and_patch v c16_witness_rules [] c16_witness_old c16_witness_new).
Proof. vm_compute. intro H. discriminate H. Qed.
Print Assumptions C16_strip_first_refuted.

(* ===================== the TEXT level: the reader both front ends share =====================
   Both front ends start from a dump text: the device front end parses the running config with
   parse_to_tree(text, formatter.split) (annet/gen.py), the file front end reads the same text from a
   file (api._read_device_config).  The theorems say which noise of a dump is neutral for that parse —
   the families the correspondence run feeds to both real front ends — and which clean-up of the text
   before parsing is NOT neutral.  parse_items is the model of _stripped_indents/_stacked on the
   classified lines (Model/Offside.v); outcome_tree forgets the line number of a ParserError. *)
From Coq Require Import Ascii.
From Annet Require Import Model.Offside Gen.Src_vendors Model.Join Spec.P_C16t Spec.P_C16r Proofs.C16TextProofs.

(* comment lines and blank lines: removing (or inserting) them anywhere, in any parser state, does not
   change the tree or whether the parse fails *)
Theorem C16_text_comment_lines_neutral :
  forall (its : list item) (n m : nat) (s : pstate),
    outcome_tree (parse_items (filter (fun i => negb (is_skip i)) its) n s) =
    outcome_tree (parse_items its m s).
Proof. exact parse_items_skip_neutral. Qed.
Print Assumptions C16_text_comment_lines_neutral.

(* the same on lines, for the two kinds the generator inserts: lines starting with "!" and empty lines *)
Theorem C16_text_bang_and_empty_lines_neutral :
  forall lines : list string,
    outcome_tree (parse_lines default_comments (filter (fun l => negb (bang_or_empty l)) lines)) =
    outcome_tree (parse_lines default_comments lines).
Proof. exact bang_and_empty_lines_neutral. Qed.
Print Assumptions C16_text_bang_and_empty_lines_neutral.

(* what the lines of a dump are to the parser *)
Theorem C16_text_line_classes :
  (forall s, classify default_comments (String "!"%char s) = Skip) /\
  (forall s, classify default_comments (String "#"%char s) = Reset) /\
  classify default_comments "" = Skip.
Proof. exact (conj classify_bang_line (conj classify_hash_line classify_empty_line)). Qed.
Print Assumptions C16_text_line_classes.

(* VRP5 style: every section that ends with a "#" line in column 0 may be printed with its own left
   margin; the outcome (tree, or the very same ParserError) is that of the dump without margins *)
Theorem C16_text_section_margins_neutral :
  forall (secs : list (nat * list item)) (n : nat) (s : pstate),
    forallb (fun ks => no_reset (snd ks)) secs = true ->
    ps_g s = None ->
    parse_items (render_sections secs) n s = parse_items (render_sections (unshifted secs)) n s.
Proof. exact section_margins_neutral. Qed.
Print Assumptions C16_text_section_margins_neutral.

Example C16_text_section_margins_nonvacuous :
  forallb (fun ks => no_reset (snd ks)) vrp5_sections = true /\ ps_g ps_init = None /\
  render_sections vrp5_sections <> render_sections (unshifted vrp5_sections) /\
  parse_items (render_sections vrp5_sections) 1 ps_init =
  Ok [("interface GigabitEthernet0/0/1", T [("description uplink", T [])]);
      ("ip route-static 0.0.0.0 0.0.0.0 10.0.0.254", T []);
      ("info-center loghost 10.0.0.7", T [])].
Proof. vm_compute. repeat split. intro H. discriminate H. Qed.

(* a reader may drop the "#" lines before parsing only if the first line of the dump and of every
   section sits in column 0 (CE/NE style): then the outcome is the same ... *)
Theorem C16_text_hash_lines_droppable_when_sections_start_in_col0 :
  forall its : list item,
    heads_col0 true its = true ->
    outcome_tree (parse_items (filter (fun i => negb (is_reset i)) its) 1 ps_init) =
    outcome_tree (parse_items its 1 ps_init).
Proof. exact drop_resets_neutral_col0_init. Qed.
Print Assumptions C16_text_hash_lines_droppable_when_sections_start_in_col0.

Example C16_text_hash_lines_droppable_nonvacuous :
  let its := [Reset; Content 0 "interface GE1"; Content 1 "shutdown"; Reset; Content 0 "ip route-static a"; Reset] in
  heads_col0 true its = true /\
  parse_items its 1 ps_init = Ok [("interface GE1", T [("shutdown", T [])]); ("ip route-static a", T [])].
Proof. vm_compute. split; reflexivity. Qed.

(* ... and not in general: on a VRP5-style dump a file reader that removes the lines starting with "!" or
   "#" before parse_to_tree reads another tree than the device front end reads from the same text
   (the space-prefixed global command becomes a child of the preceding interface block) *)
Theorem C16_text_dropping_marked_lines_refuted :
  exists text : string,
    read_config "huawei" text <> None /\
    read_config "huawei" (drop_marked_lines text) <> read_config "huawei" text.
Proof.
  exists vrp5_dump. rewrite vrp5_dump_device_side, vrp5_dump_marked_lines_dropped.
  split; intro H; discriminate H.
Qed.
Print Assumptions C16_text_dropping_marked_lines_refuted.

(* the same two laws on the LINES of a dump (what the generator of the correspondence run writes) *)
From Annet Require Import Proofs.C16LinesProofs.

(* sections of lines none of which starts with "#", each followed by a "#" line: printing every line of a
   section k columns to the right (k chosen per section) gives the same outcome as printing none shifted *)
Theorem C16_text_section_margins_neutral_lines :
  forall secs : list (nat * list string),
    forallb (fun ks => hash_free (snd ks)) secs = true ->
    parse_lines default_comments (render_lines secs) =
    parse_lines default_comments (render_lines (unshifted_lines secs)).
Proof. exact section_margins_neutral_lines. Qed.
Print Assumptions C16_text_section_margins_neutral_lines.

Example C16_text_section_margins_lines_nonvacuous :
  let secs := [ (0, ["!Software Version V200R001C00SPC300"]);
                (0, ["interface GigabitEthernet0/0/1"; " description uplink"; ""]);
                (1, ["ip route-static 0.0.0.0 0.0.0.0 10.0.0.254"]);
                (2, ["info-center loghost 10.0.0.7"]) ] in
  forallb (fun ks => hash_free (snd ks)) secs = true /\
  render_lines secs =
    ["!Software Version V200R001C00SPC300"; "#";
     "interface GigabitEthernet0/0/1"; " description uplink"; ""; "#";
     " ip route-static 0.0.0.0 0.0.0.0 10.0.0.254"; "#";
     "  info-center loghost 10.0.0.7"; "#"] /\
  parse_lines default_comments (render_lines secs) =
  Ok [("interface GigabitEthernet0/0/1", T [("description uplink", T [])]);
      ("ip route-static 0.0.0.0 0.0.0.0 10.0.0.254", T []);
      ("info-center loghost 10.0.0.7", T [])].
Proof. vm_compute. repeat split. Qed.

(* blanks appended to any lines, any number per line, change nothing (not even the line of an error) *)
Theorem C16_text_trailing_blanks_neutral :
  forall (pad : string -> nat) (lines : list string),
    parse_lines default_comments (map (fun l => pad_right l (pad l)) lines) =
    parse_lines default_comments lines.
Proof. exact trailing_blanks_neutral. Qed.
Print Assumptions C16_text_trailing_blanks_neutral.
