(* C16 — property theorems only. *)
From Coq Require Import List String Bool Arith ZArith.
From Annet Require Import Base.Str Base.Tree Model.Pattern Model.Rulebook Model.Diff Model.Order
     Model.Patch Model.Blocks Model.Pipeline Spec.PipelineCase Gen.Src_api Spec.P_C16.
Import ListNotations.
Open Scope string_scope.

(* With the data flow read from annet/api/__init__.py on this run, the file front end
   and the device front end return the same stripped diff and the same patch for every
   vendor, rulebook, ordering rulebook and pair of configurations — and this for ANY
   rule logic, because both build the patch from the same (unstripped) diff.  The proof
   is by computation on the generated stage expressions: it stops checking as soon as
   one front end strips, or fails to strip, where the other does not. *)
Theorem C16_same :
  forall (v : vendor) (rs : rset) (ordering : list orule) (old new : forest),
    file_mode v rs ordering old new = device_mode v rs ordering old new.
Proof. intros. reflexivity. Qed.
Print Assumptions C16_same.

(* stated on the front ends' three observables *)
Theorem C16_same_observables :
  forall (v : vendor) (rs : rset) (ordering : list orule) (old new : forest),
    fst (file_mode v rs ordering old new) = fst (device_mode v rs ordering old new) /\
    snd (file_mode v rs ordering old new) = snd (device_mode v rs ordering old new) /\
    (forall p q, snd (file_mode v rs ordering old new) = POk p ->
                 snd (device_mode v rs ordering old new) = POk q ->
                 cmd_paths (v_family v) p = cmd_paths (v_family v) q).
Proof.
  intros. rewrite C16_same. repeat split. intros p q Hp Hq. rewrite Hp in Hq. injection Hq as ->. reflexivity.
Qed.
Print Assumptions C16_same_observables.

(* Why the data flow matters: a front end that strips unchanged rows BEFORE make_pre
   (what _read_old_new_diff_patch did before the fix) orders the patch differently as
   soon as a (rule, key) slot holds an unchanged row next to a changed one — even for
   the default logic, which never reads the UNCHANGED bucket. *)
Definition c16_witness_rules : rset :=
  ([PRule "gamma *" false (Attrs "gamma *" LDefault DDefault false false) [] []], []).
Definition c16_witness_old : forest := [("gamma 1 delta y", T [])].
Definition c16_witness_new : forest :=
  [("gamma 1 delta y", T []); ("gamma Eth1", T []); ("gamma 1 delta", T [])].
Theorem C16_strip_first_refuted :
  let v := Vendor "undo" "quit" FHuawei in
  snd (file_diff_and_patch_stripped_first v c16_witness_rules [] c16_witness_old c16_witness_new)
  <> snd (diff_and_patch v c16_witness_rules [] c16_witness_old c16_witness_new).
Proof. vm_compute. intro H. discriminate H. Qed.
Print Assumptions C16_strip_first_refuted.
