(* C15 — property theorems only.  Proofs live in Proofs/MergeProofs.v (and MeshProofs.v). *)
From Coq Require Import List String Bool Arith ZArith.
From Annet Require Import Model.Merge Spec.P_C15 Proofs.MergeProofs.
Import ListNotations.
Open Scope string_scope.

(* Merging with an object that has nothing set is the identity, on either side
   (Merger.__call__: NOT_SET never overrides a set value). *)
Theorem C15_unset_neutral :
  forall (sch : schema) (a : entries),
    merge sch a [] = Ok a /\ (wf_obj sch a = true -> merge sch [] a = Ok a).
Proof.
  intros sch a. split.
  - apply merge_unset_right.
  - intros H. apply merge_unset_left. apply wf_obj_fields_in. exact H.
Qed.
Print Assumptions C15_unset_neutral.
