(* C15 — property theorems only.  Proofs live in Proofs/MergeProofs.v and Proofs/MeshProofs.v. *)
From Coq Require Import List String Bool Arith ZArith Permutation.
From Annet Require Import Model.Merge Model.Mesh Spec.P_C15 Proofs.MergeProofs Proofs.MeshProofs.
Import ListNotations.
Open Scope string_scope.

(* Merging with an object that has nothing set is the identity, on either side
   (Merger.__call__: NOT_SET never overrides a set value). *)
Theorem C15_unset_neutral :
  forall (sch : schema) (a : entries),
    merge sch a [] = Ok a /\ (wf_obj sch a = true -> merge sch [] a = Ok a).
Proof.
  intros sch a. split.
  - apply merge_unset_right.
  - intros H. apply merge_unset_left. apply wf_obj_fields_in. exact H.
Qed.
Print Assumptions C15_unset_neutral.

(* merge is associative for every merger (UseFirst/UseLast included), at any nesting depth:
   (a+b)+c and a+(b+c) are both MergeForbiddenError or both defined and equal (objects and
   dicts as finite maps, sets by membership, lists element by element). *)
Theorem C15_assoc :
  forall (sch : schema) (a b c : entries),
    wf_obj sch a = true -> wf_obj sch b = true -> wf_obj sch c = true ->
    same_exact sch (bind (merge sch a b) (fun ab => merge sch ab c))
                   (bind (merge sch b c) (fun bc => merge sch a bc)) = true.
Proof. exact merge_assoc. Qed.
Print Assumptions C15_assoc.

(* merge a b and merge b a: both errors, or equal with Concat fields compared as multisets.
   Classes using UseFirst/UseLast anywhere are order dependent by declaration and excluded
   (see C15_uselast_is_order_dependent). *)
Theorem C15_comm_mod_concat :
  forall (sch : schema) (a b : entries),
    order_free (MMerge sch) = true -> wf_obj sch a = true -> wf_obj sch b = true ->
    same_mod_concat sch (merge sch a b) (merge sch b a) = true.
Proof. exact merge_comm_mod_concat. Qed.
Print Assumptions C15_comm_mod_concat.

(* Folding merge over the outputs of any number of handlers gives the same result for every
   order of the handlers (modulo the element order of Concat fields), or an error for every
   order. *)
Theorem C15_handler_order :
  forall (sch : schema) (objs objs' : list entries),
    order_free (MMerge sch) = true ->
    Forall (fun a => wf_obj sch a = true) objs ->
    Permutation objs objs' ->
    same_mod_concat sch (merge_list sch objs) (merge_list sch objs') = true.
Proof. exact merge_list_perm. Qed.
Print Assumptions C15_handler_order.

(* the same for any single field value and merger, nested or not *)
Theorem C15_field_order :
  forall (m : merger) (l l' : list value),
    order_free m = true ->
    Forall (fun v => wf_val m v = true) l -> Permutation l l' ->
    req true m (nfold (merge_val m) l) (nfold (merge_val m) l').
Proof. intros m l l' H. apply nfold_perm. exact H. Qed.
Print Assumptions C15_field_order.

(* ---- executor model (tier B; one handler call per session) ---------------------------------- *)

(* a rule matching (A, B) is found from A in direct order and from B in reverse order, with the
   same (left, right): the handler is called with the same arguments on both ends *)
Theorem C15_lookup_both_orientations :
  forall matches rules A B nbsA nbsB r,
    In A nbsB ->
    (In (Matched r true A B) (lookup_direct matches rules A nbsA) ->
     In (Matched r false A B) (lookup_direct matches rules B nbsB)) /\
    (In (Matched r false B A) (lookup_direct matches rules A nbsA) ->
     In (Matched r true B A) (lookup_direct matches rules B nbsB)).
Proof. exact lookup_direct_mirror. Qed.
Print Assumptions C15_lookup_both_orientations.

(* Mirror: the two ends of a session exchange local and connected DTO; hence the peer on each
   side points at the address and AS number the handler assigned to the other side, and
   families / vrf / group agree whenever the two DTOs agree on them (C15_session_shared: always,
   for attributes set on the session only). *)
Theorem C15_mirror :
  forall handler dto A B r o L R L' R' ports loc con,
    execute_direct_pair handler dto A B (Matched r o L R) ports = Some (Ok (loc, con)) ->
    execute_direct_pair handler dto B A (Matched r (negb o) L' R') (map swap ports) = Some (Ok (con, loc)) /\
    let pA := to_bgp_peer loc con B in
    let pB := to_bgp_peer con loc A in
    p_addr pA = ip_val (attr "addr" con) /\ p_addr pB = ip_val (attr "addr" loc) /\
    p_remote_as pA = p_local_as pB /\ p_remote_as pB = p_local_as pA /\
    (attr "families" loc = attr "families" con -> p_families pA = p_families pB) /\
    (attr "vrf" loc = attr "vrf" con -> p_vrf_name pA = p_vrf_name pB) /\
    (attr "group_name" loc = attr "group_name" con -> p_group_name pA = p_group_name pB).
Proof. exact mesh_mirror. Qed.
Print Assumptions C15_mirror.

Theorem C15_session_shared :
  forall handler dto A B r L R ports loc con f,
    execute_direct_pair handler dto A B (Matched r true L R) ports = Some (Ok (loc, con)) ->
    (let '(l, rr, _) := handler (r_id r) A B (map fst ports) in lookup f l = None /\ lookup f rr = None) ->
    attr f loc = attr f con.
Proof. exact mesh_session_shared. Qed.
Print Assumptions C15_session_shared.

(* not proved: mirror after the keyed merge of several handlers (the two ends group by different
   keys); the statement is Proofs.MeshProofs.C15_mirror_merged_statement, checked on the real
   executor by the correspondence run only *)

(* ---- non-vacuity -------------------------------------------------------------------------- *)

Definition ex_leaf : schema :=
  [("asnum", MForbidChange); ("families", MUnite); ("routes", MConcat); ("once", MForbid)].
Definition ex_sch : schema :=
  [("addr", MForbidChange); ("opts", MMerge ex_leaf); ("groups", MDictMerge (MMerge ex_leaf))].
Definition ex_a : entries :=
  [("addr", VAtom (AStr "10.0.0.1"));
   ("opts", VObj [("asnum", VAtom (AInt 65001)); ("routes", VList [AStr "r1"]); ("families", VSet [AStr "v4"])]);
   ("groups", VDict [("g", VObj [("routes", VList [AStr "x"])])])].
Definition ex_b : entries :=
  [("opts", VObj [("routes", VList [AStr "r2"]); ("families", VSet [AStr "v6"; AStr "v4"]); ("asnum", VAtom (AInt 65001))]);
   ("groups", VDict [("h", VObj [("once", VAtom (AInt 1))]); ("g", VObj [("routes", VList [AStr "y"])])]);
   ("addr", VAtom (AStr "10.0.0.1"))].
Definition ex_c : entries :=
  [("opts", VObj [("asnum", VAtom (AInt 65002))])].

Example C15_example_guards :
  order_free (MMerge ex_sch) = true /\
  wf_obj ex_sch ex_a = true /\ wf_obj ex_sch ex_b = true /\ wf_obj ex_sch ex_c = true.
Proof. vm_compute. repeat split. Qed.

(* defined both ways, equal only modulo Concat order *)
Example C15_example_comm :
  merge ex_sch ex_a ex_b =
    Ok [("addr", VAtom (AStr "10.0.0.1"));
        ("opts", VObj [("asnum", VAtom (AInt 65001)); ("routes", VList [AStr "r1"; AStr "r2"]);
                       ("families", VSet [AStr "v4"; AStr "v6"])]);
        ("groups", VDict [("g", VObj [("routes", VList [AStr "x"; AStr "y"])]);
                          ("h", VObj [("once", VAtom (AInt 1))])])] /\
  same_exact ex_sch (merge ex_sch ex_a ex_b) (merge ex_sch ex_b ex_a) = false /\
  same_mod_concat ex_sch (merge ex_sch ex_a ex_b) (merge ex_sch ex_b ex_a) = true.
Proof. vm_compute. repeat split. Qed.

(* a conflict (two AS numbers) is an error in every order *)
Example C15_example_conflict :
  map (merge_list ex_sch) [[ex_a; ex_b; ex_c]; [ex_c; ex_a; ex_b]; [ex_b; ex_c; ex_a]] =
  [Err EForbidden; Err EForbidden; Err EForbidden].
Proof. vm_compute. reflexivity. Qed.

(* UseLast (Pair.device in the executor) makes a class order dependent: reported, not claimed *)
Example C15_uselast_is_order_dependent :
  let sch := [("device", MUseLast)] in
  let a := [("device", VAtom (AStr "d1"))] in
  let b := [("device", VAtom (AStr "d2"))] in
  order_free (MMerge sch) = false /\
  same_mod_concat sch (merge sch a b) (merge sch b a) = false.
Proof. vm_compute. split; reflexivity. Qed.

(* mirror, non-vacuous: a handler assigning addresses per side and AS/families on the session *)
Definition ex_dto : schema :=
  [("addr", MForbidChange); ("asnum", MForbidChange); ("families", MUnite); ("lag", MForbidChange)].
Definition ex_handler (_ : nat) (l r : string) (ports : list string) : entries * entries * entries :=
  ([("addr", VAtom (AStr "10.0.0.1/31")); ("lag", VAtom (AInt 1))],
   [("addr", VAtom (AStr "10.0.0.0/31")); ("asnum", VAtom (AInt 65002))],
   [("families", VSet [AStr "ipv4_unicast"])]).

Example C15_example_mirror :
  let m := Matched (Rule 0 United) true "a1" "b1" in
  execute_direct_pair ex_handler ex_dto "a1" "b1" m [("e1", "e7"); ("e2", "e8")] =
    Some (Ok ([("addr", VAtom (AStr "10.0.0.1/31")); ("lag", VAtom (AInt 1)); ("families", VSet [AStr "ipv4_unicast"])],
              [("addr", VAtom (AStr "10.0.0.0/31")); ("asnum", VAtom (AInt 65002)); ("families", VSet [AStr "ipv4_unicast"])])) /\
  target_interface [("addr", VAtom (AStr "10.0.0.1/31")); ("lag", VAtom (AInt 1))] ["e1"; "e2"]
                   (fun _ => "Trunk1") (fun _ => "Vlan") (fun p _ => p) = Some "Trunk1" /\
  target_interface [("addr", VAtom (AStr "10.0.0.0/31"))] ["e7"; "e8"]
                   (fun _ => "Trunk1") (fun _ => "Vlan") (fun p _ => p) = None.
Proof. vm_compute. repeat split. Qed.
