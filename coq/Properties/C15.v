(* C15 — property theorems only.  Proofs live in Proofs/MergeProofs.v and Proofs/MeshProofs.v. *)
From Coq Require Import List String Bool Arith ZArith Permutation.
From Annet Require Import Model.Merge Model.Mesh Model.MeshExec Spec.P_C15 Spec.P_C15_iface
     Proofs.MergeProofs Proofs.MeshProofs Proofs.MeshExecProofs.
Import ListNotations.
Open Scope string_scope.

(* Merging with an object that has nothing set is the identity, on either side
   (Merger.__call__: NOT_SET never overrides a set value). *)
Theorem C15_unset_neutral :
  forall (sch : schema) (a : entries),
    merge sch a [] = Ok a /\ (wf_obj sch a = true -> merge sch [] a = Ok a).
Proof.
  intros sch a. split.
  - apply merge_unset_right.
  - intros H. apply merge_unset_left. apply wf_obj_fields_in. exact H.
Qed.
Print Assumptions C15_unset_neutral.

(* merge is associative for every merger (UseFirst/UseLast included), at any nesting depth:
   (a+b)+c and a+(b+c) are both MergeForbiddenError or both defined and equal (objects and
   dicts as finite maps, sets by membership, lists element by element). *)
Theorem C15_assoc :
  forall (sch : schema) (a b c : entries),
    wf_obj sch a = true -> wf_obj sch b = true -> wf_obj sch c = true ->
    same_exact sch (bind (merge sch a b) (fun ab => merge sch ab c))
                   (bind (merge sch b c) (fun bc => merge sch a bc)) = true.
Proof. exact merge_assoc. Qed.
Print Assumptions C15_assoc.

(* merge a b and merge b a: both errors, or equal with Concat fields compared as multisets.
   Classes using UseFirst/UseLast anywhere are order dependent by declaration and excluded
   (see C15_uselast_is_order_dependent). *)
Theorem C15_comm_mod_concat :
  forall (sch : schema) (a b : entries),
    order_free (MMerge sch) = true -> wf_obj sch a = true -> wf_obj sch b = true ->
    same_mod_concat sch (merge sch a b) (merge sch b a) = true.
Proof. exact merge_comm_mod_concat. Qed.
Print Assumptions C15_comm_mod_concat.

(* Folding merge over the outputs of any number of handlers gives the same result for every
   order of the handlers (modulo the element order of Concat fields), or an error for every
   order. *)
Theorem C15_handler_order :
  forall (sch : schema) (objs objs' : list entries),
    order_free (MMerge sch) = true ->
    Forall (fun a => wf_obj sch a = true) objs ->
    Permutation objs objs' ->
    same_mod_concat sch (merge_list sch objs) (merge_list sch objs') = true.
Proof. exact merge_list_perm. Qed.
Print Assumptions C15_handler_order.

(* the same for any single field value and merger, nested or not *)
Theorem C15_field_order :
  forall (m : merger) (l l' : list value),
    order_free m = true ->
    Forall (fun v => wf_val m v = true) l -> Permutation l l' ->
    req true m (nfold (merge_val m) l) (nfold (merge_val m) l').
Proof. intros m l l' H. apply nfold_perm. exact H. Qed.
Print Assumptions C15_field_order.

(* ---- executor model (tier B; one handler call per session) ---------------------------------- *)

(* a rule matching (A, B) is found from A in direct order and from B in reverse order, with the
   same (left, right): the handler is called with the same arguments on both ends *)
Theorem C15_lookup_both_orientations :
  forall matches rules A B nbsA nbsB r,
    In A nbsB ->
    (In (Matched r true A B) (lookup_direct matches rules A nbsA) ->
     In (Matched r false A B) (lookup_direct matches rules B nbsB)) /\
    (In (Matched r false B A) (lookup_direct matches rules A nbsA) ->
     In (Matched r true B A) (lookup_direct matches rules B nbsB)).
Proof. exact lookup_direct_mirror. Qed.
Print Assumptions C15_lookup_both_orientations.

(* Mirror: the two ends of a session exchange local and connected DTO; hence the peer on each
   side points at the address and AS number the handler assigned to the other side, and
   families / vrf / group agree whenever the two DTOs agree on them (C15_session_shared: always,
   for attributes set on the session only). *)
Theorem C15_mirror :
  forall handler dto A B r o L R L' R' ports loc con,
    execute_direct_pair handler dto A B (Matched r o L R) ports = Some (Ok (loc, con)) ->
    execute_direct_pair handler dto B A (Matched r (negb o) L' R') (map swap ports) = Some (Ok (con, loc)) /\
    let pA := to_bgp_peer loc con B in
    let pB := to_bgp_peer con loc A in
    p_addr pA = ip_val (attr "addr" con) /\ p_addr pB = ip_val (attr "addr" loc) /\
    p_remote_as pA = p_local_as pB /\ p_remote_as pB = p_local_as pA /\
    (attr "families" loc = attr "families" con -> p_families pA = p_families pB) /\
    (attr "vrf" loc = attr "vrf" con -> p_vrf_name pA = p_vrf_name pB) /\
    (attr "group_name" loc = attr "group_name" con -> p_group_name pA = p_group_name pB).
Proof. exact mesh_mirror. Qed.
Print Assumptions C15_mirror.

Theorem C15_session_shared :
  forall handler dto A B r L R ports loc con f,
    execute_direct_pair handler dto A B (Matched r true L R) ports = Some (Ok (loc, con)) ->
    (let '(l, rr, _) := handler (r_id r) A B (map fst ports) in lookup f l = None /\ lookup f rr = None) ->
    attr f loc = attr f con.
Proof. exact mesh_session_shared. Qed.
Print Assumptions C15_session_shared.

(* not proved: mirror after the keyed merge of several handlers (the two ends group by different
   keys); the statement is Proofs.MeshProofs.C15_mirror_merged_statement, checked on the real
   executor by the correspondence run only *)

(* ---- non-vacuity -------------------------------------------------------------------------- *)

Definition ex_leaf : schema :=
  [("asnum", MForbidChange); ("families", MUnite); ("routes", MConcat); ("once", MForbid)].
Definition ex_sch : schema :=
  [("addr", MForbidChange); ("opts", MMerge ex_leaf); ("groups", MDictMerge (MMerge ex_leaf))].
Definition ex_a : entries :=
  [("addr", VAtom (AStr "10.0.0.1"));
   ("opts", VObj [("asnum", VAtom (AInt 65001)); ("routes", VList [AStr "r1"]); ("families", VSet [AStr "v4"])]);
   ("groups", VDict [("g", VObj [("routes", VList [AStr "x"])])])].
Definition ex_b : entries :=
  [("opts", VObj [("routes", VList [AStr "r2"]); ("families", VSet [AStr "v6"; AStr "v4"]); ("asnum", VAtom (AInt 65001))]);
   ("groups", VDict [("h", VObj [("once", VAtom (AInt 1))]); ("g", VObj [("routes", VList [AStr "y"])])]);
   ("addr", VAtom (AStr "10.0.0.1"))].
Definition ex_c : entries :=
  [("opts", VObj [("asnum", VAtom (AInt 65002))])].

Example C15_example_guards :
  order_free (MMerge ex_sch) = true /\
  wf_obj ex_sch ex_a = true /\ wf_obj ex_sch ex_b = true /\ wf_obj ex_sch ex_c = true.
Proof. vm_compute. repeat split. Qed.

(* defined both ways, equal only modulo Concat order *)
Example C15_example_comm :
  merge ex_sch ex_a ex_b =
    Ok [("addr", VAtom (AStr "10.0.0.1"));
        ("opts", VObj [("asnum", VAtom (AInt 65001)); ("routes", VList [AStr "r1"; AStr "r2"]);
                       ("families", VSet [AStr "v4"; AStr "v6"])]);
        ("groups", VDict [("g", VObj [("routes", VList [AStr "x"; AStr "y"])]);
                          ("h", VObj [("once", VAtom (AInt 1))])])] /\
  same_exact ex_sch (merge ex_sch ex_a ex_b) (merge ex_sch ex_b ex_a) = false /\
  same_mod_concat ex_sch (merge ex_sch ex_a ex_b) (merge ex_sch ex_b ex_a) = true.
Proof. vm_compute. repeat split. Qed.

(* a conflict (two AS numbers) is an error in every order *)
Example C15_example_conflict :
  map (merge_list ex_sch) [[ex_a; ex_b; ex_c]; [ex_c; ex_a; ex_b]; [ex_b; ex_c; ex_a]] =
  [Err EForbidden; Err EForbidden; Err EForbidden].
Proof. vm_compute. reflexivity. Qed.

(* UseLast (Pair.device in the executor) makes a class order dependent: reported, not claimed *)
Example C15_uselast_is_order_dependent :
  let sch := [("device", MUseLast)] in
  let a := [("device", VAtom (AStr "d1"))] in
  let b := [("device", VAtom (AStr "d2"))] in
  order_free (MMerge sch) = false /\
  same_mod_concat sch (merge sch a b) (merge sch b a) = false.
Proof. vm_compute. split; reflexivity. Qed.

(* mirror, non-vacuous: a handler assigning addresses per side and AS/families on the session *)
Definition ex_dto : schema :=
  [("addr", MForbidChange); ("asnum", MForbidChange); ("families", MUnite); ("lag", MForbidChange)].
Definition ex_handler (_ : nat) (l r : string) (ports : list string) : entries * entries * entries :=
  ([("addr", VAtom (AStr "10.0.0.1/31")); ("lag", VAtom (AInt 1))],
   [("addr", VAtom (AStr "10.0.0.0/31")); ("asnum", VAtom (AInt 65002))],
   [("families", VSet [AStr "ipv4_unicast"])]).

Example C15_example_mirror :
  let m := Matched (Rule 0 United) true "a1" "b1" in
  execute_direct_pair ex_handler ex_dto "a1" "b1" m [("e1", "e7"); ("e2", "e8")] =
    Some (Ok ([("addr", VAtom (AStr "10.0.0.1/31")); ("lag", VAtom (AInt 1)); ("families", VSet [AStr "ipv4_unicast"])],
              [("addr", VAtom (AStr "10.0.0.0/31")); ("asnum", VAtom (AInt 65002)); ("families", VSet [AStr "ipv4_unicast"])])) /\
  target_interface [("addr", VAtom (AStr "10.0.0.1/31")); ("lag", VAtom (AInt 1))] ["e1"; "e2"]
                   (fun _ => "Trunk1") (fun _ => "Vlan") (fun p _ => p) = Some "Trunk1" /\
  target_interface [("addr", VAtom (AStr "10.0.0.0/31"))] ["e7"; "e8"]
                   (fun _ => "Trunk1") (fun _ => "Vlan") (fun p _ => p) = None.
Proof. vm_compute. repeat split. Qed.


(* ============================================================================================== *)
(* Interface clause, per-rule sessions, indirect / virtual rules (Model/MeshExec.v: the whole of     *)
(* MeshExecutor.execute_for; Spec/P_C15_iface.v: the declarative selection)                          *)

(* _apply_direct_interface_changes after to_interface_changes, for EVERY DTO, port list, connection
   list, device state and adapter naming: the outcome is decided by the declarative table --
   ValueError exactly on a refused combination (LAG+SVI, SVI+subif, several links without LAG/SVI),
   otherwise the session sits on the selected interface (port -> that port; lag -> <lag name>;
   subif n -> <parent>.<n> for every integer n, 0 included; svi -> <svi name>), the local address
   (and vrf) is assigned on exactly that interface, existing interfaces are kept, the target exists. *)
Theorem C15_interface :
  forall nm conns ports local d,
    match direct_step nm conns ports local d with
    | inr (t, d') =>
      refused_direct local (List.length (pair_ports conns ports)) = false /\
      t = selected_direct nm local (hd "" (pair_ports conns ports)) /\
      d_log d' = (d_log d ++ [(t, get_str "addr" local, txt "vrf" local)])%list /\
      (forall i, sin i (d_ifs d) = true -> sin i (d_ifs d') = true) /\
      (sin t (d_ifs d') = true \/ t = hd "" (pair_ports conns ports))
    | inl FValue =>
      wf_iface_dto local = true /\ refused_direct local (List.length (pair_ports conns ports)) = true
    | inl FOther => wf_iface_dto local = false \/ pair_ports conns ports = []
    end.
Proof. exact direct_step_table. Qed.
Print Assumptions C15_interface.

(* the same for _apply_indirect_interface_changes: sub-interface of ifname / SVI / ifname itself /
   no interface (then no address is assigned); ValueError exactly when refused *)
Theorem C15_interface_indirect :
  forall nm local d,
    match indirect_step nm local d with
    | inr (t, d') =>
      refused_indirect local (d_ifs d) = false /\
      t = selected_indirect nm local /\
      d_log d' = (d_log d ++ log_of t local)%list /\
      (forall i, sin i (d_ifs d) = true -> sin i (d_ifs d') = true) /\
      (forall n, t = Some n -> sin n (d_ifs d') = true)
    | inl FValue => wf_iface_dto local = true /\ refused_indirect local (d_ifs d) = true
    | inl FOther => wf_iface_dto local = false \/ typed_str "ifname" local = false
    end.
Proof. exact indirect_step_table. Qed.
Print Assumptions C15_interface_indirect.

(* with the naming of the stub / netbox adapter: unit n of whatever the rest of the DTO selects is
   <parent>.<n>, differs from the parent for every n (unit 0 is not "no sub-interface"), and distinct
   units are distinct interfaces *)
Theorem C15_subif_unit :
  (forall local base n,
     num "subif" local = Some n -> num "svi" local = None ->
     selected_direct stub_naming local base =
       (selected_direct stub_naming (unset "subif" local) base ++ "." ++ dec n)%string /\
     selected_direct stub_naming local base <> selected_direct stub_naming (unset "subif" local) base) /\
  (forall base n m, subif_name stub_naming base n = subif_name stub_naming base m -> n = m).
Proof. split; [exact stub_selected_subif|exact stub_subif_inj]. Qed.
Print Assumptions C15_subif_unit.

(* the whole run: whenever execute_for succeeds, the peers are, in order, the direct, virtual and
   indirect pairs the three rule loops produced; each peer's interface is the one the (merged) DTO
   of its pair selects; the addresses assigned during the run are exactly the local addresses of the
   direct and indirect pairs, each on the selected interface; no direct pair was a refused combination *)
Theorem C15_interface_run :
  forall dmatches dhandler imatches ihandler vmatches vhandler connections
         sch_direct sch_indirect sch_vlocal sch_vpeer sch_pair opt_fields nm
         drules irules vrules device nbs all d0 peers d',
    execute_for dmatches dhandler imatches ihandler vmatches vhandler connections
                sch_direct sch_indirect sch_vlocal sch_vpeer sch_pair opt_fields nm
                drules irules vrules device nbs all d0 = inr (peers, d') ->
    exists dpairs vpairs ipairs,
      execute_direct dmatches dhandler connections sch_direct sch_pair drules device nbs = inr dpairs /\
      execute_virtual vmatches vhandler sch_vlocal sch_vpeer vrules device = inr vpairs /\
      execute_indirect imatches ihandler sch_indirect sch_pair irules device all = inr ipairs /\
      map peer_iface peers =
        (map (fun kp => Some (VAtom (AStr (direct_seat connections nm device kp)))) dpairs ++
         map (fun lc => Some (iface_val (virtual_seat nm lc))) vpairs ++
         map (fun kp => Some (iface_val (indirect_seat nm kp))) ipairs)%list /\
      d_log d' = (d_log d0 ++ map (direct_log connections nm device) dpairs ++
                  flat_map (fun kp => log_of (indirect_seat nm kp) (pair_local kp)) ipairs)%list /\
      Forall (fun kp => refused_direct (pair_local kp)
                          (List.length (direct_ports connections device kp)) = false) dpairs /\
      Forall (fun lc => virtual_seat nm lc <> None) vpairs /\
      Forall (fun kp => forall n, indirect_seat nm kp = Some n -> sin n (d_ifs d') = true) ipairs.
Proof. exact execute_for_seats. Qed.
Print Assumptions C15_interface_run.

(* Sessions are per rule match and merged per (fqdn, addr, vrf): an attribute found in the session
   with `fst (fst k)` (in the device's own DTO or in the peer's DTO) was set by a handler call for
   that very pair.  Contrapositive form: if every call for the pair is silent on f (sets it neither on
   that side nor on the session object), the session has no f -- whatever calls for other pairs set. *)
Theorem C15_no_leak :
  forall imatches ihandler sch_indirect sch_pair rules device all acc (local_side : bool) f k p,
    execute_indirect imatches ihandler sch_indirect sch_pair rules device all = inr acc ->
    In (k, p) acc ->
    (forall m, In m (lookup_direct imatches rules device all) -> other_end m = fst (fst k) ->
               silent ihandler device m [] local_side f) ->
    lookup f (obj_of (side_name local_side) p) = None.
Proof. exact indirect_no_leak. Qed.
Print Assumptions C15_no_leak.

Theorem C15_no_leak_direct :
  forall dmatches dhandler connections sch_direct sch_pair rules device nbs acc (local_side : bool) f k p,
    execute_direct dmatches dhandler connections sch_direct sch_pair rules device nbs = inr acc ->
    In (k, p) acc ->
    (forall m ports, In (m, ports) (direct_work connections device (lookup_direct dmatches rules device nbs)) ->
                     other_end m = fst (fst k) -> silent dhandler device m ports local_side f) ->
    lookup f (obj_of (side_name local_side) p) = None.
Proof. exact direct_no_leak. Qed.
Print Assumptions C15_no_leak_direct.

(* Mirror for an indirect rule match: B finds the same rule in the other orientation, runs the same
   handler call and gets the two DTOs exchanged; the peers point at each other's address and AS number *)
Theorem C15_mirror_indirect :
  forall imatches ihandler sch_indirect rules A B all r o L R loc con,
    In A all ->
    In (Matched r o L R) (lookup_direct imatches rules A all) ->
    other_end (Matched r o L R) = B ->
    execute_direct_pair ihandler sch_indirect A B (Matched r o L R) [] = Some (Ok (loc, con)) ->
    In (Matched r (negb o) L R) (lookup_direct imatches rules B all) /\
    other_end (Matched r (negb o) L R) = A /\
    execute_direct_pair ihandler sch_indirect B A (Matched r (negb o) L R) [] = Some (Ok (con, loc)) /\
    forall opt iA iB pA pB,
      mk_peer opt loc con B iA = Some pA -> mk_peer opt con loc A iB = Some pB ->
      lookup "addr" pA = ip_val (lookup "addr" con) /\ lookup "addr" pB = ip_val (lookup "addr" loc) /\
      lookup "remote_as" pA = lookup "asnum" con /\ lookup "remote_as" pB = lookup "asnum" loc /\
      lookup "families" pA = Some (dflt "families" con (VSet [])) /\
      lookup "families" pB = Some (dflt "families" loc (VSet [])).
Proof. exact indirect_mirror. Qed.
Print Assumptions C15_mirror_indirect.

(* A virtual session has one end: its two DTOs are the handler's local / virtual-peer objects each
   merged with the session object of that very call, svi is present, nothing else gets in *)
Theorem C15_virtual_session :
  forall vhandler sch_vlocal sch_vpeer device r n local con,
    virtual_pair vhandler sch_vlocal sch_vpeer device r n = Some (inr (local, con)) ->
    let '(l, v, s) := vhandler (v_id r) device n in
    merge_all sch_vlocal [] [l; s] = Ok local /\ merge_all sch_vpeer [] [v; s] = Ok con /\
    mem "svi" local = true /\
    (forall f, lookup f v = None -> lookup f s = None -> lookup f con = None) /\
    (forall f, lookup f l = None -> lookup f s = None -> lookup f local = None).
Proof. exact virtual_pair_spec. Qed.
Print Assumptions C15_virtual_session.

(* the same at the level of the BgpConfig: an option of the peer computed for the indirect session with
   C is an attribute some handler call for the pair (device, C) set on the device's side or the session *)
Theorem C15_no_leak_peer :
  forall imatches ihandler sch_indirect sch_pair opt_fields nm rules device all ipairs d ps d',
    execute_indirect imatches ihandler sch_indirect sch_pair rules device all = inr ipairs ->
    conv_indirect opt_fields nm ipairs d = inr (ps, d') ->
    Forall2 (fun kp peer =>
      forall o g,
        lookup "options" peer = Some (VObj o) ->
        (forall m, In m (lookup_direct imatches rules device all) -> other_end m = pair_other kp ->
                   silent ihandler device m [] true (opt_src g)) ->
        lookup g o = None) ipairs ps.
Proof. exact indirect_no_leak_peer. Qed.
Print Assumptions C15_no_leak_peer.

(* merged per key: the sessions a loop returns have pairwise different (fqdn, addr, vrf) keys *)
Theorem C15_one_session_per_key :
  (forall imatches ihandler sch_indirect sch_pair rules device all acc,
     execute_indirect imatches ihandler sch_indirect sch_pair rules device all = inr acc ->
     distinct_keys (map fst acc)) /\
  (forall dmatches dhandler connections sch_direct sch_pair rules device nbs acc,
     execute_direct dmatches dhandler connections sch_direct sch_pair rules device nbs = inr acc ->
     distinct_keys (map fst acc)).
Proof. split; [exact indirect_keys_distinct|exact direct_keys_distinct]. Qed.
Print Assumptions C15_one_session_per_key.

(* keyed by the peer's address: with Pair.connected merged by Merge() and addr a ForbidChange field (true
   of the real classes, see C15_example_key_guards), every session a loop returns is stored under the
   address its peer DTO carries -- so Peer.addr is the ip of the key it was merged under *)
Theorem C15_key_is_peer_addr :
  forall sch_pair dto,
    lookup "connected" sch_pair = Some (MMerge dto) -> lookup "addr" dto = Some MForbidChange ->
    (forall imatches ihandler rules device all acc,
       execute_indirect imatches ihandler dto sch_pair rules device all = inr acc -> Forall keyed_ok acc) /\
    (forall dmatches dhandler connections rules device nbs acc,
       execute_direct dmatches dhandler connections dto sch_pair rules device nbs = inr acc -> Forall keyed_ok acc).
Proof.
  intros sch_pair dto H1 H2. split.
  - exact (indirect_keyed sch_pair dto H1 H2).
  - exact (direct_keyed sch_pair dto H1 H2).
Qed.
Print Assumptions C15_key_is_peer_addr.

(* ---- non-vacuity of the new theorems --------------------------------------------------------------- *)

Definition ex_dev : dev := Dev ["lo0"; "e1"; "e2"] [].
Definition ex_conns : list (string * string) := [("e1", "e7"); ("e2", "e8")].
Definition ex_local (sel : entries) : entries := (("addr", VAtom (AStr "10.0.0.1/31")) :: sel)%list.
Definition zi (z : Z) : value := VAtom (AInt z).

(* unit 0 on a port, unit 0 on a LAG, SVI 0, a reused LAG, and the refused combinations *)
Example C15_example_interface :
  direct_step stub_naming ex_conns ["e1"] (ex_local [("subif", zi 0)]) ex_dev =
    inr ("e1.0", Dev ["lo0"; "e1"; "e2"; "e1.0"] [("e1.0", "10.0.0.1/31", None)]) /\
  direct_step stub_naming ex_conns ["e1"; "e2"] (ex_local [("lag", zi 7); ("subif", zi 0); ("vrf", VAtom (AStr "V"))]) ex_dev =
    inr ("Trunk7.0", Dev ["lo0"; "e1"; "e2"; "Trunk7"; "Trunk7.0"] [("Trunk7.0", "10.0.0.1/31", Some "V")]) /\
  direct_step stub_naming ex_conns ["e1"; "e2"] (ex_local [("svi", zi 0)]) ex_dev =
    inr ("Vlan0", Dev ["lo0"; "e1"; "e2"; "Vlan0"] [("Vlan0", "10.0.0.1/31", None)]) /\
  direct_step stub_naming ex_conns ["e2"] (ex_local [("lag", zi 0)]) (Dev ["lo0"; "Trunk0"] []) =
    inr ("Trunk0", Dev ["lo0"; "Trunk0"] [("Trunk0", "10.0.0.1/31", None)]) /\
  direct_step stub_naming ex_conns ["e1"; "e2"] (ex_local [("subif", zi 0)]) ex_dev = inl FValue /\
  direct_step stub_naming ex_conns ["e1"] (ex_local [("svi", zi 0); ("subif", zi 0)]) ex_dev = inl FValue /\
  direct_step stub_naming ex_conns ["e1"] (ex_local [("lag", zi 0); ("svi", zi 0)]) ex_dev = inl FValue /\
  indirect_step stub_naming (ex_local [("ifname", VAtom (AStr "lo0")); ("subif", zi 0)]) ex_dev =
    inr (Some "lo0.0", Dev ["lo0"; "e1"; "e2"; "lo0.0"] [("lo0.0", "10.0.0.1/31", None)]) /\
  indirect_step stub_naming (ex_local []) ex_dev = inr (None, ex_dev) /\
  indirect_step stub_naming (ex_local [("ifname", VAtom (AStr "xe9"))]) ex_dev = inl FValue.
Proof. vm_compute. repeat split. Qed.

(* no leak, non-vacuous: a1 has indirect sessions with b1 and c1; only the call for (a1, b1) sets
   rr_client (on a1's side) and multipath (on the session).  The premise of C15_no_leak holds for c1
   and both attributes; the session with b1 does carry them. *)
Definition ex_isch : schema :=
  [("addr", MForbidChange); ("asnum", MForbidChange); ("families", MUnite); ("rr_client", MForbidChange);
   ("multipath", MForbidChange); ("ifname", MForbidChange)].
Definition ex_psch : schema := [("local", MMerge ex_isch); ("connected", MMerge ex_isch); ("ports", MForbidChange)].
Definition ex_imatches (_ : nat) (l r : string) : bool :=
  String.eqb l "a1" && (String.eqb r "b1" || String.eqb r "c1").
Definition ex_ihandler (id : nat) (l r : string) (_ : list string) : entries * entries * entries :=
  if String.eqb r "b1" then
    ([("addr", VAtom (AStr "172.16.0.1/32")); ("asnum", zi 65001); ("rr_client", VAtom (ABool true))],
     [("addr", VAtom (AStr "172.16.0.2/32")); ("asnum", zi 65002)],
     (if Nat.eqb id 1 then [("multipath", VAtom (ABool true))] else [("families", VSet [AStr "ipv4_unicast"])]))
  else
    ([("addr", VAtom (AStr "172.16.1.1/32")); ("asnum", zi 65001)],
     [("addr", VAtom (AStr "172.16.1.2/32")); ("asnum", zi 65003)],
     [("families", VSet [AStr "ipv6_unicast"])]).
Definition ex_irules : list rule := [Rule 0 United; Rule 1 United].
Definition ex_all : list string := ["a1"; "b1"; "c1"].

Example C15_example_no_leak :
  exists accB accC pB pC,
    execute_indirect ex_imatches ex_ihandler ex_isch ex_psch ex_irules "a1" ex_all =
      inr [(("b1", VAtom (AStr "172.16.0.2/32"), VAtom (AStr "")), pB);
           (("c1", VAtom (AStr "172.16.1.2/32"), VAtom (AStr "")), pC)] /\
    accB = obj_of "local" pB /\ accC = obj_of "local" pC /\
    (* two rule matches were merged into the session with b1, and it has both attributes *)
    lookup "rr_client" accB = Some (VAtom (ABool true)) /\ lookup "multipath" accB = Some (VAtom (ABool true)) /\
    lookup "multipath" (obj_of "connected" pB) = Some (VAtom (ABool true)) /\
    (* the premise of the theorem for c1 *)
    (forall m, In m (lookup_direct ex_imatches ex_irules "a1" ex_all) -> other_end m = "c1" ->
               silent ex_ihandler "a1" m [] true "rr_client" /\ silent ex_ihandler "a1" m [] true "multipath" /\
               silent ex_ihandler "a1" m [] false "multipath") /\
    lookup "rr_client" accC = None /\ lookup "multipath" accC = None.
Proof.
  eexists. eexists. eexists. eexists. split; [vm_compute; reflexivity|].
  split; [reflexivity|]. split; [reflexivity|].
  split; [vm_compute; reflexivity|]. split; [vm_compute; reflexivity|]. split; [vm_compute; reflexivity|].
  split.
  - intros m Hin Ho. vm_compute in Hin.
    repeat (destruct Hin as [Hin|Hin]; [subst m; vm_compute in Ho; try discriminate; vm_compute; repeat split|]);
      destruct Hin.
  - split; vm_compute; reflexivity.
Qed.

(* indirect mirror, non-vacuous: seen from b1 the rule is found in reverse order and the DTOs swap *)
Example C15_example_mirror_indirect :
  let m := Matched (Rule 0 United) true "a1" "b1" in
  In m (lookup_direct ex_imatches ex_irules "a1" ex_all) /\
  execute_direct_pair ex_ihandler ex_isch "a1" "b1" m [] =
    Some (Ok ([("addr", VAtom (AStr "172.16.0.1/32")); ("asnum", zi 65001); ("rr_client", VAtom (ABool true));
               ("families", VSet [AStr "ipv4_unicast"])],
              [("addr", VAtom (AStr "172.16.0.2/32")); ("asnum", zi 65002); ("families", VSet [AStr "ipv4_unicast"])])) /\
  execute_direct_pair ex_ihandler ex_isch "b1" "a1" (Matched (Rule 0 United) false "a1" "b1") [] =
    Some (Ok ([("addr", VAtom (AStr "172.16.0.2/32")); ("asnum", zi 65002); ("families", VSet [AStr "ipv4_unicast"])],
              [("addr", VAtom (AStr "172.16.0.1/32")); ("asnum", zi 65001); ("rr_client", VAtom (ABool true));
               ("families", VSet [AStr "ipv4_unicast"])])).
Proof. vm_compute. repeat split. left. reflexivity. Qed.

(* C15_no_leak discriminates: in the loop with the session object hoisted out of `for rule in rules`
   (Proofs/MeshExecProofs.fold_indirect_shared, a mutant, not the model) the session with c1 does get
   `multipath`, which only the call for (a1, b1) set -- the conclusion of C15_no_leak fails there while
   its premise (C15_example_no_leak) holds *)
Example C15_example_shared_session_leaks :
  exists pC,
    fold_indirect_shared ex_ihandler ex_isch ex_psch "a1" (lookup_direct ex_imatches ex_irules "a1" ex_all) [] [] =
      inr [(("b1", VAtom (AStr "172.16.0.2/32"), VAtom (AStr "")),
            [("local", VObj [("addr", VAtom (AStr "172.16.0.1/32")); ("asnum", zi 65001); ("rr_client", VAtom (ABool true));
                             ("families", VSet [AStr "ipv4_unicast"]); ("multipath", VAtom (ABool true))]);
             ("connected", VObj [("addr", VAtom (AStr "172.16.0.2/32")); ("asnum", zi 65002);
                                 ("families", VSet [AStr "ipv4_unicast"]); ("multipath", VAtom (ABool true))])]);
           (("c1", VAtom (AStr "172.16.1.2/32"), VAtom (AStr "")), pC)] /\
    lookup "multipath" (obj_of "local" pC) = Some (VAtom (ABool true)).
Proof. eexists. split; vm_compute; reflexivity. Qed.

Example C15_example_keys :
  match execute_indirect ex_imatches ex_ihandler ex_isch ex_psch ex_irules "a1" ex_all with
  | inr acc => map (fun kp => fst (fst (fst kp))) acc = ["b1"; "c1"]
  | inl _ => False
  end.
Proof. vm_compute. reflexivity. Qed.

Example C15_example_key_guards :
  lookup "connected" ex_psch = Some (MMerge ex_isch) /\ lookup "addr" ex_isch = Some MForbidChange.
Proof. split; reflexivity. Qed.

(* ---- the mirror after the keyed merge of several handlers is NOT a theorem -------------------------- *)

(* Proofs/MeshProofs.C15_mirror_merged_statement is false of the model, and of the real executor (replayed:
   known/C15.json): the two ends group the handler results under different keys -- A under
   (B, right.addr, right.vrf), B under (A, left.addr, left.vrf).  When one of two handlers for the same pair
   sets vrf on the left peer object only, A merges both results into one session while B keeps two (same
   address, vrf_name "VA" and ""), neither of which is the swap of A's. *)
Definition rx_dto : schema :=
  [("addr", MForbidChange); ("asnum", MForbidChange); ("vrf", MForbidChange); ("bfd", MForbidChange)].
Definition rx_pair : schema := [("local", MMerge rx_dto); ("connected", MMerge rx_dto); ("ports", MForbidChange)].
Definition rx_matches (_ : nat) (l r : string) : bool := String.eqb l "a1" && String.eqb r "b1".
Definition rx_handler (id : nat) (_ _ : string) (_ : list string) : entries * entries * entries :=
  (([("addr", VAtom (AStr "10.0.0.1/30")); ("asnum", VAtom (AInt 65001))] ++
    (if Nat.eqb id 0 then [("vrf", VAtom (AStr "VA"))] else []))%list,
   [("addr", VAtom (AStr "10.0.0.2/30")); ("asnum", VAtom (AInt 65002))],
   if Nat.eqb id 0 then [] else [("bfd", VAtom (ABool true))]).
Definition rx_conn (_ _ : string) : list (string * string) := [("e1", "e1")].
Definition rx_rules : list rule := [Rule 0 United; Rule 1 United].


Theorem C15_mirror_merged_refuted : ~ C15_mirror_merged_statement.
Proof.
  intros H.
  destruct (execute_direct rx_matches rx_handler rx_conn rx_dto rx_pair rx_rules "a1" ["b1"]) as [e|accA] eqn:EA;
    [vm_compute in EA; discriminate|].
  destruct (execute_direct rx_matches rx_handler rx_conn rx_dto rx_pair rx_rules "b1" ["a1"]) as [e|accB] eqn:EB;
    [vm_compute in EB; discriminate|].
  pose proof (H rx_matches rx_handler rx_conn rx_dto rx_pair rx_rules "a1" "b1" ["b1"] ["a1"] accA accB EA EB) as M.
  vm_compute in EA. injection EA as EA. vm_compute in EB. injection EB as EB. subst accA accB.
  edestruct M as [k' [pb [Hin [_ [H1 H2]]]]]; [left; reflexivity|reflexivity|].
  destruct Hin as [Hin|[Hin|[]]]; injection Hin as Hk Hp; subst; vm_compute in H2; discriminate.
Qed.
Print Assumptions C15_mirror_merged_refuted.

(* ------------------------------------------------------------------ handler data merges WITHOUT LOSS
   (the converse of the no-leak theorems), and runs of one process do not influence each other *)
From Annet Require Import Spec.P_C15_seq Proofs.MeshNoLossProofs Proofs.MeshNoLossLoopProofs.

(* merge(a, b): every attribute set in a, and every attribute set in b that is a field of the class, is set in
   the result; a single-valued (ForbidChange) attribute keeps its value, a Unite attribute contains the operand *)
Theorem C15_merge_no_loss :
  forall sch a b r,
    merge sch a b = Ok r ->
    (forall f v m, lookup f a = Some v -> lookup f sch = Some m -> exists w, lookup f r = Some w /\ kept m v w) /\
    (forall f v m, lookup f b = Some v -> lookup f sch = Some m -> exists w, lookup f r = Some w /\ kept m v w).
Proof. exact merge_no_loss. Qed.
Print Assumptions C15_merge_no_loss.

(* merge(first, *others) for any number of operands *)
Theorem C15_merge_all_no_loss :
  forall sch others first r,
    merge_all sch first others = Ok r ->
    forall o, In o (first :: others) ->
    forall f v m, lookup f o = Some v -> lookup f sch = Some m -> exists w, lookup f r = Some w /\ kept m v w.
Proof. exact merge_all_no_loss. Qed.
Print Assumptions C15_merge_all_no_loss.

(* one handler call of a direct or an indirect rule, in either orientation: whatever the handler wrote on a
   peer object or on the session object is in that end's DTO (so in the Peer computed from it) *)
Theorem C15_call_no_loss :
  forall handler dto device neighbor m ports loc con,
    execute_direct_pair handler dto device neighbor m ports = Some (Ok (loc, con)) ->
    let '(l, r, s) :=
      if m_direct m then handler (r_id (m_rule m)) device neighbor (map fst ports)
      else handler (r_id (m_rule m)) neighbor device (map snd ports) in
    let '(mine, theirs) := if m_direct m then (l, r) else (r, l) in
    forall f v mg, lookup f dto = Some mg ->
      ((lookup f mine = Some v \/ lookup f s = Some v) -> exists w, lookup f loc = Some w /\ kept mg v w) /\
      ((lookup f theirs = Some v \/ lookup f s = Some v) -> exists w, lookup f con = Some w /\ kept mg v w).
Proof. exact call_no_loss. Qed.
Print Assumptions C15_call_no_loss.

(* through the keyed merge: every handler call a loop of execute_for makes is kept in the session the loop returns
   for the other end of that call, whatever other calls were merged into the same (fqdn, addr, vrf) key.
   `shows dto acc other loc con`: acc has a session with `other` whose local / connected DTOs keep every field of
   loc / con (obj_kept: present, ForbidChange value equal, Unite set included).  Premises: Pair.local and
   Pair.connected are merged by Merge() (true of the real classes, see C15_example_key_guards). *)
Theorem C15_no_loss_indirect :
  forall sch_pair dto,
    lookup "local" sch_pair = Some (MMerge dto) -> lookup "connected" sch_pair = Some (MMerge dto) ->
    forall imatches ihandler rules device all acc m loc con,
      execute_indirect imatches ihandler dto sch_pair rules device all = inr acc ->
      In m (lookup_direct imatches rules device all) ->
      execute_direct_pair ihandler dto device (other_end m) m [] = Some (Ok (loc, con)) ->
      shows dto acc (other_end m) loc con.
Proof. exact indirect_no_loss. Qed.
Print Assumptions C15_no_loss_indirect.

Theorem C15_no_loss_direct :
  forall sch_pair dto,
    lookup "local" sch_pair = Some (MMerge dto) -> lookup "connected" sch_pair = Some (MMerge dto) ->
    forall dmatches dhandler connections rules device nbs acc m ports loc con,
      execute_direct dmatches dhandler connections dto sch_pair rules device nbs = inr acc ->
      In (m, ports) (direct_work connections device (lookup_direct dmatches rules device nbs)) ->
      execute_direct_pair dhandler dto device (other_end m) m ports = Some (Ok (loc, con)) ->
      shows dto acc (other_end m) loc con.
Proof. exact direct_no_loss. Qed.
Print Assumptions C15_no_loss_direct.

(* full statement: P_C15_no_loss of the model's own execute_for, for ANY schemas and ANY case.  In this unguarded
   form it is false (C15_no_loss_unguarded_refuted at the end of this file: a table row no registered rule ever
   calls).  It is PROVED on its domain -- the DTO attributes a Peer is read from are ForbidChange / Unite fields,
   every table row the predicate speaks about is the answer of a call execute_for really makes -- as C15_no_loss
   at the end of this file (last step through conv_direct / conv_indirect / mk_peer and the bookkeeping of
   e_table / e_match against lookup_direct: Proofs/MeshNoLossExecProofs.v). *)
Definition C15_no_loss_statement : Prop :=
  forall sd si svl svp sp c,
    P_C15_no_loss c (map (fun d => (d, model_exec sd si svl svp sp c d)) (e_devices c)) = true.

(* the k-th run of a sequence of execute_for calls is the fresh run of that device: the model is a function of
   (registry, storage, device) and has no state to carry over -- so P_C15_history on real outputs compares the
   implementation with what the model says for EVERY sequence *)
Theorem C15_sequence_is_pointwise :
  forall (A : Type) (run : string -> A) devs devs' i j d,
    nth_error devs i = Some d -> nth_error devs' j = Some d ->
    nth_error (model_sequence run devs) i = Some (run d) /\
    nth_error (model_sequence run devs) i = nth_error (model_sequence run devs') j.
Proof. intros A run devs devs' i j d. apply sequence_pointwise. Qed.
Print Assumptions C15_sequence_is_pointwise.

(* non-vacuity: a call that writes families on the session and on one peer, an AS number per side *)
Definition nl_dto : schema := [("addr", MForbidChange); ("asnum", MForbidChange); ("families", MUnite)].
Definition nl_handler (_ : nat) (_ _ : string) (_ : list string) : entries * entries * entries :=
  ([("addr", VAtom (AStr "10.0.0.1/31")); ("asnum", VAtom (AInt 65001))],
   [("addr", VAtom (AStr "10.0.0.2/31")); ("asnum", VAtom (AInt 65002)); ("families", VSet [AStr "l2vpn_evpn"])],
   [("families", VSet [AStr "ipv4_unicast"])]).

Example C15_example_call_no_loss :
  execute_direct_pair nl_handler nl_dto "a1" "b1" (Matched (Rule 0 United) true "a1" "b1") [("e1", "e1")] =
  Some (Ok ([("addr", VAtom (AStr "10.0.0.1/31")); ("asnum", VAtom (AInt 65001));
             ("families", VSet [AStr "ipv4_unicast"])],
            [("addr", VAtom (AStr "10.0.0.2/31")); ("asnum", VAtom (AInt 65002));
             ("families", VSet [AStr "l2vpn_evpn"; AStr "ipv4_unicast"])])) /\
  kept MUnite (VSet [AStr "ipv4_unicast"]) (VSet [AStr "l2vpn_evpn"; AStr "ipv4_unicast"]).
Proof. split; vm_compute; reflexivity. Qed.

(* two indirect rules for the pair (a1, b1), same address: the second call is merged into the session of the first;
   both calls show in the one session the loop returns (ex_irules / ex_ihandler above) *)
Example C15_example_no_loss_loop :
  match execute_indirect ex_imatches ex_ihandler ex_isch ex_psch ex_irules "a1" ex_all with
  | inr acc =>
    lookup "local" ex_psch = Some (MMerge ex_isch) /\ lookup "connected" ex_psch = Some (MMerge ex_isch) /\
    List.length (lookup_direct ex_imatches ex_irules "a1" ex_all) >= 2 /\ List.length acc >= 1
  | inl _ => False
  end.
Proof. vm_compute. repeat split; repeat constructor. Qed.

(* C15_no_loss_statement on its domain: "every handler call of a matching rule shows on both ends", for the *)
(* model's own execute_for as a whole (Spec/P_C15_noloss_wf.v, Proofs/MeshNoLossExecProofs.v)               *)
From Annet Require Import Spec.P_C15_noloss_wf Proofs.MeshNoLossExecProofs.

(* For every registry, storage and handler table: in the outcome of execute_for(d), for every device d, every
   handler call the run makes for a pair (d, o) has a Peer towards o, at the address the call gave o, that carries
   everything the call wrote -- on d's side or the session object: policies, update_source and every PeerOptions
   field; on o's side or the session object: families (as a subset), description, group, vrf, AS number --
   whatever other calls were merged into the same (fqdn, addr, vrf) session.
   Premises: Pair.local / Pair.connected are merged by Merge() of a class dp; in the DTO classes of direct and
   indirect peers and in dp the attributes a Peer is read from are ForbidChange fields and families is Unite
   (noloss_schema; true of the real classes: evaluated by the check on the schemas read from them);
   the rows of the handler table the predicate speaks about are answers of calls the run makes and write
   well-formed objects (noloss_case). *)
Theorem C15_no_loss :
  forall sd si svl svp sp dp c,
    lookup "local" sp = Some (MMerge dp) -> lookup "connected" sp = Some (MMerge dp) ->
    noloss_schema (e_opt_fields c) sd = true -> noloss_schema (e_opt_fields c) si = true ->
    noloss_schema (e_opt_fields c) dp = true ->
    noloss_case sd si c ->
    P_C15_no_loss c (map (fun d => (d, model_exec sd si svl svp sp c d)) (e_devices c)) = true.
Proof. exact exec_no_loss. Qed.
Print Assumptions C15_no_loss.

(* non-vacuity: a1 -- b1 joined by one link; a direct rule (0) and two indirect rules (1, 2) whose calls for
   (a1, b1) give the same peer address, so the loop merges them into one session; all guards hold, both runs
   succeed, a1 gets a direct and a (merged) indirect peer *)
Definition nx_dto : schema :=
  [("addr", MForbidChange); ("asnum", MForbidChange); ("description", MForbidChange); ("group_name", MForbidChange);
   ("vrf", MForbidChange); ("import_policy", MForbidChange); ("export_policy", MForbidChange);
   ("update_source", MForbidChange); ("multipath", MForbidChange); ("families", MUnite); ("ifname", MForbidChange)].
Definition nx_pair : schema :=
  [("local", MMerge nx_dto); ("connected", MMerge nx_dto); ("device", MUseLast); ("ports", MForbidChange)].
Definition nx_fam (s : string) : string * value := ("families", VSet [AStr s]).
Definition nx_case : ecase :=
  ECase ["a1"; "b1"]
        [("a1", [("e1", "b1", "e7")]); ("b1", [("e7", "a1", "e1")])]
        [Rule 0 United] [Rule 1 United; Rule 2 United] []
        [(0, "a1", "b1"); (1, "a1", "b1"); (2, "a1", "b1")] []
        [((0, "a1", "b1", ["e1"]),
          ([("addr", VAtom (AStr "10.0.0.1/31")); ("asnum", VAtom (AInt 65001)); ("import_policy", VAtom (AStr "IMP"))],
           [("addr", VAtom (AStr "10.0.0.0/31")); ("asnum", VAtom (AInt 65002))],
           [nx_fam "ipv4_unicast"]));
         ((1, "a1", "b1", []),
          ([("addr", VAtom (AStr "172.16.0.1/32")); ("asnum", VAtom (AInt 65001)); ("multipath", VAtom (ABool true))],
           [("addr", VAtom (AStr "172.16.0.2/32")); ("asnum", VAtom (AInt 65002)); ("description", VAtom (AStr "lo"))],
           [nx_fam "ipv4_unicast"]));
         ((2, "a1", "b1", []),
          ([("addr", VAtom (AStr "172.16.0.1/32")); ("asnum", VAtom (AInt 65001))],
           [("addr", VAtom (AStr "172.16.0.2/32")); ("asnum", VAtom (AInt 65002))],
           [nx_fam "ipv6_unicast"; ("group_name", VAtom (AStr "G"))]))]
        []
        ["local_as"; "multipath"].

Example C15_example_no_loss_guards :
  lookup "local" nx_pair = Some (MMerge nx_dto) /\ lookup "connected" nx_pair = Some (MMerge nx_dto) /\
  noloss_schema (e_opt_fields nx_case) nx_dto = true /\
  noloss_case nx_dto nx_dto nx_case /\
  match model_exec nx_dto nx_dto [] [] nx_pair nx_case "a1", model_exec nx_dto nx_dto [] [] nx_pair nx_case "b1" with
  | EOk pa _, EOk pb _ =>
    map (fun p => (get_str "hostname" p, get_str "addr" p, get_val "families" p, peer_opt "multipath" p)) pa =
      [("b1", "10.0.0.0", VSet [AStr "ipv4_unicast"], None);
       ("b1", "172.16.0.2", VSet [AStr "ipv4_unicast"; AStr "ipv6_unicast"], Some (VAtom (ABool true)))] /\
    List.length pb = 2
  | _, _ => False
  end.
Proof.
  split; [reflexivity|]. split; [reflexivity|]. split; [vm_compute; reflexivity|]. split.
  - intros d e Hd He.
    destruct Hd as [Hd|[Hd|[]]]; subst d; destruct He as [He|[He|[He|[]]]]; subst e; cbn [fst snd];
      intros _ _ _.
    + left. split; [|vm_compute; auto]. exists (Rule 0 United), [("e1", "e7")]. vm_compute. auto 10.
    + right. split; [|vm_compute; auto]. exists (Rule 1 United). vm_compute. auto 10.
    + right. split; [|vm_compute; auto]. exists (Rule 2 United). vm_compute. auto 10.
    + left. split; [|vm_compute; auto]. exists (Rule 0 United), [("e7", "e1")]. vm_compute. auto 10.
    + right. split; [|vm_compute; auto]. exists (Rule 1 United). vm_compute. auto 10.
    + right. split; [|vm_compute; auto]. exists (Rule 2 United). vm_compute. auto 10.
  - vm_compute. split; reflexivity.
Qed.

(* the unguarded Definition above is not a theorem: a table row whose rule id no registered rule carries is never
   called, so nothing of it can show (the check builds its tables from the rules it registers: such a row does not
   occur there; on the real executor nothing corresponds to it) *)
Definition rx_nl_case : ecase :=
  ECase ["a1"; "b1"] [] [] [] [] [(0, "a1", "b1")] []
        [((0, "a1", "b1", []), ([], [("addr", VAtom (AStr "10.0.0.2/32"))], []))] [] [].

Theorem C15_no_loss_unguarded_refuted : ~ C15_no_loss_statement.
Proof.
  intro H. specialize (H [] [] [] [] [] rx_nl_case). vm_compute in H. discriminate.
Qed.
Print Assumptions C15_no_loss_unguarded_refuted.

(* ====================================================================================================== *)
(* C15_handler_order lifted to the executor: permuting rule registration                                    *)

(* "for all permutations of handler registration: execute_for result equal (peers and assigned addresses as
   multisets) or an error in all" -- for the executor AS A WHOLE this is NOT a theorem, of the model and of the real
   MeshExecutor (replayed: known/C15.json, harness order probe): the indirect sessions of one neighbour are
   converted in rule order, a session with `svi` creates its interface on the way and a session with a plain
   `ifname` looks its interface up at that moment. *)
Definition C15_exec_order_statement : Prop :=
  forall dmatches dhandler imatches ihandler vmatches vhandler connections
         sch_direct sch_indirect sch_vlocal sch_vpeer sch_pair opt_fields nm
         drules drules' irules irules' vrules vrules' device nbs all d0,
    Permutation drules drules' -> Permutation irules irules' -> Permutation vrules vrules' ->
    match execute_for dmatches dhandler imatches ihandler vmatches vhandler connections
                      sch_direct sch_indirect sch_vlocal sch_vpeer sch_pair opt_fields nm
                      drules irules vrules device nbs all d0,
          execute_for dmatches dhandler imatches ihandler vmatches vhandler connections
                      sch_direct sch_indirect sch_vlocal sch_vpeer sch_pair opt_fields nm
                      drules' irules' vrules' device nbs all d0 with
    | inl _, inl _ => True
    | inr (p, d), inr (p', d') => peers_same p p' = true /\ mset_eqb logrec_eqb (d_log d) (d_log d') = true
    | _, _ => False
    end.

Definition ox_dto : schema :=
  [("addr", MForbidChange); ("asnum", MForbidChange); ("svi", MForbidChange); ("ifname", MForbidChange)].
Definition ox_pair : schema := [("local", MMerge ox_dto); ("connected", MMerge ox_dto); ("ports", MForbidChange)].
Definition ox_matches (_ : nat) (l r : string) : bool := String.eqb l "a1" && String.eqb r "b1".
Definition ox_handler (id : nat) (_ _ : string) (_ : list string) : entries * entries * entries :=
  if Nat.eqb id 0
  then ([("addr", VAtom (AStr "10.0.0.1/32")); ("asnum", VAtom (AInt 65001)); ("svi", VAtom (AInt 5))],
        [("addr", VAtom (AStr "10.0.0.2/32")); ("asnum", VAtom (AInt 65002))], [])
  else ([("addr", VAtom (AStr "10.0.1.1/32")); ("asnum", VAtom (AInt 65001)); ("ifname", VAtom (AStr "Vlan5"))],
        [("addr", VAtom (AStr "10.0.1.2/32")); ("asnum", VAtom (AInt 65002))], []).
Definition ox_run (irules : list rule) : fail + (list entries * dev) :=
  execute_for (fun _ _ _ => false) ox_handler ox_matches ox_handler (fun _ _ => false)
              (fun _ _ _ => ([], [], [])) (fun _ _ => []) ox_dto ox_dto [] [] ox_pair [] stub_naming
              [] irules [] "a1" [] ["a1"; "b1"] (Dev ["lo0"] []).

(* registered (0, 1) the run succeeds with both sessions on Vlan5; registered (1, 0) it is a ValueError *)
Example C15_exec_order_witness :
  (exists p1 p2,
     ox_run [Rule 0 United; Rule 1 United] =
       inr ([p1; p2], Dev ["lo0"; "Vlan5"] [("Vlan5", "10.0.0.1/32", None); ("Vlan5", "10.0.1.1/32", None)]) /\
     lookup "interface" p1 = Some (VAtom (AStr "Vlan5")) /\ lookup "interface" p2 = Some (VAtom (AStr "Vlan5"))) /\
  ox_run [Rule 1 United; Rule 0 United] = inl FValue.
Proof. split; [eexists; eexists; split; [vm_compute; reflexivity|split; reflexivity]|vm_compute; reflexivity]. Qed.

Theorem C15_exec_order_refuted : ~ C15_exec_order_statement.
Proof.
  intro H.
  specialize (H (fun _ _ _ => false) ox_handler ox_matches ox_handler (fun _ _ => false)
                (fun _ _ _ => ([], [], [])) (fun _ _ => []) ox_dto ox_dto [] [] ox_pair [] stub_naming
                [] [] [Rule 0 United; Rule 1 United] [Rule 1 United; Rule 0 United] [] [] "a1" [] ["a1"; "b1"]
                (Dev ["lo0"] []) (Permutation_refl _) (perm_swap _ _ _) (Permutation_refl _)).
  vm_compute in H. exact H.
Qed.
Print Assumptions C15_exec_order_refuted.

(* ---- what IS invariant under permutation of rule registration (Proofs/MeshOrderProofs.v) ----------------- *)
From Annet Require Import Proofs.MeshOrderProofs.

(* The keyed rule loops.  Permuting the registered rules, _execute_indirect / _execute_direct fail in both orders or
   return the same sessions: the same keys, and under each key pairs that are equal as finite maps, sets by
   membership, Concat lists as multisets (sessions_same).  The guards are stated on the Pair schema minus a field f
   the loops never set -- f = "device" for the real class Pair, whose `device : UseLast` makes order_free false
   (C15_example_handler_order_loops); handler_wf: what handlers write is well-formed for the DTO class;
   addr / vrf (the session key) are not nested fields. *)
Theorem C15_handler_order_indirect :
  forall f imatches ihandler dto sch_pair rules rules' device all,
    order_free (MMerge (drop_field f sch_pair)) = true ->
    nodupb (keys (drop_field f sch_pair)) = true ->
    lookup "local" (drop_field f sch_pair) = Some (MMerge dto) ->
    lookup "connected" (drop_field f sch_pair) = Some (MMerge dto) ->
    handler_wf dto ihandler ->
    (forall m, lookup "addr" dto = Some m -> scalar m = true) ->
    (forall m, lookup "vrf" dto = Some m -> scalar m = true) ->
    Permutation rules rules' ->
    match execute_indirect imatches ihandler dto sch_pair rules device all,
          execute_indirect imatches ihandler dto sch_pair rules' device all with
    | inl _, inl _ => True
    | inr a, inr b => sessions_same sch_pair a b
    | _, _ => False
    end.
Proof. exact execute_indirect_perm_unset_field. Qed.
Print Assumptions C15_handler_order_indirect.

Theorem C15_handler_order_direct :
  forall f matches handler connections dto sch_pair rules rules' device nbs,
    order_free (MMerge (drop_field f sch_pair)) = true ->
    nodupb (keys (drop_field f sch_pair)) = true ->
    lookup "local" (drop_field f sch_pair) = Some (MMerge dto) ->
    lookup "connected" (drop_field f sch_pair) = Some (MMerge dto) ->
    lookup "ports" (drop_field f sch_pair) = Some MForbidChange ->
    handler_wf dto handler ->
    (forall m, lookup "addr" dto = Some m -> scalar m = true) ->
    (forall m, lookup "vrf" dto = Some m -> scalar m = true) ->
    Permutation rules rules' ->
    match execute_direct matches handler connections dto sch_pair rules device nbs,
          execute_direct matches handler connections dto sch_pair rules' device nbs with
    | inl _, inl _ => True
    | inr a, inr b => sessions_same sch_pair a b
    | _, _ => False
    end.
Proof. exact execute_direct_perm_unset_field. Qed.
Print Assumptions C15_handler_order_direct.

(* _execute_virtual merges nothing: the same error, or the same pairs in another order; no guard *)
Theorem C15_handler_order_virtual :
  forall vmatches vhandler sch_vlocal sch_vpeer vrules vrules' device,
    Permutation vrules vrules' ->
    match execute_virtual vmatches vhandler sch_vlocal sch_vpeer vrules device,
          execute_virtual vmatches vhandler sch_vlocal sch_vpeer vrules' device with
    | inl e, inl e' => e = e'
    | inr a, inr b => Permutation a b
    | _, _ => False
    end.
Proof. exact execute_virtual_perm. Qed.
Print Assumptions C15_handler_order_virtual.

(* The three conversion loops of execute_for (interface changes + to_bgp_peer, threading the device) on the same
   sessions in any order: both fail, or the same peers (Permutation), the same interfaces (as a set) and the same
   add_addr records (Permutation) -- under the guard that excludes C15_exec_order_refuted: an indirect session that
   selects a plain `ifname` names an interface the device has BEFORE the run (plain_ifname_known). *)
Theorem C15_handler_order_conv :
  forall connections opt_fields nm device dpairs dpairs' vpairs vpairs' ipairs ipairs' d0,
    Permutation dpairs dpairs' -> Permutation vpairs vpairs' -> Permutation ipairs ipairs' ->
    Forall (plain_ifname_known (d_ifs d0)) ipairs ->
    conv_same (conv_all connections opt_fields nm device dpairs vpairs ipairs d0)
              (conv_all connections opt_fields nm device dpairs' vpairs' ipairs' d0).
Proof. exact conv_all_perm. Qed.
Print Assumptions C15_handler_order_conv.

(* execute_for as a whole, partial: (1) whenever the rule loops of two runs return exactly the same sessions in any
   order; (2) hence for every permutation of the VIRTUAL rules.  The full claim (all three rule lists permuted,
   sessions equal only up to sessions_same) is C15_handler_order_exec below. *)
Theorem C15_handler_order_exec_partial :
  forall dmatches dhandler imatches ihandler vmatches vhandler connections
         sch_direct sch_indirect sch_vlocal sch_vpeer sch_pair opt_fields nm
         drules drules' irules irules' vrules vrules' device nbs all d0 dp dp' vp vp' ip ip',
    execute_direct dmatches dhandler connections sch_direct sch_pair drules device nbs = inr dp ->
    execute_direct dmatches dhandler connections sch_direct sch_pair drules' device nbs = inr dp' ->
    execute_virtual vmatches vhandler sch_vlocal sch_vpeer vrules device = inr vp ->
    execute_virtual vmatches vhandler sch_vlocal sch_vpeer vrules' device = inr vp' ->
    execute_indirect imatches ihandler sch_indirect sch_pair irules device all = inr ip ->
    execute_indirect imatches ihandler sch_indirect sch_pair irules' device all = inr ip' ->
    Permutation dp dp' -> Permutation vp vp' -> Permutation ip ip' ->
    Forall (plain_ifname_known (d_ifs d0)) ip ->
    conv_same
      (execute_for dmatches dhandler imatches ihandler vmatches vhandler connections sch_direct sch_indirect
                   sch_vlocal sch_vpeer sch_pair opt_fields nm drules irules vrules device nbs all d0)
      (execute_for dmatches dhandler imatches ihandler vmatches vhandler connections sch_direct sch_indirect
                   sch_vlocal sch_vpeer sch_pair opt_fields nm drules' irules' vrules' device nbs all d0).
Proof. exact execute_for_perm_exact_partial. Qed.
Print Assumptions C15_handler_order_exec_partial.

Theorem C15_handler_order_exec_virtual_partial :
  forall dmatches dhandler imatches ihandler vmatches vhandler connections
         sch_direct sch_indirect sch_vlocal sch_vpeer sch_pair opt_fields nm
         drules irules vrules vrules' device nbs all d0,
    Permutation vrules vrules' ->
    (forall ip, execute_indirect imatches ihandler sch_indirect sch_pair irules device all = inr ip ->
                Forall (plain_ifname_known (d_ifs d0)) ip) ->
    conv_same
      (execute_for dmatches dhandler imatches ihandler vmatches vhandler connections sch_direct sch_indirect
                   sch_vlocal sch_vpeer sch_pair opt_fields nm drules irules vrules device nbs all d0)
      (execute_for dmatches dhandler imatches ihandler vmatches vhandler connections sch_direct sch_indirect
                   sch_vlocal sch_vpeer sch_pair opt_fields nm drules irules vrules' device nbs all d0).
Proof. exact execute_for_vrules_perm_partial. Qed.
Print Assumptions C15_handler_order_exec_virtual_partial.

(* non-vacuity (proved in Proofs/MeshOrderProofs.v on the mo_* registry): the guards of the loop theorems hold for a
   Pair schema of the real shape (device : UseLast) with f = "device", two rules in both orders return different
   lists (Concat order, set order) related by sessions_same; virtual rules in both orders; the conv guard with one
   session creating SVI 5 and one naming lo0 *)
Example C15_example_handler_order_loops := execute_perm_unset_field_example.
Example C15_example_handler_order_indirect := execute_indirect_perm_example.
Example C15_example_handler_order_direct := execute_direct_perm_example.
Example C15_example_handler_order_error := execute_indirect_perm_example_error.
Example C15_example_handler_order_virtual := execute_virtual_perm_example.
Example C15_example_handler_order_conv := conv_indirect_perm_example.

(* the case guard as a boolean (Spec/P_C15_noloss_wf.noloss_case_b: the row is the FIRST row case_handler finds for
   the ports of a port group of a registered rule): the check evaluates it on every generated registry and reports
   how many are inside the domain of C15_no_loss (coverage: noloss_domain) *)
Theorem C15_no_loss_b :
  forall sd si svl svp sp dp c,
    lookup "local" sp = Some (MMerge dp) -> lookup "connected" sp = Some (MMerge dp) ->
    noloss_schema (e_opt_fields c) sd = true -> noloss_schema (e_opt_fields c) si = true ->
    noloss_schema (e_opt_fields c) dp = true ->
    noloss_case_b sd si c = true ->
    P_C15_no_loss c (map (fun d => (d, model_exec sd si svl svp sp c d)) (e_devices c)) = true.
Proof.
  intros sd si svl svp sp dp c H1 H2 H3 H4 H5 H6.
  apply (exec_no_loss sd si svl svp sp dp c H1 H2 H3 H4 H5). apply noloss_case_b_sound. exact H6.
Qed.
Print Assumptions C15_no_loss_b.

Example C15_example_no_loss_b : noloss_case_b nx_dto nx_dto nx_case = true.
Proof. vm_compute. reflexivity. Qed.

(* ---- execute_for AS A WHOLE, all three rule lists permuted (Proofs/MeshOrderExecProofs.v) ------------------ *)
From Annet Require Import Proofs.MeshOrderExecProofs.

(* "for all permutations of handler registration: execute_for result equal, or an error in all" -- C15_exec_order_statement
   with the guards under which it IS a theorem: both runs raise, or both succeed with the same peers (peers_same: as
   finite maps, sets by membership) and the same add_addr records (as a multiset).
   Guards: the Pair schema minus `device` is order free, with local / connected Merge() of one flat DTO class (every
   field ForbidChange or Unite -- true of the shipped peer DTOs) and ports a ForbidChange field; the virtual DTO
   classes are flat; handlers write well-formed objects; and the guard that excludes C15_exec_order_refuted: an
   indirect session that selects a plain `ifname` names an interface the device has before the run. *)
Theorem C15_handler_order_exec :
  forall dmatches dhandler imatches ihandler vmatches vhandler connections dto sch_vlocal sch_vpeer sch_pair
         opt_fields nm drules drules' irules irules' vrules vrules' device nbs all d0,
    order_free (MMerge (drop_field "device" sch_pair)) = true ->
    nodupb (keys (drop_field "device" sch_pair)) = true ->
    lookup "local" (drop_field "device" sch_pair) = Some (MMerge dto) ->
    lookup "connected" (drop_field "device" sch_pair) = Some (MMerge dto) ->
    lookup "ports" (drop_field "device" sch_pair) = Some MForbidChange ->
    flat_schema dto = true ->
    handler_wf dto dhandler -> handler_wf dto ihandler ->
    flat_schema sch_vlocal = true -> flat_schema sch_vpeer = true ->
    vhandler_wf sch_vlocal sch_vpeer vhandler ->
    Permutation drules drules' -> Permutation irules irules' -> Permutation vrules vrules' ->
    (forall ip, execute_indirect imatches ihandler dto sch_pair irules device all = inr ip ->
                Forall (plain_ifname_known (d_ifs d0)) ip) ->
    match execute_for dmatches dhandler imatches ihandler vmatches vhandler connections
                      dto dto sch_vlocal sch_vpeer sch_pair opt_fields nm drules irules vrules device nbs all d0,
          execute_for dmatches dhandler imatches ihandler vmatches vhandler connections
                      dto dto sch_vlocal sch_vpeer sch_pair opt_fields nm drules' irules' vrules' device nbs all d0 with
    | inl _, inl _ => True
    | inr (ps, d), inr (ps', d') => peers_same ps ps' = true /\ mset_eqb logrec_eqb (d_log d) (d_log d') = true
    | _, _ => False
    end.
Proof. exact execute_for_perm_flat. Qed.
Print Assumptions C15_handler_order_exec.

(* non-vacuity: a Pair schema of the real shape (device : UseLast), a flat DTO, direct + indirect + virtual rules all
   registered in the other order: every guard holds, both runs succeed with 7 peers, the peer lists are not even a
   permutation of each other (set order of families) and are related as the theorem says *)
Example C15_example_handler_order_exec := execute_for_perm_flat_example.

(* ---- registries joined with include(), match_short_name per registry (Model/MeshNested.v; seeded C15-7) ---- *)
From Annet Require Import Model.MeshNested Proofs.MeshNestedProofs.

(* inclusion is flattening: for every tree of registries, every matcher `raw` (what a rule's templates say about the two
   strings they are given), every device and neighbour list, the matched pairs found through the tree are the
   matched pairs of the flat pre-order rule list, each rule keeping the name normalisation of the registry it was
   registered in - as a multiset (the code walks neighbours first inside one registry, registries first across them) *)
Theorem C15_include_is_flattening :
  forall (raw : nat -> string -> string -> bool) (g : registry) (device : string) (neighbors : list string),
    Permutation (lookup_nested raw g device neighbors) (lookup_flat raw (flatten g) device neighbors).
Proof. exact include_is_flattening. Qed.
Print Assumptions C15_include_is_flattening.

(* ... and as a LIST for one neighbour: the order in which the results of several rules for one device pair are merged
   is the pre-order of the registries *)
Theorem C15_include_is_flattening_pair :
  forall (raw : nat -> string -> string -> bool) (g : registry) (device nb : string),
    lookup_nested raw g device [nb] = lookup_flat raw (flatten g) device [nb].
Proof. exact include_is_flattening_single. Qed.
Print Assumptions C15_include_is_flattening_pair.

(* the flat lookup is Model/Mesh.lookup_direct (the lookup every executor theorem above is about) for the relation
   "the rule's templates match the two names as the rule's own registry normalises them" - which is the match table
   the correspondence run hands to the executor model for every generated registry layout *)
Theorem C15_flat_lookup_is_mesh_lookup :
  forall (raw matches : nat -> string -> string -> bool) (rs : list (bool * rule)) (device : string) (nbs : list string),
    (forall br l r, In br rs ->
       matches (r_id (snd br)) l r = raw (r_id (snd br)) (normalize (fst br) l) (normalize (fst br) r)) ->
    map (fun m => (r_id (m_rule m), m_direct m, m_left m, m_right m)) (lookup_flat raw rs device nbs) =
    map (fun m => (r_id (m_rule m), m_direct m, m_left m, m_right m)) (lookup_direct matches (map snd rs) device nbs).
Proof. exact flat_is_mesh_lookup. Qed.
Print Assumptions C15_flat_lookup_is_mesh_lookup.

(* name normalisation never reaches the result: whatever the nesting and the flags, every matched pair carries the
   names the caller passed ((device, neighbour) or (neighbour, device) for a neighbour of the call) - the executor
   loads the other end by that name and indexes its neighbours with it *)
Theorem C15_include_keeps_names :
  forall (raw : nat -> string -> string -> bool) (g : registry) (device : string) (nbs : list string) (m : matched),
    In m (lookup_nested raw g device nbs) -> original_names device nbs m.
Proof. exact nested_names. Qed.
Print Assumptions C15_include_keeps_names.

(* non-vacuity: a short-name registry including a full-name registry and a short-name one; FQDNs with a domain part;
   the rule of the full-name registry sees the full names, the rule of the short-name one the short names, and both
   matched pairs carry the FQDNs *)
Example C15_example_include :
  let raw := fun (i : nat) (l r : string) =>
    match i with
    | 0 => String.eqb l "leaf1.dc1.net" && String.eqb r "spine1.dc1.net"
    | _ => String.eqb l "leaf1" && String.eqb r "spine1"
    end in
  let g := Registry true [] [Registry false [Rule 0 United] []; Registry true [Rule 1 Separate] []] in
  map (fun m => (r_id (m_rule m), m_direct m, m_left m, m_right m))
      (lookup_nested raw g "spine1.dc1.net" ["leaf1.dc1.net"; "leaf2.dc1.net"])
  = [(0, false, "leaf1.dc1.net", "spine1.dc1.net"); (1, false, "leaf1.dc1.net", "spine1.dc1.net")].
Proof. vm_compute. reflexivity. Qed.
