(* C15 — property theorems only.  Proofs live in Proofs/MergeProofs.v and Proofs/MeshProofs.v. *)
From Coq Require Import List String Bool Arith ZArith Permutation.
From Annet Require Import Model.Merge Spec.P_C15 Proofs.MergeProofs.
Import ListNotations.
Open Scope string_scope.

(* Merging with an object that has nothing set is the identity, on either side
   (Merger.__call__: NOT_SET never overrides a set value). *)
Theorem C15_unset_neutral :
  forall (sch : schema) (a : entries),
    merge sch a [] = Ok a /\ (wf_obj sch a = true -> merge sch [] a = Ok a).
Proof.
  intros sch a. split.
  - apply merge_unset_right.
  - intros H. apply merge_unset_left. apply wf_obj_fields_in. exact H.
Qed.
Print Assumptions C15_unset_neutral.

(* merge is associative for every merger (UseFirst/UseLast included), at any nesting depth:
   (a+b)+c and a+(b+c) are both MergeForbiddenError or both defined and equal (objects and
   dicts as finite maps, sets by membership, lists element by element). *)
Theorem C15_assoc :
  forall (sch : schema) (a b c : entries),
    wf_obj sch a = true -> wf_obj sch b = true -> wf_obj sch c = true ->
    same_exact sch (bind (merge sch a b) (fun ab => merge sch ab c))
                   (bind (merge sch b c) (fun bc => merge sch a bc)) = true.
Proof. exact merge_assoc. Qed.
Print Assumptions C15_assoc.

(* merge a b and merge b a: both errors, or equal with Concat fields compared as multisets.
   Classes using UseFirst/UseLast anywhere are order dependent by declaration and excluded
   (see C15_uselast_is_order_dependent). *)
Theorem C15_comm_mod_concat :
  forall (sch : schema) (a b : entries),
    order_free (MMerge sch) = true -> wf_obj sch a = true -> wf_obj sch b = true ->
    same_mod_concat sch (merge sch a b) (merge sch b a) = true.
Proof. exact merge_comm_mod_concat. Qed.
Print Assumptions C15_comm_mod_concat.

(* Folding merge over the outputs of any number of handlers gives the same result for every
   order of the handlers (modulo the element order of Concat fields), or an error for every
   order. *)
Theorem C15_handler_order :
  forall (sch : schema) (objs objs' : list entries),
    order_free (MMerge sch) = true ->
    Forall (fun a => wf_obj sch a = true) objs ->
    Permutation objs objs' ->
    same_mod_concat sch (merge_list sch objs) (merge_list sch objs') = true.
Proof. exact merge_list_perm. Qed.
Print Assumptions C15_handler_order.

(* the same for any single field value and merger, nested or not *)
Theorem C15_field_order :
  forall (m : merger) (l l' : list value),
    order_free m = true ->
    Forall (fun v => wf_val m v = true) l -> Permutation l l' ->
    req true m (nfold (merge_val m) l) (nfold (merge_val m) l').
Proof. intros m l l' H. apply nfold_perm. exact H. Qed.
Print Assumptions C15_field_order.

(* ---- non-vacuity -------------------------------------------------------------------------- *)

Definition ex_leaf : schema :=
  [("asnum", MForbidChange); ("families", MUnite); ("routes", MConcat); ("once", MForbid)].
Definition ex_sch : schema :=
  [("addr", MForbidChange); ("opts", MMerge ex_leaf); ("groups", MDictMerge (MMerge ex_leaf))].
Definition ex_a : entries :=
  [("addr", VAtom (AStr "10.0.0.1"));
   ("opts", VObj [("asnum", VAtom (AInt 65001)); ("routes", VList [AStr "r1"]); ("families", VSet [AStr "v4"])]);
   ("groups", VDict [("g", VObj [("routes", VList [AStr "x"])])])].
Definition ex_b : entries :=
  [("opts", VObj [("routes", VList [AStr "r2"]); ("families", VSet [AStr "v6"; AStr "v4"]); ("asnum", VAtom (AInt 65001))]);
   ("groups", VDict [("h", VObj [("once", VAtom (AInt 1))]); ("g", VObj [("routes", VList [AStr "y"])])]);
   ("addr", VAtom (AStr "10.0.0.1"))].
Definition ex_c : entries :=
  [("opts", VObj [("asnum", VAtom (AInt 65002))])].

Example C15_example_guards :
  order_free (MMerge ex_sch) = true /\
  wf_obj ex_sch ex_a = true /\ wf_obj ex_sch ex_b = true /\ wf_obj ex_sch ex_c = true.
Proof. vm_compute. repeat split. Qed.

(* defined both ways, equal only modulo Concat order *)
Example C15_example_comm :
  merge ex_sch ex_a ex_b =
    Ok [("addr", VAtom (AStr "10.0.0.1"));
        ("opts", VObj [("asnum", VAtom (AInt 65001)); ("routes", VList [AStr "r1"; AStr "r2"]);
                       ("families", VSet [AStr "v4"; AStr "v6"])]);
        ("groups", VDict [("g", VObj [("routes", VList [AStr "x"; AStr "y"])]);
                          ("h", VObj [("once", VAtom (AInt 1))])])] /\
  same_exact ex_sch (merge ex_sch ex_a ex_b) (merge ex_sch ex_b ex_a) = false /\
  same_mod_concat ex_sch (merge ex_sch ex_a ex_b) (merge ex_sch ex_b ex_a) = true.
Proof. vm_compute. repeat split. Qed.

(* a conflict (two AS numbers) is an error in every order *)
Example C15_example_conflict :
  map (merge_list ex_sch) [[ex_a; ex_b; ex_c]; [ex_c; ex_a; ex_b]; [ex_b; ex_c; ex_a]] =
  [Err EForbidden; Err EForbidden; Err EForbidden].
Proof. vm_compute. reflexivity. Qed.

(* UseLast (Pair.device in the executor) makes a class order dependent: reported, not claimed *)
Example C15_uselast_is_order_dependent :
  let sch := [("device", MUseLast)] in
  let a := [("device", VAtom (AStr "d1"))] in
  let b := [("device", VAtom (AStr "d2"))] in
  order_free (MMerge sch) = false /\
  same_mod_concat sch (merge sch a b) (merge sch b a) = false.
Proof. vm_compute. split; reflexivity. Qed.
