(* C07 — property theorems only.  Proofs live in Proofs/RegexProofs.v, Proofs/PatternProofs.v,
   Proofs/PatternXProofs.v (the extended rule language, second half of this file). *)
From Coq Require Import List String Ascii Bool Arith.
From Coq Require Import Lia.
From Annet Require Import Base.Str Model.Pattern Spec.P_C07 Proofs.RegexProofs Proofs.PatternProofs.
From Annet Require Import Model.PatternX Spec.P_C07X Proofs.PatternXProofs.
From Annet Require Import Model.PatternT Spec.P_C07T Proofs.PatternTProofs.
From Annet Require Import Model.PatternY Spec.P_C07Y Proofs.PatternYProofs.
From Annet Require Import Proofs.PatternYReverse Proofs.PatternYParse.
Import ListNotations.
Open Scope string_scope.

(* A plain pattern matches a row and extracts `key` exactly when the row's words start
   with words matching the tokens one to one — `*` one word, `*/re/` one word of L(re),
   a literal the same word, trailing `~` one or more remaining words, otherwise a word
   boundary after the last token — and key = the bound words (`~`: the rest joined by
   single spaces).  For every pattern, flag, row and key (no bound on lengths). *)
Theorem C07_match_iff :
  forall (p : pat) (ic : bool) (row : string) (key : list string),
    pmatch p ic row = Some key <-> p <> [] /\ matches_spec ic p (words row) key.
Proof.
  intros p ic row key. destruct p as [|t p].
  - split; [discriminate | intros [H _]; congruence].
  - unfold pmatch. rewrite pmatch_words_iff. split; [intro H; split; [discriminate | exact H] | tauto].
Qed.
Print Assumptions C07_match_iff.

(* what `words row` is on the rows of the property's domain *)
Theorem C07_row_words :
  forall row, wf_row row = true ->
    words row <> [] /\ forallb word_ok (words row) = true /\ row = join_with " " (words row).
Proof. exact wf_row_words. Qed.
Print Assumptions C07_row_words.

(* the boolean prefix-form checker used on implementation outputs decides the same relation *)
Theorem C07_spec_checker :
  forall p ic row key,
    ref_match p ic row = Some key <-> p <> [] /\ matches_spec ic p (words row) key.
Proof. intros. rewrite ref_match_eq. apply C07_match_iff. Qed.
Print Assumptions C07_spec_checker.

(* at most one key *)
Theorem C07_key_unique :
  forall ic p ws k1 k2, matches_spec ic p ws k1 -> matches_spec ic p ws k2 -> k1 = k2.
Proof. exact matches_spec_functional. Qed.
Print Assumptions C07_key_unique.

(* one key entry per placeholder *)
Theorem C07_key_length :
  forall p ic row key, pmatch p ic row = Some key -> List.length key = nholes p.
Proof.
  intros p ic row key H. destruct p; [discriminate|]. eapply pmatch_words_key_length; exact H.
Qed.
Print Assumptions C07_key_length.

(* the derivative matcher decides the language of a one-word regex *)
Theorem C07_sre_match_lang :
  forall ic r w, sre_imatch ic r w = true <-> sre_lang ic r (list_ascii_of_string w).
Proof. exact sre_imatch_lang. Qed.
Print Assumptions C07_sre_match_lang.

(* _make_reverse(rule, prefix).format( *key ) = the negation word followed by the rule's
   words with the key substituted for the placeholders (`~` included); the negation word
   is dropped instead when the rule already starts with it; IndexError (None) exactly
   when the key is too short *)
Theorem C07_reverse :
  forall p prefix key, wf_pat p = true -> plain_word prefix = true ->
    format_template_opt (make_reverse (print_pat p) prefix) key = ref_reverse p prefix key.
Proof. exact make_reverse_format. Qed.
Print Assumptions C07_reverse.

Theorem C07_reverse_template :
  forall p prefix, wf_pat p = true -> plain_word prefix = true ->
    make_reverse (print_pat p) prefix =
    join_with " " (map (fun t => match t with Lit w => w | _ => "{}" end) (reverse_pat p prefix)).
Proof. exact make_reverse_template. Qed.
Print Assumptions C07_reverse_template.

(* ACL / ordering reverse form: strip-or-prepend on the text is strip-or-prepend on the
   tokens, and the result is again a pattern of the plain language *)
Theorem C07_reverse_row :
  forall p prefix, wf_pat p = true -> plain_word prefix = true ->
    reverse_row (print_pat p) prefix = print_pat (reverse_pat p prefix)
    /\ parse_pat (reverse_row (print_pat p) prefix) = Some (reverse_pat p prefix).
Proof. intros. split; [apply reverse_row_print | apply parse_reverse_row]; assumption. Qed.
Print Assumptions C07_reverse_row.

(* negating a negated rule gives the rule back; a rule starting with the negation word
   is stripped.  Any text, any negation word. *)
Theorem C07_double_neg :
  forall row prefix,
    reverse_row (prefix ++ " " ++ row) prefix = row
    /\ (startswith (prefix ++ " ") row = false ->
        reverse_row row prefix = prefix ++ " " ++ row
        /\ reverse_row (reverse_row row prefix) prefix = row)
    /\ (startswith (prefix ++ " " ++ prefix ++ " ") row = false ->
        reverse_row (reverse_row row prefix) prefix = row).
Proof.
  intros row prefix. split; [apply reverse_row_strips|]. split.
  - intro H. split; [apply reverse_row_prepends | apply reverse_row_plain_twice]; exact H.
  - apply reverse_row_involutive.
Qed.
Print Assumptions C07_double_neg.

Theorem C07_double_neg_pat :
  forall p prefix, p <> [] ->
    (forall p', p <> Lit prefix :: Lit prefix :: p' \/ p' = []) ->
    reverse_pat (reverse_pat p prefix) prefix = p.
Proof. exact reverse_pat_involutive. Qed.
Print Assumptions C07_double_neg_pat.

(* ignore_case / (?i): a literal matches up to ASCII letter case; the whole outcome depends
   on the row only up to letter case; case-sensitive matches stay matches (no regexps) *)
Theorem C07_ignore_case :
  forall p ws,
    option_map (map lower_str) (pmatch_words p true (map lower_str ws)) =
    option_map (map lower_str) (pmatch_words p true ws).
Proof. exact pmatch_words_ic_row. Qed.
Print Assumptions C07_ignore_case.

Theorem C07_ignore_case_lit :
  forall w x, word_eq true w x = true <-> lower_str w = lower_str x.
Proof. intros. rewrite word_eq_ic. apply String.eqb_eq. Qed.
Print Assumptions C07_ignore_case_lit.

Theorem C07_case_sensitive_lit :
  forall w x, word_eq false w x = true <-> w = x.
Proof. intros. unfold word_eq. cbn. rewrite orb_false_r. apply String.eqb_eq. Qed.
Print Assumptions C07_case_sensitive_lit.

Theorem C07_ignore_case_mono :
  forall p ws key, forallb (fun t => negb (is_re t)) p = true ->
    pmatch_words p false ws = Some key -> pmatch_words p true ws = Some key.
Proof. exact pmatch_words_ic_mono. Qed.
Print Assumptions C07_ignore_case_mono.

(* the rule-text parser and the printer are inverse on the plain language *)
Theorem C07_parse_print :
  forall p, wf_pat p = true -> parse_pat (print_pat p) = Some p.
Proof. exact parse_pat_print. Qed.
Print Assumptions C07_parse_print.

Theorem C07_print_parse :
  forall s p, parse_pat s = Some p -> wf_pat p = true /\ print_pat p = s.
Proof. exact parse_pat_sound. Qed.
Print Assumptions C07_print_parse.

(* the model satisfies the property predicate, for every rule row of the plain language
   written without the inline flag, every negation word, key and list of rows *)
Theorem C07_holds :
  forall x, wf_C07 x = true -> rule_has_ic (ci_rule x) = false -> P_C07 x (model_C07 x) = true.
Proof. exact P_C07_model. Qed.
Print Assumptions C07_holds.

(* ... and the guard on the inline flag is needed: _make_reverse keeps the text "(?i)"
   (known finding C07/plain/reverse-template-keeps-inline-flag, replayed on the real code) *)
Theorem C07_inline_flag_refuted :
  exists x, wf_C07 x = true /\ P_C07 x (model_C07 x) = false.
Proof.
  exists (C07In "(?i)snmp-agent sys-info *" "undo" false ["K"] ["SNMP-agent SYS-info version"]).
  split; vm_compute; reflexivity.
Qed.
Print Assumptions C07_inline_flag_refuted.

(* ------------------------------------------------------------------------------ *)
(* non-vacuity                                                                     *)

Example C07_ex_parse :
  parse_pat "interface */\S+\.\d+/ mtu * ~" =
  Some [Lit "interface";
        StarRe (SCat (SPlus (SCls KNotSpace)) (SCat (SEsc ".") (SPlus (SCls KDigit))));
        Lit "mtu"; Star; Tilde].
Proof. vm_compute. reflexivity. Qed.

Example C07_ex_match :
  rule_match "interface */\S+\.\d+/ mtu * ~" false "interface ae1.100 mtu 9000 jumbo frames"
  = Some ["ae1.100"; "9000"; "jumbo frames"].
Proof. vm_compute. reflexivity. Qed.

Example C07_ex_boundary :
  rule_match "interface * mtu" false "interface ae1 mtu9000" = None
  /\ rule_match "interface * mtu" false "interface ae1 mtu 9000" = Some ["ae1"]
  /\ rule_match "interface *" false "interface" = None
  /\ rule_match "interface ~" false "interface" = None.
Proof. vm_compute. auto. Qed.

Example C07_ex_ignore_case :
  rule_match "snmp-agent *" true "SNMP-Agent Foo" = Some ["Foo"]
  /\ rule_match "snmp-agent *" false "SNMP-Agent Foo" = None
  /\ rule_match "interface */(?i)meth[\d\/]+/" false "interface MEth0/0/0" = Some ["MEth0/0/0"].
Proof. vm_compute. auto. Qed.

Example C07_ex_reverse :
  wf_pat [Lit "interface"; Star; Lit "mtu"; StarRe (SPlus (SCls KDigit)); Tilde] = true
  /\ make_reverse "interface * mtu */\d+/ ~" "undo" = "undo interface {} mtu {} {}"
  /\ format_template (make_reverse "interface * mtu */\d+/ ~" "undo") ["ae1"; "9000"; "a b"]
     = "undo interface ae1 mtu 9000 a b"
  /\ make_reverse "undo interface * mtu */\d+/ ~" "undo" = "interface {} mtu {} {}"
  /\ format_template_opt (make_reverse "interface * mtu */\d+/ ~" "undo") ["ae1"] = None.
Proof. vm_compute. auto. Qed.

Example C07_ex_double_neg :
  reverse_row "no shutdown" "no" = "shutdown"
  /\ reverse_row "shutdown" "no" = "no shutdown"
  /\ reverse_row (reverse_row "no no x" "no") "no" = "x".       (* the guard of C07_double_neg is needed *)
Proof. vm_compute. auto. Qed.

Example C07_ex_outside :
  parse_pat "vlan */[^\d].*/" = None                      (* `.` may cross a blank *)
  /\ parse_pat "ip */(ip|ipv6)/-prefix *" = None          (* placeholder glued to a literal *)
  /\ parse_pat "(?:ip|ipv6) route" = None                  (* regex source in a literal word *)
  /\ parse_pat "a ~ b" = None.
Proof. vm_compute. auto. Qed.

Example C07_ex_regex_src :
  option_map regex_src (parse_pat "interface * mtu */(a|b)\d+/") =
  Some "^interface\s+([^\s]+)\s+mtu\s+((?:a|b)\d+)(?:\s|$)".
Proof. vm_compute. reflexivity. Qed.

(* ============================================================================== *)
(* The extended rule language (Model/PatternX.v): a rule word may also be a one-word
   regular expression that binds nothing — `(ftp|FTP)`, `(?:permit|deny)`, `vlans?`,
   `[11|12]` (XLitRe) or `~/re/` (XTildeRe).  The plain language above is its
   sub-language without such words (C07X_conservative), so every statement below also
   speaks about plain patterns.                                                    *)

(* On rows where the two peculiarities of compile_row_regexp do not show (quirk_free: the
   row has a `*` or no word that is one plain capturing group; the row has no `~/re/` or
   ends in `*`), the model of compile_row_regexp matches a row and extracts `key` exactly
   when the row's words start with words matching the tokens one to one at word
   boundaries, and key = the words bound by `*`, `*/re/` and the trailing `~` only: a
   regex word contributes nothing to the key. *)
Theorem C07X_match_iff :
  forall (p : xpat) (ic : bool) (row : string) (key : list string),
    quirk_free p = true ->
    (xpmatch p ic row = Some key <-> p <> [] /\ xmatches_spec ic p (words row) key).
Proof. exact xpmatch_iff. Qed.
Print Assumptions C07X_match_iff.

(* the boolean checker used on implementation outputs decides the relation, for every
   pattern of the extended language (no guard) *)
Theorem C07X_spec_checker :
  forall p ic row key,
    xref_match p ic row = Some key <-> p <> [] /\ xmatches_spec ic p (words row) key.
Proof. exact xref_match_iff. Qed.
Print Assumptions C07X_spec_checker.

Theorem C07X_key_unique :
  forall ic p ws k1 k2, xmatches_spec ic p ws k1 -> xmatches_spec ic p ws k2 -> k1 = k2.
Proof. exact xmatches_spec_functional. Qed.
Print Assumptions C07X_key_unique.

(* one key entry per placeholder — and, in a row without `*`, one more per word that is a
   plain capturing group (the first peculiarity, stated exactly) *)
Theorem C07X_key_length :
  forall p ic row key, xpmatch p ic row = Some key ->
    List.length key = xnholes p + (if has_star p then 0 else xncaps p).
Proof. exact xpmatch_key_length. Qed.
Print Assumptions C07X_key_length.

Theorem C07X_key_length_placeholders :
  forall p ic row key, has_star p = true -> xpmatch p ic row = Some key -> List.length key = xnholes p.
Proof. intros p ic row key H M. apply xpmatch_key_length in M. rewrite H in M. lia. Qed.
Print Assumptions C07X_key_length_placeholders.

(* the plain language is the sub-language without regex words: same parse, same matcher,
   same specification (what Model/Pipeline.v, Acl.v, Implicit.v ... call is unchanged) *)
Theorem C07X_conservative :
  forall rule p, rule_pat rule = Some p ->
    xrule_pat rule = Some (embed p)
    /\ (forall ic row, xrule_match rule ic row = rule_match rule ic row)
    /\ (forall ic ws key, matches_spec ic p ws key <-> xmatches_spec ic (embed p) ws key).
Proof.
  intros rule p H. split; [apply xrule_pat_conservative; exact H|]. split.
  - intros ic row. eapply xrule_match_conservative; eauto.
  - intros. apply matches_spec_embed.
Qed.
Print Assumptions C07X_conservative.

(* what "matching without a trailing word boundary" means for a regex word *)
Theorem C07X_prefix_lang :
  forall ic r x, sre_iprefix ic r x = true <->
    exists u v, list_ascii_of_string x = (u ++ v)%list /\ sre_lang ic r u.
Proof. exact sre_iprefix_lang. Qed.
Print Assumptions C07X_prefix_lang.

(* _make_reverse(rule, prefix).format( *key ): the negation word followed by the rule's
   words with the key substituted for the placeholders; a regex word keeps its source text,
   a `~/re/` word is dropped; IndexError (None) exactly when the key is too short *)
Theorem C07X_reverse :
  forall p prefix key, wf_xpat p = true -> plain_word prefix = true ->
    lead_ok (reverse_xpat p prefix) = true ->
    format_template_opt (make_reverse (print_xpat p) prefix) key = xref_reverse p prefix key.
Proof. exact make_reverse_xformat. Qed.
Print Assumptions C07X_reverse.

Theorem C07X_reverse_template :
  forall p prefix, wf_xpat p = true -> plain_word prefix = true ->
    lead_ok (reverse_xpat p prefix) = true ->
    make_reverse (print_xpat p) prefix = join_with " " (somes (map xtmpl_word (reverse_xpat p prefix))).
Proof. exact make_reverse_xtemplate. Qed.
Print Assumptions C07X_reverse_template.

Theorem C07X_reverse_row :
  forall p prefix, wf_xpat p = true -> plain_word prefix = true ->
    reverse_row (print_xpat p) prefix = print_xpat (reverse_xpat p prefix).
Proof. exact reverse_row_xprint. Qed.
Print Assumptions C07X_reverse_row.

Theorem C07X_double_neg_pat :
  forall p prefix, p <> [] ->
    (forall p', p <> XLit prefix :: XLit prefix :: p' \/ p' = []) ->
    reverse_xpat (reverse_xpat p prefix) prefix = p.
Proof. exact reverse_xpat_involutive. Qed.
Print Assumptions C07X_double_neg_pat.

(* the rule-text parser and the printer are inverse on the extended language *)
Theorem C07X_parse_print :
  forall p, wf_xpat p = true -> parse_xpat (print_xpat p) = Some p.
Proof. exact parse_xpat_print. Qed.
Print Assumptions C07X_parse_print.

Theorem C07X_print_parse :
  forall s p, parse_xpat s = Some p -> wf_xpat p = true /\ print_xpat p = s.
Proof. exact parse_xpat_sound. Qed.
Print Assumptions C07X_print_parse.

(* the model satisfies the property predicate for every rule row of the extended language
   written without the inline flag on which the two peculiarities do not show *)
Theorem C07X_holds :
  forall x, wf_C07X x = true -> rule_has_ic (ci_rule x) = false -> qf_C07X x = true ->
    P_C07X x (model_C07X x) = true.
Proof. exact P_C07X_model. Qed.
Print Assumptions C07X_holds.

(* ... and both guards are needed (known findings C07/ext/..., replayed on the real code):
   a row without `*` keeps its plain groups capturing, so the key gains a word *)
Theorem C07X_bare_group_refuted :
  exists x, wf_C07X x = true /\ rule_has_ic (ci_rule x) = false /\ P_C07X x (model_C07X x) = false.
Proof.
  exists (C07In "oa-options (booster|preamp|amp)" "delete" false [] ["oa-options booster"]).
  repeat split; vm_compute; reflexivity.
Qed.
Print Assumptions C07X_bare_group_refuted.

(* a row with `~/re/` gets no trailing word boundary *)
Theorem C07X_no_boundary_refuted :
  exists x, wf_C07X x = true /\ rule_has_ic (ci_rule x) = false /\ P_C07X x (model_C07X x) = false.
Proof.
  exists (C07In "*/syslog-level/ ~/(warn|info)/" "no" false ["K"] ["syslog-level warning"]).
  repeat split; vm_compute; reflexivity.
Qed.
Print Assumptions C07X_no_boundary_refuted.

(* the rows of the correspondence run are built from words of the regex words' languages *)
Theorem C07X_samples_sound :
  forall r s, In s (sre_samples r) -> sre_imatch false r s = true.
Proof. exact sre_samples_sound. Qed.
Print Assumptions C07X_samples_sound.

(* non-vacuity *)
Example C07X_ex_parse :
  parse_xpat "route-map * (?:permit|deny) *" =
    Some [XLit "route-map"; XStar;
          XLitRe (SGrp false (SAlt (SCat (SChr "p") (SCat (SChr "e") (SCat (SChr "r") (SCat (SChr "m") (SCat (SChr "i") (SChr "t"))))))
                                   (SCat (SChr "d") (SCat (SChr "e") (SCat (SChr "n") (SChr "y")))))); XStar]
  /\ option_map quirk_free (parse_xpat "route-map * (?:permit|deny) *") = Some true
  /\ option_map quirk_free (parse_xpat "(ftp|FTP) *") = Some true
  /\ option_map quirk_free (parse_xpat "*/syslog-level/ ~/(emergency|alert)/ *") = Some true
  /\ option_map quirk_free (parse_xpat "vrrp vrid [11|12]") = Some true
  /\ option_map quirk_free (parse_xpat "qos (wfq|drr)") = Some false.
Proof. vm_compute. repeat split. Qed.

Example C07X_ex_match :
  xrule_match "(ftp|FTP) *" false "ftp server enable" = Some ["server"]
  /\ xrule_match "(ftp|FTP) *" false "FTP acl 2000" = Some ["acl"]
  /\ xrule_match "(ftp|FTP) *" false "sftp server" = None
  /\ xrule_match "*/syslog-level/ ~/(emergency|alert|warn)/ *" false "syslog-level warn system" = Some ["syslog-level"; "system"]
  /\ xrule_match "*/syslog-level/ ~/(emergency|alert|warn)/ *" false "syslog-level warning system" = None
  /\ xrule_match "route-policy * (?:permit|deny) node *" false "route-policy P permit node 10" = Some ["P"; "10"]
  /\ xrule_match "vrrp vrid [11|12] virtual-ip" false "vrrp vrid 2 virtual-ip 10.0.0.1" = Some []
  /\ xrule_match "vrrp vrid [11|12] virtual-ip" false "vrrp vrid 12 virtual-ip" = None.
Proof. vm_compute. repeat split. Qed.

Example C07X_ex_reverse :
  make_reverse "route-map * (?:permit|deny) *" "no" = "no route-map {} (?:permit|deny) {}"
  /\ format_template_opt (make_reverse "*/syslog-level/ ~/(emergency|alert|warn)/ *" "no") ["syslog-level"; "system"]
     = Some "no syslog-level system"
  /\ option_map (fun p => xref_reverse p "no" ["syslog-level"; "system"])
       (parse_xpat "*/syslog-level/ ~/(emergency|alert|warn)/ *") = Some (Some "no syslog-level system").
Proof. vm_compute. repeat split. Qed.

Example C07X_ex_outside :
  parse_xpat "ipv[46]-family|link-state-family unicast" = None      (* alternation not closed in a group *)
  /\ parse_xpat "ieee-802.1 *" = None                                (* `.` may match a blank *)
  /\ parse_xpat "undo (ftp|FTP) (server source|server-source)" = None   (* a group across two words *)
  /\ parse_xpat "vrrp6 vrid [11|12] virtual-ip FE80*" = None         (* `*` inside a word *)
  /\ parse_xpat "a ~/x/ b/c" = None                                  (* `/` after `~/re/` *)
  /\ parse_xpat "a ~/b/ ~" = None.
Proof. vm_compute. repeat split. Qed.

(* ============================================================================== *)
(* The rule-TEXT parser in front of the pattern compiler (Model/PatternT.v: _parse_raw_rule
   as reached through compile_patching_text / compile_acl_text / compile_ordering_text).
   A rule is a sequence of WORDS: how they are spaced in the rulebook text does not matter. *)

(* strip, then replace every run of blanks / tabs by one blank = the words joined by single
   blanks.  For every text (no bound). *)
Theorem C07T_collapse :
  forall s, collapse_ws false (strip s) = join_with " " (words s).
Proof. exact collapse_strip_words. Qed.
Print Assumptions C07T_collapse.

(* the row handed to compile_row_regexp / _make_reverse is the words of the line (%params
   cut off) joined by single blanks *)
Theorem C07T_row_words :
  forall raw, raw_row raw = join_with " " (words (cut_params raw)).
Proof. exact raw_row_words. Qed.
Print Assumptions C07T_row_words.

(* two lines with the same words give the same row, hence the same regexps, keys, removal
   command and reverse forms *)
Theorem C07T_spacing_irrelevant :
  forall a b, words (cut_params a) = words (cut_params b) ->
    raw_row a = raw_row b
    /\ (forall ic row, text_direct a ic row = text_direct b ic row)
    /\ (forall prefix row, text_reverse a prefix row = text_reverse b prefix row)
    /\ (forall prefix, text_template a prefix = text_template b prefix).
Proof.
  intros a b H. assert (R : raw_row a = raw_row b) by (apply raw_row_spacing; exact H).
  unfold text_direct, text_reverse, text_template. rewrite R. repeat split.
Qed.
Print Assumptions C07T_spacing_irrelevant.

(* the row is in the single-blank normal form that the reverse side relies on (wf_row: what
   row.startswith(prefix + blank) and the removal template assume), with the line's words *)
Theorem C07T_row_normal_form :
  forall raw, words (cut_params raw) <> [] -> forallb word_ok (words (cut_params raw)) = true ->
    wf_row (raw_row raw) = true /\ words (raw_row raw) = words (cut_params raw).
Proof. exact raw_row_wf. Qed.
Print Assumptions C07T_row_normal_form.

(* a line already in normal form and without %params is left unchanged: the rule rows of
   the theorems above (C07_..., C07X_...) are exactly what the text parser produces *)
Theorem C07T_row_fixed :
  forall r, wf_row r = true -> has_param r = false -> raw_row r = r.
Proof. exact raw_row_fixed. Qed.
Print Assumptions C07T_row_fixed.

(* the model of the three text compilers satisfies the text-level predicate: patching regexp,
   key and removal command, ACL rule id, ACL / ordering direct and reverse forms are those of
   the pattern made of the words of the line and of its negation *)
Theorem C07T_holds :
  forall x, wf_C07T x = true -> P_C07T x (model_C07T x) = true.
Proof. exact P_C07T_model. Qed.
Print Assumptions C07T_holds.

(* non-vacuity: tabs, runs of blanks, alignment blanks before the %params *)
Example C07T_ex :
  let tabs := String tab (String tab "") in
  let raw := ("no" ++ tabs ++ "ip   proxy-arp     %comment=x  %global")%string in
  raw_row raw = "no ip proxy-arp"
  /\ text_template raw "no" = "ip proxy-arp"
  /\ text_reverse raw "no" "ip proxy-arp" = Some []
  /\ raw_row "mtu     */\d+/" = "mtu */\d+/"
  /\ text_template "description   ~" "no" = "no description {}"
  /\ raw_row "a%b  %c" = "a"                      (* the cut is at the first percent sign *)
  /\ raw_row "a %1" = "a %1"                       (* no parameter recognised: nothing is cut *)
  /\ wf_C07T (C07TIn raw ("  no ip" ++ tabs ++ "proxy-arp") "no ip  proxy-arp  %order_reverse" "no" false
                     ["K"] ["no ip proxy-arp"; "ip proxy-arp x"]) = true.
Proof. vm_compute. repeat split. Qed.

(* ============================================================================== *)
(* ignore_case for the extended language of Model/PatternX.v: with ignore_case / (?i) the
   outcome depends on the row only up to ASCII letter case (the key itself is spelled as in
   the row: C07X_match_iff).  For every pattern, both peculiarities of compile_row_regexp
   included (cap: groups left capturing, nb: no trailing boundary). *)
Theorem C07X_ignore_case :
  forall cap nb p ws,
    option_map (map lower_str) (xmatch_words cap nb p true (map lower_str ws)) =
    option_map (map lower_str) (xmatch_words cap nb p true ws).
Proof. exact xmatch_words_ic_row. Qed.
Print Assumptions C07X_ignore_case.

(* a regex word without its trailing boundary (the `~/re/` peculiarity) is case-blind too *)
Theorem C07X_ignore_case_tok :
  forall loose t x, xtok_ok true loose t (lower_str x) = xtok_ok true loose t x.
Proof. exact xtok_ok_lower. Qed.
Print Assumptions C07X_ignore_case_tok.

(* ============================================================================== *)
(* The second extension (Model/PatternY.v): a placeholder glued to a literal suffix
   (`*/(ip|ipv6)/-prefix`), and special last words: `w...` (no boundary), `w~` (binds the rest
   of the text after w), `*/a.*/` and `*/a.+/` (`.` crosses blanks: binds the whole rest of the
   row), `w$` and `*/r$/` (last word of the row).  PatternX is its sub-language
   (C07Y_conservative), so the statements below also speak about PatternX and plain patterns. *)

(* the model of compile_row_regexp matches a row and extracts `key` exactly when the
   declarative relation holds (Spec/P_C07Y.v: one word per token, a glued placeholder binds
   the part of its word before the suffix, the last word as described above) *)
Theorem C07Y_match_iff :
  forall (p : ypat) (ic : bool) (row : string) (key : list string),
    yquirk_free p = true ->
    (ypmatch p ic row = Some key <-> ypat_spec ic p (words row) key).
Proof. exact ypmatch_iff. Qed.
Print Assumptions C07Y_match_iff.

(* on the new forms no guard is needed: token loop and last word against the relation *)
Theorem C07Y_match_iff_new :
  forall ic e p ws key, ymatch_toks ic e p ws = Some key <-> ymatches_spec ic e p ws key.
Proof. exact ymatch_toks_iff. Qed.
Print Assumptions C07Y_match_iff_new.

Theorem C07Y_spec_checker :
  forall p ic row key, yref_match p ic row = Some key <-> ypat_spec ic p (words row) key.
Proof. exact yref_match_iff. Qed.
Print Assumptions C07Y_spec_checker.

Theorem C07Y_key_unique :
  forall ic p ws k1 k2, ypat_spec ic p ws k1 -> ypat_spec ic p ws k2 -> k1 = k2.
Proof. exact ypat_spec_functional. Qed.
Print Assumptions C07Y_key_unique.

(* one key entry per placeholder (glued ones and binding last words included) *)
Theorem C07Y_key_length :
  forall p ic row key, yproj p = None -> ypmatch p ic row = Some key -> List.length key = ynholes p.
Proof.
  intros p ic row key N H. unfold ypmatch in H. rewrite N in H.
  apply ymatch_key_length in H. exact H.
Qed.
Print Assumptions C07Y_key_length.

(* what the last words mean at character level *)
Theorem C07Y_rest_lang :
  forall ic r w, sre_run_pre1 ic r w = true <->
    exists u v, w = (u ++ v)%list /\ v <> [] /\ sre_lang ic r u.
Proof. intros. apply sre_run_pre1_lang. Qed.
Print Assumptions C07Y_rest_lang.

(* PatternX is the sub-language without the new forms: same parse, same matcher, and the
   relation of the new language read on an embedded pattern is PatternX's relation *)
Theorem C07Y_conservative :
  forall rule xp, xrule_pat rule = Some xp ->
    yrule_pat rule = Some (yembed xp)
    /\ (forall ic row, yrule_match rule ic row = xrule_match rule ic row)
    /\ (forall ic ws key, ypat_spec ic (yembed xp) ws key <-> xp <> [] /\ xmatches_spec ic xp ws key).
Proof.
  intros rule xp H. split; [apply yrule_pat_conservative; exact H|]. split.
  - intros ic row. eapply yrule_match_conservative; eauto.
  - intros. unfold ypat_spec. rewrite yproj_embed. tauto.
Qed.
Print Assumptions C07Y_conservative.

Theorem C07Y_relation_conservative :
  forall ic xp ws key, forallb (fun t => negb (is_xtilde t)) xp = true ->
    (ymatches_spec ic EPlain (map YX xp) ws key <-> xmatches_spec ic xp ws key)
    /\ (ymatches_spec ic ETilde (map YX xp) ws key <-> xmatches_spec ic (xp ++ [XTilde])%list ws key).
Proof.
  intros ic xp ws key H. split; [apply ymatches_spec_embed | apply ymatches_spec_embed_tilde]; exact H.
Qed.
Print Assumptions C07Y_relation_conservative.

(* the rule-text parser returns only well-formed patterns that print back to the very text *)
Theorem C07Y_print_parse :
  forall s p, parse_ypat s = Some p -> wf_ypat p = true /\ print_ypat p = s.
Proof. exact parse_ypat_sound. Qed.
Print Assumptions C07Y_print_parse.

(* ignore_case for the second extension *)
Theorem C07Y_ignore_case :
  forall e p ws,
    option_map (map lower_str) (ymatch_toks true e p (map lower_str ws)) =
    option_map (map lower_str) (ymatch_toks true e p ws).
Proof. exact ymatch_toks_ic_row. Qed.
Print Assumptions C07Y_ignore_case.

(* the matching part of the predicate evaluated on implementation outputs holds of the model,
   for every rule row of the language on which PatternX's two peculiarities do not show *)
Theorem C07Y_holds_partial :
  forall x, qf_C07Y x = true -> P_C07Y_match x (model_C07Y x) = true.
Proof. exact P_C07Y_match_model. Qed.
Print Assumptions C07Y_holds_partial.

(* the removal-command half for the new forms: the text-level
   _make_reverse(print_ypat p, prefix).format( *key ) equals the token-level reading yref_reverse
   of Spec/P_C07Y.v (negation word, then the rule's words with the key substituted; a glued
   placeholder keeps its suffix, `w~` keeps w, `w...` and `w$` keep their source text; too few
   key entries: IndexError on both sides).  For every well-formed pattern with a new form, every
   negation word and every key (Proofs/PatternYReverse.v: reverse_row, trailing tilde, sub_star,
   strip_tilde and str.format, word by word).  For patterns of PatternX it is C07X_reverse /
   C07Y_reverse_partial below. *)
Theorem C07Y_reverse :
  forall p prefix key, wf_ypat p = true -> plain_word prefix = true -> yproj p = None ->
    format_template_opt (make_reverse (print_ypat p) prefix) key = yref_reverse p prefix key.
Proof. exact make_reverse_yformat. Qed.
Print Assumptions C07Y_reverse.

(* the template itself: the words of the (negated) rule, placeholders as "{}" *)
Theorem C07Y_reverse_template :
  forall p prefix, wf_ypat p = true -> plain_word prefix = true -> yproj p = None ->
    let q := reverse_ypat p prefix in
    make_reverse (print_ypat p) prefix = join_with " " (map wtmpl (ywords (y_toks q) (y_end q))).
Proof. exact make_reverse_ytemplate. Qed.
Print Assumptions C07Y_reverse_template.

(* the WHOLE predicate evaluated on implementation outputs (matching and removal commands)
   holds of the model, for every rule row of the second extension on which PatternX's two
   peculiarities do not show *)
Theorem C07Y_holds :
  forall x, wf_C07Y x = true -> rule_has_ic (ci_rule x) = false -> qf_C07Y x = true ->
    P_C07Y x (model_C07Y x) = true.
Proof. exact P_C07Y_model. Qed.
Print Assumptions C07Y_holds.

Theorem C07Y_reverse_partial :
  forall xp prefix key, wf_xpat xp = true -> plain_word prefix = true ->
    lead_ok (reverse_xpat xp prefix) = true ->
    format_template_opt (make_reverse (print_ypat (yembed xp)) prefix) key = yref_reverse (yembed xp) prefix key.
Proof.
  intros xp prefix key W P L. unfold yref_reverse. rewrite yproj_embed, print_ypat_embed.
  apply make_reverse_xformat; assumption.
Qed.
Print Assumptions C07Y_reverse_partial.

(* parser after printer (the other direction is C07Y_print_parse).  The unguarded statement is
   false (C07Y_parse_print_refuted): one text can have two well-formed trees, and the parser
   picks the normal one -- a row of PatternX is read as PatternX reads it (`a ~` is [a; ~] of
   PatternX, not YPat [a] ETilde), and a last word with the shape of a special last word is read
   as that special word (a last regex word `a\$` next to a glued placeholder is taken for `w$`
   with w = `a\`, no literal: the text is rejected, fail closed).  yparse_canon
   (Proofs/PatternYParse.v) says exactly this, and it is the weakest possible guard:
   C07Y_parse_print_iff.  Both trees of an ambiguous text mean the same to the matcher and to
   the real compile_row_regexp (one text, one regexp). *)
Theorem C07Y_parse_print :
  forall p, wf_ypat p = true -> yparse_canon p = true -> parse_ypat (print_ypat p) = Some p.
Proof. exact parse_ypat_print. Qed.
Print Assumptions C07Y_parse_print.

Theorem C07Y_parse_print_iff :
  forall p, wf_ypat p = true -> (parse_ypat (print_ypat p) = Some p <-> yparse_canon p = true).
Proof. exact parse_ypat_print_iff. Qed.
Print Assumptions C07Y_parse_print_iff.

(* a purely syntactic sufficient condition: some glued placeholder, and a special last word or a
   last word that is a literal, `*` or a glued placeholder *)
Theorem C07Y_parse_print_simple :
  forall p, wf_ypat p = true -> yparse_simple p = true -> parse_ypat (print_ypat p) = Some p.
Proof. exact parse_ypat_print_simple. Qed.
Print Assumptions C07Y_parse_print_simple.

(* patterns of PatternX need no guard (C07X_parse_print) *)
Theorem C07Y_parse_print_embedded :
  forall xp, wf_xpat xp = true -> parse_ypat (print_ypat (yembed xp)) = Some (yembed xp).
Proof.
  intros xp H. apply parse_ypat_print.
  - unfold wf_ypat. rewrite yproj_embed. exact H.
  - unfold yparse_canon. rewrite yproj_embed. reflexivity.
Qed.
Print Assumptions C07Y_parse_print_embedded.

Theorem C07Y_parse_print_refuted :
  exists p, wf_ypat p = true /\ parse_ypat (print_ypat p) <> Some p.
Proof. exact parse_ypat_print_refuted. Qed.
Print Assumptions C07Y_parse_print_refuted.

(* non-vacuity of C07Y_reverse / C07Y_parse_print / C07Y_parse_print_simple / C07Y_holds: a glued
   placeholder and a special last word; and the two witnesses of the refutation *)
Example C07Y_ex_guards :
  let rg := SGrp true (SAlt (SCat (SChr "i") (SChr "p"))
                            (SCat (SChr "i") (SCat (SChr "p") (SCat (SChr "v") (SChr "6"))))) in
  let p := YPat [YX (XLit "ip"); YGlue rg "-prefix"; YX XStar] (ELitTilde "name:") in
  wf_ypat p = true /\ yproj p = None /\ yparse_canon p = true /\ yparse_simple p = true
  /\ print_ypat p = "ip */(ip|ipv6)/-prefix * name:~"
  /\ parse_ypat "ip */(ip|ipv6)/-prefix * name:~" = Some p
  /\ make_reverse (print_ypat p) "undo" = "undo ip {}-prefix {} name:{}"
  /\ yref_reverse p "undo" ["ipv6"; "P"; " x y"] = Some "undo ip ipv6-prefix P name: x y"
  /\ yref_reverse p "undo" ["ipv6"; "P"] = None
  /\ (let x := C07In "ip */(ip|ipv6)/-prefix * name:~" "undo" false ["K"; "L"; "M"]
                     ["ip ipv6-prefix P name: x y"; "ip ip-prefix P name:"; "ip ipv4-prefix P name:q"] in
      wf_C07Y x = true /\ rule_has_ic (ci_rule x) = false /\ qf_C07Y x = true)
  /\ parse_ypat (print_ypat (YPat [YX (XLit "a")] ETilde)) = Some (yembed [XLit "a"; XTilde])
  /\ yparse_canon (YPat [YX (XLit "a")] ETilde) = false
  /\ (let p2 := YPat [YGlue (SChr "a") "x"; YX (XLitRe (SCat (SChr "a") (SEsc "$")))] EPlain in
      wf_ypat p2 = true /\ print_ypat p2 = "*/a/x a\$" /\ parse_ypat (print_ypat p2) = None
      /\ yparse_canon p2 = false).
Proof. vm_compute. repeat split. Qed.

(* non-vacuity *)
Example C07Y_ex_parse :
  yrule_pat "ip */(ip|ipv6)/-prefix * index 99999999" =
    Some (YPat [YX (XLit "ip");
                YGlue (SGrp true (SAlt (SCat (SChr "i") (SChr "p"))
                                       (SCat (SChr "i") (SCat (SChr "p") (SCat (SChr "v") (SChr "6")))))) "-prefix";
                YX XStar; YX (XLit "index"); YX (XLit "99999999")] EPlain)
  /\ yrule_pat "name:~" = Some (YPat [] (ELitTilde "name:"))
  /\ yrule_pat "a_ant_pol:..." = Some (YPat [] (EDots "a_ant_pol:"))
  /\ yrule_pat "undo system tcam acl$" = Some (YPat [YX (XLit "undo"); YX (XLit "system"); YX (XLit "tcam")] (EEndLit "acl"))
  /\ option_map y_end (yrule_pat "vlan */[^\d].*/") = Some (ERest (SSet true [CCls KDigit]) false)
  /\ option_map yquirk_free (yrule_pat "interface */Tunnel.+/") = Some true.
Proof. vm_compute. repeat split. Qed.

Example C07Y_ex_match :
  yrule_match "interface */Tunnel.*/" false "interface Tunnel1 mode gre" = Some ["Tunnel1 mode gre"]
  /\ yrule_match "interface */Tunnel.+/" false "interface Tunnel" = None
  /\ yrule_match "vlan */[^\d].*/" false "vlan batch 1 2" = Some ["batch 1 2"]
  /\ yrule_match "vlan */[^\d].*/" false "vlan 10" = None
  /\ yrule_match "name:~" false "name: ap 7" = Some [" ap 7"]
  /\ yrule_match "name:~" false "name:" = None
  /\ yrule_match "ip */(ip|ipv6)/-prefix * index 99999999" false "ip ipv6-prefix P index 99999999" = Some ["ipv6"; "P"]
  /\ yrule_match "ip */(ip|ipv6)/-prefix" false "ip ipv6-prefixes" = None
  /\ yrule_match "a_ant_pol:..." false "a_ant_pol:1 z" = Some []
  /\ yrule_match "undo system tcam acl$" false "undo system tcam acl x" = None
  /\ yrule_match "interface */(ce|xe|eth)[0-9\/]+$/" true "interface XE0/1" = Some ["XE0/1"].
Proof. vm_compute. repeat split. Qed.

Example C07Y_ex_reverse :
  make_reverse "ip */(ip|ipv6)/-prefix * index 99999999" "undo" = "undo ip {}-prefix {} index 99999999"
  /\ option_map (fun p => yref_reverse p "undo" ["ipv6"; "P"]) (yrule_pat "ip */(ip|ipv6)/-prefix * index 99999999")
     = Some (Some "undo ip ipv6-prefix P index 99999999")
  /\ format_template_opt (make_reverse "name:~" "no") [" ap 7"] = Some "no name: ap 7"
  /\ option_map (fun p => yref_reverse p "no" [" ap 7"]) (yrule_pat "name:~") = Some (Some "no name: ap 7").
Proof. vm_compute. repeat split. Qed.

Example C07Y_ex_outside :
  yrule_pat "*/wifi0_arm_(channel|power_10x)/:..." = None          (* glued placeholder without a boundary *)
  /\ yrule_pat "interface */(Vlanif1$|NULL)/" = None               (* `$` inside an alternative *)
  /\ yrule_pat "undo interface */.*[.]\d+/" = None                 (* `.*` not at the end *)
  /\ yrule_pat "ieee-802.1 *" = None                               (* `.` in a literal word *)
  /\ yrule_pat "print file=*" = None                               (* `*` inside a word *)
  /\ yrule_pat "undo (ftp|FTP) (server source|server-source)" = None.
Proof. vm_compute. repeat split. Qed.
