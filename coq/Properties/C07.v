(* C07 — property theorems only.  Proofs live in Proofs/PatternProofs.v. *)
From Coq Require Import List String Bool Arith.
From Annet Require Import Base.Str Model.Pattern Spec.P_C07 Proofs.PatternProofs.
Import ListNotations.
Open Scope string_scope.

Theorem C07_key_length :
  forall p ic row key, pmatch p ic row = Some key -> List.length key = nholes p.
Proof.
  intros p ic row key H. destruct p; [discriminate|]. eapply pmatch_words_key_length; exact H.
Qed.
Print Assumptions C07_key_length.
