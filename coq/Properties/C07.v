(* C07 — property theorems only.  Proofs live in Proofs/RegexProofs.v, Proofs/PatternProofs.v,
   Proofs/PatternXProofs.v (the extended rule language, second half of this file). *)
From Coq Require Import List String Ascii Bool Arith.
From Coq Require Import Lia.
From Annet Require Import Base.Str Model.Pattern Spec.P_C07 Proofs.RegexProofs Proofs.PatternProofs.
From Annet Require Import Model.PatternX Spec.P_C07X Proofs.PatternXProofs.
Import ListNotations.
Open Scope string_scope.

(* A plain pattern matches a row and extracts `key` exactly when the row's words start
   with words matching the tokens one to one — `*` one word, `*/re/` one word of L(re),
   a literal the same word, trailing `~` one or more remaining words, otherwise a word
   boundary after the last token — and key = the bound words (`~`: the rest joined by
   single spaces).  For every pattern, flag, row and key (no bound on lengths). *)
Theorem C07_match_iff :
  forall (p : pat) (ic : bool) (row : string) (key : list string),
    pmatch p ic row = Some key <-> p <> [] /\ matches_spec ic p (words row) key.
Proof.
  intros p ic row key. destruct p as [|t p].
  - split; [discriminate | intros [H _]; congruence].
  - unfold pmatch. rewrite pmatch_words_iff. split; [intro H; split; [discriminate | exact H] | tauto].
Qed.
Print Assumptions C07_match_iff.

(* what `words row` is on the rows of the property's domain *)
Theorem C07_row_words :
  forall row, wf_row row = true ->
    words row <> [] /\ forallb word_ok (words row) = true /\ row = join_with " " (words row).
Proof. exact wf_row_words. Qed.
Print Assumptions C07_row_words.

(* the boolean prefix-form checker used on implementation outputs decides the same relation *)
Theorem C07_spec_checker :
  forall p ic row key,
    ref_match p ic row = Some key <-> p <> [] /\ matches_spec ic p (words row) key.
Proof. intros. rewrite ref_match_eq. apply C07_match_iff. Qed.
Print Assumptions C07_spec_checker.

(* at most one key *)
Theorem C07_key_unique :
  forall ic p ws k1 k2, matches_spec ic p ws k1 -> matches_spec ic p ws k2 -> k1 = k2.
Proof. exact matches_spec_functional. Qed.
Print Assumptions C07_key_unique.

(* one key entry per placeholder *)
Theorem C07_key_length :
  forall p ic row key, pmatch p ic row = Some key -> List.length key = nholes p.
Proof.
  intros p ic row key H. destruct p; [discriminate|]. eapply pmatch_words_key_length; exact H.
Qed.
Print Assumptions C07_key_length.

(* the derivative matcher decides the language of a one-word regex *)
Theorem C07_sre_match_lang :
  forall ic r w, sre_imatch ic r w = true <-> sre_lang ic r (list_ascii_of_string w).
Proof. exact sre_imatch_lang. Qed.
Print Assumptions C07_sre_match_lang.

(* _make_reverse(rule, prefix).format( *key ) = the negation word followed by the rule's
   words with the key substituted for the placeholders (`~` included); the negation word
   is dropped instead when the rule already starts with it; IndexError (None) exactly
   when the key is too short *)
Theorem C07_reverse :
  forall p prefix key, wf_pat p = true -> plain_word prefix = true ->
    format_template_opt (make_reverse (print_pat p) prefix) key = ref_reverse p prefix key.
Proof. exact make_reverse_format. Qed.
Print Assumptions C07_reverse.

Theorem C07_reverse_template :
  forall p prefix, wf_pat p = true -> plain_word prefix = true ->
    make_reverse (print_pat p) prefix =
    join_with " " (map (fun t => match t with Lit w => w | _ => "{}" end) (reverse_pat p prefix)).
Proof. exact make_reverse_template. Qed.
Print Assumptions C07_reverse_template.

(* ACL / ordering reverse form: strip-or-prepend on the text is strip-or-prepend on the
   tokens, and the result is again a pattern of the plain language *)
Theorem C07_reverse_row :
  forall p prefix, wf_pat p = true -> plain_word prefix = true ->
    reverse_row (print_pat p) prefix = print_pat (reverse_pat p prefix)
    /\ parse_pat (reverse_row (print_pat p) prefix) = Some (reverse_pat p prefix).
Proof. intros. split; [apply reverse_row_print | apply parse_reverse_row]; assumption. Qed.
Print Assumptions C07_reverse_row.

(* negating a negated rule gives the rule back; a rule starting with the negation word
   is stripped.  Any text, any negation word. *)
Theorem C07_double_neg :
  forall row prefix,
    reverse_row (prefix ++ " " ++ row) prefix = row
    /\ (startswith (prefix ++ " ") row = false ->
        reverse_row row prefix = prefix ++ " " ++ row
        /\ reverse_row (reverse_row row prefix) prefix = row)
    /\ (startswith (prefix ++ " " ++ prefix ++ " ") row = false ->
        reverse_row (reverse_row row prefix) prefix = row).
Proof.
  intros row prefix. split; [apply reverse_row_strips|]. split.
  - intro H. split; [apply reverse_row_prepends | apply reverse_row_plain_twice]; exact H.
  - apply reverse_row_involutive.
Qed.
Print Assumptions C07_double_neg.

Theorem C07_double_neg_pat :
  forall p prefix, p <> [] ->
    (forall p', p <> Lit prefix :: Lit prefix :: p' \/ p' = []) ->
    reverse_pat (reverse_pat p prefix) prefix = p.
Proof. exact reverse_pat_involutive. Qed.
Print Assumptions C07_double_neg_pat.

(* ignore_case / (?i): a literal matches up to ASCII letter case; the whole outcome depends
   on the row only up to letter case; case-sensitive matches stay matches (no regexps) *)
Theorem C07_ignore_case :
  forall p ws,
    option_map (map lower_str) (pmatch_words p true (map lower_str ws)) =
    option_map (map lower_str) (pmatch_words p true ws).
Proof. exact pmatch_words_ic_row. Qed.
Print Assumptions C07_ignore_case.

Theorem C07_ignore_case_lit :
  forall w x, word_eq true w x = true <-> lower_str w = lower_str x.
Proof. intros. rewrite word_eq_ic. apply String.eqb_eq. Qed.
Print Assumptions C07_ignore_case_lit.

Theorem C07_case_sensitive_lit :
  forall w x, word_eq false w x = true <-> w = x.
Proof. intros. unfold word_eq. cbn. rewrite orb_false_r. apply String.eqb_eq. Qed.
Print Assumptions C07_case_sensitive_lit.

Theorem C07_ignore_case_mono :
  forall p ws key, forallb (fun t => negb (is_re t)) p = true ->
    pmatch_words p false ws = Some key -> pmatch_words p true ws = Some key.
Proof. exact pmatch_words_ic_mono. Qed.
Print Assumptions C07_ignore_case_mono.

(* the rule-text parser and the printer are inverse on the plain language *)
Theorem C07_parse_print :
  forall p, wf_pat p = true -> parse_pat (print_pat p) = Some p.
Proof. exact parse_pat_print. Qed.
Print Assumptions C07_parse_print.

Theorem C07_print_parse :
  forall s p, parse_pat s = Some p -> wf_pat p = true /\ print_pat p = s.
Proof. exact parse_pat_sound. Qed.
Print Assumptions C07_print_parse.

(* the model satisfies the property predicate, for every rule row of the plain language
   written without the inline flag, every negation word, key and list of rows *)
Theorem C07_holds :
  forall x, wf_C07 x = true -> rule_has_ic (ci_rule x) = false -> P_C07 x (model_C07 x) = true.
Proof. exact P_C07_model. Qed.
Print Assumptions C07_holds.

(* ... and the guard on the inline flag is needed: _make_reverse keeps the text "(?i)"
   (known finding C07/plain/reverse-template-keeps-inline-flag, replayed on the real code) *)
Theorem C07_inline_flag_refuted :
  exists x, wf_C07 x = true /\ P_C07 x (model_C07 x) = false.
Proof.
  exists (C07In "(?i)snmp-agent sys-info *" "undo" false ["K"] ["SNMP-agent SYS-info version"]).
  split; vm_compute; reflexivity.
Qed.
Print Assumptions C07_inline_flag_refuted.

(* ------------------------------------------------------------------------------ *)
(* non-vacuity                                                                     *)

Example C07_ex_parse :
  parse_pat "interface */\S+\.\d+/ mtu * ~" =
  Some [Lit "interface";
        StarRe (SCat (SPlus (SCls KNotSpace)) (SCat (SEsc ".") (SPlus (SCls KDigit))));
        Lit "mtu"; Star; Tilde].
Proof. vm_compute. reflexivity. Qed.

Example C07_ex_match :
  rule_match "interface */\S+\.\d+/ mtu * ~" false "interface ae1.100 mtu 9000 jumbo frames"
  = Some ["ae1.100"; "9000"; "jumbo frames"].
Proof. vm_compute. reflexivity. Qed.

Example C07_ex_boundary :
  rule_match "interface * mtu" false "interface ae1 mtu9000" = None
  /\ rule_match "interface * mtu" false "interface ae1 mtu 9000" = Some ["ae1"]
  /\ rule_match "interface *" false "interface" = None
  /\ rule_match "interface ~" false "interface" = None.
Proof. vm_compute. auto. Qed.

Example C07_ex_ignore_case :
  rule_match "snmp-agent *" true "SNMP-Agent Foo" = Some ["Foo"]
  /\ rule_match "snmp-agent *" false "SNMP-Agent Foo" = None
  /\ rule_match "interface */(?i)meth[\d\/]+/" false "interface MEth0/0/0" = Some ["MEth0/0/0"].
Proof. vm_compute. auto. Qed.

Example C07_ex_reverse :
  wf_pat [Lit "interface"; Star; Lit "mtu"; StarRe (SPlus (SCls KDigit)); Tilde] = true
  /\ make_reverse "interface * mtu */\d+/ ~" "undo" = "undo interface {} mtu {} {}"
  /\ format_template (make_reverse "interface * mtu */\d+/ ~" "undo") ["ae1"; "9000"; "a b"]
     = "undo interface ae1 mtu 9000 a b"
  /\ make_reverse "undo interface * mtu */\d+/ ~" "undo" = "interface {} mtu {} {}"
  /\ format_template_opt (make_reverse "interface * mtu */\d+/ ~" "undo") ["ae1"] = None.
Proof. vm_compute. auto. Qed.

Example C07_ex_double_neg :
  reverse_row "no shutdown" "no" = "shutdown"
  /\ reverse_row "shutdown" "no" = "no shutdown"
  /\ reverse_row (reverse_row "no no x" "no") "no" = "x".       (* the guard of C07_double_neg is needed *)
Proof. vm_compute. auto. Qed.

Example C07_ex_outside :
  parse_pat "vlan */[^\d].*/" = None                      (* `.` may cross a blank *)
  /\ parse_pat "ip */(ip|ipv6)/-prefix *" = None          (* placeholder glued to a literal *)
  /\ parse_pat "(?:ip|ipv6) route" = None                  (* regex source in a literal word *)
  /\ parse_pat "a ~ b" = None.
Proof. vm_compute. auto. Qed.

Example C07_ex_regex_src :
  option_map regex_src (parse_pat "interface * mtu */(a|b)\d+/") =
  Some "^interface\s+([^\s]+)\s+mtu\s+((?:a|b)\d+)(?:\s|$)".
Proof. vm_compute. reflexivity. Qed.

(* ============================================================================== *)
(* The extended rule language (Model/PatternX.v): a rule word may also be a one-word
   regular expression that binds nothing — `(ftp|FTP)`, `(?:permit|deny)`, `vlans?`,
   `[11|12]` (XLitRe) or `~/re/` (XTildeRe).  The plain language above is its
   sub-language without such words (C07X_conservative), so every statement below also
   speaks about plain patterns.                                                    *)

(* On rows where the two peculiarities of compile_row_regexp do not show (quirk_free: the
   row has a `*` or no word that is one plain capturing group; the row has no `~/re/` or
   ends in `*`), the model of compile_row_regexp matches a row and extracts `key` exactly
   when the row's words start with words matching the tokens one to one at word
   boundaries, and key = the words bound by `*`, `*/re/` and the trailing `~` only: a
   regex word contributes nothing to the key. *)
Theorem C07X_match_iff :
  forall (p : xpat) (ic : bool) (row : string) (key : list string),
    quirk_free p = true ->
    (xpmatch p ic row = Some key <-> p <> [] /\ xmatches_spec ic p (words row) key).
Proof. exact xpmatch_iff. Qed.
Print Assumptions C07X_match_iff.

(* the boolean checker used on implementation outputs decides the relation, for every
   pattern of the extended language (no guard) *)
Theorem C07X_spec_checker :
  forall p ic row key,
    xref_match p ic row = Some key <-> p <> [] /\ xmatches_spec ic p (words row) key.
Proof. exact xref_match_iff. Qed.
Print Assumptions C07X_spec_checker.

Theorem C07X_key_unique :
  forall ic p ws k1 k2, xmatches_spec ic p ws k1 -> xmatches_spec ic p ws k2 -> k1 = k2.
Proof. exact xmatches_spec_functional. Qed.
Print Assumptions C07X_key_unique.

(* one key entry per placeholder — and, in a row without `*`, one more per word that is a
   plain capturing group (the first peculiarity, stated exactly) *)
Theorem C07X_key_length :
  forall p ic row key, xpmatch p ic row = Some key ->
    List.length key = xnholes p + (if has_star p then 0 else xncaps p).
Proof. exact xpmatch_key_length. Qed.
Print Assumptions C07X_key_length.

Theorem C07X_key_length_placeholders :
  forall p ic row key, has_star p = true -> xpmatch p ic row = Some key -> List.length key = xnholes p.
Proof. intros p ic row key H M. apply xpmatch_key_length in M. rewrite H in M. lia. Qed.
Print Assumptions C07X_key_length_placeholders.

(* the plain language is the sub-language without regex words: same parse, same matcher,
   same specification (what Model/Pipeline.v, Acl.v, Implicit.v ... call is unchanged) *)
Theorem C07X_conservative :
  forall rule p, rule_pat rule = Some p ->
    xrule_pat rule = Some (embed p)
    /\ (forall ic row, xrule_match rule ic row = rule_match rule ic row)
    /\ (forall ic ws key, matches_spec ic p ws key <-> xmatches_spec ic (embed p) ws key).
Proof.
  intros rule p H. split; [apply xrule_pat_conservative; exact H|]. split.
  - intros ic row. eapply xrule_match_conservative; eauto.
  - intros. apply matches_spec_embed.
Qed.
Print Assumptions C07X_conservative.

(* what "matching without a trailing word boundary" means for a regex word *)
Theorem C07X_prefix_lang :
  forall ic r x, sre_iprefix ic r x = true <->
    exists u v, list_ascii_of_string x = (u ++ v)%list /\ sre_lang ic r u.
Proof. exact sre_iprefix_lang. Qed.
Print Assumptions C07X_prefix_lang.

(* _make_reverse(rule, prefix).format( *key ): the negation word followed by the rule's
   words with the key substituted for the placeholders; a regex word keeps its source text,
   a `~/re/` word is dropped; IndexError (None) exactly when the key is too short *)
Theorem C07X_reverse :
  forall p prefix key, wf_xpat p = true -> plain_word prefix = true ->
    lead_ok (reverse_xpat p prefix) = true ->
    format_template_opt (make_reverse (print_xpat p) prefix) key = xref_reverse p prefix key.
Proof. exact make_reverse_xformat. Qed.
Print Assumptions C07X_reverse.

Theorem C07X_reverse_template :
  forall p prefix, wf_xpat p = true -> plain_word prefix = true ->
    lead_ok (reverse_xpat p prefix) = true ->
    make_reverse (print_xpat p) prefix = join_with " " (somes (map xtmpl_word (reverse_xpat p prefix))).
Proof. exact make_reverse_xtemplate. Qed.
Print Assumptions C07X_reverse_template.

Theorem C07X_reverse_row :
  forall p prefix, wf_xpat p = true -> plain_word prefix = true ->
    reverse_row (print_xpat p) prefix = print_xpat (reverse_xpat p prefix).
Proof. exact reverse_row_xprint. Qed.
Print Assumptions C07X_reverse_row.

Theorem C07X_double_neg_pat :
  forall p prefix, p <> [] ->
    (forall p', p <> XLit prefix :: XLit prefix :: p' \/ p' = []) ->
    reverse_xpat (reverse_xpat p prefix) prefix = p.
Proof. exact reverse_xpat_involutive. Qed.
Print Assumptions C07X_double_neg_pat.

(* the rule-text parser and the printer are inverse on the extended language *)
Theorem C07X_parse_print :
  forall p, wf_xpat p = true -> parse_xpat (print_xpat p) = Some p.
Proof. exact parse_xpat_print. Qed.
Print Assumptions C07X_parse_print.

Theorem C07X_print_parse :
  forall s p, parse_xpat s = Some p -> wf_xpat p = true /\ print_xpat p = s.
Proof. exact parse_xpat_sound. Qed.
Print Assumptions C07X_print_parse.

(* the model satisfies the property predicate for every rule row of the extended language
   written without the inline flag on which the two peculiarities do not show *)
Theorem C07X_holds :
  forall x, wf_C07X x = true -> rule_has_ic (ci_rule x) = false -> qf_C07X x = true ->
    P_C07X x (model_C07X x) = true.
Proof. exact P_C07X_model. Qed.
Print Assumptions C07X_holds.

(* ... and both guards are needed (known findings C07/ext/..., replayed on the real code):
   a row without `*` keeps its plain groups capturing, so the key gains a word *)
Theorem C07X_bare_group_refuted :
  exists x, wf_C07X x = true /\ rule_has_ic (ci_rule x) = false /\ P_C07X x (model_C07X x) = false.
Proof.
  exists (C07In "oa-options (booster|preamp|amp)" "delete" false [] ["oa-options booster"]).
  repeat split; vm_compute; reflexivity.
Qed.
Print Assumptions C07X_bare_group_refuted.

(* a row with `~/re/` gets no trailing word boundary *)
Theorem C07X_no_boundary_refuted :
  exists x, wf_C07X x = true /\ rule_has_ic (ci_rule x) = false /\ P_C07X x (model_C07X x) = false.
Proof.
  exists (C07In "*/syslog-level/ ~/(warn|info)/" "no" false ["K"] ["syslog-level warning"]).
  repeat split; vm_compute; reflexivity.
Qed.
Print Assumptions C07X_no_boundary_refuted.

(* the rows of the correspondence run are built from words of the regex words' languages *)
Theorem C07X_samples_sound :
  forall r s, In s (sre_samples r) -> sre_imatch false r s = true.
Proof. exact sre_samples_sound. Qed.
Print Assumptions C07X_samples_sound.

(* non-vacuity *)
Example C07X_ex_parse :
  parse_xpat "route-map * (?:permit|deny) *" =
    Some [XLit "route-map"; XStar;
          XLitRe (SGrp false (SAlt (SCat (SChr "p") (SCat (SChr "e") (SCat (SChr "r") (SCat (SChr "m") (SCat (SChr "i") (SChr "t"))))))
                                   (SCat (SChr "d") (SCat (SChr "e") (SCat (SChr "n") (SChr "y")))))); XStar]
  /\ option_map quirk_free (parse_xpat "route-map * (?:permit|deny) *") = Some true
  /\ option_map quirk_free (parse_xpat "(ftp|FTP) *") = Some true
  /\ option_map quirk_free (parse_xpat "*/syslog-level/ ~/(emergency|alert)/ *") = Some true
  /\ option_map quirk_free (parse_xpat "vrrp vrid [11|12]") = Some true
  /\ option_map quirk_free (parse_xpat "qos (wfq|drr)") = Some false.
Proof. vm_compute. repeat split. Qed.

Example C07X_ex_match :
  xrule_match "(ftp|FTP) *" false "ftp server enable" = Some ["server"]
  /\ xrule_match "(ftp|FTP) *" false "FTP acl 2000" = Some ["acl"]
  /\ xrule_match "(ftp|FTP) *" false "sftp server" = None
  /\ xrule_match "*/syslog-level/ ~/(emergency|alert|warn)/ *" false "syslog-level warn system" = Some ["syslog-level"; "system"]
  /\ xrule_match "*/syslog-level/ ~/(emergency|alert|warn)/ *" false "syslog-level warning system" = None
  /\ xrule_match "route-policy * (?:permit|deny) node *" false "route-policy P permit node 10" = Some ["P"; "10"]
  /\ xrule_match "vrrp vrid [11|12] virtual-ip" false "vrrp vrid 2 virtual-ip 10.0.0.1" = Some []
  /\ xrule_match "vrrp vrid [11|12] virtual-ip" false "vrrp vrid 12 virtual-ip" = None.
Proof. vm_compute. repeat split. Qed.

Example C07X_ex_reverse :
  make_reverse "route-map * (?:permit|deny) *" "no" = "no route-map {} (?:permit|deny) {}"
  /\ format_template_opt (make_reverse "*/syslog-level/ ~/(emergency|alert|warn)/ *" "no") ["syslog-level"; "system"]
     = Some "no syslog-level system"
  /\ option_map (fun p => xref_reverse p "no" ["syslog-level"; "system"])
       (parse_xpat "*/syslog-level/ ~/(emergency|alert|warn)/ *") = Some (Some "no syslog-level system").
Proof. vm_compute. repeat split. Qed.

Example C07X_ex_outside :
  parse_xpat "ipv[46]-family|link-state-family unicast" = None      (* alternation not closed in a group *)
  /\ parse_xpat "ieee-802.1 *" = None                                (* `.` may match a blank *)
  /\ parse_xpat "undo (ftp|FTP) (server source|server-source)" = None   (* a group across two words *)
  /\ parse_xpat "vrrp6 vrid [11|12] virtual-ip FE80*" = None         (* `*` inside a word *)
  /\ parse_xpat "a ~/x/ b/c" = None                                  (* `/` after `~/re/` *)
  /\ parse_xpat "a ~/b/ ~" = None.
Proof. vm_compute. repeat split. Qed.
