(* C20 — results are independent of processing history and inputs are left unmodified.
   Property theorems only (lemmas: Proofs/FrameProofs.v, model: Model/Frame.v,
   call-site facts of the current source: Gen/Src_frames.v). *)
From Coq Require Import List String Bool Arith ZArith.
From Annet Require Import Base.Str Base.Tree Model.Pattern Model.Rulebook Model.Diff Model.Order
     Model.Patch Model.Blocks Model.Pipeline Model.Frame Spec.P_C20 Proofs.FrameProofs Gen.Src_frames.
Import ListNotations.
Open Scope string_scope.

(* The tie to the source, re-checked on every run.  (1) every statement of the pipeline
   functions that mutates an object was classified by the translator (no unknown write);
   (2) each write to an object the function did not create has its defensive copy:
   make_diff's deepcopy of old and new, _select_match's and make_patch's deepcopy of the rule
   attributes; (3) every %logic function of the repository that assigns to rule[...] is a
   modelled writer and writes only modelled fields; (4) the %diff_logic functions that write
   into match["attrs"] write only the modelled field.  Removing one deepcopy, adding a write to
   a shared object or adding a new rule-writing function makes this theorem fail. *)
Theorem C20_source_frames :
  src_frames_known = true /\ frames_ok src_frames = true /\ writers_covered src_rule_writers = true /\
  match_writers_covered src_match_attr_writers = true.
Proof. vm_compute. repeat split. Qed.
Print Assumptions C20_source_frames.

(* Frame of one job, for every store, every job and every ACL-group function: the caller's
   old and new are afterwards what was handed in, the rule dictionaries of the job's
   rulebook are what the job found (cached or freshly compiled), and every other cached
   rulebook is untouched. *)
Theorem C20_frame :
  forall (F : frames) (gd : string -> string -> gdict) (s : store) (j : job),
    frames_ok F = true ->
    ob_old_after (fst (run_job F gd s j)) = j_old j /\
    ob_new_after (fst (run_job F gd s j)) = j_new j /\
    ob_cells_after (fst (run_job F gd s j)) = job_cells F s j /\
    (forall k, lookup k (s_rb (snd (run_job F gd s j))) =
               if fr_cache_patching F && String.eqb (j_rb_key j) k then Some (job_cells F s j)
               else lookup k (s_rb s)).
Proof.
  intros F gd s j HF.
  destruct (run_core_frame F gd j (job_cells F s j) (acl_cells F s (j_acl j)) (acl_cells F s (j_facl j)) HF)
    as (_ & Hc & Ho & Hn).
  repeat split; try assumption.
  intro k. apply run_job_store. exact HF.
Qed.
Print Assumptions C20_frame.

(* The ACL scratch field: whatever attrs["match"] cells a job starts with (never written,
   or left behind by any other job), its diff, patch, ordered configuration, the trees and
   the rule dictionaries afterwards are the same — no result reads `match` before writing
   it.  Holds for every value of the call-site flags. *)
Theorem C20_match_irrelevant :
  forall (F : frames) (gd : string -> string -> gdict) (j : job) (cs : list cell) (a1 f1 a2 f2 : acells),
    fst (fst (run_core F gd j cs a1 f1)) = fst (fst (run_core F gd j cs a2 f2)).
Proof. exact run_core_irrel. Qed.
Print Assumptions C20_match_irrelevant.

(* History independence: in every finite sequence of jobs (any vendors, rulebooks with
   rule-writing logics, shared cache keys, shared ACLs, repeated jobs) the observation of
   the i-th job — diff, patch, ordered configuration, and the state it leaves its inputs
   in — is the observation of that job in a store that has never processed anything. *)
Theorem C20_history :
  forall (F : frames) (gd : string -> string -> gdict) (js : list job) (i : nat) (j : job),
    frames_ok F = true -> keys_ok js -> nth_error js i = Some j ->
    nth_error (fst (run_jobs F gd empty_store js)) i = Some (fst (run_job F gd empty_store j)).
Proof. intros F gd js i j HF Hk Hn. exact (history_nth F gd HF js i j Hk Hn). Qed.
Print Assumptions C20_history.

Theorem C20_history_all :
  forall (F : frames) (gd : string -> string -> gdict) (js : list job),
    frames_ok F = true -> keys_ok js ->
    fst (run_jobs F gd empty_store js) = map (fun j => fst (run_job F gd empty_store j)) js.
Proof. intros F gd js HF Hk. exact (history_all F gd HF js Hk). Qed.
Print Assumptions C20_history_all.

(* The same from any store a worker may be in: whatever it has processed before, as long as
   the rulebooks it has cached are as compiled (which every job preserves, C20_frame), the
   results of a further sequence are the fresh ones. *)
Theorem C20_history_any_store :
  forall (F : frames) (gd : string -> string -> gdict) (js0 js : list job) (s : store),
    frames_ok F = true -> keys_ok js0 -> incl js js0 -> rb_inv js0 s ->
    fst (run_jobs F gd s js) = map (fun j => fst (run_job F gd empty_store j)) js /\
    rb_inv js0 (snd (run_jobs F gd s js)).
Proof.
  intros F gd js0 js s HF Hk Hincl Hinv. split.
  - exact (run_jobs_fresh F gd HF js0 Hk js s Hincl Hinv).
  - revert s Hinv. induction js as [|j js IH]; intros s Hinv; cbn [run_jobs snd]; [exact Hinv|].
    apply IH; [intros x Hx; apply Hincl; right; exact Hx|].
    apply run_job_inv; try assumption. apply Hincl. left. reflexivity.
Qed.
Print Assumptions C20_history_any_store.

(* ... and for the call sites as they are in the source now *)
Theorem C20_history_src :
  forall (gd : string -> string -> gdict) (js : list job) (i : nat) (j : job),
    keys_ok js -> nth_error js i = Some j ->
    result_of (nth i (fst (run_jobs src_frames gd empty_store js)) (fst (run_job src_frames gd empty_store j)))
    = result_of (fst (run_job src_frames gd empty_store j)).
Proof.
  intros gd js i j Hk Hn.
  destruct C20_source_frames as (_ & HF & _ & _).
  pose proof (C20_history src_frames gd js i j HF Hk Hn) as H.
  rewrite (nth_error_nth _ _ _ H). reflexivity.
Qed.
Print Assumptions C20_history_src.

Theorem C20_frame_src :
  forall (gd : string -> string -> gdict) (s : store) (j : job),
    ob_old_after (fst (run_job src_frames gd s j)) = j_old j /\
    ob_new_after (fst (run_job src_frames gd s j)) = j_new j /\
    ob_cells_after (fst (run_job src_frames gd s j)) = job_cells src_frames s j.
Proof.
  intros gd s j. destruct C20_source_frames as (_ & HF & _ & _).
  destruct (C20_frame src_frames gd s j HF) as (A & B & C & _). auto.
Qed.
Print Assumptions C20_frame_src.

(* Defence in depth, and its limit.  Against the %logic functions that write to their rule
   argument either attribute copy alone keeps the compiled rulebook intact; the %diff_logic
   functions that write into match["attrs"] (juniper.comment_processor) are stopped by
   _select_match's copy only (C20_select_copy_needed below). *)
Theorem C20_either_copy_keeps_rulebook :
  forall (F : frames) (gd : string -> string -> gdict) (j : job) (cs : list cell) (ac fc : acells),
    fr_select_copy F = true \/
    (fr_patch_copy F = true /\ forall d, diff_marks F d (fst (job_compiled j)) cs = cs) ->
    snd (fst (fst (run_core F gd j cs ac fc))) = cs.
Proof. intros. apply run_core_cells_either. assumption. Qed.
Print Assumptions C20_either_copy_keeps_rulebook.

(* ------------------------------------------------------------------ non-vacuity and necessity *)
Definition w_vendor : vendor := Vendor "undo" "quit" FHuawei.
Definition w_rules : srset :=
  ([SRule "foo * %logic=c20x.stamp" false (Attrs "foo *" LDefault DDefault false false) (Some WStamp) [] None [] []], []).
Definition w_job : job :=
  Job w_vendor "k" w_rules [] None None [("foo 1", T []); ("unknown", T [])] [("foo 2", T [])] false.

Example frames_ok_inhabited : frames_ok all_copies = true.
Proof. reflexivity. Qed.

Example keys_ok_inhabited : keys_ok [w_job; w_job].
Proof. intros j1 j2 [<-|[<-|[]]] [<-|[<-|[]]] _; reflexivity. Qed.

(* the guard of C20_history_any_store: the empty store, and a store that has processed a job *)
Example rb_inv_inhabited :
  rb_inv [w_job] empty_store /\ rb_inv [w_job] (snd (run_job all_copies gd_plain empty_store w_job)).
Proof.
  split; [apply rb_inv_empty|].
  apply (run_job_inv all_copies gd_plain frames_ok_inhabited [w_job] empty_store w_job).
  - intros j1 j2 [<-|[]] [<-|[]] _. reflexivity.
  - apply rb_inv_empty.
  - left. reflexivity.
Qed.

Example w_job_patch_nonempty :
  ob_patch (fst (run_job all_copies gd_plain empty_store w_job)) =
  POk (PT [("undo foo 1 +", None, (ZFin 0%Z, "foo * %logic=c20x.stamp", false));
           ("commit", None, (ZFin 0%Z, "foo * %logic=c20x.stamp", false));
           ("foo 2", None, (ZFin 0%Z, "foo * %logic=c20x.stamp", true));
           ("commit", None, (ZFin 0%Z, "foo * %logic=c20x.stamp", true))]).
Proof. vm_compute. reflexivity. Qed.

(* without both attribute copies a rule-writing logic leaks into the next job: the second
   run of the same job differs from its run in a fresh store *)
Definition no_attr_copies : frames := Frames true true true true false false true true true.
Theorem C20_attr_copies_needed :
  exists js i j, keys_ok js /\ nth_error js i = Some j /\
    nth_error (fst (run_jobs no_attr_copies gd_plain empty_store js)) i
    <> Some (fst (run_job no_attr_copies gd_plain empty_store j)).
Proof.
  exists [w_job; w_job], 1, w_job. split; [exact keys_ok_inhabited|]. split; [reflexivity|].
  vm_compute. intro H. discriminate H.
Qed.
Print Assumptions C20_attr_copies_needed.

(* without make_diff's copy the caller's tree loses the rows no rule knows *)
Definition no_diff_copy : frames := Frames false true true true true true true true true.
Theorem C20_diff_copy_needed :
  exists j, ob_old_after (fst (run_job no_diff_copy gd_plain empty_store j)) <> j_old j.
Proof. exists w_job. vm_compute. intro H. discriminate H. Qed.
Print Assumptions C20_diff_copy_needed.

(* without make_patch's copy the keys of one rule are no longer independent of each other:
   the second key sees what the logic wrote while handling the first *)
Definition no_patch_copy : frames := Frames true true true true true false true true true.
Theorem C20_patch_copy_needed_for_keys :
  exists j, ob_patch (fst (run_job no_patch_copy gd_plain empty_store j))
            <> ob_patch (fst (run_job all_copies gd_plain empty_store j)).
Proof. exists w_job. vm_compute. intro H. discriminate H. Qed.
Print Assumptions C20_patch_copy_needed_for_keys.

(* without _select_match's copy a %diff_logic function that writes into match["attrs"] writes
   into the compiled rulebook, whatever make_patch copies *)
Definition no_select_copy : frames := Frames true true true true false true true true true.
Definition m_rules : srset :=
  ([SRule "foo *" false (Attrs "foo *" LDefault DDefault false false) None [] (Some "comment") [] []], []).
Definition m_job : job := Job w_vendor "m" m_rules [] None None [("foo 1", T [])] [] false.
Theorem C20_select_copy_needed :
  exists j, ob_cells_after (fst (run_job no_select_copy gd_plain empty_store j))
            <> job_cells no_select_copy empty_store j.
Proof. exists m_job. vm_compute. intro H. discriminate H. Qed.
Print Assumptions C20_select_copy_needed.
