(* C01 — deploying the patch makes the diff empty (convergence).  Property theorems only;
   proofs live in Proofs/Converge*.v.  Device semantics: Model/Device.v.  Spec: Spec/P_C01.v.

   Domain of the theorems ("Tier A", [wf_C01], computable): a formatter family whose command
   paths follow the block nesting; old and new with distinct sibling rows and at most one row
   per (rule, key) slot on every level; on the universe of rows occurring in old or new:
   default diff logic, rule logic among default / undo_redo / permanent / ignore_changes, no
   %force_commit, removal commands that are unambiguous (not matched by a rule of their level,
   not a block-exit word, different for different slots); the model patch is computed without
   AssertionError and no removal is ordered after a direct command of its own slot ([order_ok],
   what an %order_reverse rule can break).  Rulebooks of any nesting depth, %global rules,
   ordering rulebooks of any shape (only [order_ok] is asked of them), configuration trees of
   any depth and width, rows no rule knows anywhere.  All statements hold for every rule
   matcher; they are stated here for the shared row-pattern compiler (Model/Pattern.v). *)
From Coq Require Import List String Bool Arith ZArith.
From Annet Require Import Base.Str Base.Tree Model.Pattern Model.Rulebook Model.Diff Model.Order Model.Patch
     Model.Blocks Model.Pipeline Model.Device Spec.P_C01
     Proofs.ConvergeDevice Proofs.ConvergeRun Proofs.ConvergeBlocks Proofs.ConvergeSim Proofs.ConvergeMain
     Proofs.ConvergeTop Proofs.ConvergeSecond Proofs.ConvergeFinal Proofs.ConvergeReport.
From Annet Require Import Spec.P_C01o Spec.P_C01ord Proofs.ConvergeOrdSeq Proofs.ConvergeOrdFlat.
Import ListNotations.
Open Scope string_scope.

(* C01_expected.  Executing, path by path and in the emitted order, the command paths of the patch
   computed for (old, new) on a device holding old reaches expected(R, old, new) as a dict - new|R
   plus the rows of old no rule knows, plus exactly what permanent / ignore_changes decline - at
   every depth; the decision procedure sim_b used on real outputs says so; and the state reached is
   again a configuration of the domain (this is what makes chains work). *)
Theorem C01_expected :
  forall v rs ordering old new, wf_C01 v rs ordering old new = true ->
  exists pt, snd (diff_and_patch v rs ordering old new) = POk pt /\
    let dev := p_exec v rs (cmd_paths (v_family v) pt) old in
    sim dev (p_expected rs old new) /\ sim_b dev (p_expected rs old new) = true /\
    p_good rs (merge old new) dev.
Proof. exact converge_model. Qed.
Print Assumptions C01_expected.

(* C01_nested.  Literal convergence for default / undo_redo rules ([wf_strict]), trees of any depth,
   nested blocks, %global rules: the known rows of the state reached are exactly those of new. *)
Theorem C01_nested :
  forall v rs ordering old new, wf_C01 v rs ordering old new = true -> wf_strict v rs old new = true ->
  exists pt, snd (diff_and_patch v rs ordering old new) = POk pt /\
    let dev := p_exec v rs (cmd_paths (v_family v) pt) old in
    sim (p_known rs dev) (p_known rs new) /\ sim_b (p_known rs dev) (p_known rs new) = true.
Proof. exact literal_model. Qed.
Print Assumptions C01_nested.

(* ... and the rows of old that no rule knows are still there (any logic) *)
Theorem C01_unknown_rows_untouched :
  forall v rs ordering old new, wf_C01 v rs ordering old new = true ->
  exists pt, snd (diff_and_patch v rs ordering old new) = POk pt /\
    forall r t, In (r, t) old -> slot_of pm rs r = None ->
      exists t', In (r, t') (p_exec v rs (cmd_paths (v_family v) pt) old) /\ sim (kids t) (kids t').
Proof. exact unknown_untouched. Qed.
Print Assumptions C01_unknown_rows_untouched.

(* C01_flat: the one-level reading of C01_nested (every row a leaf) *)
Definition flat (f : forest) : bool := forallb (fun e : string * tree => match snd e with T [] => true | _ => false end) f.
Theorem C01_flat :
  forall v rs ordering old new, flat old = true -> flat new = true ->
  wf_C01 v rs ordering old new = true -> wf_strict v rs old new = true ->
  exists pt, snd (diff_and_patch v rs ordering old new) = POk pt /\
    sim (p_known rs (p_exec v rs (cmd_paths (v_family v) pt) old)) (p_known rs new).
Proof.
  intros v rs ordering old new _ _ Hw Hs. destruct (literal_model v rs ordering old new Hw Hs) as (pt & Hp & Hk & _).
  exists pt. auto.
Qed.
Print Assumptions C01_flat.

(* C01_second_patch_empty.  After the deployment (default / undo_redo rules) the second diff is
   empty and the second patch contains no command. *)
Theorem C01_second_patch_empty :
  forall v rs ordering old new, wf_C01 v rs ordering old new = true -> wf_strict v rs old new = true ->
  exists pt, snd (diff_and_patch v rs ordering old new) = POk pt /\
    let dev := p_exec v rs (cmd_paths (v_family v) pt) old in
    fst (diff_and_patch v rs ordering dev new) = [] /\ model_paths v rs ordering dev new = Some [] /\
    sim_b dev dev = true.
Proof. exact second_run_model. Qed.
Print Assumptions C01_second_patch_empty.

(* C01_chain.  For every vendor, rulebook, ordering rulebook, initial configuration and every finite
   sequence new_1 .. new_k: the property predicate P_C01 - the one the check evaluates on the real
   pipeline's outputs - holds of the model pipeline along the whole chain, at every step whose
   actual device state and target are in the literal domain [guard_literal] (and [order_ok]). *)
Theorem C01_chain :
  forall v rs ordering news old,
    P_C01_chain guard_literal v rs old (model_chain v rs ordering old news) = true.
Proof. exact P_chain_model. Qed.
Print Assumptions C01_chain.

(* chains with permanent / ignore_changes rules: every step reaches expected; the domain is
   preserved by Device.exec, so it is asked of the initial state and of the targets only *)
Theorem C01_chain_expected :
  forall v rs ordering U, block_family (v_family v) = true -> no_orev ordering = true ->
  p_uok v rs U -> forall news dev, p_good rs U dev -> Forall (p_good rs U) news ->
  chain_reaches v rs ordering dev news.
Proof. exact chain_expected_model. Qed.
Print Assumptions C01_chain_expected.

(* ... with a computable guard on the initial state and the targets only *)
Theorem C01_chain_expected_guarded :
  forall v rs ordering old news,
    wf_chain v rs old news = true -> no_orev ordering = true -> chain_reaches v rs ordering old news.
Proof. exact chain_expected_guarded. Qed.
Print Assumptions C01_chain_expected_guarded.

(* C01_order_ok_default.  The ordering hypothesis holds for every ordering rulebook without
   %order_reverse, whatever else it contains: removal key (-o, rule, false) <= re-creation key
   (o', rule, true), and the sort is stable. *)
Theorem C01_order_ok_default :
  forall v rs ordering old new,
    block_family (v_family v) = true -> wf_A v rs old new = true -> no_orev ordering = true ->
    wf_C01 v rs ordering old new = true.
Proof. exact order_default_model. Qed.
Print Assumptions C01_order_ok_default.

(* inside the domain no logic raises: the patch is always computed *)
Theorem C01_no_error :
  forall v rs ordering old new, wf_A v rs old new = true ->
  exists pt, snd (diff_and_patch v rs ordering old new) = POk pt.
Proof. exact model_no_error. Qed.
Print Assumptions C01_no_error.

(* the guard is satisfiable by a nested example with undo_redo and permanent rules *)
Definition c01_ex_v := Vendor "undo" "quit" FHuawei.
Definition c01_ex_rules : rset :=
  ([PRule "interface *" false (Attrs "interface *" LDefault DDefault true false)
      [PRule "mtu * %logic=common.undo_redo" false (Attrs "mtu *" LUndoRedo DDefault false false) [] [];
       PRule "description ~" false (Attrs "description ~" LDefault DDefault false false) [] []] [];
    PRule "hostname *" false (Attrs "hostname *" LDefault DDefault false false) [] [];
    PRule "vlan * %logic=common.permanent" false (Attrs "vlan *" LPermanent DDefault false false) [] []], []).
Definition c01_ex_old : forest :=
  [("interface Eth1", T [("mtu 1500", T []); ("description a b", T [])]); ("hostname r1", T []);
   ("vlan 10", T []); ("unknown thing", T [])].
Definition c01_ex_new : forest :=
  [("interface Eth1", T [("mtu 9000", T [])]); ("interface Eth2", T [("mtu 1500", T [])]); ("hostname r2", T [])].
Example C01_expected_nonvacuous : wf_C01 c01_ex_v c01_ex_rules [] c01_ex_old c01_ex_new = true.
Proof. vm_compute. reflexivity. Qed.
(* ... and the literal domain by a nested chain over undo_redo rules *)
Definition c01_lit_rules : rset :=
  ([PRule "interface *" false (Attrs "interface *" LDefault DDefault true false)
      [PRule "mtu * %logic=common.undo_redo" false (Attrs "mtu *" LUndoRedo DDefault false false) [] [];
       PRule "description ~" false (Attrs "description ~" LDefault DDefault false false) [] []] [];
    PRule "hostname *" false (Attrs "hostname *" LDefault DDefault false false) [] []], []).
Definition c01_lit_old : forest :=
  [("interface Eth1", T [("mtu 1500", T []); ("description a b", T [])]); ("hostname r1", T []); ("unknown thing", T [])].
Example C01_literal_nonvacuous :
  guard_literal c01_ex_v c01_lit_rules c01_lit_old c01_ex_new = true /\
  order_ok c01_ex_v c01_lit_rules [] c01_lit_old c01_ex_new = true /\
  flat [("hostname r1", T [])] = true.
Proof. vm_compute. repeat split; reflexivity. Qed.
Example C01_chain_guard_nonvacuous :
  wf_chain c01_ex_v c01_ex_rules c01_ex_old [c01_ex_new; c01_ex_old; []; c01_ex_new] = true.
Proof. vm_compute. reflexivity. Qed.

(* exec_commute: on a level with one entry per slot, running any list of patch items changes the
   entry of a slot exactly as the slot's own items do, in their order; items of other slots do
   not interfere (so any permutation the sort produces that keeps each slot's order is harmless). *)
Theorem C01_exec_commute :
  forall rmatch rreverse is_exit rs U, lvl_ok rmatch rreverse is_exit rs U ->
  forall r s, In r (keys U) -> slot_of rmatch rs r = Some s ->
  forall items f, Forall (uitem rmatch rreverse rs U) items -> lgood rmatch rs U f ->
    sfind rmatch rs s (fold_left (fun a i => run_item rmatch rreverse is_exit rs i a) items f) =
    fold_left (fun o i => step rmatch rreverse is_exit rs i o) (filter (belongs rmatch rreverse rs s) items)
              (sfind rmatch rs s f).
Proof. intros. eapply run_items_slot; eauto. Qed.
Print Assumptions C01_exec_commute.

(* formatter.cmd_paths of a patch tree, executed path by path, is the patch tree executed item
   by item with its block nesting (the path stack equals the device cursor); the odict
   deduplication of cmd_paths only ever drops block-exit paths *)
Theorem C01_cmd_paths_follow_blocks :
  forall rmatch rreverse is_exit fam rs t f,
    block_family fam = true -> (forall ex, In ex (family_exits fam) -> is_exit ex = true) ->
    prows_ok is_exit t ->
    exec rmatch rreverse is_exit rs (cmd_paths fam t) f = run_pt rmatch rreverse is_exit t rs f.
Proof. exact exec_cmd_paths. Qed.
Print Assumptions C01_cmd_paths_follow_blocks.

(* ---------- what is false, with witnesses (replayed on the real pipeline by the check) ---------- *)

(* The ordering hypothesis [order_ok] is necessary: with `b * %logic=common.undo_redo`, an ordering
   rulebook listing `b *` and then `undo b * %order_reverse` pins the removal AFTER the re-creation of
   the same slot; everything else of the domain holds, the patch is computed, and executing it
   empties the slot instead of reaching expected.  With an empty ordering rulebook the same input
   converges. *)
Definition c01_or_rules : rset :=
  ([PRule "b * %logic=common.undo_redo" false (Attrs "b *" LUndoRedo DDefault false false) [] []], []).
Definition c01_or_ordering : list orule :=
  [ORule "b *" "b *" false false None []; ORule "undo b * %order_reverse" "undo b *" true false None []].
Definition c01_or_old : forest := [("b 1 x", T [])].
Definition c01_or_new : forest := [("b 1 y", T [])].
Theorem C01_order_reverse_refuted :
  block_family (v_family c01_ex_v) = true /\ wf_A c01_ex_v c01_or_rules c01_or_old c01_or_new = true /\
  order_ok c01_ex_v c01_or_rules c01_or_ordering c01_or_old c01_or_new = false /\
  model_paths c01_ex_v c01_or_rules c01_or_ordering c01_or_old c01_or_new = Some [["b 1 y"]; ["undo b 1"]] /\
  p_exec c01_ex_v c01_or_rules [["b 1 y"]; ["undo b 1"]] c01_or_old = [] /\
  p_expected c01_or_rules c01_or_old c01_or_new = [("b 1 y", T [])] /\
  wf_C01 c01_ex_v c01_or_rules [] c01_or_old c01_or_new = true.
Proof. vm_compute. repeat split; reflexivity. Qed.
Print Assumptions C01_order_reverse_refuted.

(* Literal convergence ("the second diff is empty") is false for the permanent logic, by design of
   the logic: the interface block that new no longer has is emptied, not deleted; the device reaches
   expected, the second patch is empty, the second diff still reports the row as REMOVED. *)
Definition c01_pm_rules : rset :=
  ([PRule "interface * %logic=common.permanent" false (Attrs "interface *" LPermanent DDefault true false)
      [PRule "mtu *" false (Attrs "mtu *" LDefault DDefault false false) [] []] []], []).
Definition c01_pm_old : forest := [("interface Eth1", T [("mtu 1500", T [])])].
Theorem C01_permanent_refuted :
  wf_C01 c01_ex_v c01_pm_rules [] c01_pm_old [] = true /\
  (let o := model_obs c01_ex_v c01_pm_rules [] c01_pm_old [] in
   p_exec c01_ex_v c01_pm_rules (o_paths o) c01_pm_old = [("interface Eth1", T [])] /\
   o_paths2 o = Some [] /\ is_nil (o_diff2 o) = false) /\
  P_C01 c01_ex_v c01_pm_rules c01_pm_old (model_chain c01_ex_v c01_pm_rules [] c01_pm_old [[]]) = true.
Proof. vm_compute. repeat split; reflexivity. Qed.
Print Assumptions C01_permanent_refuted.

(* "A second patch contains no commands" is false when a change was declined inside a block: the
   ignore_changes row keeps the block AFFECTED, so the second patch enters and leaves the block
   again - commands that do nothing (the clause second_noop of P_C01). *)
Definition c01_ic_rules : rset :=
  ([PRule "interface *" false (Attrs "interface *" LDefault DDefault true false)
      [PRule "description * %logic=common.ignore_changes" false (Attrs "description *" LIgnoreChanges DDefault false false) [] []] []], []).
Definition c01_ic_old : forest := [("interface Eth1", T [("description a x", T [])])].
Definition c01_ic_new : forest := [("interface Eth1", T [("description a y", T [])])].
Theorem C01_second_patch_not_empty_when_declined :
  wf_C01 c01_ex_v c01_ic_rules [] c01_ic_old c01_ic_new = true /\
  o_paths2 (model_obs c01_ex_v c01_ic_rules [] c01_ic_old c01_ic_new) =
    Some [["interface Eth1"]; ["interface Eth1"; "quit"]] /\
  P_C01 c01_ex_v c01_ic_rules c01_ic_old (model_chain c01_ex_v c01_ic_rules [] c01_ic_old [c01_ic_new]) = true.
Proof. vm_compute. repeat split; reflexivity. Qed.
Print Assumptions C01_second_patch_not_empty_when_declined.

(* the verdict the check reads off the per-step report of an observed chain implies the property
   predicate P_C01 on that chain *)
Theorem C01_report_sound : forall c, report_ok (c01_report c) = true -> c01_holds c = true.
Proof. exact report_ok_sound. Qed.
Print Assumptions C01_report_sound.

(* ---------- stated, not proved (Tier B) ---------- *)

(* With permanent / ignore_changes rules the second patch is not empty in general
   (C01_second_patch_not_empty_when_declined) but does nothing on the device.  Checked by Coq on every
   real output (clause second_noop of P_C01), proved only when nothing is declined
   (C01_second_patch_empty).  Missing: expected is idempotent and respects sim in its first argument
   (expected (expected old new) new ~ expected old new). *)
Definition C01_declined_second_patch_noop_statement : Prop :=
  forall v rs ordering old new, wf_C01 v rs ordering old new = true ->
  forall pt, snd (diff_and_patch v rs ordering old new) = POk pt ->
  let dev := p_exec v rs (cmd_paths (v_family v) pt) old in
  wf_C01 v rs ordering dev new = true ->
  forall pt2, snd (diff_and_patch v rs ordering dev new) = POk pt2 ->
  sim (p_exec v rs (cmd_paths (v_family v) pt2) dev) dev.

(* %ordered rules (sequence equality on the rows of an ordered rule), %rewrite rules (blocks reset
   on entry), the flattened set/delete command forms of Juniper / Nokia / RouterOS, %multiline and
   %force_commit are outside wf_C01: Device.v defines the semantics (at-the-end re-creation for
   %ordered, enter drops %rewrite children), the check evaluates P_C01 on real outputs for
   %force_commit rulebooks (allow_eval), nothing is proved.  Missing for %ordered: an order-sensitive
   sim and the MOVED-prefix characterisation of C03 carried through the logic `ordered`. *)
Definition C01_ordered_statement : Prop :=
  forall v rs ordering old new pt,
    block_family (v_family v) = true -> snd (diff_and_patch v rs ordering old new) = POk pt ->
    wf_step_with (fun m => allow_A m || (logic_eqb (a_logic (mi_attrs m)) LOrdered && is_ordered m)) v rs old new = true ->
    order_ok v rs ordering old new = true ->
    sim (p_exec v rs (cmd_paths (v_family v) pt) old) (p_expected rs old new).

(* order_ok on every shipped pair of ordering and patching rulebook: needs the translator of the shipped rule texts
   (coq/Gen/Src_rules.v of DESIGN 2.3), which does not exist yet. *)

(* ---------- %ordered rules: the flat case, proved; the general case, refuted as it stands ---------- *)

(* C01_ordered_flat.  A level all of whose rows are leaves governed by one %ordered rule (ordered_diff +
   logic `ordered`), old and new of ANY length, in the computable domain [wf_ord_flat] (Spec/P_C01ord.v:
   block formatter family, the key determines the row on the universe of rows of old and new, unambiguous
   removal commands, [order_ok_o]): the patch is computed and executing the model's command paths on old
   yields new - EQUAL AS A FOREST, i.e. the same rows in the same sequence (which is stronger than [sim] and
   than [seq_agree] of Spec/P_C01o.v).  Proof: Proofs/ConvergeOrdSeq.v (the device on such a level is a list
   machine; a command sequence with the three properties below turns old into new), Proofs/ConvergeOrdFlat.v
   (make_diff of two such levels explicitly - common prefix UNCHANGED, then ADDED/MOVED in new's order,
   REMOVED interleaved -, make_pre/make_patch of it, stability of the sort on the equal keys of the direct
   commands, undo-before-redo from [undo_first_b]). *)
Theorem C01_ordered_flat :
  forall v rs ordering old new, wf_ord_flat v rs ordering old new = true ->
  exists pt, snd (diff_and_patch v rs ordering old new) = POk pt /\
             p_exec v rs (cmd_paths (v_family v) pt) old = new.
Proof. exact ordered_flat_model. Qed.
Print Assumptions C01_ordered_flat.

(* ... hence also as a dict *)
Theorem C01_ordered_flat_sim :
  forall v rs ordering old new, wf_ord_flat v rs ordering old new = true ->
  exists pt, snd (diff_and_patch v rs ordering old new) = POk pt /\
             sim (p_exec v rs (cmd_paths (v_family v) pt) old) new.
Proof.
  intros v rs ordering old new H. destruct (ordered_flat_model v rs ordering old new H) as (pt & Hp & He).
  exists pt. split; [exact Hp|]. rewrite He. apply sim_refl.
Qed.
Print Assumptions C01_ordered_flat_sim.

(* the list machine behind it, for command sequences of any length: direct commands of new's rows after the
   common prefix P in new's order, a removal exactly for old's rows after P, no removal after the direct
   command of its row  ==>  P ++ M becomes P ++ D *)
Theorem C01_ordered_machine :
  forall (P M D : list string) (cs : list cmd),
    NoDup (P ++ M)%list -> NoDup (P ++ D)%list -> dirs cs = D ->
    (forall r, In (false, r) cs -> In r M) -> (forall r, In r M -> In (false, r) cs) ->
    (forall l1 r l2, cs = (l1 ++ (true, r) :: l2)%list -> ~ In (false, r) l2) ->
    fold_left lstep cs (P ++ M)%list = (P ++ D)%list.
Proof. exact machine_converges. Qed.
Print Assumptions C01_ordered_machine.

(* non-vacuity: five rows become six - one kept in front, two inserted, two moved, one removed *)
Definition c01_of_rules : rset :=
  ([PRule "entry * %ordered" false (Attrs "entry *" LOrdered DOrdered false false) [] []], []).
Definition c01_of_old : forest := leaves ["entry 1"; "entry 2 a"; "entry 3"; "entry 4"; "entry 5"].
Definition c01_of_new : forest := leaves ["entry 1"; "entry 9"; "entry 4"; "entry 2 a"; "entry 5"; "entry 8"].
Example C01_ordered_flat_nonvacuous :
  wf_ord_flat c01_ex_v c01_of_rules [] c01_of_old c01_of_new = true /\
  model_paths c01_ex_v c01_of_rules [] c01_of_old c01_of_new =
    Some [["undo entry 4"]; ["undo entry 3"]; ["undo entry 2"]; ["undo entry 5"];
          ["entry 9"]; ["entry 4"]; ["entry 2 a"]; ["entry 5"]; ["entry 8"]].
Proof. vm_compute. split; reflexivity. Qed.

(* C01_ordered_retext_refuted.  The guard "the key determines the row" is necessary, and the order-sensitive
   reading of convergence is FALSE for %ordered rules in general - of the model and of the real pipeline
   (replayed by the check, known finding C01/ordered/retext-reorders):  old = [entry 2 x; entry 5; entry 6],
   new = [entry 7; entry 1 y; entry 2 y], one rule `entry * %ordered`.  The row of key 2 changes its text; its
   REMOVED entry sits in the diff before `entry 1 y`, make_pre groups ADDED and REMOVED of key 2 under the
   position of the first of them, so the direct command `entry 2 y` is emitted BEFORE `entry 1 y`.  The input
   is inside the ordered domain of Spec/P_C01o.v (wf_step_o, order_ok_o); the device reaches new as a dict
   (sim_b) but with rows 1 and 2 swapped (seq_agree false); a second run repairs the order. *)
Definition c01_rt_old : forest := leaves ["entry 2 x"; "entry 5"; "entry 6"].
Definition c01_rt_new : forest := leaves ["entry 7"; "entry 1 y"; "entry 2 y"].
Theorem C01_ordered_retext_refuted :
  wf_step_o c01_ex_v c01_of_rules c01_rt_old c01_rt_new = true /\
  order_ok_o c01_ex_v c01_of_rules [] c01_rt_old c01_rt_new = true /\
  ord_flat_dom c01_ex_v c01_of_rules (keys c01_rt_old ++ keys c01_rt_new)%list = false /\
  model_paths c01_ex_v c01_of_rules [] c01_rt_old c01_rt_new =
    Some [["undo entry 5"]; ["undo entry 6"]; ["entry 7"]; ["entry 2 y"]; ["entry 1 y"]] /\
  (let dev := p_exec c01_ex_v c01_of_rules [["undo entry 5"]; ["undo entry 6"]; ["entry 7"]; ["entry 2 y"]; ["entry 1 y"]] c01_rt_old in
   dev = leaves ["entry 7"; "entry 2 y"; "entry 1 y"] /\ sim_b dev c01_rt_new = true /\
   p_seq_agree c01_of_rules dev c01_rt_new = false /\
   model_paths c01_ex_v c01_of_rules [] dev c01_rt_new =
     Some [["undo entry 1"]; ["undo entry 2"]; ["entry 1 y"]; ["entry 2 y"]]).
Proof. vm_compute. repeat split; reflexivity. Qed.
Print Assumptions C01_ordered_retext_refuted.

(* Still stated only: %ordered rows with bodies (nested children), %ordered rows mixed with rows of other rules on
   the same level, %ordered levels below a block header.  What is needed beyond C01_ordered_flat: the slot-by-slot
   analysis of Proofs/ConvergeMain.v carried through ordered_diff (children of a MOVED row are all MOVED/ADDED:
   C03_moved_all_depths) and the frame rule "commands of other slots do not change the relative order of the
   %ordered rows" (C01_exec_commute gives it for the dict reading only). *)
Definition C01_ordered_general_statement : Prop :=
  forall v rs ordering old new pt,
    block_family (v_family v) = true -> snd (diff_and_patch v rs ordering old new) = POk pt ->
    wf_step_o v rs old new = true -> order_ok_o v rs ordering old new = true ->
    (* no %ordered key changes its row text *)
    (forall r r' s s', In r (keys old) -> In r' (keys new) -> slot_of pm rs r = Some s -> slot_of pm rs r' = Some s' ->
                       is_ordered s = true -> same_slot s s' = true -> r = r') ->
    let dev := p_exec v rs (cmd_paths (v_family v) pt) old in
    sim (p_prune rs dev) (p_prune rs (p_expected rs old new)) /\ p_seq_agree rs dev new = true.
