(* C01 — deploying the patch makes the diff empty (convergence).  Property theorems only;
   proofs live in Proofs/Converge*.v.  Device semantics: Model/Device.v.  Spec: Spec/P_C01.v.

   Domain of the theorems ("Tier A", [wf_C01], computable): a formatter family whose command
   paths follow the block nesting; old and new with distinct sibling rows and at most one row
   per (rule, key) slot on every level; on the universe of rows occurring in old or new:
   default diff logic, rule logic among default / undo_redo / permanent / ignore_changes, no
   %force_commit, removal commands that are unambiguous (not matched by a rule of their level,
   not a block-exit word, different for different slots); the model patch is computed without
   AssertionError and no removal is ordered after a direct command of its own slot ([order_ok],
   what an %order_reverse rule can break).  Rulebooks of any nesting depth, %global rules,
   ordering rulebooks of any shape (only [order_ok] is asked of them), configuration trees of
   any depth and width, rows no rule knows anywhere.  All statements hold for every rule
   matcher; they are stated here for the shared row-pattern compiler (Model/Pattern.v). *)
From Coq Require Import List String Bool Arith ZArith.
From Annet Require Import Base.Str Base.Tree Model.Pattern Model.Rulebook Model.Diff Model.Order Model.Patch
     Model.Blocks Model.Pipeline Model.Device Spec.P_C01
     Proofs.ConvergeDevice Proofs.ConvergeRun Proofs.ConvergeBlocks Proofs.ConvergeSim Proofs.ConvergeMain
     Proofs.ConvergeTop Proofs.ConvergeSecond Proofs.ConvergeFinal Proofs.ConvergeReport.
From Annet Require Import Spec.P_C01o Spec.P_C01ord Proofs.ConvergeOrdSeq Proofs.ConvergeOrdFlat.
From Annet Require Import Spec.P_C01rw Proofs.ConvergeRewrite.
Import ListNotations.
Open Scope string_scope.

(* C01_expected.  Executing, path by path and in the emitted order, the command paths of the patch
   computed for (old, new) on a device holding old reaches expected(R, old, new) as a dict - new|R
   plus the rows of old no rule knows, plus exactly what permanent / ignore_changes decline - at
   every depth; the decision procedure sim_b used on real outputs says so; and the state reached is
   again a configuration of the domain (this is what makes chains work). *)
Theorem C01_expected :
  forall v rs ordering old new, wf_C01 v rs ordering old new = true ->
  exists pt, snd (diff_and_patch v rs ordering old new) = POk pt /\
    let dev := p_exec v rs (cmd_paths (v_family v) pt) old in
    sim dev (p_expected rs old new) /\ sim_b dev (p_expected rs old new) = true /\
    p_good rs (merge old new) dev.
Proof. exact converge_model. Qed.
Print Assumptions C01_expected.

(* C01_nested.  Literal convergence for default / undo_redo rules ([wf_strict]), trees of any depth,
   nested blocks, %global rules: the known rows of the state reached are exactly those of new. *)
Theorem C01_nested :
  forall v rs ordering old new, wf_C01 v rs ordering old new = true -> wf_strict v rs old new = true ->
  exists pt, snd (diff_and_patch v rs ordering old new) = POk pt /\
    let dev := p_exec v rs (cmd_paths (v_family v) pt) old in
    sim (p_known rs dev) (p_known rs new) /\ sim_b (p_known rs dev) (p_known rs new) = true.
Proof. exact literal_model. Qed.
Print Assumptions C01_nested.

(* ... and the rows of old that no rule knows are still there (any logic) *)
Theorem C01_unknown_rows_untouched :
  forall v rs ordering old new, wf_C01 v rs ordering old new = true ->
  exists pt, snd (diff_and_patch v rs ordering old new) = POk pt /\
    forall r t, In (r, t) old -> slot_of pm rs r = None ->
      exists t', In (r, t') (p_exec v rs (cmd_paths (v_family v) pt) old) /\ sim (kids t) (kids t').
Proof. exact unknown_untouched. Qed.
Print Assumptions C01_unknown_rows_untouched.

(* C01_flat: the one-level reading of C01_nested (every row a leaf) *)
Definition flat (f : forest) : bool := forallb (fun e : string * tree => match snd e with T [] => true | _ => false end) f.
Theorem C01_flat :
  forall v rs ordering old new, flat old = true -> flat new = true ->
  wf_C01 v rs ordering old new = true -> wf_strict v rs old new = true ->
  exists pt, snd (diff_and_patch v rs ordering old new) = POk pt /\
    sim (p_known rs (p_exec v rs (cmd_paths (v_family v) pt) old)) (p_known rs new).
Proof.
  intros v rs ordering old new _ _ Hw Hs. destruct (literal_model v rs ordering old new Hw Hs) as (pt & Hp & Hk & _).
  exists pt. auto.
Qed.
Print Assumptions C01_flat.

(* C01_second_patch_empty.  After the deployment (default / undo_redo rules) the second diff is
   empty and the second patch contains no command. *)
Theorem C01_second_patch_empty :
  forall v rs ordering old new, wf_C01 v rs ordering old new = true -> wf_strict v rs old new = true ->
  exists pt, snd (diff_and_patch v rs ordering old new) = POk pt /\
    let dev := p_exec v rs (cmd_paths (v_family v) pt) old in
    fst (diff_and_patch v rs ordering dev new) = [] /\ model_paths v rs ordering dev new = Some [] /\
    sim_b dev dev = true.
Proof. exact second_run_model. Qed.
Print Assumptions C01_second_patch_empty.

(* C01_chain.  For every vendor, rulebook, ordering rulebook, initial configuration and every finite
   sequence new_1 .. new_k: the property predicate P_C01 - the one the check evaluates on the real
   pipeline's outputs - holds of the model pipeline along the whole chain, at every step whose
   actual device state and target are in the literal domain [guard_literal] (and [order_ok]). *)
Theorem C01_chain :
  forall v rs ordering news old,
    P_C01_chain guard_literal v rs old (model_chain v rs ordering old news) = true.
Proof. exact P_chain_model. Qed.
Print Assumptions C01_chain.

(* chains with permanent / ignore_changes rules: every step reaches expected; the domain is
   preserved by Device.exec, so it is asked of the initial state and of the targets only *)
Theorem C01_chain_expected :
  forall v rs ordering U, block_family (v_family v) = true -> no_orev ordering = true ->
  p_uok v rs U -> forall news dev, p_good rs U dev -> Forall (p_good rs U) news ->
  chain_reaches v rs ordering dev news.
Proof. exact chain_expected_model. Qed.
Print Assumptions C01_chain_expected.

(* ... with a computable guard on the initial state and the targets only *)
Theorem C01_chain_expected_guarded :
  forall v rs ordering old news,
    wf_chain v rs old news = true -> no_orev ordering = true -> chain_reaches v rs ordering old news.
Proof. exact chain_expected_guarded. Qed.
Print Assumptions C01_chain_expected_guarded.

(* C01_order_ok_default.  The ordering hypothesis holds for every ordering rulebook without
   %order_reverse, whatever else it contains: removal key (-o, rule, false) <= re-creation key
   (o', rule, true), and the sort is stable. *)
Theorem C01_order_ok_default :
  forall v rs ordering old new,
    block_family (v_family v) = true -> wf_A v rs old new = true -> no_orev ordering = true ->
    wf_C01 v rs ordering old new = true.
Proof. exact order_default_model. Qed.
Print Assumptions C01_order_ok_default.

(* inside the domain no logic raises: the patch is always computed *)
Theorem C01_no_error :
  forall v rs ordering old new, wf_A v rs old new = true ->
  exists pt, snd (diff_and_patch v rs ordering old new) = POk pt.
Proof. exact model_no_error. Qed.
Print Assumptions C01_no_error.

(* the guard is satisfiable by a nested example with undo_redo and permanent rules *)
Definition c01_ex_v := Vendor "undo" "quit" FHuawei.
Definition c01_ex_rules : rset :=
  ([PRule "interface *" false (Attrs "interface *" LDefault DDefault true false)
      [PRule "mtu * %logic=common.undo_redo" false (Attrs "mtu *" LUndoRedo DDefault false false) [] [];
       PRule "description ~" false (Attrs "description ~" LDefault DDefault false false) [] []] [];
    PRule "hostname *" false (Attrs "hostname *" LDefault DDefault false false) [] [];
    PRule "vlan * %logic=common.permanent" false (Attrs "vlan *" LPermanent DDefault false false) [] []], []).
Definition c01_ex_old : forest :=
  [("interface Eth1", T [("mtu 1500", T []); ("description a b", T [])]); ("hostname r1", T []);
   ("vlan 10", T []); ("unknown thing", T [])].
Definition c01_ex_new : forest :=
  [("interface Eth1", T [("mtu 9000", T [])]); ("interface Eth2", T [("mtu 1500", T [])]); ("hostname r2", T [])].
Example C01_expected_nonvacuous : wf_C01 c01_ex_v c01_ex_rules [] c01_ex_old c01_ex_new = true.
Proof. vm_compute. reflexivity. Qed.
(* ... and the literal domain by a nested chain over undo_redo rules *)
Definition c01_lit_rules : rset :=
  ([PRule "interface *" false (Attrs "interface *" LDefault DDefault true false)
      [PRule "mtu * %logic=common.undo_redo" false (Attrs "mtu *" LUndoRedo DDefault false false) [] [];
       PRule "description ~" false (Attrs "description ~" LDefault DDefault false false) [] []] [];
    PRule "hostname *" false (Attrs "hostname *" LDefault DDefault false false) [] []], []).
Definition c01_lit_old : forest :=
  [("interface Eth1", T [("mtu 1500", T []); ("description a b", T [])]); ("hostname r1", T []); ("unknown thing", T [])].
Example C01_literal_nonvacuous :
  guard_literal c01_ex_v c01_lit_rules c01_lit_old c01_ex_new = true /\
  order_ok c01_ex_v c01_lit_rules [] c01_lit_old c01_ex_new = true /\
  flat [("hostname r1", T [])] = true.
Proof. vm_compute. repeat split; reflexivity. Qed.
Example C01_chain_guard_nonvacuous :
  wf_chain c01_ex_v c01_ex_rules c01_ex_old [c01_ex_new; c01_ex_old; []; c01_ex_new] = true.
Proof. vm_compute. reflexivity. Qed.

(* exec_commute: on a level with one entry per slot, running any list of patch items changes the
   entry of a slot exactly as the slot's own items do, in their order; items of other slots do
   not interfere (so any permutation the sort produces that keeps each slot's order is harmless). *)
Theorem C01_exec_commute :
  forall rmatch rreverse is_exit rs U, lvl_ok rmatch rreverse is_exit rs U ->
  forall r s, In r (keys U) -> slot_of rmatch rs r = Some s ->
  forall items f, Forall (uitem rmatch rreverse rs U) items -> lgood rmatch rs U f ->
    sfind rmatch rs s (fold_left (fun a i => run_item rmatch rreverse is_exit rs i a) items f) =
    fold_left (fun o i => step rmatch rreverse is_exit rs i o) (filter (belongs rmatch rreverse rs s) items)
              (sfind rmatch rs s f).
Proof. intros. eapply run_items_slot; eauto. Qed.
Print Assumptions C01_exec_commute.

(* formatter.cmd_paths of a patch tree, executed path by path, is the patch tree executed item
   by item with its block nesting (the path stack equals the device cursor); the odict
   deduplication of cmd_paths only ever drops block-exit paths *)
Theorem C01_cmd_paths_follow_blocks :
  forall rmatch rreverse is_exit fam rs t f,
    block_family fam = true -> (forall ex, In ex (family_exits fam) -> is_exit ex = true) ->
    prows_ok is_exit t ->
    exec rmatch rreverse is_exit rs (cmd_paths fam t) f = run_pt rmatch rreverse is_exit t rs f.
Proof. exact exec_cmd_paths. Qed.
Print Assumptions C01_cmd_paths_follow_blocks.

(* ---------- what is false, with witnesses (replayed on the real pipeline by the check) ---------- *)

(* The ordering hypothesis [order_ok] is necessary: with `b * %logic=common.undo_redo`, an ordering
   rulebook listing `b *` and then `undo b * %order_reverse` pins the removal AFTER the re-creation of
   the same slot; everything else of the domain holds, the patch is computed, and executing it
   empties the slot instead of reaching expected.  With an empty ordering rulebook the same input
   converges. *)
Definition c01_or_rules : rset :=
  ([PRule "b * %logic=common.undo_redo" false (Attrs "b *" LUndoRedo DDefault false false) [] []], []).
Definition c01_or_ordering : list orule :=
  [ORule "b *" "b *" false false None []; ORule "undo b * %order_reverse" "undo b *" true false None []].
Definition c01_or_old : forest := [("b 1 x", T [])].
Definition c01_or_new : forest := [("b 1 y", T [])].
Theorem C01_order_reverse_refuted :
  block_family (v_family c01_ex_v) = true /\ wf_A c01_ex_v c01_or_rules c01_or_old c01_or_new = true /\
  order_ok c01_ex_v c01_or_rules c01_or_ordering c01_or_old c01_or_new = false /\
  model_paths c01_ex_v c01_or_rules c01_or_ordering c01_or_old c01_or_new = Some [["b 1 y"]; ["undo b 1"]] /\
  p_exec c01_ex_v c01_or_rules [["b 1 y"]; ["undo b 1"]] c01_or_old = [] /\
  p_expected c01_or_rules c01_or_old c01_or_new = [("b 1 y", T [])] /\
  wf_C01 c01_ex_v c01_or_rules [] c01_or_old c01_or_new = true.
Proof. vm_compute. repeat split; reflexivity. Qed.
Print Assumptions C01_order_reverse_refuted.

(* Literal convergence ("the second diff is empty") is false for the permanent logic, by design of
   the logic: the interface block that new no longer has is emptied, not deleted; the device reaches
   expected, the second patch is empty, the second diff still reports the row as REMOVED. *)
Definition c01_pm_rules : rset :=
  ([PRule "interface * %logic=common.permanent" false (Attrs "interface *" LPermanent DDefault true false)
      [PRule "mtu *" false (Attrs "mtu *" LDefault DDefault false false) [] []] []], []).
Definition c01_pm_old : forest := [("interface Eth1", T [("mtu 1500", T [])])].
Theorem C01_permanent_refuted :
  wf_C01 c01_ex_v c01_pm_rules [] c01_pm_old [] = true /\
  (let o := model_obs c01_ex_v c01_pm_rules [] c01_pm_old [] in
   p_exec c01_ex_v c01_pm_rules (o_paths o) c01_pm_old = [("interface Eth1", T [])] /\
   o_paths2 o = Some [] /\ is_nil (o_diff2 o) = false) /\
  P_C01 c01_ex_v c01_pm_rules c01_pm_old (model_chain c01_ex_v c01_pm_rules [] c01_pm_old [[]]) = true.
Proof. vm_compute. repeat split; reflexivity. Qed.
Print Assumptions C01_permanent_refuted.

(* "A second patch contains no commands" is false when a change was declined inside a block: the
   ignore_changes row keeps the block AFFECTED, so the second patch enters and leaves the block
   again - commands that do nothing (the clause second_noop of P_C01). *)
Definition c01_ic_rules : rset :=
  ([PRule "interface *" false (Attrs "interface *" LDefault DDefault true false)
      [PRule "description * %logic=common.ignore_changes" false (Attrs "description *" LIgnoreChanges DDefault false false) [] []] []], []).
Definition c01_ic_old : forest := [("interface Eth1", T [("description a x", T [])])].
Definition c01_ic_new : forest := [("interface Eth1", T [("description a y", T [])])].
Theorem C01_second_patch_not_empty_when_declined :
  wf_C01 c01_ex_v c01_ic_rules [] c01_ic_old c01_ic_new = true /\
  o_paths2 (model_obs c01_ex_v c01_ic_rules [] c01_ic_old c01_ic_new) =
    Some [["interface Eth1"]; ["interface Eth1"; "quit"]] /\
  P_C01 c01_ex_v c01_ic_rules c01_ic_old (model_chain c01_ex_v c01_ic_rules [] c01_ic_old [c01_ic_new]) = true.
Proof. vm_compute. repeat split; reflexivity. Qed.
Print Assumptions C01_second_patch_not_empty_when_declined.

(* the verdict the check reads off the per-step report of an observed chain implies the property
   predicate P_C01 on that chain *)
Theorem C01_report_sound : forall c, report_ok (c01_report c) = true -> c01_holds c = true.
Proof. exact report_ok_sound. Qed.
Print Assumptions C01_report_sound.

(* ---------- stated, not proved (Tier B) ---------- *)

(* With permanent / ignore_changes rules the second patch is not empty in general
   (C01_second_patch_not_empty_when_declined) but does nothing on the device.  Checked by Coq on every
   real output (clause second_noop of P_C01), proved only when nothing is declined
   (C01_second_patch_empty).  Missing: expected is idempotent and respects sim in its first argument
   (expected (expected old new) new ~ expected old new). *)
Definition C01_declined_second_patch_noop_statement : Prop :=
  forall v rs ordering old new, wf_C01 v rs ordering old new = true ->
  forall pt, snd (diff_and_patch v rs ordering old new) = POk pt ->
  let dev := p_exec v rs (cmd_paths (v_family v) pt) old in
  wf_C01 v rs ordering dev new = true ->
  forall pt2, snd (diff_and_patch v rs ordering dev new) = POk pt2 ->
  sim (p_exec v rs (cmd_paths (v_family v) pt2) dev) dev.

(* %ordered rules (sequence equality on the rows of an ordered rule), %rewrite rules (blocks reset
   on entry), the flattened set/delete command forms of Juniper / Nokia / RouterOS, %multiline and
   %force_commit are outside wf_C01: Device.v defines the semantics (at-the-end re-creation for
   %ordered, enter drops %rewrite children), the check evaluates P_C01 on real outputs for
   %force_commit rulebooks (allow_eval), nothing is proved.  Missing for %ordered: an order-sensitive
   sim and the MOVED-prefix characterisation of C03 carried through the logic `ordered`. *)
Definition C01_ordered_statement : Prop :=
  forall v rs ordering old new pt,
    block_family (v_family v) = true -> snd (diff_and_patch v rs ordering old new) = POk pt ->
    wf_step_with (fun m => allow_A m || (logic_eqb (a_logic (mi_attrs m)) LOrdered && is_ordered m)) v rs old new = true ->
    order_ok v rs ordering old new = true ->
    sim (p_exec v rs (cmd_paths (v_family v) pt) old) (p_expected rs old new).

(* order_ok on every shipped pair of ordering and patching rulebook: needs the translator of the shipped rule texts
   (coq/Gen/Src_rules.v of DESIGN 2.3), which does not exist yet. *)

(* ---------- %ordered rules: the flat case, proved; the general case, refuted as it stands ---------- *)

(* C01_ordered_flat.  A level all of whose rows are leaves governed by one %ordered rule (ordered_diff +
   logic `ordered`), old and new of ANY length, in the computable domain [wf_ord_flat] (Spec/P_C01ord.v:
   block formatter family, the key determines the row on the universe of rows of old and new, unambiguous
   removal commands, [order_ok_o]): the patch is computed and executing the model's command paths on old
   yields new - EQUAL AS A FOREST, i.e. the same rows in the same sequence (which is stronger than [sim] and
   than [seq_agree] of Spec/P_C01o.v).  Proof: Proofs/ConvergeOrdSeq.v (the device on such a level is a list
   machine; a command sequence with the three properties below turns old into new), Proofs/ConvergeOrdFlat.v
   (make_diff of two such levels explicitly - common prefix UNCHANGED, then ADDED/MOVED in new's order,
   REMOVED interleaved -, make_pre/make_patch of it, stability of the sort on the equal keys of the direct
   commands, undo-before-redo from [undo_first_b]). *)
Theorem C01_ordered_flat :
  forall v rs ordering old new, wf_ord_flat v rs ordering old new = true ->
  exists pt, snd (diff_and_patch v rs ordering old new) = POk pt /\
             p_exec v rs (cmd_paths (v_family v) pt) old = new.
Proof. exact ordered_flat_model. Qed.
Print Assumptions C01_ordered_flat.

(* ... hence also as a dict *)
Theorem C01_ordered_flat_sim :
  forall v rs ordering old new, wf_ord_flat v rs ordering old new = true ->
  exists pt, snd (diff_and_patch v rs ordering old new) = POk pt /\
             sim (p_exec v rs (cmd_paths (v_family v) pt) old) new.
Proof.
  intros v rs ordering old new H. destruct (ordered_flat_model v rs ordering old new H) as (pt & Hp & He).
  exists pt. split; [exact Hp|]. rewrite He. apply sim_refl.
Qed.
Print Assumptions C01_ordered_flat_sim.

(* the list machine behind it, for command sequences of any length: direct commands of new's rows after the
   common prefix P in new's order, a removal exactly for old's rows after P, no removal after the direct
   command of its row  ==>  P ++ M becomes P ++ D *)
Theorem C01_ordered_machine :
  forall (P M D : list string) (cs : list cmd),
    NoDup (P ++ M)%list -> NoDup (P ++ D)%list -> dirs cs = D ->
    (forall r, In (false, r) cs -> In r M) -> (forall r, In r M -> In (false, r) cs) ->
    (forall l1 r l2, cs = (l1 ++ (true, r) :: l2)%list -> ~ In (false, r) l2) ->
    fold_left lstep cs (P ++ M)%list = (P ++ D)%list.
Proof. exact machine_converges. Qed.
Print Assumptions C01_ordered_machine.

(* non-vacuity: five rows become six - one kept in front, two inserted, two moved, one removed *)
Definition c01_of_rules : rset :=
  ([PRule "entry * %ordered" false (Attrs "entry *" LOrdered DOrdered false false) [] []], []).
Definition c01_of_old : forest := leaves ["entry 1"; "entry 2 a"; "entry 3"; "entry 4"; "entry 5"].
Definition c01_of_new : forest := leaves ["entry 1"; "entry 9"; "entry 4"; "entry 2 a"; "entry 5"; "entry 8"].
Example C01_ordered_flat_nonvacuous :
  wf_ord_flat c01_ex_v c01_of_rules [] c01_of_old c01_of_new = true /\
  model_paths c01_ex_v c01_of_rules [] c01_of_old c01_of_new =
    Some [["undo entry 4"]; ["undo entry 3"]; ["undo entry 2"]; ["undo entry 5"];
          ["entry 9"]; ["entry 4"]; ["entry 2 a"]; ["entry 5"]; ["entry 8"]].
Proof. vm_compute. split; reflexivity. Qed.

(* C01_ordered_retext_refuted.  The guard "the key determines the row" is necessary, and the order-sensitive
   reading of convergence is FALSE for %ordered rules in general - of the model and of the real pipeline
   (replayed by the check, known finding C01/ordered/retext-reorders):  old = [entry 2 x; entry 5; entry 6],
   new = [entry 7; entry 1 y; entry 2 y], one rule `entry * %ordered`.  The row of key 2 changes its text; its
   REMOVED entry sits in the diff before `entry 1 y`, make_pre groups ADDED and REMOVED of key 2 under the
   position of the first of them, so the direct command `entry 2 y` is emitted BEFORE `entry 1 y`.  The input
   is inside the ordered domain of Spec/P_C01o.v (wf_step_o, order_ok_o); the device reaches new as a dict
   (sim_b) but with rows 1 and 2 swapped (seq_agree false); a second run repairs the order. *)
Definition c01_rt_old : forest := leaves ["entry 2 x"; "entry 5"; "entry 6"].
Definition c01_rt_new : forest := leaves ["entry 7"; "entry 1 y"; "entry 2 y"].
Theorem C01_ordered_retext_refuted :
  wf_step_o c01_ex_v c01_of_rules c01_rt_old c01_rt_new = true /\
  order_ok_o c01_ex_v c01_of_rules [] c01_rt_old c01_rt_new = true /\
  ord_flat_dom c01_ex_v c01_of_rules (keys c01_rt_old ++ keys c01_rt_new)%list = false /\
  model_paths c01_ex_v c01_of_rules [] c01_rt_old c01_rt_new =
    Some [["undo entry 5"]; ["undo entry 6"]; ["entry 7"]; ["entry 2 y"]; ["entry 1 y"]] /\
  (let dev := p_exec c01_ex_v c01_of_rules [["undo entry 5"]; ["undo entry 6"]; ["entry 7"]; ["entry 2 y"]; ["entry 1 y"]] c01_rt_old in
   dev = leaves ["entry 7"; "entry 2 y"; "entry 1 y"] /\ sim_b dev c01_rt_new = true /\
   p_seq_agree c01_of_rules dev c01_rt_new = false /\
   model_paths c01_ex_v c01_of_rules [] dev c01_rt_new =
     Some [["undo entry 1"]; ["undo entry 2"]; ["entry 1 y"]; ["entry 2 y"]]).
Proof. vm_compute. repeat split; reflexivity. Qed.
Print Assumptions C01_ordered_retext_refuted.

(* Still stated only: %ordered rows with bodies (nested children), %ordered rows mixed with rows of other rules on
   the same level, %ordered levels below a block header.  What is needed beyond C01_ordered_flat: the slot-by-slot
   analysis of Proofs/ConvergeMain.v carried through ordered_diff (children of a MOVED row are all MOVED/ADDED:
   C03_moved_all_depths) and the frame rule "commands of other slots do not change the relative order of the
   %ordered rows" (C01_exec_commute gives it for the dict reading only). *)
Definition C01_ordered_general_statement : Prop :=
  forall v rs ordering old new pt,
    block_family (v_family v) = true -> snd (diff_and_patch v rs ordering old new) = POk pt ->
    wf_step_o v rs old new = true -> order_ok_o v rs ordering old new = true ->
    (* no %ordered key changes its row text *)
    (forall r r' s s', In r (keys old) -> In r' (keys new) -> slot_of pm rs r = Some s -> slot_of pm rs r' = Some s' ->
                       is_ordered s = true -> same_slot s s' = true -> r = r') ->
    let dev := p_exec v rs (cmd_paths (v_family v) pt) old in
    sim (p_prune rs dev) (p_prune rs (p_expected rs old new)) /\ p_seq_agree rs dev new = true.

(* ---------- %rewrite rules: the patch + device half proved at every depth; the block statement; two refutations ---------- *)

(* C01_rewrite_patch_builds_partial.  A block whose body is governed by %rewrite rules (rewrite_diff + logic
   `rewrite`; shipped: `xpl ~ / ~ %rewrite %global`, `prefix-set * / ~ %rewrite %global`) is reset by the device when it is
   entered (Device.enter).  For EVERY diff D, of any depth and width, whose levels are governed by one %rewrite rule each with
   distinct keys and whose entries are MOVED / ADDED / REMOVED ([dok], [lvl] of Proofs/ConvergeRewrite.v - what rewrite_diff of
   a changed block yields: aff_to_moved leaves no AFFECTED entry, [C01_rewrite_diff_not_marked]):
   (1) make_pre / make_patch / logic `rewrite` compute a patch - no AssertionError -, whatever the ordering rulebook;
   (2) if the ordering rulebook gives the direct commands of one level one sort key ([rw_keys_ok_b], at every depth), executing
       that patch inside the block that has just been reset builds EXACTLY the entries of D that are not REMOVED, in D's
       order, with their children alike ([built]): equality of forests, i.e. rows in sequence at every depth.
   Proof: Proofs/ConvergeRewrite.v (make_pre groups one rule with distinct keys into one bucket per entry; `rewrite` yields
   nothing for a REMOVED key and the row for a MOVED / ADDED one; the stable sort is the identity on equal keys; each direct
   command finds its slot free and appends; induction on the diff with the nested level lemma).
   This is the patch + device half of [C01_rewrite_block_statement] below; the diff half (built (rewrite_diff bo bn) = bn, the
   diff is all-AFFECTED only if bo = bn) and the header step (enter = reset) are proved in Proofs/ConvergeRewriteBlock.v:
   the whole statement is theorem [C01_rewrite_block] at the end of this file (the name ..._partial is kept). *)
Theorem C01_rewrite_patch_builds_partial :
  forall v rs ordering D,
    Forall (fun d => dok pm (v_is_exit v) d rs) D -> lvl D ->
    exists pt, p_make_patch v ordering (make_pre D) = POk pt /\
      (rw_keys_ok_b pm pt rs = true ->
       run_pt pm (prreverse v) (v_is_exit v) pt rs [] = flat_map built D).
Proof. exact rewrite_patch_builds. Qed.
Print Assumptions C01_rewrite_patch_builds_partial.

(* rewrite_diff of a changed block (aff_to_moved) contains no AFFECTED entry, so mark_unchanged does not touch it *)
Theorem C01_rewrite_diff_not_marked : forall d, mark_unchanged (aff_to_moved d) = aff_to_moved d.
Proof. exact mark_aff_to_moved. Qed.
Print Assumptions C01_rewrite_diff_not_marked.

(* the shipped shape: `xpl ~` with `~ %rewrite %global` below, nested bodies *)
Definition c01_rw_rules : rset :=
  ([PRule "xpl ~" false (Attrs "xpl ~" LDefault DDefault true false) []
      [PRule "~ %rewrite %global" false (Attrs "~" LRewrite DRewrite false false) [] []]], []).
Definition c01_rw_old : forest :=
  [("xpl foo", T [("a", T [("x", T []); ("y", T [])]); ("b", T []); ("c", T [])])].
Definition c01_rw_new : forest :=
  [("xpl foo", T [("c", T []); ("a", T [("y", T []); ("z", T []); ("x", T [])]); ("d", T [])])].
Definition c01_rwf_old : forest := [("xpl foo", T (leaves ["a"; "b"; "c"]))].
Definition c01_rwf_new : forest := [("xpl foo", T (leaves ["a"; "c"; "d"]))].
Definition c01_rw_body_diff : list dnode :=
  match p_make_diff c01_rw_rules c01_rwf_old c01_rwf_new with [DN _ _ _ k] => k | _ => [] end.

(* non-vacuity of the guards of C01_rewrite_patch_builds_partial: the body diff the model computes for
   [a; b; c] -> [a; c; d] below `xpl foo` (two rows MOVED, one REMOVED, one ADDED) satisfies [dok] and [lvl] *)
Definition c01_rw_mi (r : string) : minfo := MI "~ %rewrite %global" [r] (Attrs "~" LRewrite DRewrite false false).
Definition c01_rw_D : list dnode :=
  [DN Moved "a" (c01_rw_mi "a") []; DN Moved "c" (c01_rw_mi "c") []; DN Removed "b" (c01_rw_mi "b") []; DN Added "d" (c01_rw_mi "d") []].
Example C01_rewrite_patch_builds_nonvacuous :
  c01_rw_body_diff = c01_rw_D /\
  Forall (fun d => dok pm (v_is_exit c01_ex_v) d (rw_crs c01_rw_rules "xpl foo")) c01_rw_D /\
  lvl c01_rw_D /\ flat_map built c01_rw_D = leaves ["a"; "c"; "d"].
Proof.
  split; [vm_compute; reflexivity|]. split; [|split; [|reflexivity]].
  - assert (L0 : lvl []) by (split; [intros ? ? []|constructor]).
    assert (K : forall o r, (o = Moved \/ o = Added) -> v_is_exit c01_ex_v r = false ->
                (exists crs, match_row pm r (rw_crs c01_rw_rules "xpl foo") = Some (c01_rw_mi r, crs)) ->
                dok pm (v_is_exit c01_ex_v) (DN o r (c01_rw_mi r) []) (rw_crs c01_rw_rules "xpl foo")).
    { intros o r Ho He (crs & Hm). cbn [dok]. split; [reflexivity|]. split; [reflexivity|]. right.
      split; [exact Ho|]. split; [exact He|]. split; [reflexivity|]. exists crs. split; [exact Hm|]. split; [exact L0 | exact I]. }
    unfold c01_rw_D. constructor; [|constructor; [|constructor; [|constructor; [|constructor]]]].
    + apply K; [left; reflexivity | vm_compute; reflexivity | eexists; vm_compute; reflexivity].
    + apply K; [left; reflexivity | vm_compute; reflexivity | eexists; vm_compute; reflexivity].
    + cbn [dok]. split; [reflexivity|]. split; [reflexivity|]. left. reflexivity.
    + apply K; [right; reflexivity | vm_compute; reflexivity | eexists; vm_compute; reflexivity].
  - split.
    + intros d d' Hd Hd'. unfold c01_rw_D in Hd, Hd'. cbn [In] in Hd, Hd'.
      destruct Hd as [Hd|[Hd|[Hd|[Hd|[]]]]]; destruct Hd' as [Hd'|[Hd'|[Hd'|[Hd'|[]]]]]; subst d d'; split; reflexivity.
    + unfold c01_rw_D, dkey. cbn [map d_mi mi_key c01_rw_mi].
      constructor; [intros [H|[H|[H|[]]]]; discriminate|].
      constructor; [intros [H|[H|[]]]; discriminate|].
      constructor; [intros [H|[]]; discriminate|].
      constructor; [intros []|]. constructor.
Qed.

(* C01_rewrite_block_statement (PROVED at the end of this file: C01_rewrite_block, C01_rewrite_flat; the list of what
   was missing is kept for the record).  A block header present in old and new whose bodies are
   governed by %rewrite rules at every depth, in the computable domain [wf_rw_block] of Spec/P_C01rw.v (the key determines
   the row on every level of the universe of the two bodies; the ordering rulebook does not tear a level apart): the patch
   is computed and executing the model's command paths on old yields new - EQUAL AS A FOREST.  [wf_rw_flat]: leaf bodies.
   Proved: the patch + device half for bodies of any depth (C01_rewrite_patch_builds_partial).  Missing: (a) on the domain,
   [flat_map built] of rewrite_diff's output for (bo, bn) is bn and its entries satisfy [dok] / [lvl] (induction on bn over
   scan_new with inrw = true; REMOVED entries are interleaved and contribute nothing), (b) rewrite_diff clears the diff only if
   bo = bn (from C03_lossless: rw_unchanged), (c) the header step: exec_cmd on the header enters the block and Device.enter
   drops every child (all are governed by %rewrite rules), and prows_ok of the patch so that cmd_paths = run_pt
   (C01_cmd_paths_follow_blocks). *)
Definition C01_rewrite_block_statement : Prop :=
  forall v rs ordering old new, wf_rw_block v rs ordering old new = true ->
  exists pt, snd (diff_and_patch v rs ordering old new) = POk pt /\
             p_exec v rs (cmd_paths (v_family v) pt) old = new.
Definition C01_rewrite_flat_statement : Prop :=
  forall v rs ordering old new, wf_rw_flat v rs ordering old new = true ->
  exists pt, snd (diff_and_patch v rs ordering old new) = POk pt /\
             p_exec v rs (cmd_paths (v_family v) pt) old = new.

(* the statement evaluated on two instances (examples, not the unbounded claim): a flat body and the nested body above; the
   second also shows the guard [wf_rw_block] is satisfiable by a nested input and that an unchanged block yields no command *)
Example C01_rewrite_block_examples :
  wf_rw_flat c01_ex_v c01_rw_rules [] c01_rwf_old c01_rwf_new = true /\
  model_paths c01_ex_v c01_rw_rules [] c01_rwf_old c01_rwf_new =
    Some [["xpl foo"]; ["xpl foo"; "a"]; ["xpl foo"; "c"]; ["xpl foo"; "d"]; ["xpl foo"; "end-list"]] /\
  p_exec c01_ex_v c01_rw_rules [["xpl foo"]; ["xpl foo"; "a"]; ["xpl foo"; "c"]; ["xpl foo"; "d"]; ["xpl foo"; "end-list"]]
         c01_rwf_old = c01_rwf_new /\
  wf_rw_block c01_ex_v c01_rw_rules [] c01_rw_old c01_rw_new = true /\
  (match model_paths c01_ex_v c01_rw_rules [] c01_rw_old c01_rw_new with
   | Some ps => forest_eqb (p_exec c01_ex_v c01_rw_rules ps c01_rw_old) c01_rw_new
   | None => false
   end) = true /\
  model_paths c01_ex_v c01_rw_rules [] c01_rw_new c01_rw_new = Some [].
Proof. vm_compute. repeat split; reflexivity. Qed.

(* C01_rewrite_retext_refuted.  The guard "the key determines the row" is necessary, and convergence is FALSE for %rewrite
   rules whose key does not contain the whole row - of the model and of the real pipeline (replayed by the check, known
   finding C01/rewrite/retext-dropped): rule `ent * %rewrite` below `xpl *`, the row of key 1 changes its text from
   `ent 1 x` to `ent 1 y`.  rewrite_diff reports ADDED `ent 1 y` and REMOVED `ent 1 x`; make_pre puts both under key 1; the
   logic `rewrite` yields NOTHING for a key that has a REMOVED entry - so the new row is never emitted.  The block is entered
   (reset) and only `ent 2 x` is re-created: the device loses `ent 1 y`.  Everything else of [wf_rw_block] holds
   (rw_order_ok, header); a second run repairs it.  Shipped %rewrite rules are all `~` (key = row), where this cannot
   happen. *)
Definition c01_rwt_rules : rset :=
  ([PRule "xpl *" false (Attrs "xpl *" LDefault DDefault true false)
      [PRule "ent * %rewrite" false (Attrs "ent *" LRewrite DRewrite false false) [] []] []], []).
Definition c01_rwt_old : forest := [("xpl foo", T (leaves ["ent 1 x"; "ent 2 x"]))].
Definition c01_rwt_new : forest := [("xpl foo", T (leaves ["ent 1 y"; "ent 2 x"]))].
Theorem C01_rewrite_retext_refuted :
  p_rw_dom c01_ex_v (rw_crs c01_rwt_rules "xpl foo") (merge (leaves ["ent 1 x"; "ent 2 x"]) (leaves ["ent 1 y"; "ent 2 x"])) = false /\
  rw_header_ok c01_ex_v c01_rwt_rules "xpl foo" = true /\ rw_order_ok c01_ex_v c01_rwt_rules [] c01_rwt_old c01_rwt_new = true /\
  p_slots_unique c01_rwt_rules c01_rwt_old = true /\ p_slots_unique c01_rwt_rules c01_rwt_new = true /\
  model_paths c01_ex_v c01_rwt_rules [] c01_rwt_old c01_rwt_new =
    Some [["xpl foo"]; ["xpl foo"; "ent 2 x"]; ["xpl foo"; "end-list"]] /\
  (let dev := p_exec c01_ex_v c01_rwt_rules [["xpl foo"]; ["xpl foo"; "ent 2 x"]; ["xpl foo"; "end-list"]] c01_rwt_old in
   dev = [("xpl foo", T (leaves ["ent 2 x"]))] /\ sim_b dev c01_rwt_new = false /\
   model_paths c01_ex_v c01_rwt_rules [] dev c01_rwt_new =
     Some [["xpl foo"]; ["xpl foo"; "ent 1 y"]; ["xpl foo"; "ent 2 x"]; ["xpl foo"; "end-list"]]).
Proof. vm_compute. repeat split; reflexivity. Qed.
Print Assumptions C01_rewrite_retext_refuted.

(* C01_rewrite_mixed_refuted.  "All rows of the body are governed by %rewrite rules" is necessary on the device of
   Model/Device.v: in a block with a %rewrite child rule AND an ordinary child rule, a change of the ordinary row makes the
   patch enter the block - which resets its %rewrite children - while rewrite_diff, seeing its own rows unchanged, reports
   nothing for them: they are lost until a second run re-creates them.  Model = real pipeline on this input (replayed by the
   check).  No shipped rulebook mixes the two (`~ %rewrite %global` catches every row of the block). *)
Definition c01_rwm_rules : rset :=
  ([PRule "xpl *" false (Attrs "xpl *" LDefault DDefault true false)
      [PRule "ent * %rewrite" false (Attrs "ent *" LRewrite DRewrite false false) [] [];
       PRule "mtu *" false (Attrs "mtu *" LDefault DDefault false false) [] []] []], []).
Definition c01_rwm_old : forest := [("xpl foo", T (leaves ["ent 1"; "mtu 5"]))].
Definition c01_rwm_new : forest := [("xpl foo", T (leaves ["ent 1"; "mtu 6"]))].
Theorem C01_rewrite_mixed_refuted :
  p_slots_unique c01_rwm_rules c01_rwm_old = true /\ p_slots_unique c01_rwm_rules c01_rwm_new = true /\
  model_paths c01_ex_v c01_rwm_rules [] c01_rwm_old c01_rwm_new =
    Some [["xpl foo"]; ["xpl foo"; "undo mtu 5"]; ["xpl foo"; "mtu 6"]; ["xpl foo"; "end-list"]] /\
  (let dev := p_exec c01_ex_v c01_rwm_rules [["xpl foo"]; ["xpl foo"; "undo mtu 5"]; ["xpl foo"; "mtu 6"]; ["xpl foo"; "end-list"]] c01_rwm_old in
   dev = [("xpl foo", T (leaves ["mtu 6"]))] /\ sim_b dev c01_rwm_new = false /\
   model_paths c01_ex_v c01_rwm_rules [] dev c01_rwm_new =
     Some [["xpl foo"]; ["xpl foo"; "ent 1"]; ["xpl foo"; "end-list"]]).
Proof. vm_compute. repeat split; reflexivity. Qed.
Print Assumptions C01_rewrite_mixed_refuted.

(* ====================================================================================================
   The SHIPPED rulebooks (coq/Gen/Src_rules.v: the texts the real provider renders for each canonical
   hardware string, as RAW lines; parsed in Coq by Model/ShippedText.v + Model/PatternT.v / PatternY.v).
   Matcher: the second language extension [ym] (Spec/P_Shipped.v), for which the generic pipeline models
   and the generic proofs (they hold for every matcher) are instantiated: [wf_A_y], [y_patch], [y_exec],
   [y_expected] are P_C01.wf_A, the patch of diff_and_patch, Device.exec and expected for that matcher.
   ==================================================================================================== *)
From Annet Require Import Model.PatternY Model.ShippedText Spec.P_Shipped Gen.Src_rules
     Proofs.ConvergeMainQ Proofs.ShippedRules Proofs.ShippedTables.

(* C01_shipped_order_sound.  The structural condition [shipped_cond] on (ordering rulebook, patching rule set):
   every rule of the rule set, at any depth, whose logic is undo_redo has a pattern the test [mkqb] accepts
   against the patterns of ALL %order_reverse rules of the ordering rulebook (any depth).  If the test is sound
   for the pattern model (an accepted pattern has no removal command that an %order_reverse pattern matches),
   then for ALL configurations old / new of the Tier-A domain the patch computed WITH that ordering rulebook -
   %order_reverse rules included - is computed without error and, executed on old, reaches expected(R, old, new);
   the state reached is again in the domain.  I.e. the conclusion of C01_expected without the hypothesis
   [order_ok]: only an undo_redo slot emits its removal together with its re-creation, and a removal that no
   %order_reverse rule matches keeps the key (-o, rule, false) <= (o', rule, true).
   Proof: Proofs/ConvergeMainQ.v (the induction of ConvergeMain.v with an abstract invariant in place of
   "no %order_reverse rule") + Proofs/ShippedRules.v (the invariant: get_order when no %order_reverse rule
   fires, merge_dicts of rule sets and the rules get_order hands down preserve the condition). *)
Theorem C01_shipped_order_sound :
  forall mkqb : string -> list string -> string -> bool,
  (forall prefix OR pp, mkqb prefix OR pp = true ->
     forall po key, In po OR -> ym po (format_template (make_reverse pp prefix) key) = None) ->
  forall v R ord, block_family (v_family v) = true -> shipped_cond (mkqb (v_reverse v)) ord R = true ->
  forall old new, wf_A_y v R old new = true ->
  exists pt, y_patch v R ord old new = POk pt /\
    let dev := y_exec v R (cmd_paths (v_family v) pt) old in
    sim dev (y_expected R old new) /\ ConvergeMain.good ym R (merge old new) dev.
Proof. exact shipped_converges. Qed.
Print Assumptions C01_shipped_order_sound.

(* ... for any matcher, any vendor constants (the statement the instantiation above comes from) *)
Theorem C01_order_invariant_sound :
  forall rmatch rsrc rrev block_exit rreverse is_exit,
  (is_empty block_exit = true \/ is_exit block_exit = true) ->
  forall (qb : string -> bool) (OR : list string),
  (forall pp, qb pp = true -> forall po key, In po OR -> rmatch po (rreverse pp key) = None) ->
  forall fam rs U fo fn ord,
  block_family fam = true -> (forall ex, In ex (family_exits fam) -> is_exit ex = true) ->
  ConvergeMain.uok rmatch rreverse is_exit rs U -> ConvergeMain.good rmatch rs U fo -> ConvergeMain.good rmatch rs U fn ->
  Qs qb OR rs ord ->
  exists pt, make_patch rmatch rsrc rrev block_exit rreverse (make_pre (make_diff rmatch rs fo fn)) ord = POk pt /\
    let dev := exec rmatch rreverse is_exit rs (cmd_paths fam pt) fo in
    sim dev (expected rmatch rs fo fn) /\ ConvergeMain.good rmatch rs U dev.
Proof. exact shipped_converge_exec. Qed.
Print Assumptions C01_order_invariant_sound.

(* C01_shipped_order_ok.  By computation over the finite table, re-checked whenever a rule text changes:
   (1) every shipped .rul / .order text is parsed by the model's parser (no %param validator raises);
   (2) with the literal-word test [lit_quiet] every shipped (ordering, patching) pair satisfies the condition;
   (3) with NO pattern test at all ([no_test]: the rule set has no undo_redo rule, or the ordering rulebook has
       no %order_reverse rule) every pair satisfies it except those of vendor huawei, whose rule file has
       undo_redo rules (through huawei.misc.undo_redo, whose body delegates to common.undo_redo: Src_logic_alias)
       and whose ordering file has 51 %order_reverse rules;
   (4) the table is not degenerate. *)
Theorem C01_shipped_order_ok :
  forallb (fun h => match shipped_rset h, shipped_ordering h with Some _, Some _ => true | _, _ => false end) Src_shipped = true /\
  forallb (shipped_entry_ok lit_quiet) Src_shipped = true /\
  forallb (fun h => is_huawei h || shipped_entry_ok no_test h) Src_shipped = true /\
  (existsb (fun h => negb (is_huawei h) && match shipped_orev h with [] => false | _ => true end) Src_shipped = true /\
   existsb (fun h => negb (is_huawei h) && match shipped_undo_redo h with [] => false | _ => true end) Src_shipped = true /\
   existsb (fun h => is_huawei h && match shipped_orev h, shipped_undo_redo h with _ :: _, _ :: _ => true | _, _ => false end) Src_shipped = true).
Proof. exact (conj shipped_all_compile (conj shipped_all_ok_lit (conj shipped_all_ok_notest shipped_nonvacuous))). Qed.
Print Assumptions C01_shipped_order_ok.

(* C01_shipped_converges.  Hence, with no hypothesis left, for every shipped rulebook pair that is not huawei's
   (cisco, nexus, iosxr with their %order_reverse rules; arista with its undo_redo rules; aruba, b4com, h3c,
   juniper, ribbon, nokia, routeros, pc, optixtrans), every block formatter family, ALL old / new of the
   Tier-A domain: the patch computed with the shipped ordering rulebook converges. *)
Theorem C01_shipped_converges :
  forall h, In h Src_shipped -> is_huawei h = false ->
  forall R ord fam, shipped_rset h = Some R -> shipped_ordering h = Some ord -> block_family fam = true ->
  let v := Vendor (sh_reverse h) (sh_exit h) fam in
  forall old new, wf_A_y v R old new = true ->
  exists pt, y_patch v R ord old new = POk pt /\
    let dev := y_exec v R (cmd_paths fam pt) old in
    sim dev (y_expected R old new) /\ ConvergeMain.good ym R (merge old new) dev.
Proof.
  intros h Hin Hh R ord fam HR HO Hf v old new Hw.
  assert (Hok : shipped_entry_ok no_test h = true).
  { pose proof shipped_all_ok_notest as H. rewrite forallb_forall in H. specialize (H h Hin). rewrite Hh in H. exact H. }
  apply (shipped_entry_converges no_test) with (h := h); auto.
  intros prefix OR pp H po key Hi. destruct OR; [destruct Hi | discriminate].
Qed.
Print Assumptions C01_shipped_converges.

(* ... and for huawei (CE, NE, "Huawei DC") under the one hypothesis that the literal-word test is sound for the
   pattern model.  RESOLVED at the end of this file: the hypothesis AS WRITTEN HERE is false for negation words that are
   not words (C01_lit_quiet_sound_statement_refuted), it is proved for every negation word without blank, `*`, `~`, braces
   (C01_lit_quiet_sound), and the conclusion below holds for ALL shipped pairs with no hypothesis (C01_shipped_converges_all).
   What was missing: the word-level reading of
   format_template (make_reverse pp prefix) key for the patterns of Model/PatternY.v (C07Y_reverse_statement is
   open; C07X_reverse covers the PatternX patterns) composed with C07Y_match_iff ("the i-th word of a matched row is
   the i-th literal of the pattern").  The check tests the hypothesis on the real regexps (evidence:
   shipped_rules.quiet_pairs_tested). *)
Definition C01_lit_quiet_sound_statement : Prop :=
  forall prefix OR pp, lit_quiet prefix OR pp = true ->
  forall po key, In po OR -> ym po (format_template (make_reverse pp prefix) key) = None.
Theorem C01_shipped_converges_partial :
  C01_lit_quiet_sound_statement ->
  forall h, In h Src_shipped ->
  forall R ord fam, shipped_rset h = Some R -> shipped_ordering h = Some ord -> block_family fam = true ->
  let v := Vendor (sh_reverse h) (sh_exit h) fam in
  forall old new, wf_A_y v R old new = true ->
  exists pt, y_patch v R ord old new = POk pt /\
    let dev := y_exec v R (cmd_paths fam pt) old in
    sim dev (y_expected R old new) /\ ConvergeMain.good ym R (merge old new) dev.
Proof.
  intros Hs h Hin R ord fam HR HO Hf v old new Hw.
  assert (Hok : shipped_entry_ok lit_quiet h = true).
  { pose proof shipped_all_ok_lit as H. rewrite forallb_forall in H. exact (H h Hin). }
  apply (shipped_entry_converges lit_quiet Hs h R ord fam Hok HR HO Hf old new Hw).
Qed.
Print Assumptions C01_shipped_converges_partial.

(* Stated, not proved: the literal form of the ordering condition (no removal after a direct command of its slot in
   the patch itself) under [shipped_cond].  What is proved above is what [order_ok] is FOR (convergence).  Missing:
   a fourth conjunct in the claim of Proofs/ConvergeMainQ.v (the per-slot lemma slot_all already gives "the items of
   an undo_redo slot are [removal; re-creation] in the sorted level"; the children need the run_added / run_removed /
   run_both lemmas to hand the conjunct up). *)
Definition C01_shipped_undo_first_statement : Prop :=
  forall mkqb : string -> list string -> string -> bool,
  (forall prefix OR pp, mkqb prefix OR pp = true ->
     forall po key, In po OR -> ym po (format_template (make_reverse pp prefix) key) = None) ->
  forall v R ord, block_family (v_family v) = true -> shipped_cond (mkqb (v_reverse v)) ord R = true ->
  forall old new, wf_A_y v R old new = true -> order_ok_y v R ord old new = true.

(* non-vacuity on a shipped pair: B4com (rule `sflow *`, default logic), one row replaced, one added, one unknown *)
Definition c01_sh_v := Vendor "no" "exit" (FBlockExit "exit").
Definition c01_sh_old : forest := [("sflow 1", T []); ("unknown thing", T [])].
Definition c01_sh_new : forest := [("sflow 2", T []); ("sflow 3", T [])].
Example C01_shipped_in_table : In hw_B4com Src_shipped.
Proof. unfold Src_shipped. cbn [In]. auto 20. Qed.
Example C01_shipped_converges_nonvacuous :
  is_huawei hw_B4com = false /\
  sh_reverse hw_B4com = "no" /\ sh_exit hw_B4com = "exit" /\
  match shipped_rset hw_B4com, shipped_ordering hw_B4com with
  | Some R, Some ord =>
    wf_A_y c01_sh_v R c01_sh_old c01_sh_new = true /\
    option_map (cmd_paths (FBlockExit "exit")) (match y_patch c01_sh_v R ord c01_sh_old c01_sh_new with POk p => Some p | PErr => None end)
      = Some [["no sflow 1"]; ["sflow 2"]; ["sflow 3"]]
  | _, _ => False
  end.
Proof. vm_compute. repeat split; reflexivity. Qed.

(* A limit of the Tier-A domain on shipped rulebooks, by example: huawei.rul, cisco.rul, arista.rul, aruba.rul and
   pc.rul end in the catch-all rules `<negation> ~ %global` and `~ %global`.  Every row, removal commands included,
   is then known to the rule set, and [univ_ok] ("the removal command of a known row is not matched by a rule")
   is false for every configuration with a known row: wf_A_y, hence every C01 theorem, says nothing there.  The
   device semantics would have to recognise a removal command before consulting the catch-all. *)
Definition c01_sh_hv := Vendor "undo" "quit" FHuawei.
Example C01_shipped_catchall_outside_domain :
  match shipped_rset hw_Huawei_CE6870 with
  | Some R =>
    option_map mi_raw (slot_of ym R "undo sysname") = Some "undo ~ %global" /\
    wf_A_y c01_sh_hv R [("sysname a", T [])] [("sysname b", T [])] = false
  | None => False
  end.
Proof. vm_compute. split; reflexivity. Qed.

(* ====================================================================================================
   The shipped witness search (Spec/P_C01s.v, harness/shipped_run.py): what the C01 check evaluates on real
   deployments computed with get_rulebook(hw) - for every shipped undo_redo rule a row that changes its text inside
   its key, below the block headers the rule needs.  The reference device is given the FOCUSED rule set (the chain
   of rules alone, headers with default logics): the catch-all of the example above is not in it, so these
   configurations ARE inside the Tier-A domain.  The two examples show the predicate at work on the chain
   `interface *` / `mtu` of huawei.rul (looked up by its pattern texts; vacuous if the text no longer has it):
   the command stream the real pipeline emits for mtu 1500 -> mtu 9000 satisfies every clause; the stream with the
   removal behind the re-creation (what an %order_reverse rule matching `undo mtu` produces) is inside the domain
   and fails order_ok, reaches, second_noop, second_empty.
   ==================================================================================================== *)
From Annet Require Import Spec.P_C01s.

Definition c01s_chain (h : shw) (pats : list string) : option (list nat) :=
  option_map (map fst) (find (fun p => list_str_eqb (map snd p) pats) (shipped_ur_paths h)).
Definition c01s_old : forest := [("interface 10", T [("mtu 1500", T [])])].
Definition c01s_new : forest := [("interface 10", T [("mtu 9000", T [])])].
Definition c01s_sk : skey := (ZFin 0, "", true).
Definition c01s_obs (paths : list (list string)) (pt : ptree) (dev : forest) (p2 : list (list string)) (d2 : bool)
  : option obs01s :=
  option_map (fun c => Obs01s "Huawei CE6870" c01_sh_hv c c01s_old c01s_new (Some pt) paths dev (Some p2) d2)
             (c01s_chain hw_Huawei_CE6870 ["interface *"; "mtu"]).

Example C01_shipped_witness_domain_nonvacuous :
  match c01s_obs [["interface 10"]; ["interface 10"; "undo mtu"]; ["interface 10"; "mtu 9000"]; ["interface 10"; "quit"]]
                 (PT [("interface 10", Some (PT [("undo mtu", None, c01s_sk); ("mtu 9000", None, c01s_sk);
                                                 ("quit", None, c01s_sk)]), c01s_sk)])
                 c01s_new [] true with
  | Some o => c1s_report o = (true, [true; true; true; true; true; true; true; true; true; true])
  | None => True
  end.
Proof. vm_compute. reflexivity. Qed.

Example C01_shipped_witness_detects_late_removal :
  match c01s_obs [["interface 10"]; ["interface 10"; "mtu 9000"]; ["interface 10"; "undo mtu"]; ["interface 10"; "quit"]]
                 (PT [("interface 10", Some (PT [("mtu 9000", None, c01s_sk); ("undo mtu", None, c01s_sk);
                                                 ("quit", None, c01s_sk)]), c01s_sk)])
                 [("interface 10", T [])]
                 [["interface 10"]; ["interface 10"; "mtu 9000"]; ["interface 10"; "quit"]] false with
  | Some o => c1s_report o = (false, [true; true; true; true; false; false; false; false; false; true])
  | None => True
  end.
Proof. vm_compute. reflexivity. Qed.

(* =============================================================================================
   %rewrite blocks as a whole, and the soundness of the literal-word test (added last; everything above is unchanged).
   ==================================================================================================== *)
From Annet Require Import Proofs.ConvergeRewriteBlock Proofs.ShippedLitQuiet.

(* C01_rewrite_block.  [C01_rewrite_block_statement] is a theorem: a block header present in old and new whose bodies are
   governed by %rewrite rules at EVERY depth, in the computable domain [wf_rw_block] (Spec/P_C01rw.v: the key determines the row
   on every level of the universe of the two bodies; the ordering rulebook gives the direct commands of one level one sort key;
   header rule not %rewrite, no %force_commit; block formatter family): the model of _diff_and_patch computes a patch - no
   AssertionError - and executing its command paths, path by path, on old yields new: EQUALITY OF FORESTS, rows in sequence at
   every depth; bodies of any depth and width.  In particular when the two bodies are equal the patch is empty, and the diff is
   cleared ONLY then.  Proof (Proofs/ConvergeRewriteBlock.v): the domain as a recursive proposition; scan_new of rewrite_diff
   yields one entry per row of new in new's order (REMOVED rows interleaved contribute nothing), so [built] of the body diff is
   new's body and its entries satisfy [dok] / [lvl] - which feeds C01_rewrite_patch_builds_partial -; an all-AFFECTED body diff
   forces equal rows at equal indices and no REMOVED row, recursively, i.e. equal bodies; the header entry is AFFECTED, every
   logic function yields its direct command, the header command finds its own slot with the same text and ENTERS it, Device.enter
   drops every child (all governed by %rewrite rules), the body patch rebuilds new's body; prows_ok of the patch gives
   cmd_paths = run_pt (C01_cmd_paths_follow_blocks). *)
Theorem C01_rewrite_block :
  forall v rs ordering old new, wf_rw_block v rs ordering old new = true ->
  exists pt, snd (diff_and_patch v rs ordering old new) = POk pt /\
             p_exec v rs (cmd_paths (v_family v) pt) old = new.
Proof. exact rewrite_block_model. Qed.
Print Assumptions C01_rewrite_block.

(* the flat case (leaf bodies) *)
Theorem C01_rewrite_flat :
  forall v rs ordering old new, wf_rw_flat v rs ordering old new = true ->
  exists pt, snd (diff_and_patch v rs ordering old new) = POk pt /\
             p_exec v rs (cmd_paths (v_family v) pt) old = new.
Proof. exact rewrite_flat_model. Qed.
Print Assumptions C01_rewrite_flat.

(* the two statements kept above as Definitions hold *)
Theorem C01_rewrite_statements_hold : C01_rewrite_block_statement /\ C01_rewrite_flat_statement.
Proof. split; [exact rewrite_block_model | exact rewrite_flat_model]. Qed.
Print Assumptions C01_rewrite_statements_hold.

(* ... hence, as dicts, the second run of the pipeline on the state reached sees equal configurations *)
Theorem C01_rewrite_block_sim :
  forall v rs ordering old new, wf_rw_block v rs ordering old new = true ->
  exists pt, snd (diff_and_patch v rs ordering old new) = POk pt /\
             sim (p_exec v rs (cmd_paths (v_family v) pt) old) new.
Proof.
  intros v rs ordering old new H. destruct (rewrite_block_model v rs ordering old new H) as (pt & Hp & He).
  exists pt. split; [exact Hp|]. rewrite He. apply sim_refl.
Qed.
Print Assumptions C01_rewrite_block_sim.

(* the two halves the block theorem is made of, for any matcher: [built] of the body diff is new's body (with [dok] / [lvl]),
   and the body diff is all-AFFECTED only if the bodies are equal *)
Theorem C01_rewrite_diff_builds :
  forall rmatch is_exit ln lo rs pop, rd rmatch is_exit rs lo ln -> pop_live pop ->
    let D := aff_to_moved (bd rmatch rs lo ln pop) in
    Forall (fun d => dok rmatch is_exit d rs) D /\ lvl D /\ flat_map built D = ln.
Proof. exact body_diff. Qed.
Print Assumptions C01_rewrite_diff_builds.
Theorem C01_rewrite_diff_cleared_only_if_equal :
  forall rmatch is_exit ln lo rs, rd rmatch is_exit rs lo ln -> all_affected (bd rmatch rs lo ln Affected) = true -> lo = ln.
Proof. exact body_cleared. Qed.
Print Assumptions C01_rewrite_diff_cleared_only_if_equal.

(* non-vacuity of the guards: the flat and the nested instance of C01_rewrite_block_examples, and an unchanged nested block;
   the conclusion of the theorem on the nested instance is re-evaluated (not the unbounded claim) *)
Example C01_rewrite_block_nonvacuous :
  wf_rw_flat c01_ex_v c01_rw_rules [] c01_rwf_old c01_rwf_new = true /\
  wf_rw_block c01_ex_v c01_rw_rules [] c01_rw_old c01_rw_new = true /\
  wf_rw_block c01_ex_v c01_rw_rules [] c01_rw_new c01_rw_new = true /\
  rw_dom pm (v_is_exit c01_ex_v) (rw_crs c01_rw_rules "xpl foo")
         (merge (kids (T [("a", T [("x", T []); ("y", T [])]); ("b", T []); ("c", T [])]))
                (kids (T [("c", T []); ("a", T [("y", T []); ("z", T []); ("x", T [])]); ("d", T [])]))) = true.
Proof. vm_compute. repeat split; reflexivity. Qed.

(* C01_lit_quiet_sound.  The literal-word test [lit_quiet] (Spec/P_Shipped.v) is sound for the pattern model for every
   negation word that is a word ([neg_word]: not empty, no white space, none of * ~ { }): if the test accepts the patching
   pattern pp against the patterns OR then NO removal command of pp - for any key - is matched by a pattern of OR.
   Proof (Proofs/ShippedLitQuiet.v): (A) the removal text format_template (make_reverse pp prefix) key of a pattern whose
   first word is the literal c <> prefix reads `prefix c ...` (or is empty when str.format raises), for every pattern of
   Model/PatternY.v - glued placeholders and special last words included - and every key ([C01_reverse_words]);
   (B) a row matched by a pattern whose first words are literals starts with those words ([C01_match_lit_words]). *)
Theorem C01_lit_quiet_sound :
  forall prefix, neg_word prefix = true ->
  forall OR pp, lit_quiet prefix OR pp = true ->
  forall po key, In po OR -> ym po (format_template (make_reverse pp prefix) key) = None.
Proof. exact lit_quiet_sound. Qed.
Print Assumptions C01_lit_quiet_sound.

Theorem C01_reverse_words :
  forall prefix pp c key, neg_word prefix = true -> lit_vec 1 pp = [LvLit c] -> c <> prefix ->
  words (format_template (make_reverse pp prefix) key) = [] \/
  exists rest, words (format_template (make_reverse pp prefix) key) = prefix :: c :: rest.
Proof. exact lit_vec_reverse_words. Qed.
Print Assumptions C01_reverse_words.

Theorem C01_match_lit_words :
  forall po row k a x, lit_vec 2 po = [LvLit a; x] -> ym po row = Some k ->
  exists rest, words row = a :: rest /\ (forall b, x = LvLit b -> exists rest', rest = b :: rest').
Proof. exact ym_lit_words. Qed.
Print Assumptions C01_match_lit_words.

(* C01_lit_quiet_sound_statement_refuted.  WITHOUT the hypothesis on the negation word the statement
   [C01_lit_quiet_sound_statement] is FALSE: the test never looks at the negation word.  Witness replayed on the real code
   (annet.rulebook.patching._make_reverse + rbparser.syntax.compile_row_regexp): negation word "c d" (a blank), patching
   pattern `c d c y`, ordering pattern `c y` - _make_reverse strips the leading "c d " and the removal command `c y` is
   matched by the ordering pattern; likewise negation word "*" (it becomes a placeholder filled from the key).  No vendor of
   the registry has such a negation word ([C01_shipped_neg_words]); this is a defect of the statement, not of annet. *)
Theorem C01_lit_quiet_sound_statement_refuted : ~ C01_lit_quiet_sound_statement.
Proof. exact lit_quiet_statement_false. Qed.
Print Assumptions C01_lit_quiet_sound_statement_refuted.
Example C01_lit_quiet_witnesses :
  lit_quiet_refuted "c d" ["c y"] "c d c y" "c y" [] /\ lit_quiet_refuted "*" ["x c"] "c" "x c" ["x"].
Proof. exact (conj lit_quiet_unsound_blank lit_quiet_unsound_star). Qed.

(* every shipped negation word is a word (by computation over Gen/Src_rules.v, re-checked on every run) *)
Theorem C01_shipped_neg_words : forallb (fun h => neg_word (sh_reverse h)) Src_shipped = true.
Proof. exact shipped_neg_words. Qed.
Print Assumptions C01_shipped_neg_words.

(* C01_shipped_converges_all.  The conclusion of C01_shipped_converges_partial with NO hypothesis left, for EVERY shipped
   (ordering, patching) pair - huawei's, with their undo_redo rules and 51 %order_reverse rules, included: every block
   formatter family, ALL old / new of the Tier-A domain: the patch computed with the shipped ordering rulebook is computed
   without error and, executed on old, reaches expected(R, old, new); the state reached is again in the domain.
   (The limit recorded in C01_shipped_catchall_outside_domain still applies: on rulebooks ending in a catch-all the Tier-A
   domain holds no configuration with a known row.) *)
Theorem C01_shipped_converges_all :
  forall h, In h Src_shipped ->
  forall R ord fam, shipped_rset h = Some R -> shipped_ordering h = Some ord -> block_family fam = true ->
  let v := Vendor (sh_reverse h) (sh_exit h) fam in
  forall old new, wf_A_y v R old new = true ->
  exists pt, y_patch v R ord old new = POk pt /\
    let dev := y_exec v R (cmd_paths fam pt) old in
    sim dev (y_expected R old new) /\ ConvergeMain.good ym R (merge old new) dev.
Proof. exact shipped_converges_lit. Qed.
Print Assumptions C01_shipped_converges_all.

(* non-vacuity: the guard of C01_lit_quiet_sound on huawei's negation word with a pattern pair the test accepts and one it
   rejects; a huawei pair is in the table and has both undo_redo and %order_reverse rules (C01_shipped_order_ok, last clause) *)
Example C01_lit_quiet_nonvacuous :
  neg_word "undo" = true /\
  lit_quiet "undo" ["undo mtu *"; "undo description"] "stp edged-port *" = true /\
  lit_quiet "undo" ["undo mtu *"] "mtu *" = false /\
  existsb is_huawei Src_shipped = true.
Proof. vm_compute. repeat split; reflexivity. Qed.

(* ==================================================================================================== W01b: begin
   %ORDERED RULES BEYOND THE FLAT CASE (Proofs/ConvergeOrdFrame.v, ConvergeOrdHeader.v, ConvergeOrdLevel.v,
   ConvergeOrdLevelTop.v; Spec/P_C01olvl.v).  Three results towards [C01_ordered_general_statement]; the hypothesis
   "no %ordered key changes its row text" is kept everywhere (open finding C01/ordered/retext-reorders).
   ==================================================================================================== *)
From Annet Require Import Spec.P_C01olvl Proofs.ConvergeOrdFrame Proofs.ConvergeOrdHeader Proofs.ConvergeOrdLevelTop.
From Annet Require Proofs.ConvergeOrdLevel.   (* not imported: its section-local names (P, q, g, rel, ...) stay qualified *)

(* C01_ordered_frame.  THE FRAME RULE ON SEQUENCES (what C01_exec_commute gives for the dict reading only).  On a level of
   the reference device of ANY shape - rows of %ordered rules mixed with rows of other rules and rows no rule knows, rows
   with bodies, patch items with children - with unambiguous removal commands ([lvl_ok]) and "the key determines the row"
   for %ordered slots ([okr]): running ANY list of patch items tagged by [otag] (a direct command of an %ordered slot is
   the list machine's direct command, the removal command of an %ordered slot its removal, every item of another slot
   nothing) changes the sequence of the %ordered rows of the level exactly as the list machine of C01_ordered_machine
   run on the commands of the %ordered slots; commands of other slots and everything executed inside blocks do not
   change the relative order of the %ordered rows.  Every Tier-A patch item has a tag ([C01_ordered_frame_total]). *)
Theorem C01_ordered_frame :
  forall rmatch rreverse is_exit rs U, lvl_ok rmatch rreverse is_exit rs U -> okr rmatch rs U ->
  forall items css f, Forall2 (otag rmatch rreverse rs U) items css -> lgood rmatch rs U f ->
    ord_seq rmatch rs (fold_left (fun a i => run_item rmatch rreverse is_exit rs i a) items f) =
    fold_left lstep (List.concat css) (ord_seq rmatch rs f) /\
    lgood rmatch rs U (fold_left (fun a i => run_item rmatch rreverse is_exit rs i a) items f).
Proof. exact frame_seq. Qed.
Print Assumptions C01_ordered_frame.

Theorem C01_ordered_frame_total :
  forall rmatch rreverse rs U i, uitem rmatch rreverse rs U i -> exists c, otag rmatch rreverse rs U i c.
Proof. exact uitem_otag. Qed.
Print Assumptions C01_ordered_frame_total.

(* ... composed with the list machine: a patch whose %ordered commands satisfy the machine's three conditions turns the
   %ordered sequence P ++ M of a level into P ++ D, whatever else it does on the level *)
Theorem C01_ordered_frame_machine :
  forall rmatch rreverse is_exit rs U, lvl_ok rmatch rreverse is_exit rs U -> okr rmatch rs U ->
  forall (P M D : list string) items css f,
    Forall2 (otag rmatch rreverse rs U) items css -> lgood rmatch rs U f -> ord_seq rmatch rs f = (P ++ M)%list ->
    NoDup (P ++ M)%list -> NoDup (P ++ D)%list -> dirs (List.concat css) = D ->
    (forall r, In (false, r) (List.concat css) -> In r M) -> (forall r, In r M -> In (false, r) (List.concat css)) ->
    (forall l1 r l2, List.concat css = (l1 ++ (true, r) :: l2)%list -> ~ In (false, r) l2) ->
    ord_seq rmatch rs (fold_left (fun a i => run_item rmatch rreverse is_exit rs i a) items f) = (P ++ D)%list.
Proof. intros rmatch rreverse is_exit rs U HU Hk P M D items css f. apply frame_machine; assumption. Qed.
Print Assumptions C01_ordered_frame_machine.

(* C01_ordered_block_header.  The header step, for ANY body: old = [(h, T bo)], new = [(h, T bn)], h governed by a rule with
   default diff logic and default logic (no %force_commit, no exit word, no %rewrite child in bo).  If the patch of the
   bodies, computed with the ordering rules get_order hands down for h ([ord_below]), turns bo into bn, then the patch of
   the blocks turns old into new: the diff has one AFFECTED (or UNCHANGED) entry whose children are the bodies' diff, the
   patch one block item, the device enters the block and runs the child patch inside.  EQUALITY OF FORESTS. *)
Theorem C01_ordered_block_header :
  forall rmatch rsrc rrev block_exit rreverse is_exit fam,
  block_family fam = true -> (forall ex, In ex (family_exits fam) -> is_exit ex = true) ->
  forall rs h mh crs, match_row rmatch h rs = Some (mh, crs) ->
  mi_dlogic mh = DDefault -> a_logic (mi_attrs mh) = LDefault -> a_force_commit (mi_attrs mh) = false -> is_exit h = false ->
  forall bo bn, enter rmatch crs bo = bo ->
  forall ord ct,
    make_patch rmatch rsrc rrev block_exit rreverse (make_pre (make_diff rmatch crs bo bn))
               (ord_below rmatch rsrc rrev block_exit h ord) = POk ct ->
    prows_ok is_exit ct -> exec rmatch rreverse is_exit crs (cmd_paths fam ct) bo = bn ->
  exists pt, make_patch rmatch rsrc rrev block_exit rreverse (make_pre (make_diff rmatch rs [(h, T bo)] [(h, T bn)])) ord = POk pt /\
             prows_ok is_exit pt /\
             exec rmatch rreverse is_exit rs (cmd_paths fam pt) [(h, T bo)] = [(h, T bn)].
Proof. exact header_converges. Qed.
Print Assumptions C01_ordered_block_header.

(* C01_ordered_below_headers.  An %ordered level of leaves BELOW A CHAIN OF BLOCK HEADERS of any length: old = wrap hs bo,
   new = wrap hs bn (h1 { h2 { ... { the level } } }), in the computable domain [wf_ord_chain] (Proofs/ConvergeOrdHeader.v: every
   header as in C01_ordered_block_header, the level in [wf_ord_flat] for the child rule set and the ordering rules handed
   down along the chain): the patch is computed and executing the model's command paths on old yields new - EQUAL AS A
   FOREST, the rows of the level in new's sequence.  (hs = []: C01_ordered_flat.) *)
Theorem C01_ordered_below_headers :
  forall v hs rs ordering bo bn, wf_ord_chain v rs ordering hs bo bn = true ->
  exists pt, snd (diff_and_patch v rs ordering (wrap hs bo) (wrap hs bn)) = POk pt /\
             p_exec v rs (cmd_paths (v_family v) pt) (wrap hs bo) = wrap hs bn.
Proof. exact ordered_chain_model. Qed.
Print Assumptions C01_ordered_below_headers.

Definition c01_oh_rules : rset :=
  ([PRule "acl *" false (Attrs "acl *" LDefault DDefault true false)
      [PRule "section *" false (Attrs "section *" LDefault DDefault true false)
         [PRule "entry * %ordered" false (Attrs "entry *" LOrdered DOrdered false false) [] []] []] []], []).
Example C01_ordered_below_headers_nonvacuous :
  wf_ord_chain c01_ex_v c01_oh_rules [] ["acl a"; "section s"] c01_of_old c01_of_new = true /\
  model_paths c01_ex_v c01_oh_rules [] (wrap ["acl a"; "section s"] (leaves ["entry 1"; "entry 2 a"; "entry 3"]))
                                        (wrap ["acl a"; "section s"] (leaves ["entry 3"; "entry 1"])) =
    Some [["acl a"]; ["acl a"; "section s"]; ["acl a"; "section s"; "undo entry 3"]; ["acl a"; "section s"; "undo entry 1"];
          ["acl a"; "section s"; "undo entry 2"]; ["acl a"; "section s"; "entry 3"]; ["acl a"; "section s"; "entry 1"];
          ["acl a"; "section s"; "quit"]; ["acl a"; "quit"]].
Proof. vm_compute. split; reflexivity. Qed.

(* C01_ordered_level_seq_partial.  A level of ANY shape: rows of one %ordered rule MIXED with rows of rules with the default
   diff logic and any of the six logics and with rows no rule knows; ALL rows may have BODIES of any depth governed by any
   rules.  In the computable domain [wf_ord_level] (Spec/P_C01olvl.v: unambiguous removal commands, the key determines
   the row of the %ordered rule, [order_ok_o], a patch without repeated rows): the patch is computed and, executed on old,
   leaves the rows of the %ordered rule in the SEQUENCE new holds them.
   Proof: Proofs/ConvergeOrdLevel.v - base_diff does not look at subtrees, so the %ordered entries of the diff are, up to
   children, the flat diff of the two sequences; make_pre groups them in that order; every other slot yields only direct
   commands of its own rows and its own removal command, for any logic; the stable sort commutes with the projection on the
   %ordered slots; blocks that stay in front and are entered are no-ops of the list machine; then C01_ordered_frame and
   C01_ordered_machine.
   PARTIAL with respect to [C01_ordered_general_statement]: (a) the sequence clause is proved for the level itself, not for
   the levels below rows both configurations hold ([seq_agree] recurses); (b) the dict clause sim (prune dev) (prune expected)
   is not proved for levels with %ordered rows.  Missing for both: the patch computed from the diff below a MOVED row (ops
   Moved / Added / Removed at every depth: C03_moved_all_depths), executed in the freshly re-created EMPTY block, rebuilds new's
   body - the slot-by-slot induction of Proofs/ConvergeMain.v with the device state [] in place of old's body (its claim
   covers pop = Affected / Added / Removed only). *)
Theorem C01_ordered_level_seq_partial :
  forall v rs ordering old new, wf_ord_level v rs ordering old new = true ->
  exists pt, snd (diff_and_patch v rs ordering old new) = POk pt /\
             p_ord_seq rs (p_exec v rs (cmd_paths (v_family v) pt) old) = p_ord_seq rs new.
Proof. exact ordered_level_model. Qed.
Print Assumptions C01_ordered_level_seq_partial.

(* ... for any matcher, stated on the patch tree *)
Theorem C01_ordered_level_seq_any_matcher :
  forall rmatch rsrc rrev block_exit rreverse is_exit rs UF,
  lvl_ok rmatch rreverse is_exit rs UF -> okr rmatch rs UF -> forall R aR, ConvergeOrdLevel.odom rmatch rs UF R aR ->
  forall fo fn, rows_in UF fo -> rows_in UF fn -> NoDup (keys fo) -> NoDup (keys fn) ->
  forall ord pt, make_patch rmatch rsrc rrev block_exit rreverse (make_pre (make_diff rmatch rs fo fn)) ord = POk pt ->
  lvl_uniq rmatch rs fo -> undo_first_b rmatch rreverse pt rs = true -> ord_keys_ok_b rmatch pt rs = true ->
  ord_seq rmatch rs (run_pt rmatch rreverse is_exit pt rs fo) = ord_seq rmatch rs fn.
Proof. exact ConvergeOrdLevel.level_seq. Qed.
Print Assumptions C01_ordered_level_seq_any_matcher.

(* non-vacuity: %ordered blocks with bodies (one entered in front, two moved, one added), a default rule, a permanent rule, an
   unknown row on one level; the guards of C01_ordered_frame hold of its universe *)
Definition c01_ol_rules : rset :=
  ([PRule "entry * %ordered" false (Attrs "entry *" LOrdered DOrdered true false)
      [PRule "mtu *" false (Attrs "mtu *" LDefault DDefault false false) [] []] [];
    PRule "hostname *" false (Attrs "hostname *" LDefault DDefault false false) [] [];
    PRule "vlan * %logic=common.permanent" false (Attrs "vlan *" LPermanent DDefault false false) [] []], []).
Definition c01_ol_old : forest :=
  [("entry 1", T [("mtu 5", T [])]); ("hostname a", T []); ("entry 2", T []); ("unknown x", T []);
   ("entry 3", T [("mtu 7", T [])]); ("vlan 10", T [])].
Definition c01_ol_new : forest :=
  [("entry 1", T [("mtu 6", T [])]); ("entry 3", T [("mtu 7", T [])]); ("hostname b", T []); ("entry 4", T []);
   ("entry 2", T [("mtu 9", T [])])].
Example C01_ordered_level_nonvacuous :
  wf_ord_level c01_ex_v c01_ol_rules [] c01_ol_old c01_ol_new = true /\
  model_paths c01_ex_v c01_ol_rules [] c01_ol_old c01_ol_new =
    Some [["undo entry 3"]; ["undo entry 2"]; ["entry 1"]; ["entry 1"; "undo mtu 5"]; ["entry 1"; "mtu 6"]; ["entry 1"; "quit"];
          ["entry 3"]; ["entry 3"; "mtu 7"]; ["entry 3"; "quit"]; ["entry 4"]; ["entry 4"; "quit"]; ["entry 2"];
          ["entry 2"; "mtu 9"]; ["entry 2"; "quit"]; ["undo hostname a"]; ["hostname b"]] /\
  p_ord_seq c01_ol_rules c01_ol_old = ["entry 1"; "entry 2"; "entry 3"] /\
  p_ord_seq c01_ol_rules c01_ol_new = ["entry 1"; "entry 3"; "entry 4"; "entry 2"] /\
  lvl_ok_b c01_ex_v c01_ol_rules (keys c01_ol_old ++ keys c01_ol_new)%list = true.
Proof. vm_compute. repeat split; reflexivity. Qed.
Example C01_ordered_frame_nonvacuous :
  lvl_ok pm (prreverse c01_ex_v) (v_is_exit c01_ex_v) c01_ol_rules (c01_ol_old ++ c01_ol_new)%list /\
  okr pm c01_ol_rules (c01_ol_old ++ c01_ol_new)%list.
Proof.
  assert (H : lvl_ok_b c01_ex_v c01_ol_rules (keys c01_ol_old ++ keys c01_ol_new)%list = true) by (vm_compute; reflexivity).
  assert (E : keys (c01_ol_old ++ c01_ol_new)%list = (keys c01_ol_old ++ keys c01_ol_new)%list) by reflexivity.
  split; [exact (guard_lvl_ok _ _ _ H _ E) | exact (guard_okr _ _ _ H _ E)].
Qed.

(* C01_ordered_block_header_runs.  The header step with NO assumption on what the body's patch does: the block ends with the
   body the child patch builds (C01_ordered_block_header is the case "... builds bn"); this is what carries the SEQUENCE
   reading of a level below block headers. *)
Theorem C01_ordered_block_header_runs :
  forall rmatch rsrc rrev block_exit rreverse is_exit fam,
  block_family fam = true -> (forall ex, In ex (family_exits fam) -> is_exit ex = true) ->
  forall rs h mh crs, match_row rmatch h rs = Some (mh, crs) ->
  mi_dlogic mh = DDefault -> a_logic (mi_attrs mh) = LDefault -> a_force_commit (mi_attrs mh) = false -> is_exit h = false ->
  forall bo bn, enter rmatch crs bo = bo ->
  forall ord ct,
    make_patch rmatch rsrc rrev block_exit rreverse (make_pre (make_diff rmatch crs bo bn))
               (ord_below rmatch rsrc rrev block_exit h ord) = POk ct ->
    prows_ok is_exit ct ->
  exists pt, make_patch rmatch rsrc rrev block_exit rreverse (make_pre (make_diff rmatch rs [(h, T bo)] [(h, T bn)])) ord = POk pt /\
             prows_ok is_exit pt /\
             exec rmatch rreverse is_exit rs (cmd_paths fam pt) [(h, T bo)] = [(h, T (run_pt rmatch rreverse is_exit ct crs bo))].
Proof. exact header_runs. Qed.
Print Assumptions C01_ordered_block_header_runs.

(* C01_ordered_level_below_headers_seq_partial.  A level of ANY shape (as in C01_ordered_level_seq_partial) BELOW A CHAIN OF
   BLOCK HEADERS of any length, in the computable domain [wf_ord_level_below] (headers as in C01_ordered_block_header; the
   level in [wf_ord_level] for the child rule set [chain_rs] and the ordering rules [chain_ord] handed down along the chain):
   the patch is computed; executed on old the device is wrap hs body, and the rows of the %ordered rule in body are in the
   SEQUENCE of new's level.  PARTIAL in the same sense as C01_ordered_level_seq_partial. *)
Theorem C01_ordered_level_below_headers_seq_partial :
  forall v hs rs ordering bo bn, wf_ord_level_below v rs ordering hs bo bn = true ->
  exists pt body, snd (diff_and_patch v rs ordering (wrap hs bo) (wrap hs bn)) = POk pt /\
                  p_exec v rs (cmd_paths (v_family v) pt) (wrap hs bo) = wrap hs body /\
                  p_ord_seq (chain_rs rs hs) body = p_ord_seq (chain_rs rs hs) bn.
Proof. exact ordered_level_below_model. Qed.
Print Assumptions C01_ordered_level_below_headers_seq_partial.

Definition c01_olh_rules : rset :=
  ([PRule "acl *" false (Attrs "acl *" LDefault DDefault true false) (fst c01_ol_rules) []], []).
Example C01_ordered_level_below_headers_nonvacuous :
  wf_ord_level_below c01_ex_v c01_olh_rules [] ["acl a"] c01_ol_old c01_ol_new = true /\
  match model_paths c01_ex_v c01_olh_rules [] (wrap ["acl a"] c01_ol_old) (wrap ["acl a"] c01_ol_new) with
  | Some ps => p_exec c01_ex_v c01_olh_rules ps (wrap ["acl a"] c01_ol_old) =
               [("acl a", T [("entry 1", T [("mtu 6", T [])]); ("unknown x", T []); ("vlan 10", T []);
                             ("entry 3", T [("mtu 7", T [])]); ("entry 4", T []); ("entry 2", T [("mtu 9", T [])]);
                             ("hostname b", T [])])]
  | None => False
  end.
Proof. vm_compute. split; reflexivity. Qed.
(* ==================================================================================================== W01b: end *)
