(* C03: the reconstruction of a side from the diff and the OTHER configuration, for rulebooks WITH %rewrite rules.
   rewrite_diff omits a %rewrite group that is unchanged at every depth; the rows it contributes are therefore not
   in the diff and are taken from the other configuration: [recon drop other d] = the projection of d (entries with
   op [drop] removed, rows and nesting kept) plus, on every level, the rows of %rewrite rules of [other] that the
   diff does not mention, with their whole subtrees. *)
From Coq Require Import List String Bool Arith.
From Annet Require Import Base.Str Base.Tree Model.Rulebook Model.Diff Spec.P_C03.
Import ListNotations.
Open Scope string_scope.
Open Scope list_scope.

Fixpoint recon_n (drop : op) (other : aforest) (d : dnode) {struct d} : forest :=
  match d with
  | DN o row _ kids =>
    if op_eqb o drop then []
    else let sub := asub_of other row in
         [(row, T (flat_map (recon_n drop sub) kids ++
                   erase_f (filter (fun k => dlogic_eqb (mi_dlogic (ami k)) DRewrite &&
                                             negb (existsb (fun x => String.eqb (d_row x) (arow k)) kids)) sub)))]
  end.
Definition recon (drop : op) (other : aforest) (d : list dnode) : forest :=
  flat_map (recon_n drop other) d ++
  erase_f (filter (fun k => dlogic_eqb (mi_dlogic (ami k)) DRewrite &&
                            negb (existsb (fun x => String.eqb (d_row x) (arow k)) d)) other).
