(* C14 — refs_defined: what is stated.

   Reading of the rows is the one of Spec/P_C14.v (Model.Rpl.alpha / refs / defs: the very
   functions evaluated on the real generators' output by P_refs).

     policy_rows   rows the policy generator streams (also when it stops with an error)
     lists_rows    rows of the list generators of the vendor fed the same inputs
     lists_ok      none of them raised

   cond_uses / act_uses is the short declarative reading of "the named lists a condition /
   an action refers to on this vendor", with the names derived by Model.Rpl.pfx_name
   (PrefixListNameGenerator.get_prefix(...).name) and Model.Rpl.mangle
   (mangle_united_community_list_name), both compared with the real functions on every run
   (Spec/P_C14x.names_agree). *)
From Coq Require Import List String Ascii Bool Arith.
From Annet Require Import Base.Str Model.Rpl Spec.P_C14.
Import ListNotations.
Open Scope string_scope.
Open Scope list_scope.

Definition refs1 (v : vendor) (toks : row) : list (ns * string) :=
  match alpha v toks with
  | AR _ (Some (n, false)) names => map (fun x => (n, x)) names
  | _ => []
  end.
Definition defs1 (v : vendor) (toks : row) : list (ns * string) :=
  match alpha v toks with
  | AR _ (Some (n, true)) names => map (fun x => (n, x)) names
  | _ => []
  end.

Definition rows_of (o : gout) : list row := map r_toks (fst o).

Definition policy_rows (fx : fixes) (v : vendor) (g : prog) : list row :=
  rows_of (emit_policies fx v (g_env g) 0 (g_policies g)).

Definition list_gens (v : vendor) (g : prog) : list gout :=
  let e := g_env g in
  let ps := g_policies g in
  match v with
  | Huawei => [prefix_gen Huawei e ps; hw_comm_gen e ps; plain (aspath_gen Huawei e ps); plain (rd_gen e ps)]
  | Arista => [prefix_gen Arista e ps; ar_comm_gen e ps; plain (aspath_gen Arista e ps)]
  | Cumulus => [prefix_gen Cumulus e ps; plain (cu_comm_gen e ps); plain (aspath_gen Cumulus e ps)]
  end.
Definition gout_ok (o : gout) : bool := match snd o with None => true | Some _ => false end.
Definition lists_ok (v : vendor) (g : prog) : bool := forallb gout_ok (list_gens v g).
Definition lists_rows (v : vendor) (g : prog) : list row := flat_map rows_of (list_gens v g).

(* ------------------------------------------------------------------ declarative uses *)

Definition comm_ns (v : vendor) (f : cfield) : ns :=
  match v, f with
  | _, FCommunity => NsComm
  | _, FLarge => NsLarge
  | Huawei, FExtRt => NsExtRt
  | Huawei, FExtSoo => NsExtSoo
  | _, _ => NsExt
  end.
Definition pfx_ns (v6 : bool) : ns := if v6 then NsPfx6 else NsPfx4.

Definition cond_uses (v : vendor) (e : env) (c : cond) : list (ns * string) :=
  match c with
  | CComm f o names =>
    match v, o with
    | Huawei, _ => map (fun n => (comm_ns v f, n)) names
    | _, HAS_ANY => [(comm_ns v f, mangle names)]
    | _, _ => map (fun n => (comm_ns v f, n)) names
    end
  | CPrefix v6 names ge le => map (fun n => (pfx_ns v6, pfx_name n ge le)) names
  | CAsFilter n => [(NsAsPath, n)]
  | CRd _ names =>
    match v, names with
    | Huawei, [n] => match find_rd e n with Some r => [(NsRd, nat_to_str (rd_number r))] | None => [] end
    | _, _ => []
    end
  | _ => []
  end.

Definition oflat (o : option (list string)) : list string := match o with Some l => l | None => [] end.

Definition act_uses (v : vendor) (a : action) : list (ns * string) :=
  match v, a with
  | Huawei, AComm AFCommunity _ _ removed => map (fun n => (NsComm, n)) removed
  | Huawei, AComm AFExtRt _ _ removed => map (fun n => (NsExtRt, n)) removed
  | Arista, AComm AFCommunity replaced added _ => map (fun n => (NsComm, n)) (oflat replaced ++ added)
  | Arista, AComm AFLarge replaced added removed => map (fun n => (NsLarge, n)) (oflat replaced ++ added ++ removed)
  | Cumulus, AComm AFCommunity _ _ removed => map (fun n => (NsComm, n)) removed
  | _, _ => []
  end.

Definition prog_uses (v : vendor) (g : prog) : list (ns * string) :=
  flat_map (fun st => flat_map (cond_uses v (g_env g)) (s_match st) ++ flat_map (act_uses v) (s_then st))
           (all_stmts (g_policies g)).

(* ------------------------------------------------------------------ guards *)

(* Arista only: three command words that the reading of a row cannot tell from a name:
   a list called "regexp" (ip community-list regexp NAME), a community VALUE spelled
   "community-list" (set community <values> delete). *)
Definition reserved : list string := ["regexp"; "community-list"].
Definition word_free (w : string) : bool := negb (mem w reserved).

Definition reserved_ok (v : vendor) (g : prog) : bool :=
  match v with
  | Arista =>
    forallb (fun u => word_free (fst u)) (all_unions (g_policies g)) &&
    forallb (fun c => forallb word_free (cl_members c)) (e_cl (g_env g))
  | _ => true
  end.

(* Arista / Cumulus: the dictionary of used (united) lists is keyed by the mangled name; two
   different unions under one key (a list literally called "A_OR_B" next to HAS_ANY(A, B))
   overwrite each other.  Excluded here, refuted separately. *)
Definition list_eqb_str := list_str_eqb.
Definition unions_functional (ps : list policy) : bool :=
  let us := all_unions ps in
  forallb (fun u => forallb (fun w => negb (String.eqb (fst u) (fst w)) || list_str_eqb (snd u) (snd w)) us) us.

Definition refs_guard (v : vendor) (g : prog) : bool :=
  reserved_ok v g && match v with Huawei => true | _ => unions_functional (g_policies g) end.

(* what the theorem needs of wf_prog: references resolve, are type-correct, the lists have members, a
   derived prefix-list name serves one address family.  Entity names need NOT be unique (the generators
   keep entities in a dict keyed by name: the last one wins, and so does find_cl etc. of Model.Rpl). *)
Definition wf_refs (g : prog) : bool :=
  let e := g_env g in
  forallb (fun st => forallb (wf_cond e) (s_match st) && forallb (wf_action e) (s_then st))
          (all_stmts (g_policies g)) &&
  families_ok (g_policies g).

(* the statement *)
Definition refs_defined (fx : fixes) (v : vendor) (g : prog) : bool :=
  subset_refs (refs v (policy_rows fx v g)) (defs v (lists_rows v g)).
