(* C20: results are independent of processing history and inputs are left unmodified.

   The declarative reference is one line: the result of a job is what the job computes in a
   process that has never processed anything (`fresh`), and every object the caller handed
   in (old, new, the compiled rulebook, the static part of the compiled ACLs) is afterwards
   what it was before.  P_C20 states this of the OBSERVED behaviour of the real code: a
   sequence of jobs run in one process (`jo_seq`, snapshots before/after each call) against
   each job run alone in a fresh process (`jo_fresh`, `jo_spawn`). *)
From Coq Require Import List String Ascii Bool Arith ZArith.
From Annet Require Import Base.Str Base.Tree Model.Pattern Model.Rulebook Model.Diff Model.Order
     Model.Patch Model.Blocks Model.Pipeline Model.Frame.
Import ListNotations.
Open Scope string_scope.
Open Scope list_scope.

(* what a caller gets from _diff_and_patch + Orderer.order_config: canonical form *)
Record rres := RRes {
  rr_diff : list dnode;              (* stripped diff: op, row, governing rule, key, nesting, order *)
  rr_patch : option ptree;           (* patch rows with nesting and order; None = exception *)
  rr_err : string;                   (* "" or the exception class *)
  rr_ordered : option forest         (* order_config(new) *)
}.

Definition opt_forest_eqb (a b : option forest) : bool :=
  match a, b with Some x, Some y => forest_eqb x y | None, None => true | _, _ => false end.
Definition opt_ptree_eqb20 (a b : option ptree) : bool :=
  match a, b with Some x, Some y => ptree_eqb x y | None, None => true | _, _ => false end.

Definition rres_eqb (a b : rres) : bool :=
  diff_eqb (rr_diff a) (rr_diff b) && opt_ptree_eqb20 (rr_patch a) (rr_patch b) &&
  String.eqb (rr_err a) (rr_err b) && opt_forest_eqb (rr_ordered a) (rr_ordered b).

(* the job as the harness posed it: the model's job for synthetic rulebooks (None for a shipped
   rulebook, which the model does not describe), and the trees handed in *)
Record jin := JIn { ji_job : option job; ji_old : forest; ji_new : forest }.

Definition cells_eqb (a b : list cell) : bool :=
  Nat.eqb (List.length a) (List.length b) && forallb (fun p => cell_eqb (fst p) (snd p)) (combine a b).

(* one job of a sequence as observed on the real code *)
Record jobs20 := JObs {
  jo_seq : rres;                       (* result inside the sequence (one process for all jobs) *)
  jo_fresh : rres;                     (* the same job alone in a process forked from the pristine state *)
  jo_spawn : option rres;              (* the same job alone in a newly started interpreter *)
  jo_old_before : forest; jo_old_after : forest;
  jo_new_before : forest; jo_new_after : forest;
  jo_rb_before : string; jo_rb_after : string;        (* digest of the deep snapshot of the rulebook *)
  jo_acl_before : string; jo_acl_after : string;      (* compiled ACLs without the scratch field *)
  jo_cells_before : list cell; jo_cells_after : list cell   (* synthetic rulebooks: the rule dictionaries *)
}.

(* the clauses of the property *)
Definition c20_history (i : jin) (o : jobs20) : bool := rres_eqb (jo_seq o) (jo_fresh o).
Definition c20_spawn (i : jin) (o : jobs20) : bool :=
  match jo_spawn o with Some r => rres_eqb (jo_fresh o) r | None => true end.
Definition c20_inputs (i : jin) (o : jobs20) : bool :=
  forest_eqb (jo_old_before o) (ji_old i) && forest_eqb (jo_old_after o) (ji_old i) &&
  forest_eqb (jo_new_before o) (ji_new i) && forest_eqb (jo_new_after o) (ji_new i).
Definition c20_rulebook (i : jin) (o : jobs20) : bool :=
  String.eqb (jo_rb_before o) (jo_rb_after o) && cells_eqb (jo_cells_before o) (jo_cells_after o).
Definition c20_acl_static (i : jin) (o : jobs20) : bool := String.eqb (jo_acl_before o) (jo_acl_after o).

Definition job_ok (i : jin) (o : jobs20) : bool :=
  c20_history i o && c20_spawn i o && c20_inputs i o && c20_rulebook i o && c20_acl_static i o.

Definition seq20 := (list jin * list jobs20)%type.

Definition all2 (f : jin -> jobs20 -> bool) (c : seq20) : bool :=
  Nat.eqb (List.length (fst c)) (List.length (snd c)) &&
  forallb (fun p => f (fst p) (snd p)) (combine (fst c) (snd c)).

Definition P_C20 (c : seq20) : bool := all2 job_ok c.

(* the same synthetic rulebook text compiles to the same cells wherever it occurs in the sequence *)
Definition first_cells_stable (c : seq20) : bool :=
  forallb (fun p => let '(i, o) := p in
                    match ji_job i with
                    | Some j => cells_eqb (jo_cells_before o) (snd (job_compiled j))
                    | None => true
                    end) (combine (fst c) (snd c)).

(* ---------------------------------------------------------------- model vs implementation *)

Definition presult_agrees (m : presult) (r : rres) : bool :=
  match m, rr_patch r with
  | POk a, Some b => ptree_eqb a b
  | PErr, None => String.eqb (rr_err r) "AssertionError"
  | _, _ => false
  end.

Definition obs_agrees (m : obs) (o : jobs20) : bool :=
  presult_agrees (ob_patch m) (jo_seq o) &&
  (match ob_patch m with PErr => true | POk _ => diff_eqb (ob_diff m) (rr_diff (jo_seq o)) end) &&
  opt_forest_eqb (Some (ob_ordered m)) (rr_ordered (jo_seq o)) &&
  forest_eqb (ob_old_after m) (jo_old_after o) && forest_eqb (ob_new_after m) (jo_new_after o) &&
  cells_eqb (ob_cells_after m) (jo_cells_after o).

(* The model runs the synthetic jobs of the sequence, in order, from the empty store (jobs on a
   shipped rulebook use other cache keys and touch none of the modelled objects). *)
Definition synth_pairs (c : seq20) : list (job * jobs20) :=
  flat_map (fun p => match ji_job (fst p) with Some j => [(j, snd p)] | None => [] end)
           (combine (fst c) (snd c)).

Definition agree_C20 (F : frames) (c : seq20) : bool :=
  let ps := synth_pairs c in
  let model := fst (run_jobs F gd_plain empty_store (map fst ps)) in
  Nat.eqb (List.length model) (List.length ps) &&
  forallb (fun p => obs_agrees (fst p) (snd p)) (combine model (map snd ps)).

(* the result part of a model observation, for the statements of Properties/C20.v *)
Definition result_of (o : obs) : list dnode * presult * forest := (ob_diff o, ob_patch o, ob_ordered o).

(* every %logic function of the repository that assigns to rule[...] is one of the modelled
   writers and writes only modelled fields *)
Definition match_writers_covered (ws : list rule_writer) : bool :=
  forallb (fun w : rule_writer => forallb (fun f => existsb (String.eqb f) modelled_match_fields) (snd w)) ws.
Definition writers_covered (ws : list rule_writer) : bool :=
  forallb (fun w : rule_writer =>
             existsb (String.eqb (fst w)) modelled_writers &&
             forallb (fun f => existsb (String.eqb f) modelled_fields) (snd w)) ws.

(* Frame.v against Pipeline.v: a job without ACL, comments and rule-writing logics is
   diff_and_patch of the pipeline model *)
Fixpoint plain_rule (s : srule) : bool :=
  match s with
  | SRule _ _ _ w _ dm kl kg =>
    match w with None => true | Some _ => false end && match dm with None => true | Some _ => false end &&
    (fix go (l : list srule) := match l with [] => true | x :: t => plain_rule x && go t end) kl &&
    (fix go (l : list srule) := match l with [] => true | x :: t => plain_rule x && go t end) kg
  end.
Definition plain_job (j : job) : bool :=
  forallb plain_rule (fst (j_rules j)) && forallb plain_rule (snd (j_rules j)) &&
  match j_acl j, j_facl j with None, None => true | _, _ => false end && negb (j_add_comments j).
Definition presult_eqb20 (a b : presult) : bool :=
  match a, b with POk x, POk y => ptree_eqb x y | PErr, PErr => true | _, _ => false end.
Definition conservative_job (F : frames) (j : job) : bool :=
  negb (plain_job j) ||
  (let o := fst (run_job F gd_plain empty_store j) in
   let r := diff_and_patch (j_vendor j) (to_rset (fst (job_compiled j))) (j_ordering j) (j_old j) (j_new j) in
   presult_eqb20 (ob_patch o) (snd r) && diff_eqb (ob_diff o) (fst r)).
Definition conservative_C20 (F : frames) (c : seq20) : bool :=
  forallb (fun p => conservative_job F (fst p)) (synth_pairs c).
