(* C01: deploying the patch makes the diff empty (convergence).  DESIGN.md §3.C01.

   The declarative side of the property:
   - [expected R old new]: the configuration the device must hold after the patch computed
     for (old, new) has been executed - new|R (the rows of new the rulebook knows) plus
     the rows of old no rule knows, plus exactly the rows the `permanent` and
     `ignore_changes` logics decline to change;
   - [sim]/[sim_b]: equality of two configurations as Python dicts (sibling order is
     irrelevant for rows of default rules);
   - [wf_step]: the domain in which the predicate is evaluated on real outputs - sibling rows
     distinct, at most one row per (rule, key) slot on every level of old and of new, and, on
     the universe [merge old new] of rows occurring in old or new: default diff logic and one of
     the logics default / undo_redo / permanent / ignore_changes, removal commands that are
     unambiguous (not themselves matched by a rule, not a block exit word, different for
     different slots), no row that is a block-exit word, one set of attributes per rule text;
     [wf_C01] (the domain of the theorems) adds: block formatter family, no %force_commit,
     [order_ok] (no removal ordered after a direct command of its slot; automatic without
     %order_reverse);
   - [step_eval]/[clauses]: executing the OBSERVED command paths on old with Device.exec
     reaches [expected]; the observed second patch does nothing on the state reached, and is
     empty when nothing was declined; the observed second diff is then empty;
   - [P_C01] = [P_C01_chain wf_step]: the same along a chain new_1 .. new_k, the device state
     being threaded through Device.exec;
   - [c01case]/[c01_report]/[report_ok]: the observed chains of the correspondence run and the
     verdict read by the harness (Proofs/ConvergeReport.v: report_ok -> P_C01). *)
From Coq Require Import List String Ascii Bool Arith ZArith.
From Annet Require Import Base.Str Base.Tree Model.Pattern Model.Rulebook Model.Diff Model.Order
     Model.Patch Model.Blocks Model.Pipeline Model.Device.
Import ListNotations.
Open Scope string_scope.
Open Scope list_scope.

Fixpoint tfind (r : string) (f : forest) : option tree :=
  match f with
  | [] => None
  | (k, t) :: f' => if String.eqb k r then Some t else tfind r f'
  end.

(* two configurations are the same dict: same rows on every level, order ignored *)
Inductive sim : forest -> forest -> Prop :=
| sim_intro a b :
    (forall r t, In (r, t) a -> exists t', In (r, t') b /\ sim (kids t) (kids t')) ->
    (forall r t', In (r, t') b -> exists t, In (r, t) a /\ sim (kids t) (kids t')) ->
    sim a b.

(* its decision procedure on forests with distinct sibling rows *)
Fixpoint sim_t (a : tree) (b : forest) {struct a} : bool :=
  match a with
  | T ka =>
    Nat.eqb (List.length ka) (List.length b) &&
    (fix go (l : forest) : bool :=
       match l with
       | [] => true
       | (r, t) :: l' => match tfind r b with Some t' => sim_t t (kids t') | None => false end && go l'
       end) ka
  end.
Definition sim_b (a b : forest) : bool := sim_t (T a) b.

Section Spec.
  Variable rmatch : string -> string -> option (list string).
  Variable rreverse : string -> list string -> string.
  Variable is_exit : string -> bool.

  (* f|R : the rows the rulebook knows, with their known descendants *)
  Definition known (rs : rset) (f : forest) : forest := erase_f (annot_f rmatch rs f).

  (* the slots occupied on a level *)
  Definition level_slots (rs : rset) (f : forest) : list minfo :=
    flat_map (fun e : string * tree => match slot_of rmatch rs (fst e) with Some m => [m] | None => [] end) f.

  (* the entry of slot s in an annotated level (Rulebook.annot: every known row with its slot) *)
  Definition afind_slot (s : minfo) (an : aforest) : option (string * minfo * atree) :=
    find (fun k : string * minfo * atree => same_slot (snd (fst k)) s) an.

  (* rows of new whose slot is free in old are created, with their known descendants *)
  Definition created (rs : rset) (old : forest) (an : aforest) : forest :=
    let os := level_slots rs old in
    flat_map (fun k : string * minfo * atree =>
                if existsb (same_slot (snd (fst k))) os then [] else [(fst (fst k), erase (snd k))]) an.

  (* old: the device before; an: new, annotated *)
  Fixpoint expected_t (old : tree) (rs : rset) (an : aforest) {struct old} : forest :=
    match old with
    | T okids =>
      (fix go (l : forest) : forest :=
         match l with
         | [] => []
         | (r, t) :: l' =>
           match match_row rmatch r rs with
           | None => (r, t) :: go l'                      (* a row no rule knows is never touched *)
           | Some (s, crs) =>
             match afind_slot s an with
             | Some (r', _, sub') =>
               if String.eqb r r'
               then (r, T (expected_t t crs (akids sub'))) :: go l'     (* same row: its block converges *)
               else
                 match a_logic (mi_attrs s) with
                 | LIgnoreChanges => (r, t) :: go l'                   (* declines to replace a row *)
                 | LPermanent => (r, T (expected_t t crs [])) :: go l'  (* keeps the row, empties the block *)
                 | _ => (r', erase sub') :: go l'                      (* the slot is rewritten *)
                 end
             | None =>
               match a_logic (mi_attrs s) with
               | LPermanent => (r, T (expected_t t crs [])) :: go l'    (* cannot be deleted: emptied *)
               | _ => go l'                                            (* removed *)
               end
             end
           end
         end) okids
      ++ created rs okids an
    end.
  Definition expected (rs : rset) (old new : forest) : forest :=
    expected_t (T old) rs (annot_f rmatch rs new).

  (* the universe of rows of two configurations: a's rows, then b's new ones, recursively *)
  Fixpoint merge_t (a : tree) (b : forest) {struct a} : forest :=
    match a with
    | T ka =>
      (fix go (l : forest) : forest :=
         match l with
         | [] => []
         | (r, t) :: l' =>
           (r, T (merge_t t (match tfind r b with Some t' => kids t' | None => [] end))) :: go l'
         end) ka
      ++ filter (fun e : string * tree => match tfind (fst e) ka with Some _ => false | None => true end) b
    end.
  Definition merge (a b : forest) : forest := merge_t (T a) b.

  (* at most one row per (rule, key) on every level *)
  Fixpoint slots_unique_a (t : atree) : bool :=
    match t with
    | AT ks =>
      (fix go (l : aforest) : bool :=
         match l with
         | [] => true
         | (_, m, c) :: l' =>
           negb (existsb (fun k : string * minfo * atree => same_slot (snd (fst k)) m) l') &&
           slots_unique_a c && go l'
         end) ks
    end.
  Definition slots_unique (rs : rset) (f : forest) : bool := slots_unique_a (annot rmatch rs (T f)).

  (* conditions on the universe U of rows of a level (monotone: they hold of every
     configuration whose rows are among U's):
     - [allow] holds of the governing rule of every known row (the rule features in the domain),
     - no known row is a block-exit word,
     - the removal command of a known row is not matched by a rule of the level, is not an
       exit word, and is the removal command of no known row of another slot,
     - known rows governed by the same rule text carry the same rule attributes (a rule set is
       a dict keyed by the rule text). *)
  Section Univ.
    Variable allow : minfo -> bool.
    Fixpoint univ_ok_t (rs : rset) (t : tree) {struct t} : bool :=
      match t with
      | T ks =>
        let lv := map (fun m => (m, reverse_of rreverse m)) (level_slots rs ks) in
        (fix go (l : forest) : bool :=
           match l with
           | [] => true
           | (r, c) :: l' =>
             match match_row rmatch r rs with
             | Some (s, crs) =>
               let rv := reverse_of rreverse s in
               allow s && negb (is_exit r) &&
               match match_row rmatch rv rs with Some _ => false | None => true end &&
               negb (is_exit rv) &&
               forallb (fun p : minfo * string =>
                          (negb (String.eqb (snd p) rv) || same_slot (fst p) s) &&
                          (negb (String.eqb (mi_raw (fst p)) (mi_raw s)) || attrs_eqb (mi_attrs (fst p)) (mi_attrs s))) lv &&
               univ_ok_t crs c && go l'
             | None => go l'
             end
           end) ks
      end.
    Definition univ_ok (rs : rset) (u : forest) : bool := univ_ok_t rs (T u).
  End Univ.

  (* every known row is governed by a rule with the given feature *)
  Fixpoint rows_allow (allow : minfo -> bool) (t : atree) : bool :=
    match t with
    | AT ks => forallb (fun k : string * minfo * atree => allow (snd (fst k)) && rows_allow allow (snd k)) ks
    end.
  (* the ordering condition: in the patch, at every level, the removal command of a slot never
     comes after a direct command of the same slot (what an %order_reverse rule can break) *)
  Fixpoint undo_first_b (p : ptree) : rset -> bool :=
    match p with
    | PT items =>
      fun rs =>
        (fix go (l : list (string * option ptree * skey)) : bool :=
           match l with
           | [] => true
           | (row, child, _) :: l' =>
             match match_row rmatch row rs with
             | Some (s, crs) =>
               negb (existsb (fun i : string * option ptree * skey => String.eqb (fst (fst i)) (reverse_of rreverse s)) l') &&
               match child with Some ct => undo_first_b ct crs | None => true end
             | None => true
             end && go l'
           end) items
    end.
End Spec.

(* rule features *)
Definition logic_in_domain (l : logic) : bool :=
  match l with LDefault | LUndoRedo | LPermanent | LIgnoreChanges => true | _ => false end.
(* the domain in which P_C01 is evaluated on real outputs: default diff logic *)
Definition allow_eval (m : minfo) : bool :=
  dlogic_eqb (a_dlogic (mi_attrs m)) DDefault && logic_in_domain (a_logic (mi_attrs m)).
(* Tier A of the theorems: additionally no %force_commit pseudo-command *)
Definition allow_A (m : minfo) : bool := allow_eval m && negb (a_force_commit (mi_attrs m)).
(* literal convergence (no declining logic) *)
Definition allow_strict (m : minfo) : bool :=
  allow_A m && match a_logic (mi_attrs m) with LDefault | LUndoRedo => true | _ => false end.

(* formatter families whose command paths follow the block nesting (not the flattened
   set/delete forms of Juniper / Nokia / RouterOS) *)
Definition block_family (f : family) : bool :=
  match f with FJuniper _ _ | FRos => false | _ => true end.

(* ------------------------------------------------------------------ instantiated *)

Definition p_known := known pm.
Definition p_expected := expected pm.
Definition p_slots_unique := slots_unique pm.
Definition p_univ_ok (v : vendor) (allow : minfo -> bool) := univ_ok pm (prreverse v) (v_is_exit v) allow.

Definition wf_step_with (allow : minfo -> bool) (v : vendor) (rs : rset) (old new : forest) : bool :=
  wfb old && wfb new && p_slots_unique rs old && p_slots_unique rs new &&
  p_univ_ok v allow rs (merge old new).
Definition wf_step := wf_step_with allow_eval.

(* one deployment as observed: command paths (None: a logic raised AssertionError), and
   the second run of the pipeline on (device state after, new) *)
Record obs01 := Obs01 {
  o_patch : option ptree;                      (* None: a logic raised AssertionError *)
  o_paths : list (list string);                (* formatter.cmd_paths(patch) *)
  o_paths2 : option (list (list string));
  o_diff2 : list dnode
}.

Definition is_nil {A} (l : list A) : bool := match l with [] => true | _ => false end.

(* the clauses of the property for one deployment, evaluated once.
   dev = Device.exec (observed paths) old;  ft = "nothing was declined": expected shows
   the same known rows as new (always so without permanent / ignore_changes rules).
     reaches       dev is expected(R, old, new) as a dict
     second_noop   the second patch, computed on dev, does not change dev
     second_empty  ... and contains no command at all when nothing was declined (a declined
                   row inside a block keeps the block AFFECTED, so its header and exit word are
                   emitted again - commands that do nothing)
     diff_empty    the second diff is empty when nothing was declined *)
Record clauses := Clauses {
  cl_no_error : bool; cl_reaches : bool; cl_second_noop : bool; cl_second_empty : bool; cl_diff_empty : bool;
  cl_nothing_declined : bool
}.
Definition clauses_ok (c : clauses) : bool :=
  cl_no_error c && cl_reaches c && cl_second_noop c && cl_second_empty c && cl_diff_empty c.

Definition step_eval (v : vendor) (rs : rset) (old new : forest) (o : obs01) : clauses * forest :=
  match o_patch o with
  | None => (Clauses false false false false false false, old)
  | Some _ =>
    let ps := o_paths o in
    let dev := p_exec v rs ps old in
    let exp := p_expected rs old new in
    let ft := sim_b (p_known rs exp) (p_known rs new) in
    (Clauses true (sim_b dev exp)
             (match o_paths2 o with Some ps2 => sim_b (p_exec v rs ps2 dev) dev | None => false end)
             (negb ft || match o_paths2 o with Some [] => true | _ => false end)
             (negb ft || is_nil (o_diff2 o))
             ft,
     dev)
  end.

Definition P_C01_step (v : vendor) (rs : rset) (old new : forest) (o : obs01) : bool :=
  clauses_ok (fst (step_eval v rs old new o)).

(* the ordering condition on the observed patch: no removal after a direct command of its slot *)
Definition obs_order_ok (v : vendor) (rs : rset) (o : obs01) : bool :=
  match o_patch o with Some pt => undo_first_b pm (prreverse v) pt rs | None => true end.

(* a chain new_1 .. new_k: the device state is threaded through Device.exec on the observed
   paths; for every step the domain flag and the clauses.  Nothing is claimed after the
   chain has left the domain or a logic has raised. *)
Fixpoint chain_eval (guard : vendor -> rset -> forest -> forest -> bool)
         (v : vendor) (rs : rset) (dev : forest) (steps : list (forest * obs01)) : list (bool * clauses) :=
  match steps with
  | [] => []
  | (new, o) :: rest =>
    let g := guard v rs dev new && obs_order_ok v rs o in
    let '(cl, dev') := step_eval v rs dev new o in
    (g, cl) :: (if g && cl_no_error cl then chain_eval guard v rs dev' rest else [])
  end.

Definition P_C01_chain (guard : vendor -> rset -> forest -> forest -> bool)
           (v : vendor) (rs : rset) (dev : forest) (steps : list (forest * obs01)) : bool :=
  forallb (fun x : bool * clauses => negb (fst x) || clauses_ok (snd x)) (chain_eval guard v rs dev steps).
Definition P_C01 := P_C01_chain wf_step.

(* what the model pipeline produces for one deployment *)
Definition model_patch (v : vendor) (rs : rset) (ordering : list orule) (old new : forest) : option ptree :=
  match snd (diff_and_patch v rs ordering old new) with POk p => Some p | PErr => None end.
Definition model_paths (v : vendor) (rs : rset) (ordering : list orule) (old new : forest)
  : option (list (list string)) :=
  option_map (cmd_paths (v_family v)) (model_patch v rs ordering old new).
Definition model_obs (v : vendor) (rs : rset) (ordering : list orule) (old new : forest) : obs01 :=
  match model_patch v rs ordering old new with
  | Some p =>
    let l := cmd_paths (v_family v) p in
    let dev := p_exec v rs l old in
    Obs01 (Some p) l (model_paths v rs ordering dev new) (fst (diff_and_patch v rs ordering dev new))
  | None => Obs01 None [] None []
  end.
Fixpoint model_chain (v : vendor) (rs : rset) (ordering : list orule) (dev : forest) (news : list forest)
  : list (forest * obs01) :=
  match news with
  | [] => []
  | new :: rest =>
    let o := model_obs v rs ordering dev new in
    (new, o) :: match o_patch o with
                | Some _ => model_chain v rs ordering (p_exec v rs (o_paths o) dev) rest
                | None => []
                end
  end.

(* ------------------------------------------------------------------ the domain of the theorems *)
(* Tier A: block formatter family; sibling rows distinct; one row per slot; on the universe
   of rows of old and new: default diff logic, logic among default / undo_redo / permanent /
   ignore_changes, no %force_commit, unambiguous removal commands; the patch is computed
   without error and no removal is ordered after the re-creation of its slot. *)
(* an ordering rulebook without %order_reverse, at any depth *)
Fixpoint no_orev_r (r : orule) : bool :=
  match r with ORule _ _ orev _ _ kids => negb orev && forallb no_orev_r kids end.
Definition no_orev (l : list orule) : bool := forallb no_orev_r l.

(* [order_ok]: no removal is ordered after a direct command of its own slot - which is always the
   case when the ordering rulebook has no %order_reverse rule (Proofs/ConvergeOrder.v) *)
Definition order_ok (v : vendor) (rs : rset) (ordering : list orule) (old new : forest) : bool :=
  match snd (diff_and_patch v rs ordering old new) with
  | POk pt => undo_first_b pm (prreverse v) pt rs || no_orev ordering
  | PErr => false
  end.
Definition wf_A (v : vendor) (rs : rset) (old new : forest) : bool := wf_step_with allow_A v rs old new.
Definition wf_C01 (v : vendor) (rs : rset) (ordering : list orule) (old new : forest) : bool :=
  block_family (v_family v) && wf_A v rs old new && order_ok v rs ordering old new.

(* the domain of a whole chain, asked of the initial state and of the targets only: one universe
   of rows for all of them (the states in between stay inside it) *)
Definition merge_all (old : forest) (news : list forest) : forest := fold_left merge news old.
Definition wf_chain (v : vendor) (rs : rset) (old : forest) (news : list forest) : bool :=
  block_family (v_family v) && wfb old && p_slots_unique rs old &&
  forallb (fun n => wfb n && p_slots_unique rs n) news &&
  p_univ_ok v allow_A rs (merge_all old news).

(* ------------------------------------------------------------------ observed chains *)
From Annet Require Import Spec.PipelineCase.

(* one step of a chain run on the real pipeline: the outputs of _diff_and_patch /
   cmd_paths for (state before, s_new), the state after as computed by the runner's
   mirror of Device.exec (re-checked here against Device.exec itself) and the outputs of
   the second run on (state after, s_new) *)
Record c01step := C01Step {
  s_new : forest;
  s_diff_full : list dnode;
  s_patch : option ptree;
  s_paths : list (list string);
  s_dev : forest;
  s_paths2 : option (list (list string));
  s_diff2 : list dnode
}.
Record c01case := C01Case {
  cc_vendor : vendor;
  cc_rules : rset;
  cc_ordering : list orule;
  cc_old : forest;
  cc_steps : list c01step
}.

Definition step_obs (st : c01step) : obs01 := Obs01 (s_patch st) (s_paths st) (s_paths2 st) (s_diff2 st).
Definition c01_obs (c : c01case) : list (forest * obs01) := map (fun st => (s_new st, step_obs st)) (cc_steps c).

(* THE predicate: P_C01 on the observed chain *)
Definition c01_holds (c : c01case) : bool := P_C01 (cc_vendor c) (cc_rules c) (cc_old c) (c01_obs c).

(* the same evaluation, exposing per step
     [in domain (wf_step and order_ok on the observed patch); strict domain (default/undo_redo only); nothing declined;
      no_error; reaches; second_noop; second_empty; diff_empty;
      runner's state after = Device.exec;
      model = implementation on the unstripped diff; on the patch tree; on the command paths;
      wf_step alone; the domain of the theorems (wf_C01 on the observed patch)]
   so that the harness can name the failing clause and measure the domain without
   evaluating anything twice.  It follows the chain as long as the state the real pipeline
   was run on is the one Device.exec computes.  [report_ok] is the verdict;
   Proofs/ConvergeReport.v: report_ok (c01_report c) = true -> c01_holds c = true. *)
Fixpoint chain_report (c : c01case) (dev : forest) (steps : list c01step) : list (list bool) :=
  match steps with
  | [] => []
  | st :: rest =>
    let v := cc_vendor c in
    let rs := cc_rules c in
    let w := wf_step v rs dev (s_new st) in
    let g := w && obs_order_ok v rs (step_obs st) in
    let au := annot pm rs (T (merge dev (s_new st))) in
    let strict := g && rows_allow allow_strict au in
    let '(cl, dev') := step_eval v rs dev (s_new st) (step_obs st) in
    let same := negb (cl_no_error cl) || forest_eqb dev' (s_dev st) in
    let pc := PCase v rs (cc_ordering c) dev (s_new st) (s_diff_full st) [] (s_patch st) (s_paths st) [] in
    [g; strict; cl_nothing_declined cl;
     cl_no_error cl; cl_reaches cl; cl_second_noop cl; cl_second_empty cl; cl_diff_empty cl;
     same; agree_diff_full pc; agree_patch pc; agree_paths pc;
     w; block_family (v_family v) && g && rows_allow allow_A au]
    :: (if cl_no_error cl && same then chain_report c dev' rest else [])
  end.
Definition c01_report (c : c01case) : list (list bool) := chain_report c (cc_old c) (cc_steps c).

Definition step_report_ok (fl : list bool) : bool :=
  match fl with
  | [g; _; _; ne; re; no; em; de; same; _; _; _; _; _] => same && (negb g || (ne && re && no && em && de))
  | _ => false
  end.
Definition report_ok (r : list (list bool)) : bool := forallb step_report_ok r.

