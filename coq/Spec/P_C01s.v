(* C01 on the SHIPPED rulebooks: what is evaluated on a real deployment computed with get_rulebook(hw).

   Input family (harness/shipped_run.py): for a shipped undo_redo rule, reached through the chain of rules
   [p1; ..; pn; r] (positions among the local rules of each level) of the patching rulebook Coq parses from the RAW lines (Gen/Src_rules.v), old and new hold the
   same single chain of block headers (rows of p1 .. pn) and, below it, one row of r whose text differs between
   old and new inside its key.  The real _diff_and_patch runs with the FULL shipped rulebook (patching and
   ordering, %order_reverse rules included).

   The reference device (Model/Device.v) needs the slot and the removal command of a row only.  It is given the
   FOCUSED rule set: the chain p1 .. pn, r alone ([focus]).  Two reasons: (a) huawei / cisco / arista / aruba / pc
   end in a catch-all `<negation> ~ %global` that makes every removal command a known row, which puts every
   configuration outside the Tier-A domain (C01_shipped_catchall_outside_domain); (b) the headers are present,
   unchanged, in old and in new, so their own %logic / %diff_logic (often vendor functions, opaque to the models)
   is exercised only to enter the block: in the focused set they carry the default logics ([neutral]).  The rule r
   itself keeps its attributes.  The harness checks with the real matcher that every row of old / new is matched,
   in the full rulebook, by the rule of the chain it was built from.

   Clauses (P_C01.step_eval with the matcher ym): inside the domain wf_A_y of the focused set, the observed patch
   orders no removal after a direct command of its slot, executing the real command paths on old reaches
   expected(old, new), the second patch is a no-op and empty. *)
From Coq Require Import List String Ascii Bool Arith ZArith.
From Annet Require Import Base.Str Base.Tree Model.Pattern Model.Rulebook Model.Diff Model.Order Model.Patch Model.Blocks
     Model.Pipeline Model.Device Model.ShippedText Spec.P_C01 Spec.P_Shipped Gen.Src_rules.
Import ListNotations.
Open Scope string_scope.
Open Scope list_scope.

Definition neutral (a : attrs) : attrs := Attrs (a_pat a) LDefault DDefault (a_parent a) (a_force_commit a).

(* the chain of local rules at the given positions (index among the local rules of its level, dict order); the
   last one keeps its attributes and loses its children *)
Fixpoint focus_l (path : list nat) (rs : list prule) : list prule :=
  match path with
  | [] => []
  | i :: rest =>
    match nth_error rs i with
    | Some (PRule raw ign a kl kg) =>
      if ign then [] else
      match rest with
      | [] => [PRule raw ign a [] []]
      | _ :: _ => [PRule raw ign (neutral a) (focus_l rest kl) []]
      end
    | None => []
    end
  end.
Definition focus (path : list nat) (R : rset) : rset := (focus_l path (fst R), []).

(* the chains (position, pattern text) leading to the undo_redo rules of a rule list, local children only *)
Fixpoint ur_paths (i : nat) (r : prule) : list (list (nat * string)) :=
  match r with
  | PRule raw ign a kl _ =>
    if ign then [] else
    (if logic_eqb (a_logic a) LUndoRedo then [[(i, a_pat a)]] else []) ++
    map (cons (i, a_pat a))
        ((fix go (k : nat) (l : list prule) : list (list (nat * string)) :=
            match l with [] => [] | x :: t => ur_paths k x ++ go (S k) t end) 0 kl)
  end.
Fixpoint ur_paths_l (k : nat) (l : list prule) : list (list (nat * string)) :=
  match l with [] => [] | x :: t => ur_paths k x ++ ur_paths_l (S k) t end.
Definition shipped_ur_paths (h : shw) : list (list (nat * string)) :=
  match shipped_rset h with Some R => ur_paths_l 0 (fst R) | None => [] end.

(* one observed deployment with a shipped rulebook *)
Record obs01s := Obs01s {
  s1_hw : string; s1_vendor : vendor; s1_path : list nat;
  s1_old : forest; s1_new : forest;
  s1_patch : option ptree;                       (* None: a logic raised *)
  s1_paths : list (list string);                 (* formatter.cmd_paths(patch) *)
  s1_dev : forest;                               (* the runner's device mirror after the first patch *)
  s1_paths2 : option (list (list string));       (* second run on (dev, new) *)
  s1_diff2_empty : bool
}.

(* flags: [parsed; chain found; in_domain; computed; order_ok; reaches; second_noop; second_empty; diff_empty;
           agree_device] *)
Definition c1s_flags (o : obs01s) : list bool :=
  match find_hw (s1_hw o) with
  | Some h =>
    match shipped_rset h with
    | Some Rfull =>
      let v := s1_vendor o in
      let R := focus (s1_path o) Rfull in
      let found := match fst R with [_] => true | _ => false end in
      let dom := found && wf_A_y v R (s1_old o) (s1_new o) in
      match s1_patch o with
      | Some pt =>
        let dev := y_exec v R (s1_paths o) (s1_old o) in
        let exp := y_expected R (s1_old o) (s1_new o) in
        [true; found; dom; true;
         undo_first_b ym (y_rreverse v) pt R;
         sim_b dev exp;
         match s1_paths2 o with Some ps2 => sim_b (y_exec v R ps2 dev) dev | None => false end;
         match s1_paths2 o with Some [] => true | _ => false end;
         s1_diff2_empty o;
         forest_eqb dev (s1_dev o)]
      | None => [true; found; dom; false; false; false; false; false; false; true]
      end
    | None => repeat false 10
    end
  | None => repeat false 10
  end.

Definition holds_of_flags1 (fl : list bool) : bool :=
  match fl with
  | [parsed; found; dom; computed; ord; reaches; noop; empty2; dempty; _] =>
    parsed && (negb dom || (computed && ord && reaches && noop && empty2 && dempty))
  | _ => false
  end.
Definition P_C01s (o : obs01s) : bool := holds_of_flags1 (c1s_flags o).
Definition c1s_report (o : obs01s) : bool * list bool := let fl := c1s_flags o in (holds_of_flags1 fl, fl).
