(* C13, arrays under glob pointers: the guard of the "replace-only" fragment theorems (patterns
   may step into and through arrays) and an extra predicate on observed outputs (container
   kinds on the way to a selected path). *)
From Coq Require Import List String Ascii Bool Arith ZArith.
From Annet Require Import Base.Str Model.Json Spec.P_C13.
Import ListNotations.
Open Scope string_scope.
Open Scope list_scope.

(* the concrete pointers a glob pattern selects in a document: every path p with
   [pmatch pat p] that exists in d (Proofs/JsonArrProofs.sel_any) *)
Definition sel (pat : pattern) (d : json) : list path := resolve_parts false pat d.

(* the pattern selects the same pointers in both documents: object members AND array
   indices (two arrays met by the pattern have the same matched indices, e.g. equal length) *)
Definition same_sel (pat : pattern) (a b : json) : bool :=
  forallb (fun p => mem_path p (sel pat b)) (sel pat a) &&
  forallb (fun p => mem_path p (sel pat a)) (sel pat b).

Definition nonroot (pat : pattern) : bool := negb (Nat.eqb (List.length pat) 0).

(* Guard of the replace-only theorems.  No "one schema" clause and no restriction on arrays:
   the merge only overwrites members that exist on both sides. *)
Definition wf_replace (acl : list pattern) (old f : json) : bool :=
  uniq old && uniq f && forallb (fun pat => nonroot pat && same_sel pat old f) acl.

(* some pattern steps into an array of d *)
Definition steps_into_array (acl : list pattern) (d : json) : bool :=
  negb (forallb (fun pat => objects_only pat d) acl).

(* ---- container kinds on the way to a selected path ---- *)

Definition kind (d : json) : nat :=
  match d with JObj _ => 0 | JArr _ => 1 | _ => 2 end.

(* along q, as long as both documents have the member, they have the same kind of container *)
Fixpoint kinds_along (q : path) (r f : json) : bool :=
  match q with
  | [] => true
  | k :: q' =>
    Nat.eqb (kind r) (kind f) &&
    match lookup k (children r), lookup k (children f) with
    | Some r', Some f' => kinds_along q' r' f'
    | _, _ => true
    end
  end.

Definition isSome {A} (o : option A) : bool := match o with Some _ => true | None => false end.

(* every selected path that exists in the result and in the fragment is reached through
   containers of the same kind: the fragment's array is not turned into an object keyed
   by "0", "1", ... *)
Definition kinds_ok (acl : list pattern) (old f r : json) : bool :=
  forallb (fun q => negb (selected acl q && isSome (get q r) && isSome (get q f)) || kinds_along q r f)
          (support old f r).

Definition P_kinds (x : frag_in) (y : frag_out) : bool :=
  let '(old, f, acl) := x in
  negb (dom_frag x) ||
  match parse_acl acl, fst y with
  | Some pats, Some r => kinds_ok pats old f r
  | _, _ => true
  end.

(* classification of an input (not of an outcome): inside the guard of the replace-only theorems *)
Definition in_replace_guard (x : frag_in) : bool :=
  let '(old, f, acl) := x in
  match parse_acl acl with Some pats => wf_replace pats old f | None => false end.
