(* C13 — the operation sequence the API performs on ONE old document, and the purity clause.

   annet/api/__init__.py (_patch_worker, Deployer) and annet/generators/result.py
   (new_json_fragment_files) do, for one file of a device,

       doc   := old ; for every generator (f, acl) of the file: doc := apply_json_fragment(doc, f, acl)
       patch := make_patch(old, doc)                  -- the SAME Python object old
       the device, which holds the serialised ORIGINAL old, gets apply_patch(bytes(old), bytes(patch))

   Gallina values cannot be written to: every theorem of Properties/C13.v that mentions an input again
   after a call (C13_outside compares the result with [old]; C13_idem re-uses [f] and [acl];
   C13_patch_roundtrip_* applies [D a b] to the same [a]) silently reads "the argument still has the
   value it had before the call".  For Python objects that is a separate law — the PURITY clause:

       a call of apply_json_fragment / apply_acl_filters / make_patch / apply_patch leaves every object
       handed to it (documents, fragments, pointer lists, byte strings) with the value it had.

   Here an implementation that may write to its arguments is a function that also returns the values its
   arguments have afterwards ([eff_frag]).  [api_session] is the sequence above for such an
   implementation; the round trip holds for every pure implementation that returns what the model
   returns (C13_session_roundtrip), and an implementation with the RIGHT return value for every input
   that writes the result into [old] breaks it although every return-value law holds
   (C13_session_needs_purity) — so the clause cannot be dropped or derived.

   The correspondence run observes the clause directly: harness/impl/c13_runner.py keeps the text of
   every object it hands to the four entry points and reports the (function, argument) pairs whose text
   changed ("mutated", a flag computed by the runner: equality of two real values), and for sessions
   Coq evaluates [P_C13_session] — old unchanged + the existing round-trip predicate P_C13_patch on
   the real patch made from the one old object, applied to the serialised original. *)
From Coq Require Import List String Ascii Bool Arith ZArith.
From Annet Require Import Base.Str Model.Json Spec.P_C13.
Import ListNotations.
Open Scope string_scope.
Open Scope list_scope.

(* ---- chaining (new_json_fragment_files): one fragment after the other over one document ---- *)

Definition step := (json * list string)%type.            (* fragment, acl of one generator *)

Definition chain_step (V : variant) (acc : option json) (s : step) : option json :=
  d <- acc ; apply_fragment V d (fst s) (snd s).

Definition chain (V : variant) (old : json) (steps : list step) : option json :=
  fold_left (chain_step V) steps (Some old).

(* the documents after every step, as the runner reports them (it stops at the first raise) *)
Fixpoint chain_docs (V : variant) (d : json) (steps : list step) : list (option json) :=
  match steps with
  | [] => []
  | s :: t =>
    match apply_fragment V d (fst s) (snd s) with
    | Some d' => Some d' :: chain_docs V d' t
    | None => [None]
    end
  end.

(* ---- implementations that may write to their arguments ---- *)

(* result, value of [old] afterwards, value of [f] afterwards *)
Definition eff_frag := json -> json -> list string -> (option json * json * json)%type.

Definition eff_result (I : eff_frag) (old f : json) (acl : list string) : option json := fst (fst (I old f acl)).
Definition eff_old (I : eff_frag) (old f : json) (acl : list string) : json := snd (fst (I old f acl)).
Definition eff_f (I : eff_frag) (old f : json) (acl : list string) : json := snd (I old f acl).

(* the model read as such an implementation: pure by construction *)
Definition pure_frag (V : variant) : eff_frag := fun old f acl => (apply_fragment V old f acl, old, f).

Definition returns_like (V : variant) (I : eff_frag) : Prop :=
  forall old f acl, eff_result I old f acl = apply_fragment V old f acl.

Definition leaves_inputs (I : eff_frag) : Prop :=
  forall old f acl, eff_old I old f acl = old /\ eff_f I old f acl = f.

(* what the device holds after the API sequence: the patch is computed from the object [old] AS IT IS
   AFTER the merge, and applied to the original value *)
Definition api_session (I : eff_frag) (mk : json -> json -> list op) (old f : json) (acl : list string)
  : option json * option json :=
  match eff_result I old f acl with
  | Some new => (Some new, apply_ops (mk (eff_old I old f acl) new) old)
  | None => (None, None)
  end.

(* an implementation with the model's return value for EVERY input that leaves the result in [old]
   (the extreme case of sharing structure between the argument and the result) *)
Definition aliasing_frag (V : variant) : eff_frag :=
  fun old f acl =>
    match apply_fragment V old f acl with
    | Some r => (Some r, r, f)
    | None => (None, old, f)
    end.

(* ---- the predicate evaluated on the real session ---- *)

(* input: old, steps *)
Definition sess_in := (json * list step)%type.
(* output: the document after every step; the third-party diff of (original old, final document) on
   private copies; make_patch(old object, final document); apply_patch(bytes of the original old,
   bytes of that patch); the value of the old object after everything (None = it no longer
   serialises) *)
Definition sess_out := (list (option json) * option (list op) * option (list op) * option json * option json)%type.

Definition last_doc (docs : list (option json)) : option json :=
  match rev docs with Some d :: _ => Some d | _ => None end.

Definition sess_completed (x : sess_in) (docs : list (option json)) : bool :=
  Nat.eqb (List.length docs) (List.length (snd x)) &&
  forallb (fun d => match d with Some _ => true | None => false end) docs.

(* the final document of a completed session (no step = the old document itself) *)
Definition sess_new (x : sess_in) (docs : list (option json)) : option json :=
  if sess_completed x docs then
    match snd x with [] => Some (fst x) | _ => last_doc docs end
  else None.

(* the caller's old document still has its value *)
Definition P_sess_old_kept (x : sess_in) (y : sess_out) : bool :=
  let '(docs, lib, p, applied, old_after) := y in ojeq old_after (Some (fst x)).

(* the patch made from that one old object, applied to the serialised original, gives the final
   document: the existing round-trip predicate *)
Definition P_sess_roundtrip (x : sess_in) (y : sess_out) : bool :=
  let '(docs, lib, p, applied, old_after) := y in
  match sess_new x docs with
  | Some new => P_C13_patch (fst x, new) applied
  | None => true
  end.

Definition P_C13_session (x : sess_in) (y : sess_out) : bool := P_sess_old_kept x y && P_sess_roundtrip x y.

(* model = implementation on a session: every intermediate document, annet's treatment of the
   library's operations, and the application of the real patch by the model of RFC 6902 *)
Fixpoint odocs_eqb (a b : list (option json)) : bool :=
  match a, b with
  | [], [] => true
  | x :: a', y :: b' => ojeq x y && odocs_eqb a' b'
  | _, _ => false
  end.

Definition sess_agree (V : variant) (x : sess_in) (y : sess_out) : bool :=
  let '(docs, lib, p, applied, old_after) := y in
  odocs_eqb (chain_docs V (fst x) (snd x)) docs &&
  match sess_new x docs, lib, p with
  | Some _, Some l, Some ops => ops_eqb (make_patch_of V l) ops && ojeq (apply_ops ops (fst x)) applied
  | Some _, None, None => true          (* the library's diff raised and make_patch propagated it *)
  | None, _, _ => true
  | _, _, _ => false
  end.

(* the third-party diff reproduces the final document (the Section hypothesis, per case) *)
Definition sess_lib_ok (x : sess_in) (y : sess_out) : bool :=
  let '(docs, lib, p, applied, old_after) := y in
  match sess_new x docs, lib with
  | Some new, Some l => ojeq (apply_ops l (fst x)) (Some new)
  | Some _, None => false
  | None, _ => true
  end.

(* the model's own session with a differ D, in the shape of an observation *)
Definition session_outcome (V : variant) (D : json -> json -> list op) (x : sess_in) : sess_out :=
  let docs := chain_docs V (fst x) (snd x) in
  match sess_new x docs with
  | Some new =>
    let ops := make_patch_of V (D (fst x) new) in
    (docs, Some (D (fst x) new), Some ops, apply_ops ops (fst x), Some (fst x))
  | None => (docs, None, None, None, Some (fst x))
  end.
