(* C15: declarative laws of merge and the property predicates evaluated on real outputs. *)
From Coq Require Import List String Ascii Bool Arith ZArith.
From Annet Require Import Model.Merge.
Import ListNotations.
Open Scope string_scope.
Open Scope list_scope.

(* ---- the law each merger obeys, stated on (x, y, result) --------------------------- *)

Definition same (m : merger) (r v : value) : bool := veqb false m r v.

Section LawEntries.
  (* rec m vx vy r: r is the lawful result for an attribute set on both sides *)
  Variable rec : merger -> value -> value -> value -> bool.
  Variable mof : string -> option merger.
  Variable fy fr : entries.
  (* attributes set in x *)
  Fixpoint law_old (fx : entries) : bool :=
    match fx with
    | [] => true
    | (f, vx) :: rest =>
      match lookup f fr with
      | None => false                              (* a set attribute never disappears *)
      | Some r =>
        match mof f with
        | None => same MForbidChange r vx
        | Some m =>
          match lookup f fy with
          | None => same m r vx                    (* unset never overrides set *)
          | Some vy => rec m vx vy r
          end
        end
      end && law_old rest
    end.
End LawEntries.

(* attributes set only in y pass through; nothing else appears in the result *)
Definition law_new (mof : string -> option merger) (fx fy fr : entries) : bool :=
  forallb (fun p => match mof (fst p) with
                    | Some m => mem (fst p) fx ||
                                match lookup (fst p) fr with Some r => same m r (snd p) | None => false end
                    | None => true
                    end) fy &&
  forallb (fun p => mem (fst p) fx ||
                    match mof (fst p) with Some _ => mem (fst p) fy | None => false end) fr.

Fixpoint law_val (m : merger) (x y r : value) {struct x} : bool :=
  match m with
  | MForbidChange => value_eqb x y && same m r x   (* equal values are kept ... *)
  | MForbid => false                               (* ... Forbid never accepts two values *)
  | MUseFirst => same m r x
  | MUseLast => same m r y
  | MConcat =>
    match x, y, r with
    | VList a, VList b, VList c => atoms_eqb c (a ++ b)
    | _, _, _ => false
    end
  | MUnite =>
    match x, y, r with
    | VSet a, VSet b, VSet c => subset c (a ++ b) && subset (a ++ b) c
    | _, _, _ => false
    end
  | MMerge sch =>
    match x, y, r with
    | VObj fx, VObj fy, VObj fr =>
      law_old law_val (fun f => lookup f sch) fy fr fx && law_new (fun f => lookup f sch) fx fy fr
    | _, _, _ => false
    end
  | MDictMerge vm =>
    match x, y, r with
    | VDict fx, VDict fy, VDict fr =>
      law_old law_val (fun _ => Some vm) fy fr fx && law_new (fun _ => Some vm) fx fy fr
    | _, _, _ => false
    end
  end.

(* a conflict: some single-valued attribute is set to two different values (ForbidChange) or
   set twice at all (Forbid), at any nesting level *)
Section ConflictEntries.
  Variable rec : merger -> value -> value -> bool.
  Variable mof : string -> option merger.
  Variable fy : entries.
  Fixpoint conflict_old (fx : entries) : bool :=
    match fx with
    | [] => false
    | (f, vx) :: rest =>
      match mof f, lookup f fy with
      | Some m, Some vy => rec m vx vy
      | _, _ => false
      end || conflict_old rest
    end.
End ConflictEntries.

Fixpoint conflict (m : merger) (x y : value) {struct x} : bool :=
  match m with
  | MForbidChange => negb (value_eqb x y)
  | MForbid => true
  | MMerge sch =>
    match x, y with
    | VObj fx, VObj fy => conflict_old conflict (fun f => lookup f sch) fy fx
    | _, _ => false
    end
  | MDictMerge vm =>
    match x, y with
    | VDict fx, VDict fy => conflict_old conflict (fun _ => Some vm) fy fx
    | _, _ => false
    end
  | _ => false
  end.

(* the outcome of merge(a, b) obeys the laws: MergeForbiddenError exactly on a conflict,
   otherwise the field-by-field lawful object *)
Definition lawful (sch : schema) (a b : entries) (out : res entries) : bool :=
  match out with
  | Ok r => negb (conflict (MMerge sch) (VObj a) (VObj b)) &&
            law_val (MMerge sch) (VObj a) (VObj b) (VObj r)
  | Err EForbidden => conflict (MMerge sch) (VObj a) (VObj b)
  | Err EType => negb (wf_obj sch a && wf_obj sch b)
  end.

(* ---- algebraic laws on outcomes ---------------------------------------------------- *)

Definition same_exact (sch : schema) (a b : res entries) : bool :=
  match a, b with
  | Ok x, Ok y => veqb false (MMerge sch) (VObj x) (VObj y)
  | Err _, Err _ => true
  | _, _ => false
  end.

(* equal, Concat fields as multisets; or an error on both sides *)
Definition same_mod_concat (sch : schema) (a b : res entries) : bool :=
  match a, b with
  | Ok x, Ok y => veqb true (MMerge sch) (VObj x) (VObj y)
  | Err _, Err _ => true
  | _, _ => false
  end.

Definition all_same_mod_concat (sch : schema) (l : list (res entries)) : bool :=
  match l with
  | [] => true
  | r0 :: rest => forallb (same_mod_concat sch r0) rest
  end.

(* merge(o1, o2, ..., on): what the executor computes from the outputs of n handlers *)
Definition merge_list (sch : schema) (l : list entries) : res entries :=
  match l with
  | [] => Ok []
  | a :: r => merge_all sch a r
  end.

Definition bind (r : res entries) (f : entries -> res entries) : res entries :=
  match r with Ok x => f x | Err e => Err e end.

(* input: schema and three objects of that class.
   observed: [a+b; b+a; b+c; (a+b)+c; a+(b+c); a+empty; empty+a; merge(a,b,c)] and the left
   folds over all 6 permutations of [a;b;c] *)
Definition merge_input := (schema * (entries * entries * entries))%type.
Definition merge_output := (list (res entries) * list (res entries))%type.

Definition P_C15_merge (x : merge_input) (y : merge_output) : bool :=
  let sch := fst x in
  let '(a, b, c) := snd x in
  let o n := nth n (fst y) (Err EType) in
  let free := order_free (MMerge sch) in
  Nat.eqb (List.length (fst y)) 8 && Nat.eqb (List.length (snd y)) 6 &&
  (* field by field laws *)
  lawful sch a b (o 0%nat) && lawful sch b a (o 1%nat) && lawful sch b c (o 2%nat) &&
  (* unset is neutral on either side *)
  same_exact sch (o 5%nat) (Ok a) && same_exact sch (o 6%nat) (Ok a) &&
  (* associativity (including definedness), and the variadic form is the left fold *)
  same_exact sch (o 3%nat) (o 4%nat) && same_exact sch (o 7%nat) (o 3%nat) &&
  (* commutativity and order independence modulo Concat order; UseFirst/UseLast classes are
     order dependent by declaration and excluded *)
  (negb free || (same_mod_concat sch (o 0%nat) (o 1%nat) && all_same_mod_concat sch (snd y))).

(* what the model computes for the same observations *)
Definition model_merge_outputs (x : merge_input) : merge_output :=
  let sch := fst x in
  let '(a, b, c) := snd x in
  let m := merge sch in
  ([ m a b; m b a; m b c; bind (m a b) (fun ab => m ab c); bind (m b c) (fun bc => m a bc);
     m a []; m [] a; merge_all sch a [b; c] ],
   [ merge_all sch a [b; c]; merge_all sch a [c; b]; merge_all sch b [a; c];
     merge_all sch b [c; a]; merge_all sch c [a; b]; merge_all sch c [b; a] ]).

Fixpoint all2 {A B : Type} (f : A -> B -> bool) (l : list A) (l' : list B) : bool :=
  match l, l' with
  | [], [] => true
  | x :: r, y :: r' => f x y && all2 f r r'
  | _, _ => false
  end.

Definition agree_merge (x : merge_input) (y : merge_output) : bool :=
  let my := model_merge_outputs x in
  all2 (res_eqb false (fst x)) (fst my) (fst y) && all2 (res_eqb false (fst x)) (snd my) (snd y).

Definition wf_C15_merge (x : merge_input) : bool :=
  let sch := fst x in
  let '(a, b, c) := snd x in
  wf_obj sch a && wf_obj sch b && wf_obj sch c.

(* ---- executor: what is observed on the real MeshExecutor.execute_for ------------------------------ *)

(* outcome of execute_for(device): the peers of the BgpConfig (each as attribute map, PeerOptions
   nested under "options" with its non-None fields) and the (interface, address) pairs the run
   assigned on the device through Interface.add_addr; or ValueError; or any other exception *)
Inductive xres :=
| XOk (peers : list entries) (addrs : list (string * string))
| XValueError
| XOther.

Definition peer_eqb (p q : entries) : bool := veqb false (MMerge []) (VObj p) (VObj q).

Definition peers_same (ps qs : list entries) : bool :=
  Nat.eqb (List.length ps) (List.length qs) &&
  forallb (fun p => existsb (peer_eqb p) qs) ps && forallb (fun q => existsb (peer_eqb q) ps) qs.

Definition sa_eqb (a b : string * string) : bool :=
  String.eqb (fst a) (fst b) && String.eqb (snd a) (snd b).

Definition addrs_same (a b : list (string * string)) : bool :=
  Nat.eqb (List.length a) (List.length b) &&
  forallb (fun x => existsb (sa_eqb x) b) a && forallb (fun x => existsb (sa_eqb x) a) b.

Definition xres_same (a b : xres) : bool :=
  match a, b with
  | XOk p ad, XOk q bd => peers_same p q && addrs_same ad bd
  | XValueError, XValueError => true
  | _, _ => false
  end.

(* "for all permutations of handler registration: execute_for result equal or ValueError in all" *)
Definition perm_inv (outs : list xres) : bool :=
  match outs with
  | [] => true
  | o :: r => match o with XOther => false | _ => true end && forallb (xres_same o) r
  end.

(* str(ip_interface(x).ip) on canonical text: drop the "/len" *)
Fixpoint ip_of (s : string) : string :=
  match s with
  | EmptyString => EmptyString
  | String c r => if Ascii.eqb c "/"%char then EmptyString else String c (ip_of r)
  end.

Definition get_atom (f : string) (p : entries) : atom :=
  match lookup f p with Some (VAtom a) => a | _ => ANone end.
Definition get_str (f : string) (p : entries) : string :=
  match get_atom f p with AStr s => s | _ => EmptyString end.
Definition local_as (p : entries) : atom :=
  match lookup "options" p with Some (VObj o) => get_atom "local_as" o | _ => ANone end.
Definition get_val (f : string) (p : entries) : value :=
  match lookup f p with Some v => v | None => VAtom ANone end.

Definition local_ips (addrs : list (string * string)) (ifname : string) : list string :=
  map (fun x => ip_of (snd x)) (filter (fun x => String.eqb (fst x) ifname) addrs).

Definition smem (s : string) (l : list string) : bool := existsb (String.eqb s) l.

(* q, computed on B, is the other end of p, computed on A *)
Definition mirrors (A : string) (addrsA addrsB : list (string * string)) (p q : entries) : bool :=
  String.eqb (get_str "hostname" q) A &&
  smem (get_str "addr" q) (local_ips addrsA (get_str "interface" p)) &&
  smem (get_str "addr" p) (local_ips addrsB (get_str "interface" q)) &&
  atom_eqb (get_atom "remote_as" p) (local_as q) &&
  atom_eqb (get_atom "remote_as" q) (local_as p) &&
  value_eqb (get_val "families" p) (get_val "families" q) &&
  atom_eqb (get_atom "vrf_name" p) (get_atom "vrf_name" q) &&
  atom_eqb (get_atom "group_name" p) (get_atom "group_name" q).

Definition mirror_pair (A B : string) (oa ob : xres) : bool :=
  match oa, ob with
  | XOk pa aa, XOk pb ab =>
    forallb (fun p => negb (String.eqb (get_str "hostname" p) B) || existsb (mirrors A aa ab p) pb) pa
  | _, _ => true                      (* a side that raised has no peers to compare *)
  end.

Definition first_out (l : list xres) : xres := match l with o :: _ => o | [] => XOther end.

(* input: device names; observed: per device the distinct outcomes over all permutations of rule
   registration, the registration order of the case first *)
Definition exec_output := list (string * list xres).

Definition P_C15_exec (y : exec_output) : bool :=
  forallb (fun d => perm_inv (snd d)) y &&
  forallb (fun da => forallb (fun db =>
    mirror_pair (fst da) (fst db) (first_out (snd da)) (first_out (snd db))) y) y.
