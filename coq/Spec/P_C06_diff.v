(* C06, filter_diff: declarative reference for apply_acl_diff and the predicates evaluated on
   the real implementation's outputs. *)
From Coq Require Import List String Ascii Bool Arith.
From Annet Require Import Base.Str Base.Tree Model.Pattern Model.Order Model.Acl Model.AclDiff.
Import ListNotations.
Open Scope string_scope.
Open Scope list_scope.

(* keep exactly the entries whose whole path satisfies mt; a removal whose path satisfies cd
   becomes "affected" *)
Fixpoint prune_d (mt cd : list string -> bool) (t : dtree) {struct t} : list dtree :=
  match t with
  | DT op row kids =>
    if mt [row]
    then [DT (match op with OpRemoved => if cd [row] then OpAffected else OpRemoved | o => o end) row
             ((fix go (l : list dtree) : list dtree :=
                 match l with
                 | [] => []
                 | k :: l' => prune_d (fun p => mt (row :: p)) (fun p => cd (row :: p)) k ++ go l'
                 end) kids)]
    else []
  end.

Section RefDiff.
  Variable rmatch : string -> string -> option (list string).
  Variable rsrc : string -> string.
  Variable rrev : string -> string.
  Variable norm : string -> string.
  Notation mrow := (match_row_to_acl rmatch rsrc rrev norm).

  (* every row of the path is matched (directly or in reverse form) by the rules in force *)
  Fixpoint acl_matches_path (rs : aset) (p : list string) : bool :=
    match p with
    | [] => true
    | r :: q => match mrow r rs false with MSome _ crs => acl_matches_path crs q | _ => false end
    end.
  (* the rule governing the last row of the path has all cant_delete flags set *)
  Fixpoint acl_cant_delete_at (rs : aset) (p : list string) : bool :=
    match p with
    | [] => false
    | r :: q =>
      match mrow r rs false with
      | MSome m crs => match q with [] => forallb (fun b => b) (ar_cd (am_rule m)) | _ => acl_cant_delete_at crs q end
      | _ => false
      end
    end.
  Definition ref_filter_diff (rs : aset) (d : list dtree) : list dtree :=
    flat_map (prune_d (acl_matches_path rs) (acl_cant_delete_at rs)) d.
End RefDiff.

Definition p_ref_filter_diff (v : avendor) := ref_filter_diff acl_pm acl_psrc (acl_prev v) (acl_norm v).

(* one observed case: vendor, ACL, diff, apply_acl_diff's output (None: compile error) *)
Definition c06diff := (avendor * acl * list dtree * option (list dtree))%type.

Definition agree_diff (c : c06diff) : bool :=
  let '(v, a, d, o) := c in
  match compile_acl a, o with
  | Some rs, Some out => dlist_eqb (p_apply_acl_diff v rs d) out
  | None, None => true
  | _, _ => false
  end.
Definition holds_diff (c : c06diff) : bool :=
  let '(v, a, d, o) := c in
  match compile_acl a, o with
  | Some rs, Some out => dlist_eqb out (p_ref_filter_diff v rs d)
  | None, None => true
  | _, _ => false
  end.
