(* C08, clause "the relative order of two commands does not depend on unrelated lines
   elsewhere in the configuration": the computable guard under which removing a top-level
   row r from BOTH old and new provably removes exactly r's commands from the patch and
   leaves every other command where it was (Properties/C08.v: C08_unrelated_row), and the
   clause of the correspondence run that evaluates the same guard on real outputs.
   No proofs here.

   What "unrelated" has to mean for the pipeline as written (each conjunct excludes one way
   in which the row is *not* unrelated; the class of the open finding
   meta/tied-commands-follow-diff-position fails conjunct [same_slot]):
   - the rules do not know r at all (apply_diff_rb drops it from both sides): nothing to do;
   - otherwise r stands in old AND in new (its own subtree may differ arbitrarily), and
     [same_slot]   among the top-level rows of its %diff_logic that the rules know, r has the
                   same position in old and in new.  base_diff numbers removed rows by their
                   position in old and all other rows by their position in new and merges the
                   two numberings; a row that exists on one side only, or at two different
                   positions, shifts one numbering against the other when it is taken out
                   (and, under %ordered, changes which later rows are marked MOVED);
     [not_rewrite] r's diff logic is not rewrite_diff (there one changed row turns the
                   whole group into a rewrite, so no row is unrelated to its group);
     [own_rule]    no other top-level row is governed by a patching rule with the same
                   raw_rule text (make_pre groups the diff by raw_rule, and the group's
                   position and attributes come from its first row);
     [dl_order]    taking r out does not change the first-seen order of the diff logics of
                   the level (call_diff_logic concatenates the per-logic diffs in that order);
     [nodup]       top-level rows are unique (Python dict). *)
From Coq Require Import List String Ascii Bool Arith ZArith.
From Annet Require Import Base.Str Base.Tree Model.Pattern Model.Rulebook Model.Diff Model.Order
     Model.Patch Model.Blocks Model.Pipeline Spec.PipelineCase Spec.P_C03 Spec.P_C08.
Import ListNotations.
Open Scope string_scope.
Open Scope list_scope.

(* what the guard looks at: the rows of a level that the rules know, with their governing rule *)
Definition sg := (string * minfo)%type.
Definition sg_dl (x : sg) : dlogic := mi_dlogic (snd x).
Definition sg_of (f : aforest) : list sg := map fst f.

Fixpoint sg_index (r : string) (l : list sg) (i : nat) : option nat :=
  match l with
  | [] => None
  | x :: t => if String.eqb (fst x) r then Some i else sg_index r t (S i)
  end.
Definition sg_rm (r : string) (l : list sg) : list sg :=
  filter (fun x => negb (String.eqb (fst x) r)) l.
Definition sg_find (r : string) (l : list sg) : option sg :=
  find (fun x => String.eqb (fst x) r) l.
Definition sg_class (L : dlogic) (l : list sg) : list sg :=
  filter (fun x => dlogic_eqb (sg_dl x) L) l.

Fixpoint dl_list_eqb (a b : list dlogic) : bool :=
  match a, b with
  | [], [] => true
  | x :: a', y :: b' => dlogic_eqb x y && dl_list_eqb a' b'
  | _, _ => false
  end.

(* [dl_order]: the diff logics still present after the removal come in the order they had *)
Definition dl_order_kept (r : string) (so sn : list sg) : bool :=
  let dls := map sg_dl so ++ map sg_dl sn in
  let dls' := map sg_dl (sg_rm r so) ++ map sg_dl (sg_rm r sn) in
  dl_list_eqb (uniq_dl dls' [])
              (filter (fun L => existsb (dlogic_eqb L) dls') (uniq_dl dls [])).

Definition same_slot (r : string) (L : dlogic) (so sn : list sg) : bool :=
  match sg_index r (sg_class L so) 0, sg_index r (sg_class L sn) 0 with
  | Some k, Some k' => Nat.eqb k k'
  | _, _ => false
  end.

Definition own_rule (r : string) (R : string) (l : list sg) : bool :=
  forallb (fun x => String.eqb (fst x) r || negb (String.eqb (mi_raw (snd x)) R)) l.

Definition meta_guard_sg (r : string) (so sn : list sg) : bool :=
  match sg_find r so, sg_find r sn with
  | None, None => true
  | Some x, Some _ =>
    negb (dlogic_eqb (sg_dl x) DRewrite) &&
    nodup_rows (map fst so) && nodup_rows (map fst sn) &&
    same_slot r (sg_dl x) so sn &&
    own_rule r (mi_raw (snd x)) (so ++ sn) &&
    dl_order_kept r so sn
  | _, _ => false
  end.

Section Guard.
  Variable rmatch : string -> string -> option (list string).
  Definition meta_guard_g (rs : rset) (old new : forest) (r : string) : bool :=
    meta_guard_sg r (sg_of (annot_f rmatch rs old)) (sg_of (annot_f rmatch rs new)).
End Guard.

(* the pipeline instance *)
Definition meta_guard (rs : rset) (old new : forest) (r : string) : bool := meta_guard_g pm rs old new r.

(* the row is known to the rules (the guard is then the non-trivial branch) *)
Definition meta_known (rs : rset) (old new : forest) (r : string) : bool :=
  match sg_find r (sg_of (annot_f pm rs old)) with Some _ => true | None => false end.

(* what the theorem promises about the patch after the removal: it is the full patch without
   the top-level items that carry r's raw_rule in their sort key, everything else in place *)
Definition key_raw (i : item) : string := snd (fst (snd i)).
Definition drop_rule (R : string) (p : ptree) : ptree :=
  PT (filter (fun i : item => negb (String.eqb (key_raw i) R)) (pitems p)).
Definition raw_of_row (rs : rset) (f : forest) (r : string) : option string :=
  option_map (fun x : sg => mi_raw (snd x)) (sg_find r (sg_of (annot_f pm rs f))).

(* ---- the clause of the correspondence run ----
   [c] the pipeline case (rules, old, new), [r] the row the harness took out of old and new,
   [s] the real patch of (old, new), [m] the real patch of (old - r, new - r):
   under the guard, m is exactly s without r's items (rows, nesting and order; [ptree_eqb]),
   hence the relative order of all remaining commands is unchanged at every depth. *)
Definition c8_meta_exact (c : pcase) (r : string) (s m : option ptree) : bool :=
  match s, m with
  | Some s', Some m' =>
    match raw_of_row (pc_rules c) (pc_old c) r with
    | Some R => ptree_eqb (drop_rule R s') m'
    | None => ptree_eqb s' m'
    end
  | Some _, None => false                 (* the smaller input cannot fail where the larger did not *)
  | None, _ => true
  end.
Definition c8_meta_guarded (c : pcase) (r : string) (s m : option ptree) : bool :=
  implb (meta_guard (pc_rules c) (pc_old c) (pc_new c) r)
        (c8_meta_exact c r s m &&
         match s, m with
         | Some s', Some m' => subseq (all_paths [] m') (all_paths [] s')
         | _, _ => true
         end).

(* what the harness hands over per case: the row it removed and the real patch of the
   smaller pair (None = the run raised AssertionError); None = no metamorphic run *)
Definition meta_obs := option (string * option ptree).
Definition c8_meta2 (c : pcase) (x : meta_obs) : bool :=
  match x with
  | Some (r, m) => c8_meta_guarded c r (pc_patch c) m
  | None => true
  end.
(* for the evidence: the guard held / held for a row the rules know (non-trivial branch) *)
Definition c8_meta2_guard (c : pcase) (x : meta_obs) : bool :=
  match x with
  | Some (r, _) => meta_guard (pc_rules c) (pc_old c) (pc_new c) r
  | None => false
  end.
Definition c8_meta2_known (c : pcase) (x : meta_obs) : bool :=
  match x with
  | Some (r, _) => meta_guard (pc_rules c) (pc_old c) (pc_new c) r &&
                   meta_known (pc_rules c) (pc_old c) (pc_new c) r
  | None => false
  end.

(* ---- rows no rule mentions: what order_config does, exactly ----
   (the property's sentence "they keep their relative order" is refuted, see
   C08_unmentioned_stable_refuted): in the result the unmentioned rows are the unmentioned
   rows that start with the negation word, in input order, then the others, in input order *)
Definition unmentioned_exact (v : vendor) (ordering : list orule) (cfg ordered : forest) : bool :=
  let un := fun kv : string * tree => negb (mentioned v ordering (fst kv)) in
  let neg := fun kv : string * tree => startswith (v_reverse v) (fst kv) in
  list_str_eqb (map fst (filter un ordered))
               (map fst (filter (fun kv => un kv && neg kv) cfg) ++
                map fst (filter (fun kv => un kv && negb (neg kv)) cfg)).
Definition c8_cfg_unmentioned_exact (o : obs08) : bool :=
  unmentioned_exact (o8_vendor o) (o8_ordering o) (o8_cfg o) (o8_ordered o).
