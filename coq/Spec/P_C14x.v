(* C14 — deepening: comparison of the VALUES inside rows between model and implementation,
   and the name-derivation functions of entities.py compared one to one.

   agree_full : every row of every generator is compared word for word (block path, all
                words of the row incl. list names, referenced names, members, bounds and
                sequence numbers, header flag, item tag) and the error with its item.
   The abstraction alpha of Spec/P_C14.v is subsumed by it. *)
From Coq Require Import List String Ascii Bool Arith.
From Annet Require Import Base.Str Base.Tree Model.Offside Model.Rpl Spec.P_C14.
Import ListNotations.
Open Scope string_scope.
Open Scope list_scope.

Definition mrow_full_eqb (a b : mrow) : bool :=
  list_eqb list_str_eqb (r_path a) (r_path b) &&
  list_str_eqb (r_toks a) (r_toks b) &&
  Bool.eqb (r_hdr a) (r_hdr b) && otag_eqb (r_tag a) (r_tag b).

Definition gout_agree_full (m : gout) (g : igen) : bool :=
  list_eqb mrow_full_eqb (map norm_mrow (fst m)) (map irow_to_mrow (ig_rows g)) &&
  gerr_eqb (snd m) (ig_err g).

Definition agree_full (fx : fixes) (v : vendor) (g : prog) (obs : list igen) : bool :=
  list_eqb (fun (m : gname * gout) (o : igen) => gname_eqb (fst m) (ig_name o) && gout_agree_full (snd m) o)
           (run_all fx v g) obs.

(* ------------------------------------------------------------------ name derivation *)

(* observed:  PrefixListNameGenerator(...).get_prefix(name, PrefixMatchValue(or_longer=(ge, le))).name
              for (name, ge, le) ; mangle_united_community_list_name(names) for names *)
Record nameobs := NO { no_pfx : list (string * option nat * option nat * string);
                       no_mangle : list (list string * string) }.

Definition names_agree (o : nameobs) : bool :=
  forallb (fun q : string * option nat * option nat * string =>
             match q with (n, ge, le, r) => String.eqb (pfx_name n ge le) r end) (no_pfx o) &&
  forallb (fun q : list string * string => String.eqb (mangle (fst q)) (snd q)) (no_mangle o).

(* ------------------------------------------------------------------ (c), split by generator *)

(* the statement of the property as it is written: names referred to by the POLICY generator's
   rows are defined by rows of the LIST generators (Cumulus: one stream holds both) *)
Definition ig_words (o : igen) : list row := map (fun r => words (i_text r)) (ig_rows o).
Definition is_policy_gen (o : igen) : bool := match ig_name o with GPolicy | GFrr => true | _ => false end.
Definition is_list_gen (o : igen) : bool := match ig_name o with GPolicy => false | _ => true end.
Definition P_refs_split (v : vendor) (obs : list igen) : bool :=
  negb (forallb (fun o => match ig_err o with None => true | Some _ => false end) (filter is_list_gen obs)) ||
  subset_refs (refs v (flat_map ig_words (filter is_policy_gen obs)))
              (defs v (flat_map ig_words (filter is_list_gen obs))).
Definition P_C14_c_split (v : vendor) (g : prog) (obs : list igen) : bool :=
  negb (wf_prog g) || P_refs_split v obs.
