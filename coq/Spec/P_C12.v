(* C12: declarative reference and the property predicate for what the caller of
   Parallel.irun / Parallel.run observes. *)
From Coq Require Import List Bool Arith.
From Annet Require Import Model.Pool.
Import ListNotations.

(* what was submitted: ids, tolerate_fails, and the function the task computes *)
Definition input := (list nat * bool * (nat -> val))%type.
Definition in_ids (x : input) := fst (fst x).
Definition in_tol (x : input) := snd (fst x).
Definition in_f (x : input) := snd x.

(* reference: exactly one outcome (id, f id) per submitted id; order of delivery is free *)
Definition spec_C12 (x : input) : list result := map (fun i => (i, in_f x i)) (in_ids x).

(* multiset equality / inclusion of id lists *)
Definition ms_eqb (a b : list nat) : bool :=
  forallb (fun x => Nat.eqb (count_occ Nat.eq_dec a x) (count_occ Nat.eq_dec b x)) (a ++ b).
Definition ms_subb (a b : list nat) : bool :=
  forallb (fun x => Nat.leb (count_occ Nat.eq_dec a x) (count_occ Nat.eq_dec b x)) a.

Definition payload_ok (f : nat -> val) (d : list result) : bool :=
  forallb (fun r => val_eqb (snd r) (f (fst r))) d.

(* P_C12 input outcome:
   - the call completed: delivered ids = submitted ids as multisets, every payload is f id;
   - the call raised the failure of id i: only allowed with tolerate_fails = False for an id whose task
     fails; what was delivered before is a sub-multiset of the rest with the right payloads. *)
Definition P_C12 (x : input) (o : outcome) : bool :=
  match o with
  | Completed d => ms_eqb (map fst d) (in_ids x) && payload_ok (in_f x) d
  | Raised i d =>
    negb (in_tol x) && is_fail (in_f x i) && ms_subb (i :: map fst d) (in_ids x) && payload_ok (in_f x) d
  | Other _ => false          (* "... and then terminates" *)
  end.

(* the payload function used by the correspondence runs (harness/impl/c12_runner.py) *)
Definition std_f (raising : list nat) (i : nat) : val :=
  if existsb (Nat.eqb i) raising then VFail (13 * i + 5) else VOk (7 * i + 3).

(* irun as a whole: pool_size = min(parallel, n); 1 -> sequential loop, otherwise the pool *)
Definition pool_size (parallel n : nat) : nat := Nat.min parallel n.
