(* C01, %ordered rules on a level of ANY shape: the computable domain of theorem C01_ordered_level_seq.
   One level (here: the top level) of old and new.  On the universe U of rows of old and new:
   - the removal command of a known row is matched by no rule, is no exit word and is the removal command of no
     known row of another slot; a known row is no exit word; rows of one rule text carry the same attributes
     ([lvl_ok] of Proofs/ConvergeDevice.v, as everywhere in C01);
   - no %force_commit; a known row is governed by an %ordered rule or by a rule with the default diff logic -
     with ANY of the six logics (default, undo_redo, permanent, ignore_changes, rewrite, ordered);
   - THE KEY DETERMINES THE ROW for the rows of %ordered rules (C01_ordered_retext_refuted: necessary);
   - exactly one %ordered rule governs rows of the level, with logic `ordered`;
   - old has distinct rows and one row per slot, new has distinct rows;
   - [order_ok_o]: the patch is computed, no removal is ordered after a direct command of its slot, the direct
     commands of the %ordered rows carry one sort key; the patch has no repeated row on a level and no exit word
     as a row ([prows_okb]: what makes formatter.cmd_paths the patch tree executed item by item).
   Rows no rule knows, rows with bodies of any depth governed by any rules, are allowed everywhere. *)
From Coq Require Import List String Ascii Bool Arith ZArith.
From Annet Require Import Base.Str Base.Tree Model.Pattern Model.Rulebook Model.Diff Model.Order
     Model.Patch Model.Blocks Model.Pipeline Model.Device Spec.P_C01 Spec.P_C01o Spec.P_C01ord.
Import ListNotations.
Open Scope string_scope.
Open Scope list_scope.

Definition lvl_ok_b (v : vendor) (rs : rset) (U : list string) : bool :=
  forallb (fun r =>
    match match_row pm r rs with
    | Some (s, _) =>
      let rv := reverse_of (prreverse v) s in
      negb (v_is_exit v r) &&
      match match_row pm rv rs with None => true | Some _ => false end && negb (v_is_exit v rv) &&
      negb (a_force_commit (mi_attrs s)) &&
      (is_ordered s || dlogic_eqb (a_dlogic (mi_attrs s)) DDefault) &&
      forallb (fun r' =>
        match match_row pm r' rs with
        | Some (s', _) =>
          (negb (String.eqb (reverse_of (prreverse v) s') rv) || same_slot s' s) &&
          (negb (String.eqb (mi_raw s') (mi_raw s)) || attrs_eqb (mi_attrs s') (mi_attrs s)) &&
          (negb (is_ordered s && same_slot s' s) || String.eqb r' r)
        | None => true
        end) U
    | None => true
    end) U.

(* the %ordered rule of the level: the rule of the first row an %ordered rule governs *)
Definition ord_rule (rs : rset) (U : list string) : option (string * attrs) :=
  match flat_map (fun r => match match_row pm r rs with
                           | Some (s, _) => if is_ordered s then [(mi_raw s, mi_attrs s)] else []
                           | None => []
                           end) U with
  | x :: _ => Some x
  | [] => None
  end.

Definition one_ord_rule_b (rs : rset) (U : list string) : bool :=
  match ord_rule rs U with
  | Some (R, aR) =>
    logic_eqb (a_logic aR) LOrdered &&
    forallb (fun r => match match_row pm r rs with
                      | Some (s, _) =>
                        Bool.eqb (is_ordered s) (String.eqb (mi_raw s) R) &&
                        (negb (is_ordered s) || attrs_eqb (mi_attrs s) aR)
                      | None => true
                      end) U
  | None => false
  end.

Fixpoint prows_okb (is_exit : string -> bool) (p : ptree) : bool :=
  match p with
  | PT items =>
    nodupb (map (fun i : string * option ptree * skey => fst (fst i)) items) &&
    (fix go (l : list (string * option ptree * skey)) : bool :=
       match l with
       | [] => true
       | (row, child, _) :: l' =>
         negb (is_exit row) && match child with Some ct => prows_okb is_exit ct | None => true end && go l'
       end) items
  end.

Definition wf_ord_level (v : vendor) (rs : rset) (ordering : list orule) (old new : forest) : bool :=
  let U := keys old ++ keys new in
  block_family (v_family v) && nodupb (keys old) && nodupb (keys new) && p_slots_unique rs old &&
  lvl_ok_b v rs U && one_ord_rule_b rs U && order_ok_o v rs ordering old new &&
  match snd (diff_and_patch v rs ordering old new) with POk pt => prows_okb (v_is_exit v) pt | PErr => false end.
