(* C15, clauses evaluated on real outputs that the earlier predicates did not state:

   1. no loss ("handler data merges without loss", "for two devices joined by a rule the peer is
      computed on each side"): every handler call of a matching rule for a pair (d, o) shows in the
      outcome of execute_for(d): there is a peer towards o at the address the call gave the other end
      which carries everything the call wrote (on the side the Peer field is read from, or on the
      session object).  The converse of P_C15_no_leak.
   2. families assigned: every address family of a peer was written by a handler call for its pair
      (value level; P_C15_no_leak is about attribute names).
   3. history independence: execute_for(d) inside a sequence of runs in one process (shared registry,
      handlers whose values are handler-level constants, several executors) is what a fresh process
      computes for d.  The model is a pure function of the registry and the storage, so the sequence
      of the model IS the list of fresh runs (C15_sequence_is_pointwise in Properties/C15.v).
   4. frame of merge: merge(a, b) leaves its operands as they were.  *)
From Coq Require Import List String Ascii Bool Arith ZArith.
From Annet Require Import Model.Merge Model.Mesh Model.MeshExec Spec.P_C15 Spec.P_C15_iface.
Import ListNotations.
Open Scope string_scope.
Open Scope list_scope.

(* ---- 1. no loss -------------------------------------------------------------------------------- *)

Definition atoms_of (v : value) : list atom := match v with VSet l => l | _ => [] end.

Definition peer_opt (g : string) (p : entries) : option value :=
  match lookup "options" p with Some (VObj o) => lookup g o | _ => None end.

(* models_converter.to_bgp_peer, read backwards: the value v a handler wrote for DTO attribute f on the
   device's own side (own = true) or on the other end's side (own = false) is carried by the Peer p.
   Attributes no Peer field is read from (addr of the own side, mtu, lag, svi, subif, ifname, ...) are
   not observable here: the interface clause speaks about them. *)
Definition carried (opt_fields : list string) (own : bool) (f : string) (v : value) (p : entries) : bool :=
  if is_none_val v then true
  else if own then
    if String.eqb f "import_policy" || String.eqb f "export_policy" || String.eqb f "update_source"
    then value_eqb (get_val f p) v
    else
      let g := if String.eqb f "asnum" then "local_as" else f in
      if sin g opt_fields
      then match peer_opt g p with Some w => value_eqb w v | None => false end
      else true
  else
    if String.eqb f "families" then subset (atoms_of v) (atoms_of (get_val "families" p))
    else if String.eqb f "description" || String.eqb f "group_name" then value_eqb (get_val f p) v
    else if String.eqb f "vrf" then value_eqb (get_val "vrf_name" p) v
    else if String.eqb f "asnum" then value_eqb (get_val "remote_as" p) v
    else true.

(* one handler call seen from device d: own side, other side, session, the other end's name *)
Definition call_shows (opt_fields : list string) (own other ses : entries) (oname : string)
           (peers : list entries) : bool :=
  match lookup "addr" other with
  | Some (VAtom (AStr a)) =>
    existsb (fun p =>
      String.eqb (get_str "hostname" p) oname && String.eqb (get_str "addr" p) (ip_of a) &&
      forallb (fun fv => carried opt_fields true (fst fv) (snd fv) p) (own ++ ses) &&
      forallb (fun fv => carried opt_fields false (fst fv) (snd fv) p) (other ++ ses)) peers
  | _ => true                        (* no peer address: the run cannot succeed; nothing is claimed *)
  end.

Definition no_loss_dev (c : ecase) (d : string) (peers : list entries) : bool :=
  forallb (fun e =>
    let '(id, l, r, _) := fst e in
    let '(el, er, es) := snd e in
    if negb (case_matches c id l r) || String.eqb l r then true
    else if String.eqb l d then call_shows (e_opt_fields c) el er es r peers
    else if String.eqb r d then call_shows (e_opt_fields c) er el es l peers
    else true) (e_table c).

Definition P_C15_no_loss (c : ecase) (y : list (string * eres)) : bool :=
  forallb (fun o => match snd o with
                    | EOk peers _ => no_loss_dev c (fst o) peers
                    | _ => true
                    end) y.

(* ---- 2. every family of a peer was assigned by a call for its pair ---------------------------- *)

Definition families_written (c : ecase) (a b paddr : string) : list atom :=
  flat_map (fun e => let '(_, l, r, _) := fst e in
                     let '(el, er, es) := snd e in
                     ((if String.eqb l a && String.eqb r b && String.eqb (ip_of (get_str "addr" er)) paddr
                       then atoms_of (get_val "families" er) ++ atoms_of (get_val "families" es) else []) ++
                      (if String.eqb l b && String.eqb r a && String.eqb (ip_of (get_str "addr" el)) paddr
                       then atoms_of (get_val "families" el) ++ atoms_of (get_val "families" es) else []))%list)
           (e_table c).

Definition vfamilies_written (c : ecase) (a paddr : string) : list atom :=
  flat_map (fun e => let '(_, d, _) := fst e in
                     let '(_, ev, es) := snd e in
                     if String.eqb d a && String.eqb (ip_of (get_str "addr" ev)) paddr
                     then (atoms_of (get_val "families" ev) ++ atoms_of (get_val "families" es))%list else [])
           (e_vtable c).

Definition peer_families_assigned (c : ecase) (d : string) (p : entries) : bool :=
  let host := get_str "hostname" p in
  let paddr := get_str "addr" p in
  subset (atoms_of (get_val "families" p))
         (if String.eqb host "" then vfamilies_written c d paddr else families_written c d host paddr).

Definition P_C15_families_assigned (c : ecase) (y : list (string * eres)) : bool :=
  forallb (fun o => match snd o with
                    | EOk peers _ => forallb (peer_families_assigned c (fst o)) peers
                    | _ => true
                    end) y.

(* ---- 3. history independence -------------------------------------------------------------------- *)

(* fresh: per device the outcome of execute_for in a fresh state (new registry, new handler values, new
   storage); seq: (device, outcome) of every run of the sequence, in the order they were made *)
Definition P_C15_history (fresh seq : list (string * eres)) : bool :=
  forallb (fun o => match find (fun f => String.eqb (fst f) (fst o)) fresh with
                    | Some f => eres_same (snd f) (snd o)
                    | None => false
                    end) seq.

(* the runs of a sequence, as the pure model computes them: one after the other, nothing carried over *)
Definition model_sequence {A : Type} (run : string -> A) (devs : list string) : list A := map run devs.

(* ---- 4. merge leaves its operands alone ------------------------------------------------------- *)

Definition obj_same (sch : schema) (a b : entries) : bool := veqb false (MMerge sch) (VObj a) (VObj b).

(* x: the schema and the three operands before the calls; y: the same three objects afterwards *)
Definition P_C15_frame (x : merge_input) (y : entries * entries * entries) : bool :=
  let sch := fst x in
  let '(a, b, c) := snd x in
  let '(a', b', c') := y in
  obj_same sch a a' && obj_same sch b b' && obj_same sch c c'.
