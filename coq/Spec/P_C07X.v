(* C07 on the extended rule language (Model/PatternX.v): what a rule pattern means,
   declaratively, and the property predicate evaluated on implementation outputs.
   The plain language of Spec/P_C07.v is the sub-language without XLitRe / XTildeRe. *)
From Coq Require Import List String Ascii Bool Arith.
From Annet Require Import Base.Str Model.Pattern Model.PatternX Spec.P_C07.
Import ListNotations.
Open Scope string_scope.
Open Scope list_scope.

(* ------------------------------------------------------------------------------ *)
(* Matching: the row's words start with words matching the tokens one to one, at word
   boundaries; only `*`, `*/re/` and the trailing `~` bind                          *)

Inductive xtok_binds (ic : bool) : xtok -> string -> list string -> Prop :=
| XB_lit w x : word_eq ic w x = true -> xtok_binds ic (XLit w) x []
| XB_star x : xtok_binds ic XStar x [x]
| XB_re r x : sre_lang ic r (l_of x) -> xtok_binds ic (XStarRe r) x [x]
| XB_litre r x : sre_lang ic r (l_of x) -> xtok_binds ic (XLitRe r) x []
| XB_tildere r x : sre_lang ic r (l_of x) -> xtok_binds ic (XTildeRe r) x [].

Inductive xmatches_spec (ic : bool) : xpat -> list string -> list string -> Prop :=
| XMS_end rest :
    xmatches_spec ic [] rest []
| XMS_tilde rest :
    rest <> [] -> xmatches_spec ic [XTilde] rest [join_with " " rest]
| XMS_tok t p x ws b key :
    xtok_binds ic t x b -> xmatches_spec ic p ws key ->
    xmatches_spec ic (t :: p) (x :: ws) (b ++ key).

(* its boolean decision procedure: the word-level matcher with both peculiarities of the
   code switched off (PatternXProofs.xmatch_strict_iff) *)
Definition xref_match (p : xpat) (ic : bool) (row : string) : option (list string) :=
  match p with
  | [] => None
  | _ => xmatch_words false false p ic (words row)
  end.

(* ------------------------------------------------------------------------------ *)
(* Removal command: negation word, then the rule's words with the key substituted;
   a regex word keeps its source text (as the code does), `~/re/` is dropped        *)

Fixpoint xsubst_key (p : xpat) (key : list string) : option (list string) :=
  match p with
  | [] => Some []
  | XLit w :: p' => option_map (cons w) (xsubst_key p' key)
  | XLitRe r :: p' => option_map (cons (print_sre r)) (xsubst_key p' key)
  | XTildeRe _ :: p' => xsubst_key p' key
  | _ :: p' =>
    match key with
    | k :: ks => option_map (cons k) (xsubst_key p' ks)
    | [] => None                              (* str.format: IndexError *)
    end
  end.

Definition xref_reverse (p : xpat) (prefix : string) (key : list string) : option string :=
  option_map (join_with " ") (xsubst_key (reverse_xpat p prefix) key).

(* the removal command does not start with a dropped `~/re/` word *)
Definition lead_ok (q : xpat) : bool := match q with XTildeRe _ :: _ => false | _ => true end.

(* ------------------------------------------------------------------------------ *)
(* The predicate evaluated on implementation outputs (records of Spec/P_C07.v)      *)

Definition model_C07X (x : c07_in) : c07_out :=
  let tmpl := make_reverse (ci_rule x) (ci_prefix x) in
  let ic := rule_ic (ci_rule x) (ci_ic x) in
  let m := match xrule_pat (ci_rule x) with
           | Some p => xpmatch p ic
           | None => fun _ => None
           end in
  C07Out tmpl (format_template_opt tmpl (ci_fkey x))
    (map (fun row => match m row with
                     | Some key => Some (key, format_template_opt tmpl key)
                     | None => None
                     end) (ci_rows x)).

Definition xspec_row (p : xpat) (ic : bool) (prefix : string) (row : string)
  : option (list string * option string) :=
  match xref_match p ic row with
  | Some key => Some (key, xref_reverse p prefix key)
  | None => None
  end.

Definition wf_C07X (x : c07_in) : bool :=
  match xrule_pat (ci_rule x) with
  | Some p => lead_ok (reverse_xpat p (ci_prefix x))
  | None => false
  end
  && forallb wf_row (ci_rows x) && plain_word (ci_prefix x).

Definition P_C07X (x : c07_in) (y : c07_out) : bool :=
  match xrule_pat (ci_rule x) with
  | None => false
  | Some p =>
    let ic := rule_ic (ci_rule x) (ci_ic x) in
    opt_eqb String.eqb (co_ffmt y) (xref_reverse p (ci_prefix x) (ci_fkey x))
    && list_eqb row_out_eqb (co_rows y) (map (xspec_row p ic (ci_prefix x)) (ci_rows x))
  end.

(* the rule row shows neither of the two peculiarities of compile_row_regexp *)
Definition qf_C07X (x : c07_in) : bool :=
  match xrule_pat (ci_rule x) with Some p => quirk_free p | None => false end.

(* the rule row shows one of the two peculiarities of compile_row_regexp *)
Definition quirk_cap (p : xpat) : bool := negb (has_star p) && existsb xtok_capgrp p.
Definition quirk_nb (p : xpat) : bool :=
  has_tildere p && negb (match xlast p with Some XStar => true | _ => false end).

(* diagnostics for a failing case *)
Fixpoint xbad_rows (p : xpat) (ic : bool) (prefix : string) (n : nat) (rows : list string)
         (outs : list (option (list string * option string))) : list (nat * bool) :=
  match rows, outs with
  | r :: rows', o :: outs' =>
    let e := xspec_row p ic prefix r in
    (if row_out_eqb o e then [] else
       [(n, opt_eqb list_str_eqb (option_map fst o) (option_map fst e))])
      ++ xbad_rows p ic prefix (S n) rows' outs'
  | _, _ => []
  end.

(* ((fallback-key command agrees?, implementation = model?), (bare group captures?, no
   trailing boundary?), [(row index, match part agrees?)]) *)
Definition diag_C07X (x : c07_in) (y : c07_out)
  : (bool * bool) * (bool * bool) * list (nat * bool) :=
  match xrule_pat (ci_rule x) with
  | None => ((false, false), (false, false), [])
  | Some p =>
    ((opt_eqb String.eqb (co_ffmt y) (xref_reverse p (ci_prefix x) (ci_fkey x)),
      out_eqb (model_C07X x) y),
     (quirk_cap p, quirk_nb p),
     xbad_rows p (rule_ic (ci_rule x) (ci_ic x)) (ci_prefix x) 0 (ci_rows x) (co_rows y))
  end.
