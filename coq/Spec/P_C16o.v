(* C16: the observed outputs of the two real front ends and the property predicate on them.
   Deliberately independent of Gen/Src_api.v, so that it can still be evaluated on the
   implementation's outputs (search for a failing input) when the data-flow table cannot be
   regenerated from a changed source. *)
From Coq Require Import List String Ascii Bool Arith ZArith.
From Annet Require Import Base.Str Base.Tree Model.Pattern Model.Rulebook Model.Diff Model.Order
     Model.Patch Model.Blocks Model.Pipeline Spec.PipelineCase.
Import ListNotations.
Open Scope string_scope.
Open Scope list_scope.

Definition presult_eqb (a b : presult) : bool :=
  match a, b with
  | POk x, POk y => ptree_eqb x y
  | PErr, PErr => true
  | _, _ => false
  end.

(* observed outputs of the two real front ends on the same (hw, old, new) *)
Record obs16 := Obs16 {
  o_dev_diff : list dnode; o_dev_patch : option ptree; o_dev_paths : list (list string);
  o_file_diff : list dnode; o_file_patch : option ptree; o_file_paths : list (list string)
}.

Definition opt_ptree_eqb (a b : option ptree) : bool :=
  match a, b with
  | Some x, Some y => ptree_eqb x y
  | None, None => true
  | _, _ => false
  end.

Definition P_C16 (o : obs16) : bool :=
  opt_ptree_eqb (o_dev_patch o) (o_file_patch o) &&
  paths_eqb (o_dev_paths o) (o_file_paths o) &&
  (match o_dev_patch o with None => true | Some _ => diff_eqb (o_dev_diff o) (o_file_diff o) end).

