(* C03, %multiline: the per-level law of Spec/P_C03X.v [ml_level_ok] at EVERY depth of a diff.
   [ml_ok ao an d]: the top level obeys the law and so does the level below every entry that is not itself a row of
   a %multiline rule (the children of such an entry are the opaque body, not a compared level), read against the
   children of that row on the two sides (absent = empty). *)
From Coq Require Import List String Bool Arith.
From Annet Require Import Base.Str Base.Tree Model.Pattern Model.Rulebook Model.Diff Model.DiffX Spec.P_C03 Spec.P_C03X.
Import ListNotations.
Open Scope list_scope.

Section X.
  Variable fl : minfo -> xflags.
  Fixpoint ml_ok_n (ao an : aforest) (d : dnode) {struct d} : bool :=
    match d with
    | DN _ row _ kids =>
      ml_row fl ao an row ||
      (ml_level_ok fl (asub_of ao row) (asub_of an row) kids &&
       forallb (ml_ok_n (asub_of ao row) (asub_of an row)) kids)
    end.
  Definition ml_ok (ao an : aforest) (d : list dnode) : bool :=
    ml_level_ok fl ao an d && forallb (ml_ok_n ao an) d.
End X.
