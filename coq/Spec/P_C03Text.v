(* C03, textual views: a parser for signed, indented listings (the inverse the property asks for),
   the per-level multiset relation, and the boolean predicates the check evaluates on the real
   formatter.diff / gen_pre_as_diff outputs. *)
From Coq Require Import List String Ascii Bool Arith.
From Annet Require Import Base.Str Base.Tree Model.Rulebook Model.Diff Model.Order Model.Patch Model.DiffText.
Require Annet.Gen.Src_vendors.
Import ListNotations.
Open Scope string_scope.
Open Scope list_scope.

(* ---------------------------------------------------------------- reading one line *)
Definition char_sign (c : ascii) : option sign :=
  if Ascii.eqb c " " then Some SAff else if Ascii.eqb c ">" then Some SMov
  else if Ascii.eqb c "-" then Some SRem else if Ascii.eqb c "+" then Some SAdd else None.

Fixpoint count_sp (s : string) : nat :=
  match s with String c r => if Ascii.eqb c " " then S (count_sp r) else 0 | EmptyString => 0 end.
Fixpoint sdrop (n : nat) (s : string) : string :=
  match n, s with S n', String _ r => sdrop n' r | _, _ => s end.
Definition all_blank (s : string) : bool := Nat.eqb (count_sp s) (String.length s).
Definition starts_blank (s : string) : bool :=
  match s with String c _ => Ascii.eqb c " " | EmptyString => false end.

(* sign, blank, n*level blanks, text *)
Notation token := (sign * nat * string)%type (only parsing).
Definition tok (n : nat) (l : string) : option token :=
  match l with
  | String c (String b r) =>
    if Ascii.eqb b " " then
      match char_sign c with
      | Some s => let k := count_sp r in
                  if Nat.eqb (k mod n) 0 then Some (s, k / n, sdrop k r) else None
      | None => None
      end
    else None
  | _ => None
  end.
Fixpoint toks (n : nat) (ls : list string) : option (list token) :=
  match ls with
  | [] => Some []
  | l :: r => match tok n l, toks n r with Some t, Some ts => Some (t :: ts) | _, _ => None end
  end.

(* s = row ++ suf  =>  Some row *)
Fixpoint strip_suffix (suf s : string) : option string :=
  if String.eqb s suf then Some EmptyString
  else match s with
       | EmptyString => None
       | String c r => match strip_suffix suf r with Some p => Some (String c p) | None => None end
       end.

(* ---------------------------------------------------------------- nesting from levels *)
(* entries of level [lvl] until a line of a smaller level; an entry has children iff the next line
   is one level deeper; where the formatter closes blocks (block_end non-empty) the closing line must
   follow the children, at the entry's level and with the entry's sign *)
Fixpoint pforest (F : tfmt) (fuel lvl : nat) (ts : list token) {struct fuel} : option (list snode * list token) :=
  match fuel with
  | O => None
  | S fuel' =>
    match ts with
    | [] => Some ([], [])
    | (s, l, txt) :: rest =>
      if Nat.ltb l lvl then Some ([], ts)
      else if negb (Nat.eqb l lvl) then None
      else
        let has_kids := match rest with (_, l', _) :: _ => Nat.eqb l' (S lvl) | [] => false end in
        if has_kids then
          match strip_suffix (tf_bb F) txt with
          | None => None
          | Some row =>
            match pforest F fuel' (S lvl) rest with
            | None => None
            | Some (kids, rest1) =>
              match (if is_empty (tf_be F) then Some rest1
                     else match rest1 with
                          | (s', l', t') :: r =>
                            if sign_eqb s s' && Nat.eqb l' lvl && String.eqb t' (tf_be F) then Some r else None
                          | [] => None
                          end) with
              | None => None
              | Some rest2 =>
                match pforest F fuel' lvl rest2 with
                | None => None
                | Some (sibs, rest3) => Some (SN s row kids :: sibs, rest3)
                end
              end
            end
          end
        else
          match strip_suffix (tf_se F) txt with
          | None => None
          | Some row =>
            match pforest F fuel' lvl rest with
            | None => None
            | Some (sibs, rest3) => Some (SN s row [] :: sibs, rest3)
            end
          end
    end
  end.

Definition parse_toks (F : tfmt) (ts : list token) : option (list snode) :=
  match pforest F (S (List.length ts)) 0 ts with
  | Some (d, []) => Some d
  | _ => None
  end.

(* the formatter's indent is n >= 1 blanks and its closing word does not start with a blank *)
Definition fmt_ok (F : tfmt) : bool :=
  all_blank (tf_indent F) && Nat.leb 1 (String.length (tf_indent F)) && negb (starts_blank (tf_be F)).

Definition parse_signed (F : tfmt) (ls : list string) : option (list snode) :=
  if fmt_ok F then
    match toks (String.length (tf_indent F)) ls with
    | Some ts => parse_toks F ts
    | None => None
    end
  else None.

(* rows that can be read back: non-empty, not starting with a blank (every vendor's split strips rows) *)
Definition row_ok (r : string) : bool :=
  match r with String c _ => negb (Ascii.eqb c " ") | EmptyString => false end.
Fixpoint rows_ok_n (d : snode) : bool :=
  match d with SN _ row kids => row_ok row && forallb rows_ok_n kids end.
Definition rows_ok (d : list snode) : bool := forallb rows_ok_n d.

(* formatter.diff read back *)
Definition read_back (F : tfmt) (d : list dnode) : option (list snode) :=
  match diff_lines F d with Some ls => parse_signed F ls | None => None end.

(* ---------------------------------------------------------------- the `annet diff` view *)
Definition plain_fmt (ind : string) : tfmt := TFmt ind "" "" "".

(* drop the trailing newline of a printed line *)
Fixpoint chomp (s : string) : string :=
  match s with
  | EmptyString => EmptyString
  | String c r => match r with
                  | EmptyString => if Ascii.eqb c nl then EmptyString else s
                  | _ => String c (chomp r)
                  end
  end.

Definition pre_read_back (ind : string) (d : list dnode) : option (list snode) :=
  parse_signed (plain_fmt ind) (map chomp (pre_lines ind 0 (make_pre d))).

(* the same entries on every level, as multisets: permutation of the entries of a level, recursively *)
Inductive tperm : list snode -> list snode -> Prop :=
| tp_nil : tperm [] []
| tp_skip s row k k' l l' : tperm k k' -> tperm l l' -> tperm (SN s row k :: l) (SN s row k' :: l')
| tp_swap x y l : tperm (y :: x :: l) (x :: y :: l)
| tp_trans l1 l2 l3 : tperm l1 l2 -> tperm l2 l3 -> tperm l1 l3.

(* ---------------------------------------------------------------- predicates on real outputs *)
(* canonical form of a level: insertion sort by (row, sign), recursively *)
Definition sign_rank (s : sign) : nat := match s with SAff => 0 | SMov => 1 | SRem => 2 | SAdd => 3 end.
Definition sn_leb (a b : snode) : bool :=
  match String.compare (s_row a) (s_row b) with
  | Lt => true
  | Gt => false
  | Eq => Nat.leb (sign_rank (s_sign a)) (sign_rank (s_sign b))
  end.
Fixpoint sn_insert (x : snode) (l : list snode) : list snode :=
  match l with
  | [] => [x]
  | y :: t => if sn_leb x y then x :: l else y :: sn_insert x t
  end.
Fixpoint scanon_n (d : snode) : snode :=
  match d with SN s row kids => SN s row (fold_right sn_insert [] (map scanon_n kids)) end.
Definition scanon (d : list snode) : list snode := fold_right sn_insert [] (map scanon_n d).
Definition same_levels (a b : list snode) : bool := sforest_eqb (scanon a) (scanon b).

(* formatter parameters of a vendor from the table regenerated from the source *)
Definition vendor_tfmt (name caller_indent : string) : option tfmt :=
  match find (fun v => String.eqb (Src_vendors.v_name v) name) Src_vendors.vendors with
  | Some v => Some (TFmt (match Src_vendors.v_indent v with Some s => s | None => caller_indent end)
                         (Src_vendors.v_block_begin v) (Src_vendors.v_block_end v) (Src_vendors.v_stmt_end v))
  | None => None
  end.

Fixpoint lines_eqb (a b : list string) : bool :=
  match a, b with
  | [], [] => true
  | x :: t, y :: t' => String.eqb x y && lines_eqb t t'
  | _, _ => false
  end.
Definition olines_eqb (a b : option (list string)) : bool :=
  match a, b with Some x, Some y => lines_eqb x y | None, None => true | _, _ => false end.

(* formatter.diff(d) = lines read back gives d's entries, signs and nesting (d without UNCHANGED) *)
Definition confirm_ok (F : tfmt) (d : list dnode) (lines : option (list string)) : bool :=
  match lines, shape_f d with
  | Some ls, Some s => negb (fmt_ok F && rows_ok s) ||
                       match parse_signed F ls with Some s' => sforest_eqb s' s | None => false end
  | None, None => true           (* KeyError exactly when an UNCHANGED entry is present *)
  | _, _ => false
  end.

(* gen_pre_as_diff(make_pre(d)) read back gives, level by level, the entries of d minus UNCHANGED *)
Definition pre_ok (ind : string) (d : list dnode) (lines : list string) : bool :=
  negb (fmt_ok (plain_fmt ind) && rows_ok (sshape_f d)) ||
  match parse_signed (plain_fmt ind) (map chomp lines) with
  | Some s' => same_levels s' (sshape_f d)
  | None => false
  end.
