(* C07 on the second extension of the rule language (Model/PatternY.v): what a rule row
   with glued placeholders and special last words means, declaratively, and the property
   predicate evaluated on implementation outputs. *)
From Coq Require Import List String Ascii Bool Arith.
From Annet Require Import Base.Str Model.Pattern Model.PatternX Model.PatternY Spec.P_C07 Spec.P_C07X.
Import ListNotations.
Open Scope string_scope.
Open Scope list_scope.

(* ------------------------------------------------------------------------------ *)
(* Matching                                                                        *)

(* token t accepts word x and binds b *)
Inductive ytok_binds (ic : bool) : ytok -> string -> list string -> Prop :=
| YB_x t x b : xtok_binds ic t x b -> ytok_binds ic (YX t) x b
| YB_glue r suf x u v :                 (* x = u v, u in L(re), v is the literal suffix *)
    l_of x = u ++ v -> sre_lang ic r u ->
    List.length v = List.length (l_of suf) -> word_eq ic suf (s_of v) = true ->
    ytok_binds ic (YGlue r suf) x [s_of u].

(* the end e of the pattern accepts the remaining words ws and binds key *)
Inductive yend_binds (ic : bool) : yend -> list string -> list string -> Prop :=
| YE_plain rest :                       (* a word boundary; anything may follow *)
    yend_binds ic EPlain rest []
| YE_tilde rest :                       (* one or more remaining words, bound as one *)
    rest <> [] -> yend_binds ic ETilde rest [join_with " " rest]
| YE_dots w x rest :                    (* the next word starts with w; no boundary *)
    word_prefix ic w x = true -> yend_binds ic (EDots w) (x :: rest) []
| YE_littilde w rest u v :              (* the remaining text is w v with v not empty: binds v *)
    rest <> [] -> l_of (join_with " " rest) = u ++ v ->
    List.length u = List.length (l_of w) -> word_eq ic w (s_of u) = true -> v <> [] ->
    yend_binds ic (ELitTilde w) rest [s_of v]
| YE_rest a plus rest u v :             (* the remaining text starts with a word of L(a) (and goes
                                           on, for `.+`): binds the whole remaining text *)
    rest <> [] -> l_of (join_with " " rest) = u ++ v -> sre_lang ic a u ->
    (plus = true -> v <> []) ->
    yend_binds ic (ERest a plus) rest [join_with " " rest]
| YE_endlit w x :                       (* w is the last word of the row *)
    word_eq ic w x = true -> yend_binds ic (EEndLit w) [x] []
| YE_endre r x :                        (* a word of L(r) is the last word of the row: bound *)
    sre_lang ic r (l_of x) -> yend_binds ic (EEndRe r) [x] [x].

Inductive ymatches_spec (ic : bool) (e : yend) : list ytok -> list string -> list string -> Prop :=
| YS_end rest key :
    yend_binds ic e rest key -> ymatches_spec ic e [] rest key
| YS_tok t p x ws b key :               (* one token, one word *)
    ytok_binds ic t x b -> ymatches_spec ic e p ws key ->
    ymatches_spec ic e (t :: p) (x :: ws) (b ++ key).

(* rows on which the meaning is exact: a PatternX row without its two peculiarities, or a
   row with new forms (accepted by wf_ypat only when they cannot show) *)
Definition yquirk_free (p : ypat) : bool :=
  match yproj p with Some xp => quirk_free xp | None => true end.

(* the relation on a whole pattern: PatternX rows keep the relation of Spec/P_C07X *)
Definition ypat_spec (ic : bool) (p : ypat) (ws key : list string) : Prop :=
  match yproj p with
  | Some xp => xp <> [] /\ xmatches_spec ic xp ws key
  | None => ymatches_spec ic (y_end p) (y_toks p) ws key
  end.

(* boolean checker used on implementation outputs (PatternYProofs.yref_match_iff) *)
Definition yref_match (p : ypat) (ic : bool) (row : string) : option (list string) :=
  match yproj p with
  | Some xp => xref_match xp ic row
  | None => ymatch_toks ic (y_end p) (y_toks p) (words row)
  end.

(* ------------------------------------------------------------------------------ *)
(* Removal command: negation word, then the rule's words with the key substituted; a
   glued placeholder keeps its suffix, `w~` keeps w, the words `w...` and `w$` keep their
   source text (as the code does)                                                  *)

Definition yend_subst (e : yend) (key : list string) : option (list string) :=
  match e with
  | EPlain => Some []
  | EDots w => Some [(w ++ "...")%string]
  | EEndLit w => Some [(w ++ "$")%string]
  | ETilde | ERest _ _ | EEndRe _ => match key with k :: _ => Some [k] | [] => None end
  | ELitTilde w => match key with k :: _ => Some [(w ++ k)%string] | [] => None end
  end.

Fixpoint ysubst_key (e : yend) (p : list ytok) (key : list string) : option (list string) :=
  match p with
  | [] => yend_subst e key
  | YX (XLit w) :: p' => option_map (cons w) (ysubst_key e p' key)
  | YX (XLitRe r) :: p' => option_map (cons (print_sre r)) (ysubst_key e p' key)
  | YX (XTildeRe _) :: p' => ysubst_key e p' key
  | YGlue _ suf :: p' =>
    match key with
    | k :: ks => option_map (cons (k ++ suf)%string) (ysubst_key e p' ks)
    | [] => None
    end
  | YX _ :: p' =>
    match key with
    | k :: ks => option_map (cons k) (ysubst_key e p' ks)
    | [] => None
    end
  end.

Definition yref_reverse (p : ypat) (prefix : string) (key : list string) : option string :=
  match yproj p with
  | Some xp => xref_reverse xp prefix key
  | None =>
    let q := reverse_ypat p prefix in
    option_map (join_with " ") (ysubst_key (y_end q) (y_toks q) key)
  end.

(* ------------------------------------------------------------------------------ *)
(* The predicate evaluated on implementation outputs (records of Spec/P_C07.v)      *)

Definition model_C07Y (x : c07_in) : c07_out :=
  let tmpl := make_reverse (ci_rule x) (ci_prefix x) in
  let ic := rule_ic (ci_rule x) (ci_ic x) in
  let m := match yrule_pat (ci_rule x) with
           | Some p => ypmatch p ic
           | None => fun _ => None
           end in
  C07Out tmpl (format_template_opt tmpl (ci_fkey x))
    (map (fun row => match m row with
                     | Some key => Some (key, format_template_opt tmpl key)
                     | None => None
                     end) (ci_rows x)).

Definition yspec_row (p : ypat) (ic : bool) (prefix : string) (row : string)
  : option (list string * option string) :=
  match yref_match p ic row with
  | Some key => Some (key, yref_reverse p prefix key)
  | None => None
  end.

Definition wf_C07Y (x : c07_in) : bool :=
  match yrule_pat (ci_rule x) with
  | Some p => match yproj p with
              | Some xp => lead_ok (reverse_xpat xp (ci_prefix x))
              | None => true
              end
  | None => false
  end
  && forallb wf_row (ci_rows x) && plain_word (ci_prefix x).

(* matching part: which rows match, with which key *)
Definition P_C07Y_match (x : c07_in) (y : c07_out) : bool :=
  match yrule_pat (ci_rule x) with
  | None => false
  | Some p =>
    let ic := rule_ic (ci_rule x) (ci_ic x) in
    list_eqb (opt_eqb list_str_eqb) (map (option_map fst) (co_rows y))
             (map (yref_match p ic) (ci_rows x))
  end.

(* the whole property: matching and removal commands *)
Definition P_C07Y (x : c07_in) (y : c07_out) : bool :=
  match yrule_pat (ci_rule x) with
  | None => false
  | Some p =>
    let ic := rule_ic (ci_rule x) (ci_ic x) in
    opt_eqb String.eqb (co_ffmt y) (yref_reverse p (ci_prefix x) (ci_fkey x))
    && list_eqb row_out_eqb (co_rows y) (map (yspec_row p ic (ci_prefix x)) (ci_rows x))
  end.

Definition qf_C07Y (x : c07_in) : bool :=
  match yrule_pat (ci_rule x) with Some p => yquirk_free p | None => false end.

(* diagnostics: (fallback-key command agrees?, implementation = model?, matching part agrees?) *)
Definition diag_C07Y (x : c07_in) (y : c07_out) : bool * (bool * bool) :=
  match yrule_pat (ci_rule x) with
  | None => (false, (false, false))
  | Some p =>
    (opt_eqb String.eqb (co_ffmt y) (yref_reverse p (ci_prefix x) (ci_fkey x)),
     (out_eqb (model_C07Y x) y, P_C07Y_match x y))
  end.
