(* C07 at the rule-TEXT entry points (Model/PatternT.v): one rule line, written with
   irregular spacing (runs of blanks, tabs, alignment blanks before the %params), compiled
   by compile_patching_text, compile_acl_text and compile_ordering_text.
   What the rule language says: only the WORDS of the line count.  The patching regexp /
   key / removal command, and the direct and reverse forms kept by the ACL and the ordering
   compilers are those of the pattern made of the words of the line. *)
From Coq Require Import List String Ascii Bool Arith.
From Annet Require Import Base.Str Model.Pattern Model.PatternX Model.PatternT Spec.P_C07 Spec.P_C07X.
Import ListNotations.
Open Scope string_scope.
Open Scope list_scope.

(* one case: the line as given to the patching, the ACL and the ordering compiler (same
   words, each with its own %params suffix), the vendor's negation word, the ignore_case
   parameter of the patching line, a fallback key, configuration rows *)
Record c07t_in := C07TIn {
  ct_raw_p : string; ct_raw_a : string; ct_raw_o : string;
  ct_prefix : string; ct_ic : bool; ct_fkey : list string; ct_rows : list string }.

Definition mrows := list (option (list string)).

(* observed: the patching rule (template, formatted commands, groups per row); the id under
   which the ACL compiler stores the rule (= its row); per row the groups of the direct and
   the reverse regexp of the ACL rule and of the ordering rule *)
Record c07t_out := C07TOut {
  cto_patch : c07_out; cto_acl_id : string;
  cto_acl_d : mrows; cto_acl_r : mrows; cto_ord_d : mrows; cto_ord_r : mrows }.

Definition mrows_eqb (a b : mrows) : bool := list_eqb (opt_eqb list_str_eqb) a b.

Definition t_inner (x : c07t_in) : c07_in :=
  C07In (raw_row (ct_raw_p x)) (ct_prefix x) (ct_ic x) (ct_fkey x) (ct_rows x).

(* what the model computes *)
Definition model_C07T (x : c07t_in) : c07t_out :=
  C07TOut (model_C07X (t_inner x)) (raw_row (ct_raw_a x))
          (map (text_direct (ct_raw_a x) false) (ct_rows x))
          (map (text_reverse (ct_raw_a x) (ct_prefix x)) (ct_rows x))
          (map (text_direct (ct_raw_o x) false) (ct_rows x))
          (map (text_reverse (ct_raw_o x) (ct_prefix x)) (ct_rows x)).

Definition outT_eqb (a b : c07t_out) : bool :=
  out_eqb (cto_patch a) (cto_patch b) && String.eqb (cto_acl_id a) (cto_acl_id b)
  && mrows_eqb (cto_acl_d a) (cto_acl_d b) && mrows_eqb (cto_acl_r a) (cto_acl_r b)
  && mrows_eqb (cto_ord_d a) (cto_ord_d b) && mrows_eqb (cto_ord_r a) (cto_ord_r b).

(* the words of a rule line, %params cut off, joined by single blanks *)
Definition line_words (raw : string) : list string := words (cut_params raw).
Definition line_text (raw : string) : string := join_with " " (line_words raw).

(* what the rule language says *)
Definition P_C07T (x : c07t_in) (y : c07t_out) : bool :=
  let rule := line_text (ct_raw_p x) in
  match xrule_pat rule with
  | None => false
  | Some p =>
    let q := reverse_xpat p (ct_prefix x) in
    P_C07X (C07In rule (ct_prefix x) (ct_ic x) (ct_fkey x) (ct_rows x)) (cto_patch y)
    && String.eqb (cto_acl_id y) (line_text (ct_raw_a x))
    && mrows_eqb (cto_acl_d y) (map (xref_match p false) (ct_rows x))
    && mrows_eqb (cto_acl_r y) (map (xref_match q false) (ct_rows x))
    && mrows_eqb (cto_ord_d y) (map (xref_match p false) (ct_rows x))
    && mrows_eqb (cto_ord_r y) (map (xref_match q false) (ct_rows x))
  end.

Definition xtok_eqb (a b : xtok) : bool :=
  match a, b with
  | XLit x, XLit y => String.eqb x y
  | XStar, XStar | XTilde, XTilde => true
  | XStarRe r, XStarRe q | XLitRe r, XLitRe q | XTildeRe r, XTildeRe q => sre_eqb r q
  | _, _ => false
  end.
Definition xpat_eqb (a b : xpat) : bool := list_eqb xtok_eqb a b.

(* domain: the three lines have the same words; the words form a pattern p of the extended
   language, written without the inline flag, on which the two peculiarities of
   compile_row_regexp do not show; the same holds for the negated pattern, whose text is
   again in the language *)
Definition wf_C07T (x : c07t_in) : bool :=
  let rule := line_text (ct_raw_p x) in
  let rrule := reverse_row rule (ct_prefix x) in
  match xrule_pat rule with
  | None => false
  | Some p =>
    let q := reverse_xpat p (ct_prefix x) in
    lead_ok q && quirk_free p && quirk_free q
    && negb (rule_has_ic rule) && negb (rule_has_ic rrule)
    && match xrule_pat rrule with Some q' => xpat_eqb q' q | None => false end
    && list_str_eqb (line_words (ct_raw_a x)) (line_words (ct_raw_p x))
    && list_str_eqb (line_words (ct_raw_o x)) (line_words (ct_raw_p x))
    && forallb wf_row (ct_rows x) && plain_word (ct_prefix x)
  end.

(* diagnostics: (patching part holds?, ACL id, ACL direct, ACL reverse, ordering direct, ordering reverse) *)
Definition diag_C07T (x : c07t_in) (y : c07t_out) : bool * (bool * (bool * (bool * (bool * bool)))) :=
  let rule := line_text (ct_raw_p x) in
  match xrule_pat rule with
  | None => (false, (false, (false, (false, (false, false)))))
  | Some p =>
    let q := reverse_xpat p (ct_prefix x) in
    (P_C07X (C07In rule (ct_prefix x) (ct_ic x) (ct_fkey x) (ct_rows x)) (cto_patch y),
     (String.eqb (cto_acl_id y) (line_text (ct_raw_a x)),
      (mrows_eqb (cto_acl_d y) (map (xref_match p false) (ct_rows x)),
       (mrows_eqb (cto_acl_r y) (map (xref_match q false) (ct_rows x)),
        (mrows_eqb (cto_ord_d y) (map (xref_match p false) (ct_rows x)),
         mrows_eqb (cto_ord_r y) (map (xref_match q false) (ct_rows x)))))))
  end.
