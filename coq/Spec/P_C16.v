(* C16: file mode and device mode compute the same diff and the same patch. *)
From Coq Require Import List String Ascii Bool Arith ZArith.
From Annet Require Import Base.Str Base.Tree Model.Pattern Model.Rulebook Model.Diff Model.Order
     Model.Patch Model.Blocks Model.Pipeline Spec.PipelineCase Gen.Src_api.
Import ListNotations.
Open Scope string_scope.
Open Scope list_scope.

(* the data flow of both front ends is read from annet/api/__init__.py on every run
   (Gen/Src_api.v): which diff is returned, and which diff the patch is built from *)
Fixpoint eval_d (e : dexpr) (d : list dnode) : list dnode :=
  match e with
  | EMakeDiff => d
  | EStrip e' => strip_unchanged (eval_d e' d)
  end.

Definition front_end (de pe : dexpr) (v : vendor) (rs : rset) (ordering : list orule) (old new : forest)
  : list dnode * presult :=
  let d := p_make_diff rs old new in
  (eval_d de d, p_make_patch v ordering (make_pre (eval_d pe d))).

Definition device_mode := front_end device_diff device_patch_from.
Definition file_mode := front_end file_diff file_patch_from.

Definition presult_eqb (a b : presult) : bool :=
  match a, b with
  | POk x, POk y => ptree_eqb x y
  | PErr, PErr => true
  | _, _ => false
  end.

(* observed outputs of the two real front ends on the same (hw, old, new) *)
Record obs16 := Obs16 {
  o_dev_diff : list dnode; o_dev_patch : option ptree; o_dev_paths : list (list string);
  o_file_diff : list dnode; o_file_patch : option ptree; o_file_paths : list (list string)
}.

Definition opt_ptree_eqb (a b : option ptree) : bool :=
  match a, b with
  | Some x, Some y => ptree_eqb x y
  | None, None => true
  | _, _ => false
  end.

Definition P_C16 (o : obs16) : bool :=
  opt_ptree_eqb (o_dev_patch o) (o_file_patch o) &&
  paths_eqb (o_dev_paths o) (o_file_paths o) &&
  (match o_dev_patch o with None => true | Some _ => diff_eqb (o_dev_diff o) (o_file_diff o) end).

(* does the model's patch depend on stripping before make_pre? *)
Definition strip_invariant (v : vendor) (rs : rset) (ordering : list orule) (old new : forest) : bool :=
  let d := p_make_diff rs old new in
  presult_eqb (p_make_patch v ordering (make_pre (strip_unchanged d))) (p_make_patch v ordering (make_pre d)).
