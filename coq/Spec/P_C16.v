(* C16: file mode and device mode compute the same diff and the same patch. *)
From Coq Require Import List String Ascii Bool Arith ZArith.
From Annet Require Import Base.Str Base.Tree Model.Pattern Model.Rulebook Model.Diff Model.Order
     Model.Patch Model.Blocks Model.Pipeline Spec.PipelineCase Gen.Src_api.
From Annet Require Export Spec.P_C16o.
Import ListNotations.
Open Scope string_scope.
Open Scope list_scope.

(* the data flow of both front ends is read from annet/api/__init__.py on every run
   (Gen/Src_api.v): which diff is returned, and which diff the patch is built from *)
Fixpoint eval_d (e : dexpr) (d : list dnode) : list dnode :=
  match e with
  | EMakeDiff => d
  | EStrip e' => strip_unchanged (eval_d e' d)
  end.

Definition front_end (de pe : dexpr) (v : vendor) (rs : rset) (ordering : list orule) (old new : forest)
  : list dnode * presult :=
  let d := p_make_diff rs old new in
  (eval_d de d, p_make_patch v ordering (make_pre (eval_d pe d))).

Definition device_mode := front_end device_diff device_patch_from.
Definition file_mode := front_end file_diff file_patch_from.

(* does the model's patch depend on stripping before make_pre? *)
Definition strip_invariant (v : vendor) (rs : rset) (ordering : list orule) (old new : forest) : bool :=
  let d := p_make_diff rs old new in
  presult_eqb (p_make_patch v ordering (make_pre (strip_unchanged d))) (p_make_patch v ordering (make_pre d)).
