(* C15, interface clause: "the peer ... sits on the interface (port, LAG, sub-interface or SVI) the
   rule selected", and the whole-executor correspondence.

   Part 1 is the declarative reference: which interface a DTO selects, and when the selection is
   refused.  Part 2 evaluates it on outputs of the real MeshExecutor.execute_for for decision-table
   cases (one rule, no keyed merge, so the DTO of every session is what the handler wrote).
   Part 3 compares the model Model/MeshExec.execute_for with the real one on generated registries
   (handler, matcher and connection tables printed from the case). *)
From Coq Require Import List String Ascii Bool Arith ZArith.
From Annet Require Import Model.Merge Model.Mesh Model.MeshExec Spec.P_C15.
Import ListNotations.
Open Scope string_scope.
Open Scope list_scope.

(* ---- 1. the interface a DTO selects ------------------------------------------------------------ *)

(* a number the handler set (unset and None are "not selected"; 0 is a number) *)
Definition num (f : string) (dto : entries) : option Z := int_of (lookup f dto).
Definition txt (f : string) (dto : entries) : option string :=
  match lookup f dto with Some (VAtom (AStr s)) => Some s | _ => None end.

(* direct rule; base = the (first) port of the session *)
Definition selected_direct (nm : naming) (dto : entries) (base : string) : string :=
  match num "lag" dto, num "subif" dto, num "svi" dto with
  | Some l, Some n, _ => subif_name nm (lag_name nm l) n      (* sub-interface of the LAG *)
  | Some l, None, _ => lag_name nm l                           (* the LAG *)
  | None, Some n, _ => subif_name nm base n                    (* sub-interface of the port, any n >= 0 *)
  | None, None, Some v => svi_name nm v                        (* SVI *)
  | None, None, None => base                                   (* the port *)
  end.

(* refused with ValueError: LAG+SVI, SVI+subif, several links and neither LAG nor SVI *)
Definition refused_direct (dto : entries) (nports : nat) : bool :=
  (is_some (num "lag" dto) && is_some (num "svi" dto)) ||
  (is_some (num "svi" dto) && is_some (num "subif" dto)) ||
  (Nat.ltb 1 nports && negb (is_some (num "lag" dto)) && negb (is_some (num "svi" dto))).

(* indirect rule: sub-interface of `ifname`, SVI, `ifname` itself, or no interface at all *)
Definition selected_indirect (nm : naming) (dto : entries) : option string :=
  match num "subif" dto, num "svi" dto, txt "ifname" dto with
  | Some n, _, i => Some (subif_name nm (str_of_opt i) n)
  | None, Some v, _ => Some (svi_name nm v)
  | None, None, Some "" => None
  | None, None, i => i
  end.

(* refused with ValueError: SVI+subif, LAG, a plain ifname the device does not have *)
Definition refused_indirect (dto : entries) (ifs : list string) : bool :=
  (is_some (num "svi" dto) && is_some (num "subif" dto)) ||
  is_some (num "lag" dto) ||
  match num "subif" dto, num "svi" dto, txt "ifname" dto with
  | None, None, Some i => negb (String.eqb i "") && negb (sin i ifs)
  | _, _, _ => false
  end.

(* virtual rule: always the SVI; refused when the handler gave no svi *)
Definition selected_virtual (nm : naming) (dto : entries) : option string :=
  match num "svi" dto with Some v => Some (svi_name nm v) | None => None end.

(* ---- 2. decision-table cases on the real executor ------------------------------------------------ *)

Inductive skind := KDirect | KIndirect | KVirtual.

(* one session of the device under test: the local ports of its group (connection order), the DTO
   the handler wrote for this device and for the other end, the other end's hostname *)
Record tsess := TSess {
  ts_ports : list string;
  ts_local : entries;
  ts_conn : entries;
  ts_host : string
}.

(* kind of the (single) rule, interfaces the device starts with, its sessions *)
Definition tcase := (skind * list string * list tsess)%type.

(* outcome of execute_for(device): peers in the runner's encoding and the add_addr log *)
Inductive eres :=
| EOk (peers : list entries) (log : list logrec)
| EValueError
| EOther.

Definition ostr_eqb (a b : option string) : bool :=
  match a, b with
  | Some x, Some y => String.eqb x y
  | None, None => true
  | _, _ => false
  end.

Definition logrec_eqb (a b : logrec) : bool :=
  String.eqb (fst (fst a)) (fst (fst b)) && String.eqb (snd (fst a)) (snd (fst b)) && ostr_eqb (snd a) (snd b).

Definition seat := (option string * string * string)%type.   (* interface, peer address, peer hostname *)
Definition seat_eqb (a b : seat) : bool :=
  ostr_eqb (fst (fst a)) (fst (fst b)) && String.eqb (snd (fst a)) (snd (fst b)) && String.eqb (snd a) (snd b).

Definition count {A : Type} (eqb : A -> A -> bool) (x : A) (l : list A) : nat :=
  List.length (filter (eqb x) l).
Definition mset_eqb {A : Type} (eqb : A -> A -> bool) (a b : list A) : bool :=
  Nat.eqb (List.length a) (List.length b) && forallb (fun x => Nat.eqb (count eqb x a) (count eqb x b)) a.

Definition seat_of_peer (p : entries) : seat :=
  (match lookup "interface" p with Some (VAtom (AStr s)) => Some s | _ => None end,
   get_str "addr" p, get_str "hostname" p).

(* where the rule puts one session: (refused?, interface) *)
Definition place (nm : naming) (k : skind) (ifs : list string) (s : tsess) : bool * option string :=
  match k with
  | KDirect => (refused_direct (ts_local s) (List.length (ts_ports s)),
                Some (selected_direct nm (ts_local s) (hd "" (ts_ports s))))
  | KIndirect => (refused_indirect (ts_local s) ifs, selected_indirect nm (ts_local s))
  | KVirtual => (negb (is_some (num "svi" (ts_local s))), selected_virtual nm (ts_local s))
  end.

(* the local address is assigned on the selected interface (direct, indirect with an interface);
   a virtual session assigns none *)
Definition expected_log (k : skind) (i : option string) (s : tsess) : list logrec :=
  match k, i with
  | KVirtual, _ => []
  | _, None => []
  | _, Some n => [(n, get_str "addr" (ts_local s), txt "vrf" (ts_local s))]
  end.

Definition P_C15_iface (nm : naming) (x : tcase) (y : eres) : bool :=
  let '(k, ifs, ss) := x in
  let placed := map (place nm k ifs) ss in
  if existsb fst placed then match y with EValueError => true | _ => false end
  else
    match y with
    | EOk peers log =>
      mset_eqb seat_eqb (map seat_of_peer peers)
               (map (fun s => (snd (place nm k ifs s), ip_of (get_str "addr" (ts_conn s)), ts_host s)) ss) &&
      mset_eqb logrec_eqb log (flat_map (fun s => expected_log k (snd (place nm k ifs s)) s) ss)
    | _ => false
    end.

(* ---- 3. the whole executor: model vs implementation ------------------------------------------------ *)

Definition hkey := (nat * string * string * list string)%type.   (* rule, left, right, ports of left *)

Record ecase := ECase {
  e_devices : list string;                                        (* storage.resolve_all_fdnds() *)
  e_ports : list (string * list (string * string * string));      (* device -> (port, neighbour, its port) *)
  e_drules : list rule;
  e_irules : list rule;
  e_vrules : list vrule;
  e_match : list (nat * string * string);                         (* PairMatcher.match_pair is not None *)
  e_vmatch : list (nat * string);
  e_table : list (hkey * (entries * entries * entries));          (* what each handler call sets *)
  e_vtable : list ((nat * string * Z) * (entries * entries * entries));
  e_opt_fields : list string
}.

Definition ports_of (c : ecase) (d : string) : list (string * string * string) :=
  match lookup d (e_ports c) with Some l => l | None => [] end.

Definition case_connections (c : ecase) (x y : string) : list (string * string) :=
  flat_map (fun t => if String.eqb (snd (fst t)) y then [(fst (fst t), snd t)] else []) (ports_of c x).

Fixpoint dedup (l : list string) (seen : list string) : list string :=
  match l with
  | [] => []
  | x :: r => if sin x seen then dedup r seen else x :: dedup r (x :: seen)
  end.

Definition case_neighbors (c : ecase) (d : string) : list string :=
  dedup (map (fun t => snd (fst t)) (ports_of c d)) [].

Definition same_set (a b : list string) : bool :=
  Nat.eqb (List.length a) (List.length b) && forallb (fun x => sin x b) a && forallb (fun x => sin x a) b.

Definition case_matches (c : ecase) (id : nat) (l r : string) : bool :=
  existsb (fun t => Nat.eqb (fst (fst t)) id && String.eqb (snd (fst t)) l && String.eqb (snd t) r) (e_match c).

Definition case_vmatches (c : ecase) (id : nat) (d : string) : bool :=
  existsb (fun t => Nat.eqb (fst t) id && String.eqb (snd t) d) (e_vmatch c).

Definition nothing : entries * entries * entries := ([], [], []).

Definition case_handler (c : ecase) (id : nat) (l r : string) (ports : list string) : entries * entries * entries :=
  match find (fun e => let '(i, l', r', p') := fst e in
                       Nat.eqb i id && String.eqb l' l && String.eqb r' r && same_set p' ports) (e_table c) with
  | Some e => snd e
  | None => nothing
  end.

Definition case_vhandler (c : ecase) (id : nat) (d : string) (n : Z) : entries * entries * entries :=
  match find (fun e => let '(i, d', n') := fst e in Nat.eqb i id && String.eqb d' d && Z.eqb n' n) (e_vtable c) with
  | Some e => snd e
  | None => nothing
  end.

Definition case_dev0 (c : ecase) (d : string) : dev :=
  Dev ("lo0" :: map (fun t => fst (fst t)) (ports_of c d)) [].

Section Run.
  Variable sch_direct sch_indirect sch_vlocal sch_vpeer sch_pair : schema.

  Definition model_exec (c : ecase) (d : string) : eres :=
    match execute_for (case_matches c) (case_handler c) (case_matches c) (case_handler c)
                      (case_vmatches c) (case_vhandler c) (case_connections c)
                      sch_direct sch_indirect sch_vlocal sch_vpeer sch_pair (e_opt_fields c) stub_naming
                      (e_drules c) (e_irules c) (e_vrules c) d (case_neighbors c d) (e_devices c) (case_dev0 c d) with
    | inl FValue => EValueError
    | inl FOther => EOther
    | inr (peers, d') => EOk peers (d_log d')
    end.

  Definition eres_same (a b : eres) : bool :=
    match a, b with
    | EOk p l, EOk q m => peers_same p q && mset_eqb logrec_eqb l m
    | EValueError, EValueError => true
    | EOther, EOther => true
    | _, _ => false
    end.

  (* observed: per device the outcome for the registration order of the case *)
  Definition agree_exec (c : ecase) (y : list (string * eres)) : bool :=
    forallb (fun o => eres_same (model_exec c (fst o)) (snd o)) y.
End Run.

(* ---- sessions do not leak between pairs, on real outputs -------------------------------------------- *)

(* Every option / policy a peer of device `d` carries was set -- on d's own side or on the session
   object -- by a handler call for the pair (d, peer's hostname) whose other end has the peer's address
   (sessions are keyed by it); every family / vrf / group / description was set on the other end's side
   or on the session by such a call.  For a virtual peer: by the virtual call that created it. *)
Definition calls_for_pair (c : ecase) (a b paddr : string) (own_side : bool) : list string :=
  flat_map (fun e => let '(_, l, r, _) := fst e in
                     let '(el, er, es) := snd e in
                     ((if String.eqb l a && String.eqb r b && String.eqb (ip_of (get_str "addr" er)) paddr
                       then keys (if own_side then el else er) ++ keys es else []) ++
                      (if String.eqb l b && String.eqb r a && String.eqb (ip_of (get_str "addr" el)) paddr
                       then keys (if own_side then er else el) ++ keys es else []))%list) (e_table c).

Definition calls_virtual (c : ecase) (a paddr : string) (own_side : bool) : list string :=
  flat_map (fun e => let '(_, d, _) := fst e in
                     let '(el, ev, es) := snd e in
                     if String.eqb d a && String.eqb (ip_of (get_str "addr" ev)) paddr
                     then (keys (if own_side then el else ev) ++ keys es)%list else []) (e_vtable c).

(* the DTO attribute a Peer field is read from *)
Definition src_of_peer_field (f : string) : string :=
  if String.eqb f "vrf_name" then "vrf" else if String.eqb f "local_as" then "asnum" else f.

Definition is_default (f : string) (v : value) : bool :=
  match v with
  | VAtom (AStr "") => true
  | VAtom ANone => true
  | VSet [] => true
  | _ => false
  end.

(* models_converter.to_bgp_peer: options, policies and update_source are read from the device's own DTO,
   everything else from the other end's *)
Definition own_side_field (f : string) : bool :=
  String.eqb f "options" || String.eqb f "import_policy" || String.eqb f "export_policy" ||
  String.eqb f "update_source".

Definition peer_no_leak (c : ecase) (d : string) (p : entries) : bool :=
  let host := get_str "hostname" p in
  let paddr := get_str "addr" p in
  let allowed own := if String.eqb host "" then calls_virtual c d paddr own else calls_for_pair c d host paddr own in
  forallb (fun fv =>
    let f := fst fv in
    if String.eqb f "options" then
      match snd fv with
      | VObj o => forallb (fun gv => sin (src_of_peer_field (fst gv)) (allowed true)) o
      | _ => false
      end
    else if String.eqb f "addr" || String.eqb f "interface" || String.eqb f "remote_as" || String.eqb f "hostname"
    then true
    else is_default f (snd fv) || sin (src_of_peer_field f) (allowed (own_side_field f))) p.

Definition P_C15_no_leak (c : ecase) (y : list (string * eres)) : bool :=
  forallb (fun o => match snd o with
                    | EOk peers _ => forallb (peer_no_leak c (fst o)) peers
                    | _ => true
                    end) y.
